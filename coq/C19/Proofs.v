(* C19: lemmas and proofs. *)
From ASV Require Import Base Loc.
From ASV.C19 Require Import Model.
From Coq Require Import ZifyBool Sorting.Permutation.

(* ---------- well-formed areas ---------- *)
(* one part [s, e) with s <= e, or two forward parts [s, m) + [0, e) with 0 < s (the shape every
   CDSCollection constructor enforces for an origin-crossing collection) *)
Definition wf_feat (f : feat) : Prop :=
  match floc f with
  | [p] => ps p <= pe p
  | [p; q] => pst p = 1 /\ pst q = 1 /\ ps q = 0 /\ 0 < ps p /\ ps p <= pe p /\ 0 <= pe q
  | _ => False
  end.

Lemma single_facts f p : floc f = [p] ->
  fcrosses f = false /\ fstart f = ps p /\ fend f = pe p.
Proof.
  intros H. unfold fcrosses, fstart, fend, loc_fstart, loc_fend, bridges, lstrand, first_part, last_part, last_opt.
  rewrite H. cbn [is_compound forallb rev app].
  destruct (pst p =? -1); auto.
Qed.

Lemma double_facts f p q : floc f = [p; q] -> pst p = 1 -> pst q = 1 -> ps q = 0 -> 0 < ps p ->
  fcrosses f = true /\ fstart f = ps p /\ fend f = pe q /\ lend (floc f) = Z.max (pe p) (pe q).
Proof.
  intros H Hp Hq Hs Hpos.
  unfold fcrosses, fstart, fend, loc_fstart, loc_fend, bridges, lstrand, first_part, last_part, last_opt, lend, lmax.
  rewrite H. cbn [is_compound forallb rev app map fold_left check_order].
  rewrite Hp, Hq. cbn [Z.eqb Pos.eqb andb orb].
  rewrite Hs. repeat split.
  apply orb_true_iff. left. lia.
Qed.

Lemma wf_noncrossing_single f : wf_feat f -> fcrosses f = false -> exists p, floc f = [p] /\ ps p <= pe p.
Proof.
  unfold wf_feat. intros Hwf Hc.
  destruct (floc f) as [|p [|q [|x l]]] eqn:E; try contradiction.
  - exists p. auto.
  - destruct Hwf as (Hp & Hq & Hs & Hpos & _).
    destruct (double_facts f p q E Hp Hq Hs Hpos) as (Hcr & _). congruence.
Qed.

(* ---------- overlap is symmetric ---------- *)
Lemma part_overlap_comm a b : part_overlap a b = part_overlap b a.
Proof.
  unfold part_overlap.
  destruct (in_part (ps a) b), (in_part (pe a - 1) b), (in_part (ps b) a), (in_part (pe b - 1) a); reflexivity.
Qed.

Lemma overlap_true_iff a b :
  overlap a b = true <-> exists p q, In p a /\ In q b /\ part_overlap p q = true.
Proof.
  unfold overlap. rewrite existsb_exists. split.
  - intros [p [Hp H]]. rewrite existsb_exists in H. destruct H as [q [Hq H]]. exists p, q. auto.
  - intros [p [q [Hp [Hq H]]]]. exists p. split; [assumption|]. rewrite existsb_exists. exists q. auto.
Qed.

Lemma overlap_comm a b : overlap a b = overlap b a.
Proof.
  apply eq_true_iff_eq. rewrite !overlap_true_iff. split.
  - intros [p [q [Hp [Hq H]]]]. exists q, p. rewrite part_overlap_comm. auto.
  - intros [p [q [Hp [Hq H]]]]. exists q, p. rewrite part_overlap_comm. auto.
Qed.

Lemma single_overlap_false p q : ps p <= pe p -> ps q <= pe q -> pe p < ps q -> overlap [p] [q] = false.
Proof.
  intros H1 H2 H3. unfold overlap, part_overlap, in_part. cbn [existsb]. lia.
Qed.

(* ---------- rows ---------- *)
Definition contents_of (rows : list row) : list feat := flat_map r_contents rows.

(* x was put into the row before y: they do not overlap (either way round) *)
Definition apart (x y : feat) : Prop := overlap (floc x) (floc y) = false.

Lemma apart_sym x y : apart x y -> apart y x.
Proof. unfold apart. rewrite overlap_comm. auto. Qed.

Lemma FOP_snoc {A} (R : A -> A -> Prop) l a :
  ForallOrdPairs R l -> Forall (fun x => R x a) l -> ForallOrdPairs R (l ++ [a]).
Proof.
  induction l as [|x l IH]; intros H1 H2; cbn [app].
  - constructor; constructor.
  - inversion H1 as [|x' l' Hx Hl]; subst. inversion H2 as [|x'' l'' Hxa Hla]; subst.
    constructor.
    + apply Forall_app. split; [assumption|]. constructor; [assumption|constructor].
    + apply IH; assumption.
Qed.

Definition row_open (r : row) : Prop :=
  Forall (fun c => fcrosses c = false /\ fend c + 1 <= r_start r) (r_contents r).
Definition row_closed (r : row) : Prop :=
  r_contents r <> [] /\ 0 <= r_end r /\ r_end r < r_start r.
Definition row_inv (r : row) : Prop :=
  ForallOrdPairs apart (r_contents r) /\ Forall wf_feat (r_contents r) /\ (row_open r \/ row_closed r).

Lemma row_add_contents r a r' : row_add r a = Ok r' -> r_contents r' = r_contents r ++ [a].
Proof.
  unfold row_add. destruct (negb (can_fit r a)); [discriminate|].
  destruct (fcrosses a); intros H; inversion H; reflexivity.
Qed.

Lemma row_add_ok r a : can_fit r a = true -> exists r', row_add r a = Ok r'.
Proof.
  intros H. unfold row_add. rewrite H. cbn [negb]. destruct (fcrosses a); eexists; reflexivity.
Qed.

Lemma row_add_inv r a r' :
  row_inv r -> wf_feat a -> row_add r a = Ok r' -> row_inv r'.
Proof.
  intros (Hnov & Hwfs & Hshape) Hwf Hadd.
  pose proof (row_add_contents r a r' Hadd) as Hcont.
  unfold row_add in Hadd.
  destruct (can_fit r a) eqn:Hfit; cbn [negb] in Hadd; [|discriminate].
  assert (Hwfs' : Forall wf_feat (r_contents r')).
  { rewrite Hcont. apply Forall_app. split; [assumption|]. constructor; [assumption|constructor]. }
  destruct (fcrosses a) eqn:Hcr.
  - (* an origin-crossing area closes the row *)
    inversion Hadd; subst r'; clear Hadd. cbn [r_contents r_start r_end] in *.
    assert (Hshape_a : exists p q, floc a = [p; q] /\ pst p = 1 /\ pst q = 1 /\ ps q = 0 /\ 0 < ps p
                                   /\ ps p <= pe p /\ 0 <= pe q).
    { unfold wf_feat in Hwf. destruct (floc a) as [|p [|q [|x l]]] eqn:E; try contradiction.
      - destruct (single_facts a p E) as (Hc & _). congruence.
      - exists p, q. intuition. }
    destruct Hshape_a as (p & q & E & Hp & Hq & Hs & Hpos & Hpe & Hqe).
    destruct (double_facts a p q E Hp Hq Hs Hpos) as (_ & Hst & Hen & Hlend).
    split; [|split; [assumption|]].
    + unfold can_fit in Hfit. rewrite Hcr in Hfit.
      destruct (r_contents r) as [|c cs] eqn:Ec.
      * cbn [app]. constructor; constructor.
      * apply FOP_snoc; [assumption|].
        destruct (negb (r_end r =? -1)); [discriminate|].
        apply negb_true_iff in Hfit.
        apply Forall_forall. intros x Hx. apply apart_sym. unfold apart.
        destruct (overlap (floc a) (floc x)) eqn:Ho; [|reflexivity].
        assert (existsb (fun ex => overlap (floc a) (floc ex)) (c :: cs) = true) as Hex.
        { apply existsb_exists. exists x. auto. }
        congruence.
    + right. unfold row_closed. cbn [r_contents r_start r_end].
      split; [destruct (r_contents r); discriminate|]. rewrite Hst, Hlend. lia.
  - (* an ordinary area *)
    inversion Hadd; subst r'; clear Hadd. cbn [r_contents r_start r_end] in *.
    destruct (wf_noncrossing_single a Hwf Hcr) as (p & E & Hpe).
    destruct (single_facts a p E) as (_ & Hst & Hen).
    unfold can_fit in Hfit. rewrite Hcr in Hfit.
    destruct (r_contents r) as [|c cs] eqn:Ec.
    + split; [cbn [app]; constructor; constructor|]. split; [assumption|].
      left. unfold row_open. cbn [r_contents r_start app]. constructor; [|constructor]. split; [assumption|lia].
    + destruct Hshape as [Hopen|Hclosed].
      * assert (Hall : Forall (fun x => apart x a) (c :: cs)).
        { unfold row_open in Hopen. rewrite Ec in Hopen.
          apply Forall_forall. intros x Hx.
          rewrite Forall_forall in Hopen, Hwfs. destruct (Hopen x Hx) as (Hxc & Hxe).
          destruct (wf_noncrossing_single x (Hwfs x Hx) Hxc) as (xp & Ex & Hxpe).
          destruct (single_facts x xp Ex) as (_ & _ & Hxen).
          unfold apart. rewrite Ex, E. apply single_overlap_false; lia. }
        split; [apply FOP_snoc; assumption|]. split; [assumption|].
        left. unfold row_open in *. cbn [r_contents r_start]. rewrite Ec in Hopen.
        apply Forall_app. split.
        -- eapply Forall_impl; [|exact Hopen]. cbn beta. intros x (Hx1 & Hx2). split; [assumption|lia].
        -- constructor; [|constructor]. split; [assumption|lia].
      * (* a closed row accepts nothing *)
        exfalso. destruct Hclosed as (_ & H0 & Hlt). lia.
Qed.

Lemma row_inv_init s e : row_inv (mkRow s e []).
Proof.
  split; [constructor|]. split; [constructor|]. left. unfold row_open. cbn [r_contents]. constructor.
Qed.

Lemma place_inv rows : forall a rows',
  Forall row_inv rows -> wf_feat a -> place rows a = Ok rows' -> Forall row_inv rows'.
Proof.
  induction rows as [|r rest IH]; intros a rows' Hinv Hwf H; cbn [place] in H.
  - destruct (row_add (mkRow 0 (-1) []) a) as [r'|k] eqn:E; cbn [bind] in H; [|discriminate].
    inversion H; subst. constructor; [|constructor].
    eapply row_add_inv; [apply row_inv_init|exact Hwf|exact E].
  - inversion Hinv as [|r0 rest0 Hr Hrest]; subst.
    destruct (can_fit r a).
    + destruct (row_add r a) as [r'|k] eqn:E; cbn [bind] in H; [|discriminate].
      inversion H; subst. constructor; [|assumption]. eapply row_add_inv; eauto.
    + destruct (place rest a) as [rest'|k] eqn:E; cbn [bind] in H; [|discriminate].
      inversion H; subst. constructor; [assumption|]. eapply IH; eauto.
Qed.

Lemma pack_go_inv areas : forall rows rows',
  Forall row_inv rows -> Forall wf_feat areas -> pack_go rows areas = Ok rows' -> Forall row_inv rows'.
Proof.
  induction areas as [|a more IH]; intros rows rows' Hinv Hwf H; cbn [pack_go] in H.
  - inversion H; subst. assumption.
  - inversion Hwf as [|a0 m0 Ha Hm]; subst.
    destruct (place rows a) as [rows1|k] eqn:E; cbn [bind] in H; [|discriminate].
    eapply IH; [eapply place_inv; eauto|assumption|exact H].
Qed.

(* no two areas of a row overlap, for any order of the input and any length *)
Lemma pack_no_overlap areas len rows :
  Forall wf_feat areas -> pack areas len = Ok rows ->
  Forall (fun r => ForallOrdPairs (fun x y => overlap (floc x) (floc y) = false /\
                                               overlap (floc y) (floc x) = false) (r_contents r)) rows.
Proof.
  intros Hwf H. unfold pack in H.
  assert (Hinv : Forall row_inv rows).
  { destruct areas as [|a more]; [inversion H; constructor|].
    eapply pack_go_inv; [|exact Hwf|exact H]. constructor; [apply row_inv_init|constructor]. }
  eapply Forall_impl; [|exact Hinv]. intros r (Hnov & _).
  clear -Hnov. induction Hnov as [|x l Hx Hl IH]; constructor; [|assumption].
  eapply Forall_impl; [|exact Hx]. intros y Hy. split; [exact Hy|apply apart_sym; exact Hy].
Qed.

(* in terms of bases: two different occupants of a row share no position *)
Lemma apart_no_common_base x y z :
  apart x y -> in_loc z (floc x) = true -> in_loc z (floc y) = true -> False.
Proof.
  unfold apart, in_loc. intros Ha Hx Hy.
  apply existsb_exists in Hx. destruct Hx as [p [Hp Hzp]].
  apply existsb_exists in Hy. destruct Hy as [q [Hq Hzq]].
  assert (overlap (floc x) (floc y) = true) as Ho; [|congruence].
  apply overlap_true_iff. exists p, q. split; [assumption|]. split; [assumption|].
  unfold part_overlap, in_part in *. lia.
Qed.

Lemma pack_no_common_base areas len rows :
  Forall wf_feat areas -> pack areas len = Ok rows ->
  Forall (fun r => ForallOrdPairs (fun x y => forall z, ~ (in_loc z (floc x) = true /\ in_loc z (floc y) = true))
                                  (r_contents r)) rows.
Proof.
  intros Hwf H. pose proof (pack_no_overlap areas len rows Hwf H) as Hno.
  eapply Forall_impl; [|exact Hno]. intros r Hr.
  induction Hr as [|x l Hx Hl IH]; constructor; [|assumption].
  eapply Forall_impl; [|exact Hx]. intros y (Hy & _) z (Hz1 & Hz2).
  eapply apart_no_common_base; eauto.
Qed.

(* ---------- completeness ---------- *)
Lemma place_perm rows : forall a rows',
  place rows a = Ok rows' -> Permutation (contents_of rows') (a :: contents_of rows).
Proof.
  induction rows as [|r rest IH]; intros a rows' H; cbn [place] in H.
  - destruct (row_add (mkRow 0 (-1) []) a) as [r'|k] eqn:E; cbn [bind] in H; [|discriminate].
    inversion H; subst. apply row_add_contents in E. unfold contents_of. cbn [flat_map].
    rewrite E. cbn [r_contents app]. apply Permutation_refl.
  - destruct (can_fit r a).
    + destruct (row_add r a) as [r'|k] eqn:E; cbn [bind] in H; [|discriminate].
      inversion H; subst. apply row_add_contents in E. unfold contents_of. cbn [flat_map]. rewrite E.
      rewrite <- app_assoc. cbn [app].
      apply Permutation_sym. apply Permutation_middle.
    + destruct (place rest a) as [rest'|k] eqn:E; cbn [bind] in H; [|discriminate].
      inversion H; subst. unfold contents_of. cbn [flat_map].
      apply IH in E. unfold contents_of in E.
      eapply Permutation_trans; [apply Permutation_app_head; exact E|].
      apply Permutation_sym. apply Permutation_middle.
Qed.

Lemma pack_go_perm areas : forall rows rows',
  pack_go rows areas = Ok rows' -> Permutation (contents_of rows') (contents_of rows ++ areas).
Proof.
  induction areas as [|a more IH]; intros rows rows' H; cbn [pack_go] in H.
  - inversion H; subst. rewrite app_nil_r. apply Permutation_refl.
  - destruct (place rows a) as [rows1|k] eqn:E; cbn [bind] in H; [|discriminate].
    apply IH in H. apply place_perm in E.
    eapply Permutation_trans; [exact H|].
    eapply Permutation_trans; [apply Permutation_app_tail; exact E|].
    cbn [app]. apply Permutation_middle.
Qed.

Lemma pack_complete areas len rows :
  pack areas len = Ok rows -> Permutation (contents_of rows) areas.
Proof.
  unfold pack. destruct areas as [|a more]; intros H.
  - inversion H; subst. apply Permutation_refl.
  - apply pack_go_perm in H. unfold contents_of in H at 2. cbn [flat_map r_contents app] in H. exact H.
Qed.

(* pack cannot fail on areas with non-negative starts *)
Lemma place_total rows : forall a, 0 <= fstart a -> exists rows', place rows a = Ok rows'.
Proof.
  induction rows as [|r rest IH]; intros a Ha; cbn [place].
  - destruct (row_add_ok (mkRow 0 (-1) []) a) as [r' E].
    { unfold can_fit. cbn [r_contents r_start]. lia. }
    rewrite E. cbn [bind]. eexists; reflexivity.
  - destruct (can_fit r a) eqn:Hfit.
    + destruct (row_add_ok r a Hfit) as [r' E]. rewrite E. cbn [bind]. eexists; reflexivity.
    + destruct (IH a Ha) as [rest' E]. rewrite E. cbn [bind]. eexists; reflexivity.
Qed.

Lemma pack_total areas len :
  Forall (fun a => 0 <= fstart a) areas -> exists rows, pack areas len = Ok rows.
Proof.
  unfold pack. destruct areas as [|a0 more0]; [eexists; reflexivity|].
  generalize (a0 :: more0) as areas. generalize [mkRow 0 len []] as rows.
  intros rows areas. revert rows. induction areas as [|a more IH]; intros rows H; cbn [pack_go].
  - eexists; reflexivity.
  - inversion H as [|a1 m1 Ha Hm]; subst.
    destruct (place_total rows a Ha) as [rows1 E]. rewrite E. cbn [bind]. apply IH. assumption.
Qed.

(* ---------- areas split at the origin ---------- *)
Lemma from_feature_facts f h :
  let a := from_feature f h in
  a_kind a = fkind f /\ a_ns a = fstart f /\ a_ne a = fend f /\ a_group a = 0 /\ a_height a = h /\
  a_prod a = fprod f /\
  (proto_core f = None -> a_start a = fstart f /\ a_end a = fend f) /\
  (forall core, proto_core f = Some core -> a_start a = loc_fstart core /\ a_end a = loc_fend core).
Proof.
  unfold from_feature, proto_core. destruct (fcore f) as [core|] eqn:E.
  - destruct (fkind f =? K_Proto) eqn:K; cbn [a_kind a_ns a_ne a_group a_height a_prod a_start a_end].
    + repeat (split; [reflexivity|]). split; [discriminate|].
      intros core0 H. inversion H; subst. split; reflexivity.
    + repeat (split; [reflexivity|]). split; [intros _; split; reflexivity|discriminate].
  - destruct (fkind f =? K_Proto); cbn [a_kind a_ns a_ne a_group a_height a_prod a_start a_end];
      repeat (split; [reflexivity|]); (split; [intros _; split; reflexivity|discriminate]).
Qed.

(* what adjust_cross_origin_area does to the extent, whatever the core branch *)
Lemma adjust_extents a f rc L g a' oe :
  a_group a = 0 ->
  adjust_cross_origin_area a f rc L g = Ok (a', oe) ->
  a_ns a' = a_ns a /\ a_kind a' = a_kind a /\ a_height a' = a_height a /\
  (rc = true -> oe = None /\ a_group a' = 0 /\
                a_ne a' = (match proto_core f with None => a_end a | Some _ => a_ne a end) + L) /\
  (rc = false -> exists e, oe = Some e /\ a_ne a' = L /\ a_ns e = 0 /\
                 a_ne e = (match proto_core f with None => fend f | Some _ => a_ne a end) /\
                 a_kind e = a_kind a /\ a_height e = a_height a /\ a_group a' = g /\ a_group e = g).
Proof.
  intros Hg H. unfold adjust_cross_origin_area in H.
  destruct (negb (fcrosses f && area_crosses a)); [discriminate|].
  assert (Hwg : with_group a g = set_group a g).
  { unfold with_group. rewrite Hg. reflexivity. }
  rewrite Hwg in H.
  destruct (proto_core f) as [core|].
  - destruct (loc_fend core <=? loc_fstart core).
    + destruct rc; inversion H; subst; cbn; repeat split; try discriminate; try (intros; eexists; repeat split; reflexivity); auto.
    + destruct (fstart f <=? loc_fstart core).
      * destruct rc; inversion H; subst; cbn; repeat split; try discriminate; try (intros; eexists; repeat split; reflexivity); auto.
      * destruct rc; inversion H; subst; cbn; repeat split; try discriminate; try (intros; eexists; repeat split; reflexivity); auto.
  - destruct rc; inversion H; subst; cbn; repeat split; try discriminate; try (intros; eexists; repeat split; reflexivity); auto.
Qed.

(* an area that has to be split yields two areas with the same non-zero group id whose extents
   [start of the feature, L) and [0, end of the feature) partition the extent of the feature;
   a split happens exactly when the region itself does not cross the origin *)
Lemma split_links f h rc L g a' oe :
  g <> 0 ->
  adjust_cross_origin_area (from_feature f h) f rc L g = Ok (a', oe) ->
  (rc = true -> oe = None /\ a_group a' = 0 /\ a_ns a' = fstart f /\ a_ne a' = fend f + L) /\
  (rc = false -> exists e, oe = Some e /\
     a_group a' = g /\ a_group e = g /\ a_group a' <> 0 /\
     a_kind a' = fkind f /\ a_kind e = fkind f /\ a_height a' = h /\ a_height e = h /\
     a_ns a' = fstart f /\ a_ne a' = L /\ a_ns e = 0 /\ a_ne e = fend f).
Proof.
  intros Hg H.
  pose proof (from_feature_facts f h) as F. cbv zeta in F.
  destruct F as (Fk & Fns & Fne & Fg & Fh & _ & Fnone & _).
  destruct (adjust_extents _ _ _ _ _ _ _ Fg H) as (Hns & Hk & Hh & Htrue & Hfalse).
  split.
  - intros Hrc. destruct (Htrue Hrc) as (Hoe & Hgr & Hne). repeat split; try assumption; try congruence.
    rewrite Hne. destruct (proto_core f) eqn:E; [congruence|]. destruct (Fnone eq_refl) as (_ & He). congruence.
  - intros Hrc. destruct (Hfalse Hrc) as (e & Hoe & Hne & Hens & Hene & Hek & Heh & Hga & Hge).
    exists e. repeat split; try congruence.
    rewrite Hene. destruct (proto_core f); congruence.
Qed.

(* ---------- extents lie inside the announced range ---------- *)
Lemma loc1_facts p :
  bridges [p] = false /\ loc_fstart [p] = ps p /\ loc_fend [p] = pe p /\ lstart [p] = ps p /\
  lend [p] = pe p /\ last_part [p] = p.
Proof.
  unfold bridges, loc_fstart, loc_fend, lstart, lend, lmin, lmax, last_part, first_part, last_opt, lstrand.
  cbn [is_compound forallb rev app map fold_left]. destruct (pst p =? -1); repeat split; reflexivity.
Qed.

Lemma loc2_facts p q : pst p = 1 -> pst q = 1 -> ps q = 0 -> 0 < ps p ->
  bridges [p; q] = true /\ loc_fstart [p; q] = ps p /\ loc_fend [p; q] = pe q /\
  last_part [p; q] = q /\ first_part [p; q] = p.
Proof.
  intros Hp Hq Hs Hpos.
  unfold bridges, loc_fstart, loc_fend, last_part, first_part, last_opt, lstrand.
  cbn [is_compound forallb rev app check_order].
  rewrite Hp, Hq. cbn [Z.eqb Pos.eqb andb orb]. rewrite Hs.
  repeat split. apply orb_true_iff. left. lia.
Qed.

(* a region on a record of length N: one part, or [s, N) + [0, e) with 0 < e <= s *)
Definition wf_region (N : Z) (rloc : loc) : Prop :=
  (exists r, rloc = [r] /\ 0 <= ps r /\ ps r < pe r /\ pe r <= N) \/
  (exists r1 r2, rloc = [r1; r2] /\ pst r1 = 1 /\ pst r2 = 1 /\ 0 < ps r1 /\ ps r1 < N /\ pe r1 = N /\
                 ps r2 = 0 /\ 0 < pe r2 /\ pe r2 <= ps r1).
(* an area on that record: one non-empty part, or [s, N) + [0, e) with 0 < e <= s (e = s: the whole ring) *)
Definition wf_feat_ring (N : Z) (f : feat) : Prop :=
  (exists p, floc f = [p] /\ 0 <= ps p /\ ps p < pe p /\ pe p <= N) \/
  (exists p q, floc f = [p; q] /\ pst p = 1 /\ pst q = 1 /\ 0 < ps p /\ ps p < N /\ pe p = N /\
               ps q = 0 /\ 0 < pe q /\ pe q <= ps p).

Definition area_ok (rloc : loc) (N h : Z) (f : feat) (a : area) : Prop :=
  extent_ok (range0 rloc N) a = true /\ a_height a = h /\ a_kind a = fkind f.

Lemma area_extent_in_range N circ rloc f h conv grp st' :
  wf_region N rloc -> wf_feat_ring N f -> contains rloc (floc f) = true ->
  (bridges rloc = true \/ fcrosses f = true -> circ = true) ->
  add_area_from_feature rloc N (extend_over_origin rloc N circ) h (conv, grp) f = Ok st' ->
  exists added, fst st' = conv ++ added /\ Forall (area_ok rloc N h f) added /\
                (length added = 1%nat \/ (length added = 2%nat /\ bridges rloc = false /\ fcrosses f = true)).
Proof.
  intros Hr Hf Hcont Hguard H.
  pose proof (from_feature_facts f h) as F. cbv zeta in F.
  destruct F as (Fk & Fns & Fne & Fg & Fh & _ & Fnone & _).
  unfold add_area_from_feature in H. unfold fcrosses, fstart, fend in *.
  destruct Hr as [(r & Er & Hr0 & Hr1 & Hr2)|(r1 & r2 & Er & Hs1 & Hs2 & Hr0 & Hr1 & Hr2 & Hr3 & Hr4 & Hr5)];
  destruct Hf as [(p & Ef & Hp0 & Hp1 & Hp2)|(p & q & Ef & Ht1 & Ht2 & Hp0 & Hp1 & Hp2 & Hp3 & Hp4 & Hp5)].
  - (* ordinary region, ordinary area *)
    destruct (loc1_facts r) as (Rb & Rs & Re & Rls & Rle & Rlast).
    destruct (loc1_facts p) as (Pb & Ps & Pe & _).
    rewrite Er, Ef in *. rewrite Pb in H. rewrite Rb in H. rewrite andb_false_r in H.
    assert (Hnew : area_ok [r] N h f (from_feature f h)).
    { unfold area_ok, extent_ok, range0. rewrite Rb, Rls, Rle. cbn [fst snd].
      rewrite Fns, Fne, Ps, Pe. unfold contains in Hcont. cbn [forallb existsb] in Hcont.
      unfold part_contains in Hcont. repeat split; try assumption. lia. }
    exists [from_feature f h]. split; [|split; [constructor; [assumption|constructor]|left; reflexivity]].
    destruct (extend_over_origin [r] N circ && contains [last_part [r]] [p]); inversion H; reflexivity.
  - (* whole-record region, origin-crossing area: split *)
    destruct (loc1_facts r) as (Rb & Rs & Re & Rls & Rle & Rlast).
    destruct (loc2_facts p q Ht1 Ht2 Hp3 Hp0) as (Pb & Ps & Pe & _).
    rewrite Er, Ef in *.
    unfold contains in Hcont. cbn [forallb existsb] in Hcont. unfold part_contains in Hcont.
    assert (Hc : circ = true) by (apply Hguard; right; assumption).
    assert (Hext : extend_over_origin [r] N circ = true).
    { unfold extend_over_origin. rewrite Hc, Rb, Rs, Re. lia. }
    rewrite Hext, Pb in H. cbn [andb] in H.
    assert (Hac : area_crosses (from_feature f h) = true).
    { unfold area_crosses. rewrite Fns, Fne, Ps, Pe. lia. }
    rewrite Hac in H. cbn [negb] in H. rewrite Rb in H.
    destruct (adjust_cross_origin_area (from_feature f h) f false N (grp + 1)) as [[a' oe]|k] eqn:Eadj;
      cbn [bind] in H; [|discriminate].
    destruct (adjust_extents _ _ _ _ _ _ _ Fg Eadj) as (Hns & Hk & Hh & _ & Hfalse).
    destruct (Hfalse eq_refl) as (e & Hoe & Hne & Hens & Hene & Hek & Heh & _).
    subst oe. inversion H; subst st'. cbn [fst].
    exists [a'; e]. split; [reflexivity|]. split.
    + assert (Hene' : a_ne e = pe q).
      { rewrite Hene. destruct (proto_core f); [rewrite Fne, Pe; reflexivity|unfold fend; rewrite Ef; exact Pe]. }
      constructor; [|constructor; [|constructor]].
      * unfold area_ok, extent_ok, range0. rewrite Rb, Rls, Rle. cbn [fst snd].
        rewrite Hns, Hne, Fns, Ps. repeat split; try congruence. lia.
      * unfold area_ok, extent_ok, range0. rewrite Rb, Rls, Rle. cbn [fst snd].
        rewrite Hens, Hene'. repeat split; try congruence. lia.
    + right. repeat split; assumption.
  - (* origin-crossing region, ordinary area *)
    destruct (loc2_facts r1 r2 Hs1 Hs2 Hr3 Hr0) as (Rb & Rs & Re & Rlast & Rfirst).
    destruct (loc1_facts p) as (Pb & Ps & Pe & _).
    rewrite Er, Ef in *.
    assert (Hc : circ = true) by (apply Hguard; left; assumption).
    assert (Hext : extend_over_origin [r1; r2] N circ = true).
    { unfold extend_over_origin. rewrite Hc, Rb. reflexivity. }
    rewrite Hext, Pb, Rb, Rlast in H. cbn [andb] in H.
    unfold contains in Hcont. cbn [forallb existsb] in Hcont. unfold part_contains in Hcont.
    destruct (contains [r2] [p]) eqn:Hin2.
    + inversion H; subst st'. cbn [fst]. exists [area_offset (from_feature f h) N].
      split; [reflexivity|]. split; [|left; reflexivity].
      constructor; [|constructor].
      unfold contains in Hin2. cbn [forallb existsb] in Hin2. unfold part_contains in Hin2.
      unfold area_ok, extent_ok, range0, area_offset. rewrite Rb, Rs, Rlast. cbn [fst snd a_ns a_ne a_height a_kind].
      rewrite Fns, Fne, Ps, Pe. repeat split; try assumption. lia.
    + inversion H; subst st'. cbn [fst]. exists [from_feature f h].
      split; [reflexivity|]. split; [|left; reflexivity].
      constructor; [|constructor].
      unfold contains in Hin2. cbn [forallb existsb] in Hin2. unfold part_contains in Hin2.
      unfold area_ok, extent_ok, range0. rewrite Rb, Rs, Rlast. cbn [fst snd].
      rewrite Fns, Fne, Ps, Pe. repeat split; try assumption. lia.
  - (* origin-crossing region, origin-crossing area: unrolled *)
    destruct (loc2_facts r1 r2 Hs1 Hs2 Hr3 Hr0) as (Rb & Rs & Re & Rlast & Rfirst).
    destruct (loc2_facts p q Ht1 Ht2 Hp3 Hp0) as (Pb & Ps & Pe & _).
    rewrite Er, Ef in *.
    assert (Hc : circ = true) by (apply Hguard; left; assumption).
    assert (Hext : extend_over_origin [r1; r2] N circ = true).
    { unfold extend_over_origin. rewrite Hc, Rb. reflexivity. }
    rewrite Hext, Pb in H. cbn [andb] in H.
    assert (Hac : area_crosses (from_feature f h) = true).
    { unfold area_crosses. rewrite Fns, Fne, Ps, Pe. lia. }
    rewrite Hac in H. cbn [negb] in H. rewrite Rb in H.
    destruct (adjust_cross_origin_area (from_feature f h) f true N (grp + 1)) as [[a' oe]|k] eqn:Eadj;
      cbn [bind] in H; [|discriminate].
    destruct (adjust_extents _ _ _ _ _ _ _ Fg Eadj) as (Hns & Hk & Hh & Htrue & _).
    destruct (Htrue eq_refl) as (Hoe & _ & Hne).
    subst oe. inversion H; subst st'. cbn [fst].
    exists [a']. split; [reflexivity|]. split; [|left; reflexivity].
    constructor; [|constructor].
    assert (Hne' : a_ne a' = pe q + N).
    { rewrite Hne. destruct (proto_core f) eqn:Ec; [rewrite Fne, Pe; reflexivity|].
      destruct (Fnone eq_refl) as (_ & He). rewrite He, Pe. reflexivity. }
    unfold contains in Hcont. cbn [forallb existsb] in Hcont. unfold part_contains in Hcont.
    unfold area_ok, extent_ok, range0. rewrite Rb, Rs, Rlast. cbn [fst snd].
    rewrite Hns, Hne', Fns, Ps. repeat split; try congruence. lia.
Qed.

(* ---------- core inside the extent (protoclusters), start/end = extent (sub-regions, candidates) ---------- *)
Lemma adjust_chain a f rc L g a' oe :
  a_group a = 0 -> a_ne a <= a_ns a -> a_ns a <= L -> 0 <= a_ne a ->
  match proto_core f with
  | None => a_start a = a_ns a /\ a_end a = a_ne a /\ fend f = a_ne a
  | Some core =>
    let cs := loc_fstart core in let ce := loc_fend core in
    a_start a = cs /\ a_end a = ce /\
    ((ce <= cs /\ a_ns a <= cs /\ cs <= L /\ 0 <= ce /\ ce <= a_ne a) \/
     (cs < ce /\ fstart f <= cs /\ a_ns a <= cs /\ ce <= L) \/
     (cs < ce /\ ~ (fstart f <= cs) /\ 0 <= cs /\ ce <= a_ne a))
  end ->
  adjust_cross_origin_area a f rc L g = Ok (a', oe) ->
  chain_ok a' = true /\ forall e, oe = Some e -> chain_ok e = true.
Proof.
  intros Hg H1 H2 H3 Hc H. unfold adjust_cross_origin_area in H.
  destruct (negb (fcrosses f && area_crosses a)); [discriminate|].
  assert (Hwg : with_group a g = set_group a g).
  { unfold with_group. rewrite Hg. reflexivity. }
  rewrite Hwg in H. unfold chain_ok.
  destruct (proto_core f) as [core|].
  - cbv zeta in Hc. destruct Hc as (Hs & He & Hcases).
    destruct (loc_fend core <=? loc_fstart core) eqn:B1.
    + destruct rc; inversion H; subst; cbn; (split; [|intros e0 He0; inversion He0; subst; cbn]); lia.
    + destruct (fstart f <=? loc_fstart core) eqn:B2.
      * destruct rc; inversion H; subst; cbn; (split; [|intros e0 He0; inversion He0; subst; cbn]); lia.
      * destruct rc; inversion H; subst; cbn; (split; [|intros e0 He0; inversion He0; subst; cbn]); lia.
  - destruct Hc as (Hs & He & Hf).
    destruct rc; inversion H; subst; cbn; (split; [|intros e0 He0; inversion He0; subst; cbn]); lia.
Qed.

Definition wf_core_in (N : Z) (f : feat) (core : loc) : Prop :=
  contains (floc f) core = true /\
  ((exists c, core = [c] /\ 0 <= ps c /\ ps c < pe c /\ pe c <= N) \/
   (exists c1 c2, core = [c1; c2] /\ pst c1 = 1 /\ pst c2 = 1 /\ 0 < ps c1 /\ ps c1 < N /\ pe c1 = N /\
                  ps c2 = 0 /\ 0 < pe c2 /\ pe c2 <= ps c1 /\ fcrosses f = true)).

(* well-formedness needed by the chain theorem: a protocluster has a core, which lies inside its extent.
   Nothing is asked of sub-regions and candidate clusters (their start/end ARE the extent).  This is
   not a guard against a defect any more: the former finding classes core_side_heuristic (side of the
   core guessed from length - core_start < core_end) and candidate_end_unshifted (candidate clusters
   sent through the protocluster branches) were repaired in the code. *)
Definition core_wf (N : Z) (f : feat) : Prop :=
  fkind f = K_Proto -> exists core, fcore f = Some core /\ wf_core_in N f core.

Lemma proto_core_cases N f : core_wf N f ->
  proto_core f = None \/ exists core, proto_core f = Some core /\ wf_core_in N f core.
Proof.
  unfold core_wf, proto_core. intros H. destruct (fkind f =? K_Proto) eqn:K; [|left; reflexivity].
  apply Z.eqb_eq in K. destruct (H K) as (core & Hc & Hwf). right. exists core. rewrite Hc. auto.
Qed.

Lemma from_feature_chain_single N f h p :
  core_wf N f -> floc f = [p] -> ps p < pe p ->
  let a := from_feature f h in a_ns a <= a_start a /\ a_start a <= a_end a /\ a_end a <= a_ne a.
Proof.
  intros Hg Ef Hp. cbv zeta.
  pose proof (from_feature_facts f h) as F. cbv zeta in F.
  destruct F as (Fk & Fns & Fne & Fg & Fh & _ & Fnone & Fcore).
  destruct (loc1_facts p) as (Pb & Ps & Pe & _).
  unfold fstart, fend in *. rewrite Ef in *.
  destruct (proto_core_cases N f Hg) as [Hnone|(core & Hcore & Hcont & Hshape)].
  - destruct (Fnone Hnone) as (Hs & He). rewrite Hs, He, Fns, Fne, Ps, Pe. lia.
  - destruct (Fcore core Hcore) as (Hs & He).
    destruct Hshape as [(c & Ec & Hc0 & Hc1 & Hc2)|(c1 & c2 & _ & _ & _ & _ & _ & _ & _ & _ & _ & Hcr)].
    + destruct (loc1_facts c) as (_ & Cs & Ce & _). subst core.
      rewrite Ef in Hcont. unfold contains in Hcont. cbn [forallb existsb] in Hcont. unfold part_contains in Hcont.
      rewrite Hs, He, Fns, Fne, Ps, Pe, Cs, Ce. lia.
    + unfold fcrosses in Hcr. rewrite Ef in Hcr. congruence.
Qed.

Lemma crossing_chain_pre N f h p q :
  core_wf N f -> floc f = [p; q] -> pst p = 1 -> pst q = 1 -> 0 < ps p -> ps p < N -> pe p = N ->
  ps q = 0 -> 0 < pe q -> pe q <= ps p ->
  let a := from_feature f h in
  match proto_core f with
  | None => a_start a = a_ns a /\ a_end a = a_ne a /\ fend f = a_ne a
  | Some core =>
    let cs := loc_fstart core in let ce := loc_fend core in
    a_start a = cs /\ a_end a = ce /\
    ((ce <= cs /\ a_ns a <= cs /\ cs <= N /\ 0 <= ce /\ ce <= a_ne a) \/
     (cs < ce /\ fstart f <= cs /\ a_ns a <= cs /\ ce <= N) \/
     (cs < ce /\ ~ (fstart f <= cs) /\ 0 <= cs /\ ce <= a_ne a))
  end.
Proof.
  intros Hg Ef Ht1 Ht2 Hp0 Hp1 Hp2 Hp3 Hp4 Hp5. cbv zeta.
  pose proof (from_feature_facts f h) as F. cbv zeta in F.
  destruct F as (Fk & Fns & Fne & Fg & Fh & _ & Fnone & Fcore).
  destruct (loc2_facts p q Ht1 Ht2 Hp3 Hp0) as (Pb & Ps & Pe & _).
  destruct (proto_core_cases N f Hg) as [Hnone|(core & Hcore & Hcont & Hshape)].
  - rewrite Hnone. destruct (Fnone Hnone) as (Hs & He). rewrite Hs, He, Fns, Fne. auto.
  - rewrite Hcore. destruct (Fcore core Hcore) as (Hs & He).
    split; [assumption|]. split; [assumption|].
    rewrite Fns, Fne.
    unfold fstart, fend in *. rewrite Ef in *. rewrite Ps, Pe in *.
    unfold contains in Hcont.
    destruct Hshape as [(c & Ec & Hc0 & Hc1 & Hc2)|(c1 & c2 & Ec & Hu1 & Hu2 & Hc0 & Hc1 & Hc2 & Hc3 & Hc4 & Hc5 & _)].
    + destruct (loc1_facts c) as (_ & Cs & Ce & _). subst core. rewrite Cs, Ce in *.
      cbn [forallb existsb] in Hcont. unfold part_contains in Hcont.
      destruct (ps p <=? ps c) eqn:B'; lia.
    + destruct (loc2_facts c1 c2 Hu1 Hu2 Hc3 Hc0) as (_ & Cs & Ce & _). subst core. rewrite Cs, Ce in *.
      cbn [forallb existsb] in Hcont. unfold part_contains in Hcont. lia.
Qed.

Lemma area_chain_in_extent N circ rloc f h conv grp st' :
  wf_region N rloc -> wf_feat_ring N f -> contains rloc (floc f) = true ->
  (bridges rloc = true \/ fcrosses f = true -> circ = true) ->
  core_wf N f ->
  add_area_from_feature rloc N (extend_over_origin rloc N circ) h (conv, grp) f = Ok st' ->
  exists added, fst st' = conv ++ added /\ Forall (fun a => chain_ok a = true) added.
Proof.
  intros Hr Hf Hcont Hguard Hchain H.
  pose proof (from_feature_facts f h) as F. cbv zeta in F.
  destruct F as (Fk & Fns & Fne & Fg & Fh & _).
  unfold add_area_from_feature in H. unfold fcrosses in *.
  destruct Hf as [(p & Ef & Hp0 & Hp1 & Hp2)|(p & q & Ef & Ht1 & Ht2 & Hp0 & Hp1 & Hp2 & Hp3 & Hp4 & Hp5)].
  - (* ordinary area: unchanged or shifted as a whole *)
    pose proof (from_feature_chain_single N f h p Hchain Ef Hp1) as Hc. cbv zeta in Hc.
    destruct (loc1_facts p) as (Pb & _). rewrite Ef in H. rewrite Pb in H. rewrite andb_false_r in H.
    destruct (extend_over_origin rloc N circ && contains [last_part rloc] [p]).
    + destruct (bridges rloc); inversion H; subst st'; cbn [fst]; eexists; (split; [reflexivity|]);
        (constructor; [|constructor]); unfold chain_ok, area_offset; cbn [a_ns a_ne a_start a_end]; lia.
    + inversion H; subst st'; cbn [fst]; eexists; (split; [reflexivity|]);
        (constructor; [|constructor]); unfold chain_ok; lia.
  - (* origin-crossing area *)
    pose proof (crossing_chain_pre N f h p q Hchain Ef Ht1 Ht2 Hp0 Hp1 Hp2 Hp3 Hp4 Hp5) as Hpre. cbv zeta in Hpre.
    destruct (loc2_facts p q Ht1 Ht2 Hp3 Hp0) as (Pb & Ps & Pe & _).
    assert (Hc : circ = true) by (apply Hguard; right; rewrite Ef; assumption).
    assert (Hext : extend_over_origin rloc N circ = true).
    { unfold extend_over_origin. rewrite Hc. cbn [andb].
      destruct Hr as [(r & Er & Hr0 & Hr1 & Hr2)|(r1 & r2 & Er & Hs1 & Hs2 & Hr0 & Hr1 & Hr2 & Hr3 & Hr4 & Hr5)].
      - destruct (loc1_facts r) as (Rb & Rs & Re & _). rewrite Er in *. rewrite Rb, Rs, Re.
        rewrite Ef in Hcont. unfold contains in Hcont. cbn [forallb existsb] in Hcont. unfold part_contains in Hcont. lia.
      - destruct (loc2_facts r1 r2 Hs1 Hs2 Hr3 Hr0) as (Rb & _). rewrite Er. rewrite Rb. reflexivity. }
    rewrite Ef in H. rewrite Hext, Pb in H. cbn [andb] in H.
    unfold fstart, fend in Fns, Fne. rewrite Ef in Fns, Fne.
    assert (Hac : area_crosses (from_feature f h) = true).
    { unfold area_crosses. rewrite Fns, Fne, Ps, Pe. lia. }
    rewrite Hac in H. cbn [negb] in H.
    destruct (adjust_cross_origin_area (from_feature f h) f (bridges rloc) N (grp + 1)) as [[a' oe]|k] eqn:Eadj;
      cbn [bind] in H; [|discriminate].
    assert (Hch : chain_ok a' = true /\ forall e, oe = Some e -> chain_ok e = true).
    { eapply adjust_chain; [exact Fg| | | |exact Hpre|exact Eadj]; rewrite ?Fns, ?Fne, ?Ps, ?Pe; lia. }
    destruct Hch as (Ha' & He').
    destruct oe as [e|]; inversion H; subst st'; cbn [fst]; eexists; (split; [reflexivity|]).
    + constructor; [assumption|]. constructor; [apply He'; reflexivity|constructor].
    + constructor; [assumption|constructor].
Qed.

(* the two former refutations, now positive: every protocluster whose core lies inside its extent (on
   either side of the origin), and every candidate cluster (any core) *)
Lemma proto_chain_in_extent N circ rloc f core h conv grp st' :
  wf_region N rloc -> wf_feat_ring N f -> contains rloc (floc f) = true ->
  (bridges rloc = true \/ fcrosses f = true -> circ = true) ->
  fkind f = K_Proto -> fcore f = Some core -> wf_core_in N f core ->
  add_area_from_feature rloc N (extend_over_origin rloc N circ) h (conv, grp) f = Ok st' ->
  exists added, fst st' = conv ++ added /\ Forall (fun a => chain_ok a = true) added.
Proof.
  intros Hr Hf Hcont Hguard Hk Hcore Hwf H.
  apply (area_chain_in_extent N circ rloc f h conv grp st' Hr Hf Hcont Hguard); [|exact H].
  intros _. exists core. split; assumption.
Qed.

Lemma cand_chain_in_extent N circ rloc f h conv grp st' :
  wf_region N rloc -> wf_feat_ring N f -> contains rloc (floc f) = true ->
  (bridges rloc = true \/ fcrosses f = true -> circ = true) ->
  fkind f = K_Cand ->
  add_area_from_feature rloc N (extend_over_origin rloc N circ) h (conv, grp) f = Ok st' ->
  exists added, fst st' = conv ++ added /\ Forall (fun a => chain_ok a = true) added.
Proof.
  intros Hr Hf Hcont Hguard Hk H.
  apply (area_chain_in_extent N circ rloc f h conv grp st' Hr Hf Hcont Hguard); [|exact H].
  intros Hk'. rewrite Hk in Hk'. discriminate.
Qed.

(* ---------- the witnesses of the two repaired findings (regression) ---------- *)
Definition witness_region : loc := [mkPart 100 1000 1; mkPart 0 50 1].
Definition witness_proto : feat :=
  mkFeat 0 K_Proto [mkPart 100 1000 1; mkPart 0 50 1] (Some [mkPart 200 300 1]) false 1.
Definition witness_proto_mirror : feat :=
  mkFeat 0 K_Proto [mkPart 900 1000 1; mkPart 0 800 1] (Some [mkPart 600 700 1]) false 1.
Definition witness_cand : feat :=
  mkFeat 0 K_Cand [mkPart 100 1000 1; mkPart 0 50 1] (Some [mkPart 400 700 1]) false 1.

Lemma witness_region_wf : wf_region 1000 witness_region.
Proof. right. exists (mkPart 100 1000 1), (mkPart 0 50 1). cbn. repeat split; lia. Qed.
Lemma witness_feat_wf f : floc f = witness_region -> wf_feat_ring 1000 f.
Proof. intros E. right. exists (mkPart 100 1000 1), (mkPart 0 50 1). cbn. repeat split; try lia. exact E. Qed.

(* ---------- build_area_rows: every emitted extent in range ---------- *)
Lemma insert_by_in {A} (lt : A -> A -> bool) x l y : In y (insert_by lt x l) -> y = x \/ In y l.
Proof.
  induction l as [|z l IH]; cbn [insert_by]; intros H.
  - destruct H as [H|[]]; auto.
  - destruct (lt x z).
    + destruct H as [H|H]; auto.
    + destruct H as [H|H]; [right; left; assumption|].
      destruct (IH H) as [H'|H']; [left; assumption|right; right; assumption].
Qed.

Lemma sort_fold_in {A} (lt : A -> A -> bool) l : forall acc y,
  In y (fold_left (fun acc x => insert_by lt x acc) l acc) -> In y acc \/ In y l.
Proof.
  induction l as [|x l IH]; cbn [fold_left]; intros acc y H; [left; assumption|].
  destruct (IH _ _ H) as [H1|H1].
  - destruct (insert_by_in lt x acc y H1) as [H2|H2]; [right; left; auto|left; assumption].
  - right; right; assumption.
Qed.

Lemma sort_by_in {A} (lt : A -> A -> bool) l y : In y (sort_by lt l) -> In y l.
Proof. unfold sort_by. intros H. destruct (sort_fold_in lt l [] y H) as [[]|H']; assumption. Qed.

Lemma unique_in rloc protos y : In y (unique_protoclusters rloc protos) -> In y protos.
Proof.
  unfold unique_protoclusters. destruct (negb (bridges rloc)); intro H.
  - apply sort_by_in in H. exact (sort_by_in _ _ _ H).
  - exact (sort_by_in _ _ _ H).
Qed.

Lemma pack_in areas len rows r y :
  pack areas len = Ok rows -> In r rows -> In y (r_contents r) -> In y areas.
Proof.
  intros H Hr Hy. apply pack_complete in H.
  eapply Permutation_in; [exact H|]. unfold contents_of. apply in_flat_map. exists r. auto.
Qed.

Definition feat_ok (N : Z) (circ : bool) (rloc : loc) (f : feat) : Prop :=
  wf_feat_ring N f /\ contains rloc (floc f) = true /\ (bridges rloc = true \/ fcrosses f = true -> circ = true).

Definition ext_ok (rloc : loc) (N : Z) (a : area) : Prop := extent_ok (range0 rloc N) a = true.

Lemma add_row_features_ext N circ rloc h fs : forall st st',
  wf_region N rloc -> Forall (feat_ok N circ rloc) fs -> Forall (ext_ok rloc N) (fst st) ->
  add_row_features rloc N (extend_over_origin rloc N circ) h st fs = Ok st' ->
  Forall (ext_ok rloc N) (fst st').
Proof.
  induction fs as [|f more IH]; intros st st' Hr Hfs Hst H; cbn [add_row_features] in H.
  - inversion H; subst. assumption.
  - inversion Hfs as [|f0 m0 (Hwf & Hcont & Hg) Hm]; subst.
    destruct (add_area_from_feature rloc N (extend_over_origin rloc N circ) h st f) as [st1|k] eqn:E;
      cbn [bind] in H; [|discriminate].
    eapply IH; [exact Hr|exact Hm| |exact H].
    destruct st as [conv grp].
    destruct (area_extent_in_range N circ rloc f h conv grp st1 Hr Hwf Hcont Hg E) as (added & Hfst & Hadded & _).
    rewrite Hfst. apply Forall_app. split; [exact Hst|].
    eapply Forall_impl; [|exact Hadded]. intros a (Ha & _). exact Ha.
Qed.

Lemma add_rows_ext N circ rloc rows : forall h st r,
  wf_region N rloc -> Forall (fun rw => Forall (feat_ok N circ rloc) (r_contents rw)) rows ->
  Forall (ext_ok rloc N) (fst st) ->
  add_rows rloc N (extend_over_origin rloc N circ) h st rows = Ok r ->
  Forall (ext_ok rloc N) (fst (fst r)).
Proof.
  induction rows as [|rw more IH]; intros h st r Hr Hrows Hst H; cbn [add_rows] in H.
  - inversion H; subst. exact Hst.
  - inversion Hrows as [|r0 m0 Hrw Hm]; subst.
    destruct (add_row_features rloc N (extend_over_origin rloc N circ) h st (r_contents rw)) as [st1|k] eqn:E;
      cbn [bind] in H; [|discriminate].
    eapply IH; [exact Hr|exact Hm| |exact H].
    eapply add_row_features_ext; eauto.
Qed.

Lemma rows_feat_ok N circ rloc areas len rows :
  Forall (feat_ok N circ rloc) areas -> pack areas len = Ok rows ->
  Forall (fun rw => Forall (feat_ok N circ rloc) (r_contents rw)) rows.
Proof.
  intros Hall H. apply Forall_forall. intros r Hr. apply Forall_forall. intros y Hy.
  rewrite Forall_forall in Hall. apply Hall. exact (pack_in areas len rows r y H Hr Hy).
Qed.

Lemma build_extents_in_range N circ rloc subs cands protos out :
  wf_region N rloc ->
  Forall (feat_ok N circ rloc) subs -> Forall (feat_ok N circ rloc) cands -> Forall (feat_ok N circ rloc) protos ->
  build_area_rows rloc N circ subs cands protos = Ok out ->
  Forall (fun a => extent_ok (range0 rloc N) a = true) out.
Proof.
  intros Hr Hs Hc Hp H. unfold build_area_rows in H.
  destruct (pack subs (-1)) as [sub_rows|k] eqn:E1; cbn [bind] in H; [|discriminate].
  destruct (pack (filter (fun c => nonempty subs || negb (fsingle c)) cands) (-1)) as [cand_rows|k] eqn:E2;
    cbn [bind] in H; [|discriminate].
  destruct (pack (unique_protoclusters rloc protos) (-1)) as [proto_rows|k] eqn:E3; cbn [bind] in H; [|discriminate].
  assert (H1 : Forall (fun rw => Forall (feat_ok N circ rloc) (r_contents rw)) sub_rows)
    by (eapply rows_feat_ok; [exact Hs|exact E1]).
  assert (H2 : Forall (fun rw => Forall (feat_ok N circ rloc) (r_contents rw)) cand_rows).
  { eapply rows_feat_ok; [|exact E2]. apply Forall_forall. intros x Hx. apply filter_In in Hx.
    rewrite Forall_forall in Hc. apply Hc. tauto. }
  assert (H3 : Forall (fun rw => Forall (feat_ok N circ rloc) (r_contents rw)) proto_rows).
  { eapply rows_feat_ok; [|exact E3]. apply Forall_forall. intros x Hx. apply unique_in in Hx.
    rewrite Forall_forall in Hp. apply Hp. exact Hx. }
  destruct (add_rows rloc N (extend_over_origin rloc N circ) 0 ([], 0) (cand_rows ++ sub_rows)) as [[st height]|k] eqn:E4;
    cbn [bind] in H; [|discriminate].
  assert (Hst : Forall (ext_ok rloc N) (fst st)).
  { change st with (fst (st, height)). eapply add_rows_ext; [exact Hr| | |exact E4].
    - apply Forall_app. split; assumption.
    - constructor. }
  match type of H with (do r2 <- add_rows _ _ _ ?hh _ _; _) = _ =>
    destruct (add_rows rloc N (extend_over_origin rloc N circ) hh st proto_rows) as [r2|k] eqn:E5 end;
    cbn [bind] in H; [|discriminate].
  inversion H; subst out.
  eapply add_rows_ext; [exact Hr|exact H3|exact Hst|exact E5].
Qed.

(* ---------- build_area_rows: start/end of every emitted area inside its extent ---------- *)
(* (provable for every region since the repair of core_side_heuristic and candidate_end_unshifted) *)
Definition feat_ok_core (N : Z) (circ : bool) (rloc : loc) (f : feat) : Prop :=
  feat_ok N circ rloc f /\ core_wf N f.

Definition chn_ok (a : area) : Prop := chain_ok a = true.

Lemma add_row_features_chain N circ rloc h fs : forall st st',
  wf_region N rloc -> Forall (feat_ok_core N circ rloc) fs -> Forall chn_ok (fst st) ->
  add_row_features rloc N (extend_over_origin rloc N circ) h st fs = Ok st' ->
  Forall chn_ok (fst st').
Proof.
  induction fs as [|f more IH]; intros st st' Hr Hfs Hst H; cbn [add_row_features] in H.
  - inversion H; subst. assumption.
  - inversion Hfs as [|f0 m0 ((Hwf & Hcont & Hg) & Hcore) Hm]; subst.
    destruct (add_area_from_feature rloc N (extend_over_origin rloc N circ) h st f) as [st1|k] eqn:E;
      cbn [bind] in H; [|discriminate].
    eapply IH; [exact Hr|exact Hm| |exact H].
    destruct st as [conv grp].
    destruct (area_chain_in_extent N circ rloc f h conv grp st1 Hr Hwf Hcont Hg Hcore E) as (added & Hfst & Hadded).
    rewrite Hfst. apply Forall_app. split; [exact Hst|exact Hadded].
Qed.

Lemma add_rows_chain N circ rloc rows : forall h st r,
  wf_region N rloc -> Forall (fun rw => Forall (feat_ok_core N circ rloc) (r_contents rw)) rows ->
  Forall chn_ok (fst st) ->
  add_rows rloc N (extend_over_origin rloc N circ) h st rows = Ok r ->
  Forall chn_ok (fst (fst r)).
Proof.
  induction rows as [|rw more IH]; intros h st r Hr Hrows Hst H; cbn [add_rows] in H.
  - inversion H; subst. exact Hst.
  - inversion Hrows as [|r0 m0 Hrw Hm]; subst.
    destruct (add_row_features rloc N (extend_over_origin rloc N circ) h st (r_contents rw)) as [st1|k] eqn:E;
      cbn [bind] in H; [|discriminate].
    eapply IH; [exact Hr|exact Hm| |exact H].
    eapply add_row_features_chain; eauto.
Qed.

Lemma rows_pred_ok (P : feat -> Prop) areas len rows :
  Forall P areas -> pack areas len = Ok rows -> Forall (fun rw => Forall P (r_contents rw)) rows.
Proof.
  intros Hall H. apply Forall_forall. intros r Hr. apply Forall_forall. intros y Hy.
  rewrite Forall_forall in Hall. apply Hall. exact (pack_in areas len rows r y H Hr Hy).
Qed.

Lemma build_chain_in_extent N circ rloc subs cands protos out :
  wf_region N rloc ->
  Forall (feat_ok_core N circ rloc) subs -> Forall (feat_ok_core N circ rloc) cands ->
  Forall (feat_ok_core N circ rloc) protos ->
  build_area_rows rloc N circ subs cands protos = Ok out ->
  Forall (fun a => chain_ok a = true) out.
Proof.
  intros Hr Hs Hc Hp H. unfold build_area_rows in H.
  destruct (pack subs (-1)) as [sub_rows|k] eqn:E1; cbn [bind] in H; [|discriminate].
  destruct (pack (filter (fun c => nonempty subs || negb (fsingle c)) cands) (-1)) as [cand_rows|k] eqn:E2;
    cbn [bind] in H; [|discriminate].
  destruct (pack (unique_protoclusters rloc protos) (-1)) as [proto_rows|k] eqn:E3; cbn [bind] in H; [|discriminate].
  assert (H1 : Forall (fun rw => Forall (feat_ok_core N circ rloc) (r_contents rw)) sub_rows)
    by (eapply rows_pred_ok; [exact Hs|exact E1]).
  assert (H2 : Forall (fun rw => Forall (feat_ok_core N circ rloc) (r_contents rw)) cand_rows).
  { eapply rows_pred_ok; [|exact E2]. apply Forall_forall. intros x Hx. apply filter_In in Hx.
    rewrite Forall_forall in Hc. apply Hc. tauto. }
  assert (H3 : Forall (fun rw => Forall (feat_ok_core N circ rloc) (r_contents rw)) proto_rows).
  { eapply rows_pred_ok; [|exact E3]. apply Forall_forall. intros x Hx. apply unique_in in Hx.
    rewrite Forall_forall in Hp. apply Hp. exact Hx. }
  destruct (add_rows rloc N (extend_over_origin rloc N circ) 0 ([], 0) (cand_rows ++ sub_rows)) as [[st height]|k] eqn:E4;
    cbn [bind] in H; [|discriminate].
  assert (Hst : Forall chn_ok (fst st)).
  { change st with (fst (st, height)). eapply add_rows_chain; [exact Hr| | |exact E4].
    - apply Forall_app. split; assumption.
    - constructor. }
  match type of H with (do r2 <- add_rows _ _ _ ?hh _ _; _) = _ =>
    destruct (add_rows rloc N (extend_over_origin rloc N circ) hh st proto_rows) as [r2|k] eqn:E5 end;
    cbn [bind] in H; [|discriminate].
  inversion H; subst out.
  eapply add_rows_chain; [exact Hr|exact H3|exact Hst|exact E5].
Qed.

(* the whole inequality chain of the property at the observation point:
   range start <= neighbouring_start <= start <= end <= neighbouring_end <= range end *)
Lemma build_full_chain N circ rloc subs cands protos out :
  wf_region N rloc ->
  Forall (feat_ok_core N circ rloc) subs -> Forall (feat_ok_core N circ rloc) cands ->
  Forall (feat_ok_core N circ rloc) protos ->
  build_area_rows rloc N circ subs cands protos = Ok out ->
  Forall (fun a => fst (range0 rloc N) <= a_ns a /\ a_ns a <= a_start a /\ a_start a <= a_end a /\
                   a_end a <= a_ne a /\ a_ne a <= snd (range0 rloc N)) out.
Proof.
  intros Hr Hs Hc Hp H.
  assert (weaken : forall l, Forall (feat_ok_core N circ rloc) l -> Forall (feat_ok N circ rloc) l).
  { intros l Hl. eapply Forall_impl; [|exact Hl]. intros a (Ha & _). exact Ha. }
  pose proof (build_extents_in_range N circ rloc subs cands protos out Hr (weaken _ Hs) (weaken _ Hc) (weaken _ Hp) H) as He.
  pose proof (build_chain_in_extent N circ rloc subs cands protos out Hr Hs Hc Hp H) as Hch.
  rewrite Forall_forall in *. intros a Ha. specialize (He a Ha). specialize (Hch a Ha).
  unfold extent_ok, chain_ok in *. lia.
Qed.

(* ---------- build_area_rows: every feature drawn once, or as two linked consecutive halves ---------- *)
(* drawn N g fs out g': the list out is the concatenation, feature by feature and in the order of fs, of
   either one area without a group id, or two consecutive areas that share the fresh group id g+1 (never 0
   when g >= 0), have the kind of the feature, the same height, and the extents [.., N) and [0, ..);
   g counts the group ids handed out *)
Inductive drawn (N : Z) : Z -> list feat -> list area -> Z -> Prop :=
| drawn_nil g : drawn N g [] [] g
| drawn_one g f a fs out g' :
    a_group a = 0 -> a_kind a = fkind f ->
    drawn N g fs out g' -> drawn N g (f :: fs) (a :: out) g'
| drawn_two g f a e fs out g' :
    a_group a = g + 1 -> a_group e = g + 1 -> a_kind a = fkind f -> a_kind e = fkind f ->
    a_height e = a_height a -> a_ne a = N -> a_ns e = 0 ->
    drawn N (g + 1) fs out g' -> drawn N g (f :: fs) (a :: e :: out) g'.

Lemma drawn_app N g fs out g1 : drawn N g fs out g1 ->
  forall fs' out' g2, drawn N g1 fs' out' g2 -> drawn N g (fs ++ fs') (out ++ out') g2.
Proof.
  induction 1; intros fs' out' g2 H'; cbn [app].
  - exact H'.
  - apply drawn_one; auto.
  - apply drawn_two; auto.
Qed.

Lemma drawn_mono N g fs out g' : drawn N g fs out g' -> g <= g'.
Proof. induction 1; lia. Qed.

Lemma area_drawn rloc N ext h conv grp f st' :
  add_area_from_feature rloc N ext h (conv, grp) f = Ok st' ->
  exists added grp', st' = (conv ++ added, grp') /\ drawn N grp [f] added grp' /\
                     Forall (fun a => a_height a = h) added.
Proof.
  intros H.
  pose proof (from_feature_facts f h) as F. cbv zeta in F.
  destruct F as (Fk & Fns & Fne & Fg & Fh & _).
  unfold add_area_from_feature in H.
  destruct (ext && fcrosses f).
  - destruct (negb (area_crosses (from_feature f h))); [discriminate|].
    destruct (adjust_cross_origin_area (from_feature f h) f (bridges rloc) N (grp + 1)) as [[a' oe]|k] eqn:Eadj;
      cbn [bind] in H; [|discriminate].
    destruct (adjust_extents _ _ _ _ _ _ _ Fg Eadj) as (Hns & Hk & Hh & Htrue & Hfalse).
    destruct (bridges rloc).
    + destruct (Htrue eq_refl) as (Hoe & Hgr & _). subst oe. inversion H; subst st'.
      exists [a'], grp. split; [reflexivity|]. split.
      * apply drawn_one; [assumption|congruence|constructor].
      * constructor; [congruence|constructor].
    + destruct (Hfalse eq_refl) as (e & Hoe & Hne & Hens & _ & Hek & Heh & Hga & Hge). subst oe.
      inversion H; subst st'.
      exists [a'; e], (grp + 1). split; [reflexivity|]. split.
      * apply drawn_two; try congruence. constructor.
      * constructor; [congruence|]. constructor; [congruence|constructor].
  - assert (Hd : forall a, a_group a = 0 -> a_kind a = fkind f -> a_height a = h ->
                  exists added grp', (conv ++ [a], grp) = (conv ++ added, grp') /\ drawn N grp [f] added grp' /\
                                     Forall (fun a => a_height a = h) added).
    { intros a H1 H2 H3. exists [a], grp. split; [reflexivity|]. split.
      - apply drawn_one; [assumption|assumption|constructor].
      - constructor; [assumption|constructor]. }
    destruct (ext && contains [last_part rloc] (floc f)).
    + destruct (bridges rloc); inversion H; subst st'; apply Hd; cbn; assumption.
    + inversion H; subst st'; apply Hd; assumption.
Qed.

Lemma row_features_drawn rloc N ext h fs : forall st st',
  add_row_features rloc N ext h st fs = Ok st' ->
  exists added, fst st' = fst st ++ added /\ drawn N (snd st) fs added (snd st') /\
                Forall (fun a => a_height a = h) added.
Proof.
  induction fs as [|f more IH]; intros st st' H; cbn [add_row_features] in H.
  - inversion H; subst. exists []. rewrite app_nil_r. repeat split; constructor.
  - destruct (add_area_from_feature rloc N ext h st f) as [st1|k] eqn:E; cbn [bind] in H; [|discriminate].
    destruct st as [conv grp].
    destruct (area_drawn _ _ _ _ _ _ _ _ E) as (a1 & g1 & Hst1 & Hd1 & Hh1). subst st1.
    destruct (IH _ _ H) as (a2 & Hfst & Hd2 & Hh2). cbn [fst snd] in *.
    exists (a1 ++ a2). split; [rewrite Hfst, app_assoc; reflexivity|]. split.
    + exact (drawn_app _ _ _ _ _ Hd1 _ _ _ Hd2).
    + apply Forall_app. split; assumption.
Qed.

Lemma rows_drawn rloc N ext rows : forall h st st' h',
  add_rows rloc N ext h st rows = Ok (st', h') ->
  exists added, fst st' = fst st ++ added /\ drawn N (snd st) (contents_of rows) added (snd st').
Proof.
  induction rows as [|rw more IH]; intros h st st' h' H; cbn [add_rows] in H.
  - inversion H; subst. exists []. rewrite app_nil_r. split; [reflexivity|constructor].
  - destruct (add_row_features rloc N ext h st (r_contents rw)) as [st1|k] eqn:E; cbn [bind] in H; [|discriminate].
    destruct (row_features_drawn _ _ _ _ _ _ _ E) as (a1 & Hf1 & Hd1 & _).
    destruct (IH _ _ _ _ H) as (a2 & Hf2 & Hd2).
    exists (a1 ++ a2). split; [rewrite Hf2, Hf1, app_assoc; reflexivity|].
    unfold contents_of. cbn [flat_map]. exact (drawn_app _ _ _ _ _ Hd1 _ _ _ Hd2).
Qed.

Lemma insert_by_perm {A} (lt : A -> A -> bool) x l : Permutation (insert_by lt x l) (x :: l).
Proof.
  induction l as [|y l IH]; cbn [insert_by]; [apply Permutation_refl|].
  destruct (lt x y); [apply Permutation_refl|].
  eapply Permutation_trans; [apply perm_skip; exact IH|apply perm_swap].
Qed.

Lemma sort_fold_perm {A} (lt : A -> A -> bool) l : forall acc,
  Permutation (fold_left (fun acc x => insert_by lt x acc) l acc) (acc ++ l).
Proof.
  induction l as [|x l IH]; intros acc; cbn [fold_left].
  - rewrite app_nil_r. apply Permutation_refl.
  - eapply Permutation_trans; [apply IH|].
    eapply Permutation_trans; [apply Permutation_app_tail; apply insert_by_perm|].
    cbn [app]. apply Permutation_middle.
Qed.

Lemma sort_by_perm {A} (lt : A -> A -> bool) l : Permutation (sort_by lt l) l.
Proof. unfold sort_by. exact (sort_fold_perm lt l []). Qed.

Lemma unique_perm rloc protos : Permutation (unique_protoclusters rloc protos) protos.
Proof.
  unfold unique_protoclusters. destruct (negb (bridges rloc)).
  - eapply Permutation_trans; apply sort_by_perm.
  - apply sort_by_perm.
Qed.

Lemma contents_of_app r1 r2 : contents_of (r1 ++ r2) = contents_of r1 ++ contents_of r2.
Proof. unfold contents_of. apply flat_map_app. Qed.

Definition drawn_candidates (subs cands : list feat) : list feat :=
  filter (fun c => nonempty subs || negb (fsingle c)) cands.

Lemma build_complete rloc N circ subs cands protos out :
  build_area_rows rloc N circ subs cands protos = Ok out ->
  exists fs g', Permutation fs (drawn_candidates subs cands ++ subs ++ protos) /\ drawn N 0 fs out g'.
Proof.
  intros H. unfold build_area_rows in H.
  destruct (pack subs (-1)) as [sub_rows|k] eqn:E1; cbn [bind] in H; [|discriminate].
  destruct (pack (filter (fun c => nonempty subs || negb (fsingle c)) cands) (-1)) as [cand_rows|k] eqn:E2;
    cbn [bind] in H; [|discriminate].
  destruct (pack (unique_protoclusters rloc protos) (-1)) as [proto_rows|k] eqn:E3; cbn [bind] in H; [|discriminate].
  destruct (add_rows rloc N (extend_over_origin rloc N circ) 0 ([], 0) (cand_rows ++ sub_rows)) as [[st height]|k] eqn:E4;
    cbn [bind] in H; [|discriminate].
  match type of H with (do r2 <- add_rows _ _ _ ?hh _ _; _) = _ =>
    destruct (add_rows rloc N (extend_over_origin rloc N circ) hh st proto_rows) as [[st2 h2]|k] eqn:E5 end;
    cbn [bind] in H; [|discriminate].
  inversion H; subst out. cbn [fst].
  destruct (rows_drawn _ _ _ _ _ _ _ _ E4) as (a1 & Hf1 & Hd1).
  destruct (rows_drawn _ _ _ _ _ _ _ _ E5) as (a2 & Hf2 & Hd2).
  cbn [fst snd app] in *.
  exists (contents_of (cand_rows ++ sub_rows) ++ contents_of proto_rows), (snd st2). split.
  - rewrite contents_of_app. rewrite <- app_assoc.
    apply Permutation_app; [exact (pack_complete _ _ _ E2)|].
    apply Permutation_app; [exact (pack_complete _ _ _ E1)|].
    eapply Permutation_trans; [exact (pack_complete _ _ _ E3)|apply unique_perm].
  - rewrite Hf2, Hf1. exact (drawn_app _ _ _ _ _ Hd1 _ _ _ Hd2).
Qed.

(* the decidable test of the harness (count_drawn) accepts every output of this shape and counts the
   features of each kind *)
Lemma count_kind_cons k f fs :
  count_kind k (f :: fs) = if fkind f =? k then count_kind k fs + 1 else count_kind k fs.
Proof.
  unfold count_kind. cbn [filter]. destruct (fkind f =? k); [|reflexivity].
  unfold zlen. cbn [length]. lia.
Qed.

Lemma drawn_count N k g fs out g' :
  drawn N g fs out g' -> 0 <= g -> count_drawn N k out = Some (count_kind k fs).
Proof.
  induction 1; intros Hg.
  - reflexivity.
  - cbn [count_drawn]. rewrite H. cbn [Z.eqb]. rewrite (IHdrawn Hg), count_kind_cons, H0. reflexivity.
  - cbn [count_drawn].
    assert (Hz : (a_group a =? 0) = false) by lia. rewrite Hz.
    assert (Hc : ((a_group e =? a_group a) && (a_kind e =? a_kind a) && (a_ne a =? N) && (a_ns e =? 0)) = true) by lia.
    rewrite Hc. rewrite IHdrawn by lia. rewrite count_kind_cons, H1. reflexivity.
Qed.

(* ---------- build_area_rows: areas of one row (same height) do not overlap ---------- *)
Definition ext (a : area) : Z * Z := (a_ns a, a_ne a).

(* what is drawn for a feature, in the coordinates of the region: an origin-crossing region is unrolled
   (positions after the origin shifted by N), a whole-record region shows an origin-crossing area as the two
   pieces [start, N) and [0, end) *)
Definition emitted_extents (rloc : loc) (N : Z) (f : feat) : list (Z * Z) :=
  if bridges rloc then
    if fcrosses f then [(fstart f, fend f + N)]
    else if contains [last_part rloc] (floc f) then [(fstart f + N, fend f + N)]
    else [(fstart f, fend f)]
  else if fcrosses f then [(fstart f, N); (0, fend f)] else [(fstart f, fend f)].

Lemma area_emitted N circ rloc f h conv grp st' :
  wf_region N rloc -> wf_feat_ring N f -> contains rloc (floc f) = true ->
  (bridges rloc = true \/ fcrosses f = true -> circ = true) ->
  add_area_from_feature rloc N (extend_over_origin rloc N circ) h (conv, grp) f = Ok st' ->
  exists added, fst st' = conv ++ added /\ map ext added = emitted_extents rloc N f.
Proof.
  intros Hr Hf Hcont Hguard H.
  pose proof (from_feature_facts f h) as F. cbv zeta in F.
  destruct F as (Fk & Fns & Fne & Fg & Fh & _ & Fnone & _).
  unfold add_area_from_feature in H. unfold emitted_extents, ext. unfold fcrosses, fstart, fend in *.
  destruct Hr as [(r & Er & Hr0 & Hr1 & Hr2)|(r1 & r2 & Er & Hs1 & Hs2 & Hr0 & Hr1 & Hr2 & Hr3 & Hr4 & Hr5)];
  destruct Hf as [(p & Ef & Hp0 & Hp1 & Hp2)|(p & q & Ef & Ht1 & Ht2 & Hp0 & Hp1 & Hp2 & Hp3 & Hp4 & Hp5)].
  - destruct (loc1_facts r) as (Rb & Rs & Re & Rls & Rle & Rlast).
    destruct (loc1_facts p) as (Pb & Ps & Pe & _).
    rewrite Er, Ef in *. rewrite Pb in H. rewrite Rb in H. rewrite andb_false_r in H.
    rewrite Rb, Pb.
    exists [from_feature f h]. split.
    + destruct (extend_over_origin [r] N circ && contains [last_part [r]] [p]); inversion H; reflexivity.
    + cbn [map]. rewrite Fns, Fne. reflexivity.
  - destruct (loc1_facts r) as (Rb & Rs & Re & Rls & Rle & Rlast).
    destruct (loc2_facts p q Ht1 Ht2 Hp3 Hp0) as (Pb & Ps & Pe & _).
    rewrite Er, Ef in *.
    unfold contains in Hcont. cbn [forallb existsb] in Hcont. unfold part_contains in Hcont.
    assert (Hc : circ = true) by (apply Hguard; right; assumption).
    assert (Hext : extend_over_origin [r] N circ = true).
    { unfold extend_over_origin. rewrite Hc, Rb, Rs, Re. clear - Hcont Hr0 Hr2 Hp2 Hp3. lia. }
    rewrite Hext, Pb in H. cbn [andb] in H.
    assert (Hac : area_crosses (from_feature f h) = true).
    { unfold area_crosses. rewrite Fns, Fne, Ps, Pe. clear - Hp5. lia. }
    rewrite Hac in H. cbn [negb] in H. rewrite Rb in H.
    destruct (adjust_cross_origin_area (from_feature f h) f false N (grp + 1)) as [[a' oe]|k] eqn:Eadj;
      cbn [bind] in H; [|discriminate].
    destruct (adjust_extents _ _ _ _ _ _ _ Fg Eadj) as (Hns & Hk & Hh & _ & Hfalse).
    destruct (Hfalse eq_refl) as (e & Hoe & Hne & Hens & Hene & Hek & Heh & _).
    subst oe. inversion H; subst st'. cbn [fst].
    exists [a'; e]. split; [reflexivity|].
    assert (Hene' : a_ne e = pe q).
    { rewrite Hene. destruct (proto_core f); [rewrite Fne, Pe; reflexivity|unfold fend; rewrite Ef; exact Pe]. }
    rewrite Rb, Pb. cbn [map]. rewrite Hns, Hne, Hens, Hene', Fns, Ps, Pe. reflexivity.
  - destruct (loc2_facts r1 r2 Hs1 Hs2 Hr3 Hr0) as (Rb & Rs & Re & Rlast & Rfirst).
    destruct (loc1_facts p) as (Pb & Ps & Pe & _).
    rewrite Er, Ef in *.
    assert (Hc : circ = true) by (apply Hguard; left; assumption).
    assert (Hext : extend_over_origin [r1; r2] N circ = true).
    { unfold extend_over_origin. rewrite Hc, Rb. reflexivity. }
    rewrite Hext, Pb, Rb, Rlast in H. cbn [andb] in H.
    rewrite Rb, Pb, Rlast.
    destruct (contains [r2] [p]) eqn:Hin2.
    + inversion H; subst st'. cbn [fst]. exists [area_offset (from_feature f h) N].
      split; [reflexivity|]. unfold area_offset. cbn [map a_ns a_ne]. rewrite Fns, Fne. reflexivity.
    + inversion H; subst st'. cbn [fst]. exists [from_feature f h].
      split; [reflexivity|]. cbn [map]. rewrite Fns, Fne. reflexivity.
  - destruct (loc2_facts r1 r2 Hs1 Hs2 Hr3 Hr0) as (Rb & Rs & Re & Rlast & Rfirst).
    destruct (loc2_facts p q Ht1 Ht2 Hp3 Hp0) as (Pb & Ps & Pe & _).
    rewrite Er, Ef in *.
    assert (Hc : circ = true) by (apply Hguard; left; assumption).
    assert (Hext : extend_over_origin [r1; r2] N circ = true).
    { unfold extend_over_origin. rewrite Hc, Rb. reflexivity. }
    rewrite Hext, Pb in H. cbn [andb] in H.
    assert (Hac : area_crosses (from_feature f h) = true).
    { unfold area_crosses. rewrite Fns, Fne, Ps, Pe. clear - Hp5. lia. }
    rewrite Hac in H. cbn [negb] in H. rewrite Rb in H.
    destruct (adjust_cross_origin_area (from_feature f h) f true N (grp + 1)) as [[a' oe]|k] eqn:Eadj;
      cbn [bind] in H; [|discriminate].
    destruct (adjust_extents _ _ _ _ _ _ _ Fg Eadj) as (Hns & Hk & Hh & Htrue & _).
    destruct (Htrue eq_refl) as (Hoe & _ & Hne).
    subst oe. inversion H; subst st'. cbn [fst].
    exists [a']. split; [reflexivity|].
    assert (Hne' : a_ne a' = pe q + N).
    { rewrite Hne. destruct (proto_core f) eqn:Ec; [rewrite Fne, Pe; reflexivity|].
      destruct (Fnone eq_refl) as (_ & He). rewrite He, Pe. reflexivity. }
    rewrite Rb, Pb. cbn [map]. rewrite Hns, Hne', Fns, Ps, Pe. reflexivity.
Qed.

Definition idisj (i j : Z * Z) : Prop := snd i <= fst j \/ snd j <= fst i.

Lemma idisj_sym i j : idisj i j -> idisj j i.
Proof. unfold idisj. tauto. Qed.

(* shape of the emitted extents, by the shape of the feature *)
Lemma emitted_single rloc N f p : floc f = [p] ->
  emitted_extents rloc N f =
    if bridges rloc then if contains [last_part rloc] [p] then [(ps p + N, pe p + N)] else [(ps p, pe p)]
    else [(ps p, pe p)].
Proof.
  intros E. destruct (single_facts f p E) as (Hc & Hs & He).
  unfold emitted_extents. rewrite Hc, Hs, He, E. reflexivity.
Qed.

Lemma emitted_double rloc N f p q : floc f = [p; q] -> pst p = 1 -> pst q = 1 -> ps q = 0 -> 0 < ps p ->
  emitted_extents rloc N f = if bridges rloc then [(ps p, pe q + N)] else [(ps p, N); (0, pe q)].
Proof.
  intros E H1 H2 H3 H4. destruct (double_facts f p q E H1 H2 H3 H4) as (Hc & Hs & He & _).
  unfold emitted_extents. rewrite Hc, Hs, He. reflexivity.
Qed.

(* two areas that do not overlap on the ring are drawn over disjoint stretches *)
Lemma pair_disjoint N circ rloc x y :
  wf_region N rloc -> feat_ok N circ rloc x -> feat_ok N circ rloc y -> apart x y ->
  forall i j, In i (emitted_extents rloc N x) -> In j (emitted_extents rloc N y) -> idisj i j.
Proof.
  intros Hr (Hx & Hcx & _) (Hy & Hcy & _) Hap i j Hi Hj.
  unfold apart, overlap in Hap. unfold contains in Hcx, Hcy.
  destruct Hr as [(r & Er & Hr0 & Hr1 & Hr2)|(r1 & r2 & Er & Hs1 & Hs2 & Hr0 & Hr1 & Hr2 & Hr3 & Hr4 & Hr5)].
  - destruct (loc1_facts r) as (Rb & _). subst rloc.
    destruct Hx as [(p & Ex & Hp0 & Hp1 & Hp2)|(p & q & Ex & Ht1 & Ht2 & Hp0 & Hp1 & Hp2 & Hp3 & Hp4 & Hp5)];
    destruct Hy as [(p' & Ey & Hq0 & Hq1 & Hq2)|(p' & q' & Ey & Hu1 & Hu2 & Hq0 & Hq1 & Hq2 & Hq3 & Hq4 & Hq5)].
    + rewrite (emitted_single _ _ _ _ Ex), Rb in Hi. rewrite (emitted_single _ _ _ _ Ey), Rb in Hj.
      rewrite Ex, Ey in Hap. cbn [existsb] in Hap. unfold part_overlap, in_part in Hap.
      destruct Hi as [Hi|[]]; destruct Hj as [Hj|[]]; subst i j. unfold idisj. cbn [fst snd].
      clear - Hap Hp1 Hq1. lia.
    + rewrite (emitted_single _ _ _ _ Ex), Rb in Hi. rewrite (emitted_double _ _ _ _ _ Ey Hu1 Hu2 Hq3 Hq0), Rb in Hj.
      rewrite Ex, Ey in Hap. cbn [existsb] in Hap. unfold part_overlap, in_part in Hap.
      destruct Hi as [Hi|[]]; destruct Hj as [Hj|[Hj|[]]]; subst i j; unfold idisj; cbn [fst snd];
        clear - Hap Hp1 Hq1 Hq2 Hq3 Hq4; lia.
    + rewrite (emitted_double _ _ _ _ _ Ex Ht1 Ht2 Hp3 Hp0), Rb in Hi. rewrite (emitted_single _ _ _ _ Ey), Rb in Hj.
      rewrite Ex, Ey in Hap. cbn [existsb] in Hap. unfold part_overlap, in_part in Hap.
      destruct Hi as [Hi|[Hi|[]]]; destruct Hj as [Hj|[]]; subst i j; unfold idisj; cbn [fst snd];
        clear - Hap Hq1 Hp1 Hp2 Hp3 Hp4; lia.
    + exfalso. rewrite Ex, Ey in Hap. cbn [existsb] in Hap. unfold part_overlap, in_part in Hap.
      clear - Hap Hp1 Hp2 Hq1 Hq2. lia.
  - destruct (loc2_facts r1 r2 Hs1 Hs2 Hr3 Hr0) as (Rb & _ & _ & Rlast & _). subst rloc.
    destruct Hx as [(p & Ex & Hp0 & Hp1 & Hp2)|(p & q & Ex & Ht1 & Ht2 & Hp0 & Hp1 & Hp2 & Hp3 & Hp4 & Hp5)];
    destruct Hy as [(p' & Ey & Hq0 & Hq1 & Hq2)|(p' & q' & Ey & Hu1 & Hu2 & Hq0 & Hq1 & Hq2 & Hq3 & Hq4 & Hq5)].
    + rewrite (emitted_single _ _ _ _ Ex), Rb, Rlast in Hi. rewrite (emitted_single _ _ _ _ Ey), Rb, Rlast in Hj.
      rewrite Ex, Ey in *. cbn [existsb forallb] in Hap, Hcx, Hcy. unfold contains in Hi, Hj. cbn [existsb forallb] in Hi, Hj.
      unfold part_overlap, in_part in Hap. unfold part_contains in *.
      destruct ((ps r2 <=? ps p) && (ps p <=? pe p) && (pe p <=? pe r2) || false) eqn:B1;
      destruct ((ps r2 <=? ps p') && (ps p' <=? pe p') && (pe p' <=? pe r2) || false) eqn:B2; cbn [andb] in Hi, Hj;
      destruct Hi as [Hi|[]]; destruct Hj as [Hj|[]]; subst i j; unfold idisj; cbn [fst snd];
        clear - Hap Hcx Hcy B1 B2 Hp0 Hp1 Hp2 Hq0 Hq1 Hq2 Hr0 Hr1 Hr2 Hr3 Hr4 Hr5; lia.
    + rewrite (emitted_single _ _ _ _ Ex), Rb, Rlast in Hi. rewrite (emitted_double _ _ _ _ _ Ey Hu1 Hu2 Hq3 Hq0), Rb in Hj.
      rewrite Ex, Ey in *. cbn [existsb forallb] in Hap, Hcx. unfold contains in Hi. cbn [existsb forallb] in Hi.
      unfold part_overlap, in_part in Hap. unfold part_contains in *.
      destruct ((ps r2 <=? ps p) && (ps p <=? pe p) && (pe p <=? pe r2) || false) eqn:B1; cbn [andb] in Hi;
      destruct Hi as [Hi|[]]; destruct Hj as [Hj|[]]; subst i j; unfold idisj; cbn [fst snd];
        clear - Hap Hcx B1 Hp0 Hp1 Hp2 Hq0 Hq1 Hq2 Hq3 Hq4 Hq5 Hr0 Hr1 Hr2 Hr3 Hr4 Hr5; lia.
    + rewrite (emitted_double _ _ _ _ _ Ex Ht1 Ht2 Hp3 Hp0), Rb in Hi. rewrite (emitted_single _ _ _ _ Ey), Rb, Rlast in Hj.
      rewrite Ex, Ey in *. cbn [existsb forallb] in Hap, Hcy. unfold contains in Hj. cbn [existsb forallb] in Hj.
      unfold part_overlap, in_part in Hap. unfold part_contains in *.
      destruct ((ps r2 <=? ps p') && (ps p' <=? pe p') && (pe p' <=? pe r2) || false) eqn:B2; cbn [andb] in Hj;
      destruct Hi as [Hi|[]]; destruct Hj as [Hj|[]]; subst i j; unfold idisj; cbn [fst snd];
        clear - Hap Hcy B2 Hq0 Hq1 Hq2 Hp0 Hp1 Hp2 Hp3 Hp4 Hp5 Hr0 Hr1 Hr2 Hr3 Hr4 Hr5; lia.
    + exfalso. rewrite Ex, Ey in Hap. cbn [existsb] in Hap. unfold part_overlap, in_part in Hap.
      clear - Hap Hp1 Hp2 Hq1 Hq2. lia.
Qed.

(* the two halves of one split area are disjoint *)
Lemma self_disjoint N circ rloc x :
  wf_region N rloc -> feat_ok N circ rloc x -> ForallOrdPairs idisj (emitted_extents rloc N x).
Proof.
  intros Hr (Hx & _).
  destruct Hx as [(p & Ex & Hp0 & Hp1 & Hp2)|(p & q & Ex & Ht1 & Ht2 & Hp0 & Hp1 & Hp2 & Hp3 & Hp4 & Hp5)].
  - rewrite (emitted_single _ _ _ _ Ex).
    destruct (bridges rloc); [destruct (contains [last_part rloc] [p])|]; repeat constructor.
  - rewrite (emitted_double _ _ _ _ _ Ex Ht1 Ht2 Hp3 Hp0).
    destruct (bridges rloc); [repeat constructor|].
    constructor; [|repeat constructor].
    constructor; [|constructor]. unfold idisj. cbn [fst snd]. lia.
Qed.

Lemma FOP_app {A} (R : A -> A -> Prop) l1 l2 :
  ForallOrdPairs R l1 -> ForallOrdPairs R l2 -> (forall a b, In a l1 -> In b l2 -> R a b) ->
  ForallOrdPairs R (l1 ++ l2).
Proof.
  induction l1 as [|x l1 IH]; intros H1 H2 H12; cbn [app]; [exact H2|].
  inversion H1 as [|x' l' Hx Hl]; subst. constructor.
  - apply Forall_app. split; [exact Hx|]. apply Forall_forall. intros b Hb. apply H12; [left; reflexivity|exact Hb].
  - apply IH; [exact Hl|exact H2|]. intros a b Ha Hb. apply H12; [right; exact Ha|exact Hb].
Qed.

Lemma FOP_map {A B} (R : B -> B -> Prop) (f : A -> B) l :
  ForallOrdPairs R (map f l) -> ForallOrdPairs (fun a b => R (f a) (f b)) l.
Proof.
  induction l as [|x l IH]; cbn [map]; intros H; [constructor|].
  inversion H as [|x' l' Hx Hl]; subst. constructor; [|apply IH; exact Hl].
  apply Forall_forall. intros b Hb. rewrite Forall_forall in Hx. apply Hx. apply in_map. exact Hb.
Qed.

Lemma row_extents_disjoint N circ rloc fs :
  wf_region N rloc -> Forall (feat_ok N circ rloc) fs -> ForallOrdPairs apart fs ->
  ForallOrdPairs idisj (flat_map (emitted_extents rloc N) fs).
Proof.
  intros Hr Hok Hap. induction Hap as [|x l Hx Hl IH]; cbn [flat_map]; [constructor|].
  inversion Hok as [|x' l' Hokx Hokl]; subst.
  apply FOP_app; [exact (self_disjoint N circ rloc x Hr Hokx)|exact (IH Hokl)|].
  intros a b Ha Hb. apply in_flat_map in Hb. destruct Hb as (y & Hy & Hb).
  rewrite Forall_forall in Hx, Hokl.
  exact (pair_disjoint N circ rloc x y Hr Hokx (Hokl y Hy) (Hx y Hy) a b Ha Hb).
Qed.

Definition adisj (a b : area) : Prop := a_ne a <= a_ns b \/ a_ne b <= a_ns a.

Lemma row_features_emitted N circ rloc h fs : forall st st',
  wf_region N rloc -> Forall (feat_ok N circ rloc) fs ->
  add_row_features rloc N (extend_over_origin rloc N circ) h st fs = Ok st' ->
  exists added, fst st' = fst st ++ added /\ map ext added = flat_map (emitted_extents rloc N) fs.
Proof.
  induction fs as [|f more IH]; intros st st' Hr Hfs H; cbn [add_row_features] in H.
  - inversion H; subst. exists []. rewrite app_nil_r. split; reflexivity.
  - inversion Hfs as [|f0 m0 (Hwf & Hcont & Hg) Hm]; subst.
    destruct (add_area_from_feature rloc N (extend_over_origin rloc N circ) h st f) as [st1|k] eqn:E;
      cbn [bind] in H; [|discriminate].
    destruct st as [conv grp].
    destruct (area_emitted N circ rloc f h conv grp st1 Hr Hwf Hcont Hg E) as (a1 & Hf1 & He1).
    destruct (IH _ _ Hr Hm H) as (a2 & Hf2 & He2). cbn [fst] in *.
    exists (a1 ++ a2). split; [rewrite Hf2, Hf1, app_assoc; reflexivity|].
    rewrite map_app, He1, He2. reflexivity.
Qed.

(* one row: all at height h, pairwise disjoint *)
Lemma row_features_disjoint N circ rloc h fs st st' :
  wf_region N rloc -> Forall (feat_ok N circ rloc) fs -> ForallOrdPairs apart fs ->
  add_row_features rloc N (extend_over_origin rloc N circ) h st fs = Ok st' ->
  exists added, fst st' = fst st ++ added /\ Forall (fun a => a_height a = h) added /\
                ForallOrdPairs adisj added.
Proof.
  intros Hr Hok Hap H.
  destruct (row_features_emitted N circ rloc h fs st st' Hr Hok H) as (a1 & Hf1 & He1).
  destruct (row_features_drawn _ _ _ _ _ _ _ H) as (a2 & Hf2 & _ & Hh2).
  assert (a1 = a2) by (rewrite Hf1 in Hf2; exact (app_inv_head _ _ _ Hf2)). subst a2.
  exists a1. split; [exact Hf1|]. split; [exact Hh2|].
  pose proof (row_extents_disjoint N circ rloc fs Hr Hok Hap) as Hd. rewrite <- He1 in Hd.
  apply FOP_map in Hd. exact Hd.
Qed.

Definition same_row_disjoint (a b : area) : Prop := a_height a = a_height b -> adisj a b.

Definition row_good (N : Z) (circ : bool) (rloc : loc) (rw : row) : Prop :=
  Forall (feat_ok N circ rloc) (r_contents rw) /\ ForallOrdPairs apart (r_contents rw).

Lemma add_rows_disjoint N circ rloc rows : forall h st st' h',
  wf_region N rloc -> Forall (row_good N circ rloc) rows ->
  ForallOrdPairs same_row_disjoint (fst st) -> Forall (fun a => a_height a < h) (fst st) ->
  add_rows rloc N (extend_over_origin rloc N circ) h st rows = Ok (st', h') ->
  ForallOrdPairs same_row_disjoint (fst st') /\ Forall (fun a => a_height a < h') (fst st') /\ h <= h'.
Proof.
  induction rows as [|rw more IH]; intros h st st' h' Hr Hrows Hd Hlt H; cbn [add_rows] in H.
  - inversion H; subst. split; [exact Hd|]. split; [exact Hlt|lia].
  - inversion Hrows as [|r0 m0 (Hok & Hap) Hm]; subst.
    destruct (add_row_features rloc N (extend_over_origin rloc N circ) h st (r_contents rw)) as [st1|k] eqn:E;
      cbn [bind] in H; [|discriminate].
    destruct (row_features_disjoint N circ rloc h _ st st1 Hr Hok Hap E) as (added & Hf & Hh & Hdis).
    assert (Hd1 : ForallOrdPairs same_row_disjoint (fst st1)).
    { rewrite Hf. apply FOP_app; [exact Hd| |].
      - clear - Hdis. induction Hdis as [|x l Hx Hl IHl]; constructor; [|exact IHl].
        eapply Forall_impl; [|exact Hx]. intros b Hb _. exact Hb.
      - intros a b Ha Hb Heq. exfalso. rewrite Forall_forall in Hlt, Hh.
        specialize (Hlt a Ha). specialize (Hh b Hb). lia. }
    assert (Hlt1 : Forall (fun a => a_height a < h + 2) (fst st1)).
    { rewrite Hf. apply Forall_app. split.
      - eapply Forall_impl; [|exact Hlt]. cbn beta. intros; lia.
      - eapply Forall_impl; [|exact Hh]. cbn beta. intros; lia. }
    destruct (IH _ _ _ _ Hr Hm Hd1 Hlt1 H) as (R1 & R2 & R3).
    split; [exact R1|]. split; [exact R2|lia].
Qed.

Lemma wf_ring_wf_feat N f : wf_feat_ring N f -> wf_feat f.
Proof.
  unfold wf_feat. intros [(p & E & H0 & H1 & H2)|(p & q & E & H1 & H2 & H3 & H4 & H5 & H6 & H7 & H8)]; rewrite E.
  - lia.
  - repeat split; try assumption; lia.
Qed.

Lemma rows_good N circ rloc areas len rows :
  Forall (feat_ok N circ rloc) areas -> pack areas len = Ok rows -> Forall (row_good N circ rloc) rows.
Proof.
  intros Hall H.
  assert (Hwf : Forall wf_feat areas).
  { eapply Forall_impl; [|exact Hall]. intros a (Ha & _). exact (wf_ring_wf_feat N a Ha). }
  pose proof (pack_no_overlap areas len rows Hwf H) as Hno.
  pose proof (rows_feat_ok N circ rloc areas len rows Hall H) as Hok.
  rewrite Forall_forall in *. intros r Hr. split; [exact (Hok r Hr)|].
  specialize (Hno r Hr). clear - Hno.
  induction Hno as [|x l Hx Hl IH]; constructor; [|exact IH].
  eapply Forall_impl; [|exact Hx]. intros y (Hy & _). exact Hy.
Qed.

(* at the observation point: two areas returned by build_area_rows with the same height (= drawn on the
   same row) have disjoint extents *)
Lemma build_rows_disjoint N circ rloc subs cands protos out :
  wf_region N rloc ->
  Forall (feat_ok N circ rloc) subs -> Forall (feat_ok N circ rloc) cands -> Forall (feat_ok N circ rloc) protos ->
  build_area_rows rloc N circ subs cands protos = Ok out ->
  ForallOrdPairs (fun a b => a_height a = a_height b -> a_ne a <= a_ns b \/ a_ne b <= a_ns a) out.
Proof.
  intros Hr Hs Hc Hp H. unfold build_area_rows in H.
  destruct (pack subs (-1)) as [sub_rows|k] eqn:E1; cbn [bind] in H; [|discriminate].
  destruct (pack (filter (fun c => nonempty subs || negb (fsingle c)) cands) (-1)) as [cand_rows|k] eqn:E2;
    cbn [bind] in H; [|discriminate].
  destruct (pack (unique_protoclusters rloc protos) (-1)) as [proto_rows|k] eqn:E3; cbn [bind] in H; [|discriminate].
  assert (H1 : Forall (row_good N circ rloc) sub_rows) by (eapply rows_good; [exact Hs|exact E1]).
  assert (H2 : Forall (row_good N circ rloc) cand_rows).
  { eapply rows_good; [|exact E2]. apply Forall_forall. intros x Hx. apply filter_In in Hx.
    rewrite Forall_forall in Hc. apply Hc. tauto. }
  assert (H3 : Forall (row_good N circ rloc) proto_rows).
  { eapply rows_good; [|exact E3]. apply Forall_forall. intros x Hx. apply unique_in in Hx.
    rewrite Forall_forall in Hp. apply Hp. exact Hx. }
  destruct (add_rows rloc N (extend_over_origin rloc N circ) 0 ([], 0) (cand_rows ++ sub_rows)) as [[st height]|k] eqn:E4;
    cbn [bind] in H; [|discriminate].
  destruct (add_rows_disjoint N circ rloc (cand_rows ++ sub_rows) 0 ([], 0) st height Hr
              (proj2 (Forall_app _ _ _) (conj H2 H1)) (FOP_nil _) (Forall_nil _) E4) as (D1 & L1 & _).
  match type of H with (do r2 <- add_rows _ _ _ ?hh _ _; _) = _ =>
    destruct (add_rows rloc N (extend_over_origin rloc N circ) hh st proto_rows) as [[st2 h2]|k] eqn:E5 end;
    cbn [bind] in H; [|discriminate].
  inversion H; subst out. cbn [fst].
  assert (L1' : Forall (fun a => a_height a < match fst st with [] => height + 1 | _ :: _ => height end) (fst st)).
  { eapply Forall_impl; [|exact L1]. cbn beta. intros a Ha. destruct (fst st); lia. }
  destruct (add_rows_disjoint N circ rloc _ _ _ _ _ Hr H3 D1 L1' E5) as (D2 & _ & _).
  exact D2.
Qed.

(* the decidable form used by the harness *)
Lemma pairwise_FOP {A} (ok : A -> A -> bool) l :
  ForallOrdPairs (fun a b => ok a b = true) l -> pairwise ok l = true.
Proof.
  induction 1 as [|x l Hx Hl IH]; cbn [pairwise]; [reflexivity|].
  rewrite IH, andb_true_r. apply forallb_forall. rewrite Forall_forall in Hx. exact Hx.
Qed.

Lemma build_rows_disjoint_bool N circ rloc subs cands protos out :
  wf_region N rloc ->
  Forall (feat_ok N circ rloc) subs -> Forall (feat_ok N circ rloc) cands -> Forall (feat_ok N circ rloc) protos ->
  build_area_rows rloc N circ subs cands protos = Ok out ->
  pairwise extents_disjoint out = true.
Proof.
  intros Hr Hs Hc Hp H. apply pairwise_FOP.
  pose proof (build_rows_disjoint N circ rloc subs cands protos out Hr Hs Hc Hp H) as Hd.
  clear - Hd. induction Hd as [|x l Hx Hl IH]; constructor; [|exact IH].
  eapply Forall_impl; [|exact Hx]. cbn beta. intros b Hb. unfold extents_disjoint.
  destruct (a_height x =? a_height b) eqn:E; [|reflexivity].
  assert (Heq : a_height x = a_height b) by lia. specialize (Hb Heq). clear - Hb. lia.
Qed.

(* ---------- genes of convert_cds_features ---------- *)
(* a gene on a record of length N inside the region: non-empty, every exon a non-empty interval of the
   record, every exon inside a part of the region.  Nothing is asked of the order of the exons (the former
   clause "a gene that crosses the origin has an exon ending at N and one starting at 0" excluded the finding
   class gene_long_way_round, repaired in the code) *)
Definition wf_gene (N : Z) (rloc g : loc) : Prop :=
  g <> [] /\ Forall (fun p => 0 <= ps p /\ ps p < pe p /\ pe p <= N) g /\ contains rloc g = true.
(* an origin-crossing gene of the ordinary kind: an exon ends at N and one starts at 0 *)
Definition touches_origin (N : Z) (g : loc) : Prop :=
  (exists p, In p g /\ pe p = N) /\ (exists q, In q g /\ ps q = 0).
(* the genes that are drawn as one arrow in an origin-crossing region (the former guard gene_guard of the finding
   gene_across_region_gap, now only a case distinction): a gene that does not cross the origin lies in one of the
   two parts of the region, a gene that does has its first exon before and its last exon after the origin *)
Definition gene_ordinary (rloc g : loc) : bool :=
  negb (bridges rloc) ||
  (if bridges g then contains [first_part rloc] [start_part g] && contains [last_part rloc] [end_part g]
   else contains [first_part rloc] g || contains [last_part rloc] g).
Definition unroll (s N x : Z) : Z := if x <? s then x + N else x.

(* ---------- first / last part ---------- *)
Fixpoint lastd (p : part) (t : list part) : part :=
  match t with [] => p | q :: t' => lastd q t' end.

Lemma last_part_cons2 p q t : last_part (p :: q :: t) = last_part (q :: t).
Proof.
  unfold last_part, last_opt. cbn [rev]. destruct (rev t); reflexivity.
Qed.

Lemma last_part_lastd t : forall p, last_part (p :: t) = lastd p t.
Proof.
  induction t as [|q t IH]; intros p.
  - reflexivity.
  - rewrite last_part_cons2. cbn [lastd]. apply IH.
Qed.

Lemma last_part_in g : g <> [] -> In (last_part g) g.
Proof.
  intros H. unfold last_part, last_opt. destruct (rev g) eqn:E.
  - apply (f_equal (@rev _)) in E. rewrite rev_involutive in E. cbn in E. congruence.
  - apply in_rev. rewrite E. left; reflexivity.
Qed.

Lemma first_part_in g : g <> [] -> In (first_part g) g.
Proof. destruct g; [congruence|]. intros _. left; reflexivity. Qed.

Lemma start_part_in g : g <> [] -> In (start_part g) g.
Proof. intros H. unfold start_part. destruct (_ =? _); auto using last_part_in, first_part_in. Qed.
Lemma end_part_in g : g <> [] -> In (end_part g) g.
Proof. intros H. unfold end_part. destruct (_ =? _); auto using last_part_in, first_part_in. Qed.

Lemma fstart_start_part g : loc_fstart g = ps (start_part g).
Proof. unfold loc_fstart, start_part. destruct (_ =? _); reflexivity. Qed.
Lemma fend_end_part g : loc_fend g = pe (end_part g).
Proof. unfold loc_fend, end_part. destruct (_ =? _); reflexivity. Qed.

(* ---------- order of the exon starts of a gene that does not cross the origin ---------- *)
Lemma asc_last t : forall p, check_order 1 (p :: t) = false -> ps p <= ps (lastd p t).
Proof.
  induction t as [|q t IH]; intros p H.
  - cbn. lia.
  - cbn [check_order] in H. apply orb_false_iff in H. destruct H as [H1 H2].
    specialize (IH q H2). cbn [lastd]. cbn in H1. clear - H1 IH. lia.
Qed.

Lemma desc_last t : forall p, check_order (-1) (p :: t) = false -> ps (lastd p t) <= ps p.
Proof.
  induction t as [|q t IH]; intros p H.
  - cbn. lia.
  - cbn [check_order] in H. apply orb_false_iff in H. destruct H as [H1 H2].
    specialize (IH q H2). cbn [lastd]. cbn in H1. clear - H1 IH. lia.
Qed.

Lemma sorted_last t : forall p, sorted_le (map ps (p :: t)) = true -> ps p <= ps (lastd p t).
Proof.
  induction t as [|q t IH]; intros p H.
  - cbn. lia.
  - cbn [map sorted_le] in H. apply andb_true_iff in H. destruct H as [H1 H2].
    specialize (IH q H2). cbn [lastd]. clear - H1 IH. lia.
Qed.

Lemma nb_order g : g <> [] -> bridges g = false -> ps (start_part g) <= ps (end_part g).
Proof.
  destruct g as [|p t]; [congruence|]. intros _ H.
  unfold start_part, end_part. rewrite last_part_lastd. cbn [first_part].
  destruct t as [|q t].
  - cbn [lastd]. destruct (_ =? _); lia.
  - unfold bridges in H. cbn [is_compound] in H. cbv zeta in H.
    destruct (lstrand (p :: q :: t) =? -1) eqn:E1.
    + assert (E : lstrand (p :: q :: t) = -1) by (clear - E1; lia).
      rewrite E in H. cbn [Z.eqb orb] in H. apply desc_last; exact H.
    + destruct (lstrand (p :: q :: t) =? 1) eqn:E2.
      * assert (E : lstrand (p :: q :: t) = 1) by (clear - E2; lia).
        rewrite E in H. cbn [Z.eqb Pos.eqb orb] in H. apply asc_last; exact H.
      * cbn [orb] in H. apply negb_false_iff in H. apply sorted_last; exact H.
Qed.

(* ---------- containment in a one-part location ---------- *)
Lemma contains1 r g : contains [r] g = true ->
  forall p, In p g -> ps r <= ps p /\ pe p <= pe r.
Proof.
  unfold contains. rewrite forallb_forall. intros H p Hp. specialize (H p Hp).
  cbn [existsb] in H. unfold part_contains in H. clear - H. lia.
Qed.

Lemma contains1_single r p : contains [r] [p] = true -> ps r <= ps p /\ pe p <= pe r.
Proof. intros H. apply (contains1 r [p] H). left; reflexivity. Qed.

Lemma wf_gene_part N rloc g p : wf_gene N rloc g -> In p g -> 0 <= ps p /\ ps p < pe p /\ pe p <= N.
Proof. intros (_ & H & _) Hp. rewrite Forall_forall in H. apply H; exact Hp. Qed.

(* start <= end for a gene that does not cross the origin *)
Lemma nb_start_le_end N rloc g : wf_gene N rloc g -> bridges g = false -> loc_fstart g < loc_fend g.
Proof.
  intros W Hb. pose proof W as (Hne & _).
  pose proof (nb_order g Hne Hb) as Ho.
  pose proof (wf_gene_part N rloc g _ W (end_part_in g Hne)) as He.
  rewrite fstart_start_part, fend_end_part. clear - Ho He. lia.
Qed.

(* ---------- the shifted coordinates of the model are the unrolled positions ---------- *)
Lemma unroll_start s N x : (if x <? s then x + 1 + N else x + 1) = unroll s N x + 1.
Proof. unfold unroll. destruct (x <? s); lia. Qed.
Lemma unroll_end s N y : (if y <=? s then y + N else y) = unroll s N (y - 1) + 1.
Proof. unfold unroll. destruct (y <=? s) eqn:A; destruct (y - 1 <? s) eqn:B; lia. Qed.

(* ---------- region that does not cross the origin ---------- *)
Lemma unwrapped_bridging_gene_whole_record N r g :
  0 <= ps r -> pe r <= N -> wf_gene N [r] g -> touches_origin N g -> ps r = 0 /\ pe r = N.
Proof.
  intros Hr0 HrN W Hx. destruct W as (_ & _ & Hc).
  destruct Hx as ((p & Hp & HpN) & (q & Hq & Hq0)).
  pose proof (contains1 r g Hc p Hp). pose proof (contains1 r g Hc q Hq).
  clear - Hr0 HrN HpN Hq0 H H0. lia.
Qed.

Lemma genes_unwrapped_region N r g grp more :
  0 <= ps r -> ps r < pe r -> pe r <= N -> wf_gene N [r] g ->
  (bridges g = false ->
     convert_cds_features [r] N grp (g :: more) =
       mkOrf (loc_fstart g + 1) (loc_fend g) (strand_or_1 (lstrand g)) 0
       :: convert_cds_features [r] N grp more) /\
  (bridges g = true ->
     convert_cds_features [r] N grp (g :: more) =
       mkOrf (loc_fstart g + 1) (pe r) (if lstrand g =? -1 then strand_or_1 (lstrand g) else 0) (grp + 1)
       :: mkOrf (ps r + 1) (loc_fend g) (if lstrand g =? -1 then 0 else strand_or_1 (lstrand g)) (grp + 1)
       :: convert_cds_features [r] N (grp + 1) more /\
     (0 <= grp -> grp + 1 <> 0) /\
     (touches_origin N g -> ps r = 0 /\ pe r = N)).
Proof.
  intros Hr0 Hr1 HrN W. destruct (loc1_facts r) as (Rb & Rs & Re & _).
  split; intros Hb.
  - pose proof (nb_start_le_end N _ g W Hb) as Hlt.
    assert (E : (loc_fend g <? loc_fstart g + 1) = false) by (clear - Hlt; lia).
    cbn [convert_cds_features]. rewrite Rb, Hb. cbn [negb andb orb]. rewrite E. reflexivity.
  - split; [|split].
    + cbn [convert_cds_features]. rewrite Rb, Hb, Rs, Re. reflexivity.
    + intros. lia.
    + intros Hx. exact (unwrapped_bridging_gene_whole_record N r g Hr0 HrN W Hx).
Qed.

(* ---------- region that crosses the origin ---------- *)
Lemma contains2 r1 r2 g : contains [r1; r2] g = true ->
  forall p, In p g -> (ps r1 <= ps p /\ pe p <= pe r1) \/ (ps r2 <= ps p /\ pe p <= pe r2).
Proof.
  unfold contains. rewrite forallb_forall. intros H p Hp. specialize (H p Hp).
  cbn [existsb] in H. unfold part_contains in H. clear - H. lia.
Qed.

(* every gene: one arrow between the unrolled positions of its first and last base, or - when these are not
   in order, the gene leaving the region at one end and returning at the other - two linked halves reaching the
   ends of the region; all of it inside the announced range *)
Lemma wrapped_gene N r1 r2 g grp more :
  pst r1 = 1 -> pst r2 = 1 -> 0 < ps r1 -> ps r1 < N -> pe r1 = N -> ps r2 = 0 -> 0 < pe r2 ->
  pe r2 <= ps r1 ->
  wf_gene N [r1; r2] g ->
  let a := unroll (ps r1) N (loc_fstart g) + 1 in
  let b := unroll (ps r1) N (loc_fend g - 1) + 1 in
  convert_cds_features [r1; r2] N grp (g :: more) =
    (if b <? a then
       mkOrf a (pe r2 + N) (if lstrand g =? -1 then strand_or_1 (lstrand g) else 0) (grp + 1)
       :: mkOrf (ps r1 + 1) b (if lstrand g =? -1 then 0 else strand_or_1 (lstrand g)) (grp + 1)
       :: convert_cds_features [r1; r2] N (grp + 1) more
     else mkOrf a b (strand_or_1 (lstrand g)) 0 :: convert_cds_features [r1; r2] N grp more) /\
  ps r1 + 1 <= a /\ a <= N + pe r2 /\ ps r1 <= b /\ b <= N + pe r2.
Proof.
  intros Hs1 Hs2 Hr0 HrN Hr1 Hr3 Hr4 Hr5 W.
  destruct (loc2_facts r1 r2 Hs1 Hs2 Hr3 Hr0) as (Rb & Rs & Re & Rlast & Rfirst).
  pose proof W as (Hne & _ & Hc).
  pose proof (wf_gene_part N _ g _ W (start_part_in g Hne)) as Psp.
  pose proof (wf_gene_part N _ g _ W (end_part_in g Hne)) as Pep.
  pose proof (contains2 r1 r2 g Hc _ (start_part_in g Hne)) as Csp.
  pose proof (contains2 r1 r2 g Hc _ (end_part_in g Hne)) as Cep.
  cbv zeta. split.
  - cbn [convert_cds_features]. rewrite Rb, Rs, Re. cbn [negb]. rewrite andb_false_r. cbn [orb].
    rewrite unroll_start, unroll_end. reflexivity.
  - rewrite fstart_start_part, fend_end_part. unfold unroll.
    destruct (ps (start_part g) <? ps r1) eqn:E1; destruct (pe (end_part g) - 1 <? ps r1) eqn:E2;
      clear - Psp Pep Csp Cep Hr0 HrN Hr1 Hr3 Hr4 Hr5 E1 E2; lia.
Qed.

(* the same statement phrased with wf_region and bridges as hypotheses *)
Lemma genes_shifted N rloc g grp more :
  wf_region N rloc -> bridges rloc = true -> wf_gene N rloc g ->
  let a := unroll (loc_fstart rloc) N (loc_fstart g) + 1 in
  let b := unroll (loc_fstart rloc) N (loc_fend g - 1) + 1 in
  convert_cds_features rloc N grp (g :: more) =
    (if b <? a then
       mkOrf a (loc_fend rloc + N) (if lstrand g =? -1 then strand_or_1 (lstrand g) else 0) (grp + 1)
       :: mkOrf (loc_fstart rloc + 1) b (if lstrand g =? -1 then 0 else strand_or_1 (lstrand g)) (grp + 1)
       :: convert_cds_features rloc N (grp + 1) more
     else mkOrf a b (strand_or_1 (lstrand g)) 0 :: convert_cds_features rloc N grp more) /\
  (0 <= grp -> grp + 1 <> 0).
Proof.
  intros [(r & -> & _) | (r1 & r2 & -> & Hs1 & Hs2 & Hr0 & HrN & Hr1 & Hr3 & Hr4 & Hr5)] Hb W.
  - destruct (loc1_facts r) as (Rb & _). congruence.
  - destruct (loc2_facts r1 r2 Hs1 Hs2 Hr3 Hr0) as (_ & Rs & Re & _). rewrite Rs, Re.
    split; [|intros; lia].
    exact (proj1 (wrapped_gene N r1 r2 g grp more Hs1 Hs2 Hr0 HrN Hr1 Hr3 Hr4 Hr5 W)).
Qed.

(* a gene of the ordinary kind is never split in an origin-crossing region *)
Lemma ordinary_gene_in_order N r1 r2 g :
  pst r1 = 1 -> pst r2 = 1 -> 0 < ps r1 -> ps r1 < N -> pe r1 = N -> ps r2 = 0 -> 0 < pe r2 ->
  pe r2 <= ps r1 ->
  wf_gene N [r1; r2] g -> (bridges g = true -> touches_origin N g) -> gene_ordinary [r1; r2] g = true ->
  (unroll (ps r1) N (loc_fend g - 1) + 1 <? unroll (ps r1) N (loc_fstart g) + 1) = false.
Proof.
  intros Hs1 Hs2 Hr0 HrN Hr1 Hr3 Hr4 Hr5 W Hx G.
  destruct (loc2_facts r1 r2 Hs1 Hs2 Hr3 Hr0) as (Rb & Rs & Re & Rlast & Rfirst).
  pose proof W as (Hne & _ & _).
  pose proof (wf_gene_part N _ g _ W (start_part_in g Hne)) as Psp.
  pose proof (wf_gene_part N _ g _ W (end_part_in g Hne)) as Pep.
  unfold gene_ordinary in G. rewrite Rb, Rlast, Rfirst in G. cbn [negb orb] in G.
  rewrite !fstart_start_part, !fend_end_part. unfold unroll.
  destruct (bridges g) eqn:Hb.
  - (* the gene crosses the origin *)
    apply andb_true_iff in G. destruct G as [G1 G2].
    apply contains1_single in G1. apply contains1_single in G2.
    assert (E1 : (ps (start_part g) <? ps r1) = false) by (clear - G1; lia).
    assert (E2 : (pe (end_part g) - 1 <? ps r1) = true) by (clear - G2 Hr5; lia).
    rewrite E1, E2. clear - Psp Pep G1 G2 Hr5 HrN Hr0 Hr1. lia.
  - pose proof (nb_order g Hne Hb) as Ho.
    apply orb_true_iff in G. destruct G as [G | G].
    + (* before the origin *)
      pose proof (contains1 r1 g G _ (start_part_in g Hne)) as Csp.
      pose proof (contains1 r1 g G _ (end_part_in g Hne)) as Cep.
      assert (E1 : (ps (start_part g) <? ps r1) = false) by (clear - Csp; lia).
      assert (E2 : (pe (end_part g) - 1 <? ps r1) = false) by (clear - Cep Pep; lia).
      rewrite E1, E2. clear - Psp Pep Ho. lia.
    + (* after the origin *)
      pose proof (contains1 r2 g G _ (start_part_in g Hne)) as Csp.
      pose proof (contains1 r2 g G _ (end_part_in g Hne)) as Cep.
      assert (E1 : (ps (start_part g) <? ps r1) = true) by (clear - Psp Csp Hr5; lia).
      assert (E2 : (pe (end_part g) - 1 <? ps r1) = true) by (clear - Cep Hr5; lia).
      rewrite E1, E2. clear - Psp Pep Ho. lia.
Qed.

(* on the genes of the ordinary kind the repaired code emits what the code emitted before: every gene once,
   between the unrolled positions of its first and last base *)
Lemma genes_unrolled N rloc genes grp :
  wf_region N rloc -> Forall (wf_gene N rloc) genes ->
  Forall (fun g => bridges g = true -> touches_origin N g) genes ->
  Forall (fun g => gene_ordinary rloc g = true) genes ->
  bridges rloc = true ->
  convert_cds_features rloc N grp genes =
    map (fun g => mkOrf (unroll (loc_fstart rloc) N (loc_fstart g) + 1)
                        (unroll (loc_fstart rloc) N (loc_fend g - 1) + 1)
                        (strand_or_1 (lstrand g)) 0) genes.
Proof.
  intros [(r & -> & _) | (r1 & r2 & -> & Hs1 & Hs2 & Hr0 & HrN & Hr1 & Hr3 & Hr4 & Hr5)] HW HX HG Hb.
  - destruct (loc1_facts r) as (Rb & _). congruence.
  - destruct (loc2_facts r1 r2 Hs1 Hs2 Hr3 Hr0) as (_ & Rs & _). rewrite Rs.
    induction genes as [|g more IH].
    + reflexivity.
    + pose proof (Forall_inv HW) as W; pose proof (Forall_inv_tail HW) as HW'.
      pose proof (Forall_inv HX) as X; pose proof (Forall_inv_tail HX) as HX'.
      pose proof (Forall_inv HG) as G; pose proof (Forall_inv_tail HG) as HG'.
      destruct (wrapped_gene N r1 r2 g grp more Hs1 Hs2 Hr0 HrN Hr1 Hr3 Hr4 Hr5 W) as (E & _).
      cbv zeta in E. rewrite E.
      rewrite (ordinary_gene_in_order N r1 r2 g Hs1 Hs2 Hr0 HrN Hr1 Hr3 Hr4 Hr5 W X G).
      cbn [map]. f_equal. apply IH; assumption.
Qed.

Lemma spec_orfs_cons se w o l :
  spec_orfs se w (o :: l) =
  ((if w then fst se + 1 else fst se) <=? o_start o) && (o_start o <=? o_end o + 1) && (o_end o <=? snd se)
  && spec_orfs se w l.
Proof. reflexivity. Qed.

Lemma genes_in_range N rloc genes se :
  wf_region N rloc -> Forall (wf_gene N rloc) genes ->
  region_range rloc N = Ok se ->
  forall grp, spec_orfs se (bridges rloc) (convert_cds_features rloc N grp genes) = true.
Proof.
  intros [(r & -> & Hr0 & Hr1 & HrN) | (r1 & r2 & -> & Hs1 & Hs2 & Hr0 & HrN & Hr1 & Hr3 & Hr4 & Hr5)]
         HW HR.
  - destruct (loc1_facts r) as (Rb & _ & _ & Rls & Rle & _).
    unfold region_range in HR. rewrite Rb, Rls, Rle in HR. inversion HR; subst se; clear HR.
    rewrite Rb.
    induction genes as [|g more IH]; intros grp.
    + reflexivity.
    + pose proof (Forall_inv HW) as W; pose proof (Forall_inv_tail HW) as HW'.
      destruct (genes_unwrapped_region N r g grp more Hr0 Hr1 HrN W) as (Hnb & Hbr).
      pose proof W as (Hne & _ & Hc).
      pose proof (wf_gene_part N _ g _ W (start_part_in g Hne)) as Psp.
      pose proof (wf_gene_part N _ g _ W (end_part_in g Hne)) as Pep.
      pose proof (contains1 r g Hc _ (start_part_in g Hne)) as Csp.
      pose proof (contains1 r g Hc _ (end_part_in g Hne)) as Cep.
      destruct (bridges g) eqn:Hb.
      * destruct (Hbr eq_refl) as (E & _). rewrite E.
        rewrite !spec_orfs_cons, (IH HW' (grp + 1)). cbn [o_start o_end fst snd]. rewrite fstart_start_part, fend_end_part.
        clear - Psp Pep Csp Cep. lia.
      * rewrite (Hnb eq_refl).
        pose proof (nb_start_le_end N _ g W Hb) as Hlt.
        rewrite !spec_orfs_cons, (IH HW' grp). cbn [o_start o_end fst snd]. rewrite fstart_start_part, fend_end_part in *.
        clear - Hlt Csp Cep. lia.
  - destruct (loc2_facts r1 r2 Hs1 Hs2 Hr3 Hr0) as (Rb & Rs & Re & Rlast & Rfirst).
    unfold region_range in HR. rewrite Rb, Rs, Rlast, Hr3 in HR. cbn in HR.
    inversion HR; subst se; clear HR. rewrite Rb.
    induction genes as [|g more IH]; intros grp.
    + reflexivity.
    + pose proof (Forall_inv HW) as W; pose proof (Forall_inv_tail HW) as HW'.
      destruct (wrapped_gene N r1 r2 g grp more Hs1 Hs2 Hr0 HrN Hr1 Hr3 Hr4 Hr5 W) as (E & B1 & B2 & B3 & B4).
      cbv zeta in E. rewrite E.
      destruct (_ <? _) eqn:Hsplit.
      * rewrite !spec_orfs_cons, (IH HW' (grp + 1)). cbn [o_start o_end fst snd]. clear - B1 B2 B3 B4 Hr0. lia.
      * rewrite spec_orfs_cons, (IH HW' grp). cbn [o_start o_end fst snd]. clear - B1 B2 B3 B4 Hsplit. lia.
Qed.

(* a well-formed region that does not cross the origin has one part *)
Lemma unwrapped_region_one_part N rloc :
  wf_region N rloc -> bridges rloc = false ->
  exists r, rloc = [r] /\ 0 <= ps r /\ ps r < pe r /\ pe r <= N.
Proof.
  intros [H | (r1 & r2 & -> & Hs1 & Hs2 & Hr0 & _ & _ & Hr3 & _)] Hb; [exact H|].
  destruct (loc2_facts r1 r2 Hs1 Hs2 Hr3 Hr0) as (Rb & _). congruence.
Qed.

(* ---------- inputs of the non-vacuity examples of Theorems.v ---------- *)
Definition ex_s0 := mkFeat 0 K_Sub [mkPart 0 100 1] None false 1.
Definition ex_s1 := mkFeat 1 K_Sub [mkPart 40 960 1] None false 2.
Definition ex_s2 := mkFeat 2 K_Sub [mkPart 300 600 1] None false 3.
Definition ex_s3 := mkFeat 3 K_Sub [mkPart 900 1000 1; mkPart 0 50 1] None false 4.
Definition ex_p0 := mkFeat 0 K_Proto [mkPart 950 1000 1; mkPart 0 80 1] (Some [mkPart 10 30 1]) false 7.
Definition ex_whole : loc := [mkPart 0 1000 1].

Definition ex_N := 1000.
Definition ex_rloc : loc := [mkPart 800 1000 1; mkPart 0 300 1].
Definition ex_genes : list loc :=
  [ [mkPart 850 900 1]; [mkPart 10 40 (-1)]; [mkPart 990 1000 1; mkPart 0 20 1];
    [mkPart 0 15 (-1); mkPart 980 1000 (-1)] ].

Ltac wf_gene_tac :=
  unfold ex_N, ex_rloc; split; [discriminate|]; split; [repeat (apply Forall_cons; [cbn; lia|]); apply Forall_nil|reflexivity].

(* ====================================================================================================== *)
(* third pass: Region.get_unique_protoclusters as a whole (set by identity, then the sort), and
   "every protocluster, candidate cluster and sub-region is drawn exactly once, or as exactly two halves
   that are linked pairwise", by identity *)

(* ---------- the set of protoclusters: de-duplication by identity ---------- *)
Lemma dedupe_fid_incl l : forall x, In x (dedupe_fid l) -> In x l.
Proof.
  induction l as [|f rest IH]; intros x H; cbn [dedupe_fid] in H; [contradiction|].
  destruct H as [H|H]; [left; exact H|]. apply filter_In in H. right. apply IH. apply H.
Qed.

Lemma dedupe_fid_covers l : forall x, In x l -> In (fid x) (map fid (dedupe_fid l)).
Proof.
  induction l as [|f rest IH]; intros x H; [contradiction|]. cbn [dedupe_fid map].
  destruct (Z.eq_dec (fid x) (fid f)) as [E|E]; [left; symmetry; exact E|].
  destruct H as [H|H]; [subst; exfalso; apply E; reflexivity|].
  right. specialize (IH x H). apply in_map_iff in IH. destruct IH as (y & Ey & Hy).
  apply in_map_iff. exists y. split; [exact Ey|]. apply filter_In. split; [exact Hy|].
  rewrite Ey. apply negb_true_iff. apply Z.eqb_neq. exact E.
Qed.

Lemma NoDup_map_filter {A B} (g : A -> B) p l : NoDup (map g l) -> NoDup (map g (filter p l)).
Proof.
  induction l as [|a l IH]; cbn [map filter]; intros H; [constructor|].
  inversion H as [|x xs Hn Hd]; subst. destruct (p a); cbn [map]; [|apply IH; exact Hd].
  constructor; [|apply IH; exact Hd].
  intros Hin. apply Hn. apply in_map_iff in Hin. destruct Hin as (y & Ey & Hy).
  apply in_map_iff. exists y. split; [exact Ey|]. apply filter_In in Hy. apply Hy.
Qed.

Lemma dedupe_fid_nodup l : NoDup (map fid (dedupe_fid l)).
Proof.
  induction l as [|f rest IH]; cbn [dedupe_fid map]; constructor.
  - intros Hin. apply in_map_iff in Hin. destruct Hin as (y & Ey & Hy). apply filter_In in Hy.
    destruct Hy as [_ Hy]. rewrite Ey, Z.eqb_refl in Hy. discriminate.
  - apply NoDup_map_filter. exact IH.
Qed.

(* an object that occurs once stays where it is: nothing is lost, nothing is invented *)
Lemma filter_all {A} (p : A -> bool) l : (forall x, In x l -> p x = true) -> filter p l = l.
Proof.
  induction l as [|a l IH]; intros H; [reflexivity|]. cbn [filter].
  rewrite (H a (or_introl eq_refl)). f_equal. apply IH. intros x Hx. apply H. right. exact Hx.
Qed.

Lemma dedupe_fid_id l : NoDup (map fid l) -> dedupe_fid l = l.
Proof.
  induction l as [|f rest IH]; intros H; [reflexivity|]. cbn [dedupe_fid]. cbn [map] in H.
  inversion H as [|x xs Hn Hd]; subst. rewrite (IH Hd). f_equal.
  apply filter_all. intros y Hy. apply negb_true_iff. apply Z.eqb_neq.
  intros E. apply Hn. rewrite <- E. apply in_map. exact Hy.
Qed.

Lemma proto_set_perm order members : Permutation (proto_set order members) (dedupe_fid members).
Proof. unfold proto_set. apply sort_by_perm. Qed.

Lemma get_unique_perm rloc order members :
  Permutation (get_unique_protoclusters rloc order members) (dedupe_fid members).
Proof.
  unfold get_unique_protoclusters. eapply Permutation_trans; [apply unique_perm|apply proto_set_perm].
Qed.

Lemma get_unique_by_identity rloc order members :
  let u := get_unique_protoclusters rloc order members in
  NoDup (map fid u) /\ (forall x, In x u -> In x members) /\ (forall x, In x members -> In (fid x) (map fid u)).
Proof.
  cbv zeta. pose proof (get_unique_perm rloc order members) as P. split; [|split].
  - eapply Permutation_NoDup; [apply Permutation_map; apply Permutation_sym; exact P|apply dedupe_fid_nodup].
  - intros x Hx. apply dedupe_fid_incl. eapply Permutation_in; [exact P|exact Hx].
  - intros x Hx. eapply Permutation_in; [apply Permutation_map; apply Permutation_sym; exact P|].
    apply dedupe_fid_covers. exact Hx.
Qed.

(* ---------- the identity of the feature is carried into the area(s) drawn for it ---------- *)
Definition tagged (f : feat) (a : area) : Prop := a_kind a = fkind f /\ area_tag a = feat_tag f.

(* b keeps what identifies a: kind, tool, and - for a candidate cluster - the product string *)
Definition tag_pres (a b : area) : Prop :=
  a_kind b = a_kind a /\ a_tool b = a_tool a /\ (a_kind a = K_Cand -> a_prod b = a_prod a).

Lemma tag_pres_tagged f a b : tag_pres a b -> tagged f a -> tagged f b.
Proof.
  intros (Hk & Ht & Hp) (Ka & Ta). unfold tagged, area_tag in *. split; [congruence|].
  rewrite Hk. destruct (a_kind a =? K_Cand) eqn:E.
  - rewrite Hp; [exact Ta|]. apply Z.eqb_eq. exact E.
  - rewrite Ht. exact Ta.
Qed.

Lemma from_feature_tagged f h : tagged f (from_feature f h).
Proof.
  unfold tagged, area_tag, feat_tag, ftool.
  assert (H : forall s e ns ne, let a := mkArea (fkind f) s e ns ne h 0 (fprod f) (if fkind f =? K_Cand then 0 else fid f) in
              a_kind a = fkind f /\ (if a_kind a =? K_Cand then a_prod a else a_tool a) = (if fkind f =? K_Cand then fprod f else fid f)).
  { intros. cbn. split; [reflexivity|]. destruct (fkind f =? K_Cand); reflexivity. }
  unfold from_feature, ftool. destruct (fcore f); [destruct (fkind f =? K_Proto)|]; apply H.
Qed.

Lemma tagged_offset f a d : tagged f a -> tagged f (area_offset a d).
Proof. intros H. exact H. Qed.

Lemma adjust_pres a f rc L g a' oe :
  a_kind a = fkind f ->
  adjust_cross_origin_area a f rc L g = Ok (a', oe) ->
  tag_pres a a' /\ (forall e, oe = Some e -> tag_pres a e).
Proof.
  intros Hk H. unfold adjust_cross_origin_area in H.
  destruct (negb (fcrosses f && area_crosses a)); [discriminate|].
  assert (Hwg : tag_pres a (with_group a g)).
  { unfold with_group, tag_pres. destruct (a_group a =? 0); cbn; auto. }
  destruct Hwg as (W1 & W2 & W3).
  destruct (proto_core f) as [core|] eqn:EP.
  - assert (Hp : a_kind a <> K_Cand).
    { unfold proto_core in EP. destruct (fkind f =? K_Proto) eqn:K; [|discriminate].
      apply Z.eqb_eq in K. unfold K_Proto, K_Cand in *. lia. }
    destruct (loc_fend core <=? loc_fstart core); [|destruct (fstart f <=? loc_fstart core)];
      destruct rc; inversion H; subst; (split; [|intros e He; inversion He; subst]);
      unfold tag_pres; cbn; repeat split; auto; intros; contradiction.
  - destruct rc; inversion H; subst; (split; [|intros e He; inversion He; subst]);
      unfold tag_pres; cbn; repeat split; auto; intros; discriminate.
Qed.

(* drawn_id: the relation `drawn` with the identity of the feature on every area *)
Inductive drawn_id (N : Z) : Z -> list feat -> list area -> Z -> Prop :=
| drawn_id_nil g : drawn_id N g [] [] g
| drawn_id_one g f a fs out g' :
    a_group a = 0 -> tagged f a ->
    drawn_id N g fs out g' -> drawn_id N g (f :: fs) (a :: out) g'
| drawn_id_two g f a e fs out g' :
    a_group a = g + 1 -> a_group e = g + 1 -> tagged f a -> tagged f e ->
    a_height e = a_height a -> a_ne a = N -> a_ns e = 0 ->
    drawn_id N (g + 1) fs out g' -> drawn_id N g (f :: fs) (a :: e :: out) g'.

Lemma drawn_id_drawn N g fs out g' : drawn_id N g fs out g' -> drawn N g fs out g'.
Proof.
  induction 1.
  - constructor.
  - apply drawn_one; [assumption|apply H0|assumption].
  - apply drawn_two; try assumption; [apply H1|apply H2].
Qed.

Lemma drawn_id_app N g fs out g1 : drawn_id N g fs out g1 ->
  forall fs' out' g2, drawn_id N g1 fs' out' g2 -> drawn_id N g (fs ++ fs') (out ++ out') g2.
Proof.
  induction 1; intros fs' out' g2 H'; cbn [app].
  - exact H'.
  - apply drawn_id_one; auto.
  - apply drawn_id_two; auto.
Qed.

Lemma area_drawn_id rloc N ext h conv grp f st' :
  add_area_from_feature rloc N ext h (conv, grp) f = Ok st' ->
  exists added grp', st' = (conv ++ added, grp') /\ drawn_id N grp [f] added grp'.
Proof.
  intros H.
  pose proof (from_feature_facts f h) as F. cbv zeta in F.
  destruct F as (Fk & Fns & Fne & Fg & Fh & _).
  pose proof (from_feature_tagged f h) as Ft.
  unfold add_area_from_feature in H.
  destruct (ext && fcrosses f).
  - destruct (negb (area_crosses (from_feature f h))); [discriminate|].
    destruct (adjust_cross_origin_area (from_feature f h) f (bridges rloc) N (grp + 1)) as [[a' oe]|k] eqn:Eadj;
      cbn [bind] in H; [|discriminate].
    destruct (adjust_extents _ _ _ _ _ _ _ Fg Eadj) as (Hns & Hk & Hh & Htrue & Hfalse).
    destruct (adjust_pres _ _ _ _ _ _ _ Fk Eadj) as (Pa & Pe).
    destruct (bridges rloc).
    + destruct (Htrue eq_refl) as (Hoe & Hgr & _). subst oe. inversion H; subst st'.
      exists [a'], grp. split; [reflexivity|].
      apply drawn_id_one; [assumption|exact (tag_pres_tagged _ _ _ Pa Ft)|constructor].
    + destruct (Hfalse eq_refl) as (e & Hoe & Hne & Hens & _ & Hek & Heh & Hga & Hge). subst oe.
      inversion H; subst st'.
      exists [a'; e], (grp + 1). split; [reflexivity|].
      apply drawn_id_two; try congruence;
        [exact (tag_pres_tagged _ _ _ Pa Ft)|exact (tag_pres_tagged _ _ _ (Pe e eq_refl) Ft)|constructor].
  - assert (Hd : forall a, a_group a = 0 -> tagged f a ->
                  exists added grp', (conv ++ [a], grp) = (conv ++ added, grp') /\ drawn_id N grp [f] added grp').
    { intros a H1 H2. exists [a], grp. split; [reflexivity|].
      apply drawn_id_one; [assumption|assumption|constructor]. }
    destruct (ext && contains [last_part rloc] (floc f)).
    + destruct (bridges rloc); inversion H; subst st'; apply Hd; try assumption;
        apply tagged_offset; assumption.
    + inversion H; subst st'; apply Hd; assumption.
Qed.

Lemma row_features_drawn_id rloc N ext h fs : forall st st',
  add_row_features rloc N ext h st fs = Ok st' ->
  exists added, fst st' = fst st ++ added /\ drawn_id N (snd st) fs added (snd st').
Proof.
  induction fs as [|f more IH]; intros st st' H; cbn [add_row_features] in H.
  - inversion H; subst. exists []. rewrite app_nil_r. split; [reflexivity|constructor].
  - destruct (add_area_from_feature rloc N ext h st f) as [st1|k] eqn:E; cbn [bind] in H; [|discriminate].
    destruct st as [conv grp].
    destruct (area_drawn_id _ _ _ _ _ _ _ _ E) as (a1 & g1 & Hst1 & Hd1). subst st1.
    destruct (IH _ _ H) as (a2 & Hfst & Hd2). cbn [fst snd] in *.
    exists (a1 ++ a2). split; [rewrite Hfst, app_assoc; reflexivity|].
    exact (drawn_id_app _ _ _ _ _ Hd1 _ _ _ Hd2).
Qed.

Lemma rows_drawn_id rloc N ext rows : forall h st st' h',
  add_rows rloc N ext h st rows = Ok (st', h') ->
  exists added, fst st' = fst st ++ added /\ drawn_id N (snd st) (contents_of rows) added (snd st').
Proof.
  induction rows as [|rw more IH]; intros h st st' h' H; cbn [add_rows] in H.
  - inversion H; subst. exists []. rewrite app_nil_r. split; [reflexivity|constructor].
  - destruct (add_row_features rloc N ext h st (r_contents rw)) as [st1|k] eqn:E; cbn [bind] in H; [|discriminate].
    destruct (row_features_drawn_id _ _ _ _ _ _ _ E) as (a1 & Hf1 & Hd1).
    destruct (IH _ _ _ _ H) as (a2 & Hf2 & Hd2).
    exists (a1 ++ a2). split; [rewrite Hf2, Hf1, app_assoc; reflexivity|].
    unfold contents_of. cbn [flat_map]. exact (drawn_id_app _ _ _ _ _ Hd1 _ _ _ Hd2).
Qed.

Lemma build_complete_id rloc N circ subs cands protos out :
  build_area_rows rloc N circ subs cands protos = Ok out ->
  exists fs g', Permutation fs (drawn_candidates subs cands ++ subs ++ protos) /\ drawn_id N 0 fs out g'.
Proof.
  intros H. unfold build_area_rows in H.
  destruct (pack subs (-1)) as [sub_rows|k] eqn:E1; cbn [bind] in H; [|discriminate].
  destruct (pack (filter (fun c => nonempty subs || negb (fsingle c)) cands) (-1)) as [cand_rows|k] eqn:E2;
    cbn [bind] in H; [|discriminate].
  destruct (pack (unique_protoclusters rloc protos) (-1)) as [proto_rows|k] eqn:E3; cbn [bind] in H; [|discriminate].
  destruct (add_rows rloc N (extend_over_origin rloc N circ) 0 ([], 0) (cand_rows ++ sub_rows)) as [[st height]|k] eqn:E4;
    cbn [bind] in H; [|discriminate].
  match type of H with (do r2 <- add_rows _ _ _ ?hh _ _; _) = _ =>
    destruct (add_rows rloc N (extend_over_origin rloc N circ) hh st proto_rows) as [[st2 h2]|k] eqn:E5 end;
    cbn [bind] in H; [|discriminate].
  inversion H; subst out. cbn [fst].
  destruct (rows_drawn_id _ _ _ _ _ _ _ _ E4) as (a1 & Hf1 & Hd1).
  destruct (rows_drawn_id _ _ _ _ _ _ _ _ E5) as (a2 & Hf2 & Hd2).
  cbn [fst snd app] in *.
  exists (contents_of (cand_rows ++ sub_rows) ++ contents_of proto_rows), (snd st2). split.
  - rewrite contents_of_app. rewrite <- app_assoc.
    apply Permutation_app; [exact (pack_complete _ _ _ E2)|].
    apply Permutation_app; [exact (pack_complete _ _ _ E1)|].
    eapply Permutation_trans; [exact (pack_complete _ _ _ E3)|apply unique_perm].
  - rewrite Hf2, Hf1. exact (drawn_id_app _ _ _ _ _ Hd1 _ _ _ Hd2).
Qed.

(* build_area_rows on the Region: what is drawn is, object by object, the drawn candidate clusters, the
   sub-regions and the protoclusters of the candidate clusters, each object ONCE *)
Lemma region_complete rloc N circ subs cands order members out :
  build_area_rows_region rloc N circ subs cands order members = Ok out ->
  exists fs g', Permutation fs (expected_features subs cands members) /\ drawn_id N 0 fs out g'.
Proof.
  intros H. unfold build_area_rows_region in H.
  destruct (build_complete_id _ _ _ _ _ _ _ H) as (fs & g' & P & D).
  exists fs, g'. split; [|exact D].
  eapply Permutation_trans; [exact P|]. unfold expected_features, drawn_candidates.
  apply Permutation_app_head. apply Permutation_app_head. apply proto_set_perm.
Qed.

(* ---------- the decidable test by identity accepts every output of this shape ---------- *)
Definition fkey (f : feat) : Z * Z := (fkind f, feat_tag f).

Lemma same_key_true f a : tagged f a -> same_key f a = true.
Proof. intros (Hk & Ht). unfold same_key. rewrite Hk, Ht, !Z.eqb_refl. reflexivity. Qed.

Lemma same_key_other f f' a : tagged f a -> fkey f' <> fkey f -> same_key f' a = false.
Proof.
  intros (Hk & Ht) Hne. unfold same_key. rewrite Hk, Ht.
  destruct (fkind f =? fkind f') eqn:E1; [|reflexivity].
  destruct (feat_tag f =? feat_tag f') eqn:E2; [|reflexivity].
  exfalso. apply Hne. unfold fkey. apply Z.eqb_eq in E1. apply Z.eqb_eq in E2. congruence.
Qed.

Lemma not_in_key f f0 fs : ~ In (fkey f) (map fkey (f0 :: fs)) -> fkey f <> fkey f0 /\ ~ In (fkey f) (map fkey fs).
Proof. cbn [map In]. intros H. split; [intros E; apply H; left; symmetry; exact E|intros E; apply H; right; exact E]. Qed.

Lemma occ_absent N g fs out g' f :
  drawn_id N g fs out g' -> ~ In (fkey f) (map fkey fs) -> occurrences f out = [].
Proof.
  induction 1; intros Hn.
  - reflexivity.
  - destruct (not_in_key _ _ _ Hn) as (Hne & Hn'). unfold occurrences in *. cbn [filter].
    rewrite (same_key_other _ _ _ H0 Hne). apply IHdrawn_id. exact Hn'.
  - destruct (not_in_key _ _ _ Hn) as (Hne & Hn'). unfold occurrences in *. cbn [filter].
    rewrite (same_key_other _ _ _ H1 Hne), (same_key_other _ _ _ H2 Hne). apply IHdrawn_id. exact Hn'.
Qed.

Lemma drawn_id_mono N g fs out g' : drawn_id N g fs out g' -> g <= g'.
Proof. intros H. exact (drawn_mono _ _ _ _ _ (drawn_id_drawn _ _ _ _ _ H)). Qed.

Lemma groups_range N g fs out g' :
  drawn_id N g fs out g' -> forall a, In a out -> a_group a = 0 \/ (g < a_group a /\ a_group a <= g').
Proof.
  induction 1; intros x Hx.
  - contradiction.
  - destruct Hx as [<-|Hx]; [left; assumption|apply IHdrawn_id; exact Hx].
  - pose proof (drawn_id_mono _ _ _ _ _ H6) as Hm.
    destruct Hx as [<-|[<-|Hx]]; [right; lia|right; lia|].
    destruct (IHdrawn_id x Hx) as [Hz|Hr]; [left; exact Hz|right; lia].
Qed.

Lemma group_size_cons g a out :
  group_size g (a :: out) = (if a_group a =? g then 1 else 0) + group_size g out.
Proof.
  unfold group_size. cbn [filter]. destruct (a_group a =? g); [|lia].
  unfold zlen. cbn [length]. lia.
Qed.

Lemma group_size_none x out : (forall a, In a out -> a_group a <> x) -> group_size x out = 0.
Proof.
  induction out as [|a out IH]; intros H; [reflexivity|]. rewrite group_size_cons.
  assert (E : (a_group a =? x) = false) by (apply Z.eqb_neq; apply H; left; reflexivity).
  rewrite E. rewrite IH; [reflexivity|]. intros b Hb. apply H. right. exact Hb.
Qed.

Lemma groups_linked_pairwise N g fs out g' :
  drawn_id N g fs out g' -> 0 <= g ->
  forall a, In a out -> a_group a <> 0 -> group_size (a_group a) out = 2.
Proof.
  induction 1; intros Hg x Hx Hnz.
  - contradiction.
  - destruct Hx as [<-|Hx]; [contradiction|].
    rewrite group_size_cons. assert (E : (a_group a =? a_group x) = false) by lia. rewrite E.
    rewrite (IHdrawn_id Hg x Hx Hnz). reflexivity.
  - assert (Hfresh : group_size (g + 1) out = 0).
    { apply group_size_none. intros b Hb. destruct (groups_range _ _ _ _ _ H6 b Hb); lia. }
    rewrite !group_size_cons.
    destruct Hx as [<-|[<-|Hx]].
    + rewrite H, H0, Z.eqb_refl, Hfresh. reflexivity.
    + rewrite H, H0, Z.eqb_refl, Hfresh. reflexivity.
    + assert (Hgt : g + 1 < a_group x) by (destruct (groups_range _ _ _ _ _ H6 x Hx); lia).
      assert (E1 : (a_group a =? a_group x) = false) by lia.
      assert (E2 : (a_group e =? a_group x) = false) by lia.
      rewrite E1, E2. rewrite (IHdrawn_id ltac:(lia) x Hx Hnz). reflexivity.
Qed.

Lemma drawn_groups_pairwise N g fs out g' :
  drawn_id N g fs out g' -> 0 <= g -> groups_pairwise out = true.
Proof.
  intros H Hg. unfold groups_pairwise. apply forallb_forall. intros a Ha.
  destruct (a_group a =? 0) eqn:E; [reflexivity|]. cbn [orb].
  rewrite (groups_linked_pairwise _ _ _ _ _ H Hg a Ha); [reflexivity|]. apply Z.eqb_neq. exact E.
Qed.

Lemma drawn_once_same N out out' f :
  occurrences f out' = occurrences f out -> drawn_once_ok N out' f = drawn_once_ok N out f.
Proof. intros E. unfold drawn_once_ok. rewrite E. reflexivity. Qed.

Lemma key_in_map f fs : In f fs -> In (fkey f) (map fkey fs).
Proof. apply in_map. Qed.

Lemma drawn_each_once N g fs out g' :
  drawn_id N g fs out g' -> 0 <= g -> NoDup (map fkey fs) ->
  forall f, In f fs -> drawn_once_ok N out f = true.
Proof.
  induction 1; intros Hg Hnd x Hx.
  - contradiction.
  - cbn [map] in Hnd. inversion Hnd as [|k ks Hnotin Hnd']; subst k ks.
    destruct Hx as [<-|Hx].
    + unfold drawn_once_ok, occurrences. cbn [filter]. rewrite (same_key_true _ _ H0).
      pose proof (occ_absent _ _ _ _ _ f H1 Hnotin) as Ho. unfold occurrences in Ho. rewrite Ho. lia.
    + assert (Hne : fkey x <> fkey f).
      { intros E. apply Hnotin. rewrite <- E. apply key_in_map. exact Hx. }
      rewrite (drawn_once_same N out (a :: out) x).
      * apply IHdrawn_id; assumption.
      * unfold occurrences. cbn [filter]. rewrite (same_key_other _ _ _ H0 Hne). reflexivity.
  - cbn [map] in Hnd. inversion Hnd as [|k ks Hnotin Hnd']; subst k ks.
    destruct Hx as [<-|Hx].
    + unfold drawn_once_ok, occurrences. cbn [filter]. rewrite (same_key_true _ _ H1), (same_key_true _ _ H2).
      pose proof (occ_absent _ _ _ _ _ f H6 Hnotin) as Ho. unfold occurrences in Ho. rewrite Ho. lia.
    + assert (Hne : fkey x <> fkey f).
      { intros E. apply Hnotin. rewrite <- E. apply key_in_map. exact Hx. }
      rewrite (drawn_once_same N out (a :: e :: out) x).
      * apply IHdrawn_id; [lia|assumption|assumption].
      * unfold occurrences. cbn [filter].
        rewrite (same_key_other _ _ _ H1 Hne), (same_key_other _ _ _ H2 Hne). reflexivity.
Qed.

Lemma drawn_nothing_else N g fs out g' :
  drawn_id N g fs out g' -> forall a, In a out -> exists f, In f fs /\ tagged f a.
Proof.
  induction 1; intros x Hx.
  - contradiction.
  - destruct Hx as [<-|Hx]; [exists f; split; [left; reflexivity|assumption]|].
    destruct (IHdrawn_id x Hx) as (f' & Hf & Ht). exists f'. split; [right; exact Hf|exact Ht].
  - destruct Hx as [<-|[<-|Hx]]; [exists f; split; [left; reflexivity|assumption]|
                                   exists f; split; [left; reflexivity|assumption]|].
    destruct (IHdrawn_id x Hx) as (f' & Hf & Ht). exists f'. split; [right; exact Hf|exact Ht].
Qed.

Lemma drawn_identity_ok N g fs out g' expected :
  drawn_id N g fs out g' -> 0 <= g -> Permutation fs expected -> NoDup (map fkey expected) ->
  identity_ok N expected out = true.
Proof.
  intros H Hg P Hnd. unfold identity_ok. apply andb_true_iff. split.
  - apply forallb_forall. intros f Hf.
    apply (drawn_each_once _ _ _ _ _ H Hg).
    + eapply Permutation_NoDup; [apply Permutation_map; apply Permutation_sym; exact P|exact Hnd].
    + eapply Permutation_in; [apply Permutation_sym; exact P|exact Hf].
  - apply forallb_forall. intros a Ha.
    destruct (drawn_nothing_else _ _ _ _ _ H a Ha) as (f & Hf & Ht).
    apply existsb_exists. exists f. split; [eapply Permutation_in; [exact P|exact Hf]|].
    apply same_key_true. exact Ht.
Qed.

(* ---------- identities of the objects of a region are distinct ---------- *)
Definition ids_wf (subs cands members : list feat) : Prop :=
  Forall (fun f => fkind f = K_Sub) subs /\ Forall (fun f => fkind f = K_Cand) cands /\
  Forall (fun f => fkind f = K_Proto) members /\ NoDup (map fid subs) /\ NoDup (map fprod cands).

Lemma NoDup_map_weaken {A B C} (g : A -> B) (h : A -> C) l :
  (forall x y, In x l -> In y l -> h x = h y -> g x = g y) -> NoDup (map g l) -> NoDup (map h l).
Proof.
  induction l as [|a l IH]; cbn [map]; intros Hinj H; [constructor|].
  inversion H as [|x xs Hn Hd]; subst. constructor.
  - intros Hin. apply Hn. apply in_map_iff in Hin. destruct Hin as (y & Ey & Hy).
    apply in_map_iff. exists y. split; [|exact Hy]. apply Hinj; [right; exact Hy|left; reflexivity|exact Ey].
  - apply IH; [|exact Hd]. intros x y Hx Hy. apply Hinj; right; assumption.
Qed.

Lemma NoDup_app_disjoint {A} (l1 l2 : list A) :
  NoDup l1 -> NoDup l2 -> (forall x, In x l1 -> ~ In x l2) -> NoDup (l1 ++ l2).
Proof.
  induction l1 as [|a l1 IH]; cbn [app]; intros H1 H2 Hd; [exact H2|].
  inversion H1 as [|x xs Hn Hd1]; subst. constructor.
  - intros Hin. apply in_app_or in Hin. destruct Hin as [Hin|Hin]; [exact (Hn Hin)|].
    exact (Hd a (or_introl eq_refl) Hin).
  - apply IH; [exact Hd1|exact H2|]. intros x Hx. apply Hd. right. exact Hx.
Qed.

Lemma key_kind k l x : Forall (fun f => fkind f = k) l -> In x (map fkey l) -> fst x = k.
Proof.
  intros HF Hin. apply in_map_iff in Hin. destruct Hin as (f & <- & Hf).
  rewrite Forall_forall in HF. exact (HF f Hf).
Qed.

Lemma Forall_sub {A} (P : A -> Prop) l l' : (forall x, In x l' -> In x l) -> Forall P l -> Forall P l'.
Proof. intros Hin H. rewrite Forall_forall in *. intros x Hx. apply H. apply Hin. exact Hx. Qed.

Lemma expected_nodup subs cands members :
  ids_wf subs cands members -> NoDup (map fkey (expected_features subs cands members)).
Proof.
  intros (Hs & Hc & Hm & Ns & Nc). unfold expected_features.
  set (inc := filter (fun c => nonempty subs || negb (fsingle c)) cands).
  assert (Hc' : Forall (fun f => fkind f = K_Cand) inc).
  { apply (Forall_sub _ cands); [|exact Hc]. intros x Hx. apply filter_In in Hx. apply Hx. }
  assert (Hm' : Forall (fun f => fkind f = K_Proto) (dedupe_fid members)).
  { apply (Forall_sub _ members); [|exact Hm]. apply dedupe_fid_incl. }
  assert (Kc : NoDup (map fkey inc)).
  { apply (NoDup_map_weaken fprod); [|apply NoDup_map_filter; exact Nc].
    intros x y Hx Hy E. rewrite Forall_forall in Hc'. unfold fkey, feat_tag in E.
    rewrite (Hc' x Hx), (Hc' y Hy) in E. cbn in E. congruence. }
  assert (Ks : NoDup (map fkey subs)).
  { apply (NoDup_map_weaken fid); [|exact Ns].
    intros x y Hx Hy E. rewrite Forall_forall in Hs. unfold fkey, feat_tag in E.
    rewrite (Hs x Hx), (Hs y Hy) in E. cbn in E. congruence. }
  assert (Kp : NoDup (map fkey (dedupe_fid members))).
  { apply (NoDup_map_weaken fid); [|apply dedupe_fid_nodup].
    intros x y Hx Hy E. rewrite Forall_forall in Hm'. unfold fkey, feat_tag in E.
    rewrite (Hm' x Hx), (Hm' y Hy) in E. cbn in E. congruence. }
  rewrite !map_app. apply NoDup_app_disjoint; [exact Kc| |].
  - apply NoDup_app_disjoint; [exact Ks|exact Kp|].
    intros x H1 H2. pose proof (key_kind _ _ _ Hs H1). pose proof (key_kind _ _ _ Hm' H2).
    unfold K_Sub, K_Proto in *. lia.
  - intros x H1 H2. pose proof (key_kind _ _ _ Hc' H1) as E1. apply in_app_or in H2. destruct H2 as [H2|H2].
    + pose proof (key_kind _ _ _ Hs H2). unfold K_Sub, K_Cand in *. lia.
    + pose proof (key_kind _ _ _ Hm' H2). unfold K_Proto, K_Cand in *. lia.
Qed.

(* the verdict the harness computes on the implementation's output is `true` on the model's output *)
Lemma region_identity_decidable rloc N circ subs cands order members out :
  ids_wf subs cands members ->
  build_area_rows_region rloc N circ subs cands order members = Ok out ->
  identity_ok N (expected_features subs cands members) out = true /\ groups_pairwise out = true.
Proof.
  intros Hwf H. destruct (region_complete _ _ _ _ _ _ _ _ H) as (fs & g' & P & D). split.
  - apply (drawn_identity_ok _ _ _ _ _ _ D); [lia|exact P|apply expected_nodup; exact Hwf].
  - apply (drawn_groups_pairwise _ _ _ _ _ D). lia.
Qed.

(* distinct objects are never merged, whatever attributes they share *)
Lemma get_unique_keeps_distinct rloc order members :
  NoDup (map fid members) -> Permutation (get_unique_protoclusters rloc order members) members.
Proof.
  intros H. pose proof (get_unique_perm rloc order members) as P. rewrite (dedupe_fid_id members H) in P. exact P.
Qed.

Lemma region_groups_pairwise rloc N circ subs cands order members out :
  build_area_rows_region rloc N circ subs cands order members = Ok out ->
  forall a, In a out -> a_group a <> 0 -> group_size (a_group a) out = 2.
Proof.
  intros H. destruct (region_complete _ _ _ _ _ _ _ _ H) as (fs & g' & _ & D).
  apply (groups_linked_pairwise _ _ _ _ _ D). lia.
Qed.

(* ---------- inputs of the non-vacuity examples of the third pass ---------- *)
(* seed C19-seed5: a linear contig of 12000; two DISTINCT protoclusters (identities 1 and 2) of one product (5) with
   the same extent 0..12000 and different cores, a third one; three SINGLE candidates and a NEIGHBOURING one
   holding all three, so every protocluster is reached twice *)
Definition ex5_whole : loc := [mkPart 0 12000 1].
Definition ex5_p1 := mkFeat 1 K_Proto [mkPart 0 12000 1] (Some [mkPart 1000 2000 1]) false 5.
Definition ex5_p2 := mkFeat 2 K_Proto [mkPart 0 12000 1] (Some [mkPart 9000 10000 1]) false 5.
Definition ex5_p3 := mkFeat 3 K_Proto [mkPart 3000 8000 1] (Some [mkPart 4000 7000 1]) false 9.
Definition ex5_c1 := mkFeat 0 K_Cand [mkPart 0 12000 1] (Some [mkPart 1000 2000 1]) true 1.
Definition ex5_c2 := mkFeat 1 K_Cand [mkPart 0 12000 1] (Some [mkPart 9000 10000 1]) true 2.
Definition ex5_c3 := mkFeat 2 K_Cand [mkPart 3000 8000 1] (Some [mkPart 4000 7000 1]) true 3.
Definition ex5_c4 := mkFeat 3 K_Cand [mkPart 0 12000 1] (Some [mkPart 1000 10000 1]) false 4.
Definition ex5_cands := [ex5_c1; ex5_c2; ex5_c3; ex5_c4].
Definition ex5_members := [ex5_p1; ex5_p2; ex5_p3; ex5_p1; ex5_p2; ex5_p3].
(* seed C19-seed6: a whole-record region on a ring of 1000 with two origin-crossing protoclusters of the same
   extent 900..100 (products 3 and 4, cores 920..960 and 980..40) in one candidate cluster *)
Definition ex6_whole : loc := [mkPart 0 1000 1].
Definition ex6_p1 := mkFeat 1 K_Proto [mkPart 900 1000 1; mkPart 0 100 1] (Some [mkPart 920 960 1]) false 3.
Definition ex6_p2 := mkFeat 2 K_Proto [mkPart 900 1000 1; mkPart 0 100 1] (Some [mkPart 980 1000 1; mkPart 0 40 1]) false 4.
Definition ex6_c1 := mkFeat 0 K_Cand [mkPart 900 1000 1; mkPart 0 100 1] (Some [mkPart 920 1000 1; mkPart 0 40 1]) false 1.
Definition ex6_s1 := mkFeat 7 K_Sub [mkPart 0 1000 1] None false 1.
