(* C19: lemmas and proofs. *)
From ASV Require Import Base Loc.
From ASV.C19 Require Import Model.
From Coq Require Import ZifyBool Sorting.Permutation.

(* ---------- well-formed areas ---------- *)
(* one part [s, e) with s <= e, or two forward parts [s, m) + [0, e) with 0 < s (the shape every
   CDSCollection constructor enforces for an origin-crossing collection) *)
Definition wf_feat (f : feat) : Prop :=
  match floc f with
  | [p] => ps p <= pe p
  | [p; q] => pst p = 1 /\ pst q = 1 /\ ps q = 0 /\ 0 < ps p /\ ps p <= pe p /\ 0 <= pe q
  | _ => False
  end.

Lemma single_facts f p : floc f = [p] ->
  fcrosses f = false /\ fstart f = ps p /\ fend f = pe p.
Proof.
  intros H. unfold fcrosses, fstart, fend, loc_fstart, loc_fend, bridges, lstrand, first_part, last_part, last_opt.
  rewrite H. cbn [is_compound forallb rev app].
  destruct (pst p =? -1); auto.
Qed.

Lemma double_facts f p q : floc f = [p; q] -> pst p = 1 -> pst q = 1 -> ps q = 0 -> 0 < ps p ->
  fcrosses f = true /\ fstart f = ps p /\ fend f = pe q /\ lend (floc f) = Z.max (pe p) (pe q).
Proof.
  intros H Hp Hq Hs Hpos.
  unfold fcrosses, fstart, fend, loc_fstart, loc_fend, bridges, lstrand, first_part, last_part, last_opt, lend, lmax.
  rewrite H. cbn [is_compound forallb rev app map fold_left check_order].
  rewrite Hp, Hq. cbn [Z.eqb Pos.eqb andb orb].
  rewrite Hs. repeat split.
  apply orb_true_iff. left. lia.
Qed.

Lemma wf_noncrossing_single f : wf_feat f -> fcrosses f = false -> exists p, floc f = [p] /\ ps p <= pe p.
Proof.
  unfold wf_feat. intros Hwf Hc.
  destruct (floc f) as [|p [|q [|x l]]] eqn:E; try contradiction.
  - exists p. auto.
  - destruct Hwf as (Hp & Hq & Hs & Hpos & _).
    destruct (double_facts f p q E Hp Hq Hs Hpos) as (Hcr & _). congruence.
Qed.

(* ---------- overlap is symmetric ---------- *)
Lemma part_overlap_comm a b : part_overlap a b = part_overlap b a.
Proof.
  unfold part_overlap.
  destruct (in_part (ps a) b), (in_part (pe a - 1) b), (in_part (ps b) a), (in_part (pe b - 1) a); reflexivity.
Qed.

Lemma overlap_true_iff a b :
  overlap a b = true <-> exists p q, In p a /\ In q b /\ part_overlap p q = true.
Proof.
  unfold overlap. rewrite existsb_exists. split.
  - intros [p [Hp H]]. rewrite existsb_exists in H. destruct H as [q [Hq H]]. exists p, q. auto.
  - intros [p [q [Hp [Hq H]]]]. exists p. split; [assumption|]. rewrite existsb_exists. exists q. auto.
Qed.

Lemma overlap_comm a b : overlap a b = overlap b a.
Proof.
  apply eq_true_iff_eq. rewrite !overlap_true_iff. split.
  - intros [p [q [Hp [Hq H]]]]. exists q, p. rewrite part_overlap_comm. auto.
  - intros [p [q [Hp [Hq H]]]]. exists q, p. rewrite part_overlap_comm. auto.
Qed.

Lemma single_overlap_false p q : ps p <= pe p -> ps q <= pe q -> pe p < ps q -> overlap [p] [q] = false.
Proof.
  intros H1 H2 H3. unfold overlap, part_overlap, in_part. cbn [existsb]. lia.
Qed.

(* ---------- rows ---------- *)
Definition contents_of (rows : list row) : list feat := flat_map r_contents rows.

(* x was put into the row before y: they do not overlap (either way round) *)
Definition apart (x y : feat) : Prop := overlap (floc x) (floc y) = false.

Lemma apart_sym x y : apart x y -> apart y x.
Proof. unfold apart. rewrite overlap_comm. auto. Qed.

Lemma FOP_snoc {A} (R : A -> A -> Prop) l a :
  ForallOrdPairs R l -> Forall (fun x => R x a) l -> ForallOrdPairs R (l ++ [a]).
Proof.
  induction l as [|x l IH]; intros H1 H2; cbn [app].
  - constructor; constructor.
  - inversion H1 as [|x' l' Hx Hl]; subst. inversion H2 as [|x'' l'' Hxa Hla]; subst.
    constructor.
    + apply Forall_app. split; [assumption|]. constructor; [assumption|constructor].
    + apply IH; assumption.
Qed.

Definition row_open (r : row) : Prop :=
  Forall (fun c => fcrosses c = false /\ fend c + 1 <= r_start r) (r_contents r).
Definition row_closed (r : row) : Prop :=
  r_contents r <> [] /\ 0 <= r_end r /\ r_end r < r_start r.
Definition row_inv (r : row) : Prop :=
  ForallOrdPairs apart (r_contents r) /\ Forall wf_feat (r_contents r) /\ (row_open r \/ row_closed r).

Lemma row_add_contents r a r' : row_add r a = Ok r' -> r_contents r' = r_contents r ++ [a].
Proof.
  unfold row_add. destruct (negb (can_fit r a)); [discriminate|].
  destruct (fcrosses a); intros H; inversion H; reflexivity.
Qed.

Lemma row_add_ok r a : can_fit r a = true -> exists r', row_add r a = Ok r'.
Proof.
  intros H. unfold row_add. rewrite H. cbn [negb]. destruct (fcrosses a); eexists; reflexivity.
Qed.

Lemma row_add_inv r a r' :
  row_inv r -> wf_feat a -> row_add r a = Ok r' -> row_inv r'.
Proof.
  intros (Hnov & Hwfs & Hshape) Hwf Hadd.
  pose proof (row_add_contents r a r' Hadd) as Hcont.
  unfold row_add in Hadd.
  destruct (can_fit r a) eqn:Hfit; cbn [negb] in Hadd; [|discriminate].
  assert (Hwfs' : Forall wf_feat (r_contents r')).
  { rewrite Hcont. apply Forall_app. split; [assumption|]. constructor; [assumption|constructor]. }
  destruct (fcrosses a) eqn:Hcr.
  - (* an origin-crossing area closes the row *)
    inversion Hadd; subst r'; clear Hadd. cbn [r_contents r_start r_end] in *.
    assert (Hshape_a : exists p q, floc a = [p; q] /\ pst p = 1 /\ pst q = 1 /\ ps q = 0 /\ 0 < ps p
                                   /\ ps p <= pe p /\ 0 <= pe q).
    { unfold wf_feat in Hwf. destruct (floc a) as [|p [|q [|x l]]] eqn:E; try contradiction.
      - destruct (single_facts a p E) as (Hc & _). congruence.
      - exists p, q. intuition. }
    destruct Hshape_a as (p & q & E & Hp & Hq & Hs & Hpos & Hpe & Hqe).
    destruct (double_facts a p q E Hp Hq Hs Hpos) as (_ & Hst & Hen & Hlend).
    split; [|split; [assumption|]].
    + unfold can_fit in Hfit. rewrite Hcr in Hfit.
      destruct (r_contents r) as [|c cs] eqn:Ec.
      * cbn [app]. constructor; constructor.
      * apply FOP_snoc; [assumption|].
        destruct (negb (r_end r =? -1)); [discriminate|].
        apply negb_true_iff in Hfit.
        apply Forall_forall. intros x Hx. apply apart_sym. unfold apart.
        destruct (overlap (floc a) (floc x)) eqn:Ho; [|reflexivity].
        assert (existsb (fun ex => overlap (floc a) (floc ex)) (c :: cs) = true) as Hex.
        { apply existsb_exists. exists x. auto. }
        congruence.
    + right. unfold row_closed. cbn [r_contents r_start r_end].
      split; [destruct (r_contents r); discriminate|]. rewrite Hst, Hlend. lia.
  - (* an ordinary area *)
    inversion Hadd; subst r'; clear Hadd. cbn [r_contents r_start r_end] in *.
    destruct (wf_noncrossing_single a Hwf Hcr) as (p & E & Hpe).
    destruct (single_facts a p E) as (_ & Hst & Hen).
    unfold can_fit in Hfit. rewrite Hcr in Hfit.
    destruct (r_contents r) as [|c cs] eqn:Ec.
    + split; [cbn [app]; constructor; constructor|]. split; [assumption|].
      left. unfold row_open. cbn [r_contents r_start app]. constructor; [|constructor]. split; [assumption|lia].
    + destruct Hshape as [Hopen|Hclosed].
      * assert (Hall : Forall (fun x => apart x a) (c :: cs)).
        { unfold row_open in Hopen. rewrite Ec in Hopen.
          apply Forall_forall. intros x Hx.
          rewrite Forall_forall in Hopen, Hwfs. destruct (Hopen x Hx) as (Hxc & Hxe).
          destruct (wf_noncrossing_single x (Hwfs x Hx) Hxc) as (xp & Ex & Hxpe).
          destruct (single_facts x xp Ex) as (_ & _ & Hxen).
          unfold apart. rewrite Ex, E. apply single_overlap_false; lia. }
        split; [apply FOP_snoc; assumption|]. split; [assumption|].
        left. unfold row_open in *. cbn [r_contents r_start]. rewrite Ec in Hopen.
        apply Forall_app. split.
        -- eapply Forall_impl; [|exact Hopen]. cbn beta. intros x (Hx1 & Hx2). split; [assumption|lia].
        -- constructor; [|constructor]. split; [assumption|lia].
      * (* a closed row accepts nothing *)
        exfalso. destruct Hclosed as (_ & H0 & Hlt). lia.
Qed.

Lemma row_inv_init s e : row_inv (mkRow s e []).
Proof.
  split; [constructor|]. split; [constructor|]. left. unfold row_open. cbn [r_contents]. constructor.
Qed.

Lemma place_inv rows : forall a rows',
  Forall row_inv rows -> wf_feat a -> place rows a = Ok rows' -> Forall row_inv rows'.
Proof.
  induction rows as [|r rest IH]; intros a rows' Hinv Hwf H; cbn [place] in H.
  - destruct (row_add (mkRow 0 (-1) []) a) as [r'|k] eqn:E; cbn [bind] in H; [|discriminate].
    inversion H; subst. constructor; [|constructor].
    eapply row_add_inv; [apply row_inv_init|exact Hwf|exact E].
  - inversion Hinv as [|r0 rest0 Hr Hrest]; subst.
    destruct (can_fit r a).
    + destruct (row_add r a) as [r'|k] eqn:E; cbn [bind] in H; [|discriminate].
      inversion H; subst. constructor; [|assumption]. eapply row_add_inv; eauto.
    + destruct (place rest a) as [rest'|k] eqn:E; cbn [bind] in H; [|discriminate].
      inversion H; subst. constructor; [assumption|]. eapply IH; eauto.
Qed.

Lemma pack_go_inv areas : forall rows rows',
  Forall row_inv rows -> Forall wf_feat areas -> pack_go rows areas = Ok rows' -> Forall row_inv rows'.
Proof.
  induction areas as [|a more IH]; intros rows rows' Hinv Hwf H; cbn [pack_go] in H.
  - inversion H; subst. assumption.
  - inversion Hwf as [|a0 m0 Ha Hm]; subst.
    destruct (place rows a) as [rows1|k] eqn:E; cbn [bind] in H; [|discriminate].
    eapply IH; [eapply place_inv; eauto|assumption|exact H].
Qed.

(* no two areas of a row overlap, for any order of the input and any length *)
Lemma pack_no_overlap areas len rows :
  Forall wf_feat areas -> pack areas len = Ok rows ->
  Forall (fun r => ForallOrdPairs (fun x y => overlap (floc x) (floc y) = false /\
                                               overlap (floc y) (floc x) = false) (r_contents r)) rows.
Proof.
  intros Hwf H. unfold pack in H.
  assert (Hinv : Forall row_inv rows).
  { destruct areas as [|a more]; [inversion H; constructor|].
    eapply pack_go_inv; [|exact Hwf|exact H]. constructor; [apply row_inv_init|constructor]. }
  eapply Forall_impl; [|exact Hinv]. intros r (Hnov & _).
  clear -Hnov. induction Hnov as [|x l Hx Hl IH]; constructor; [|assumption].
  eapply Forall_impl; [|exact Hx]. intros y Hy. split; [exact Hy|apply apart_sym; exact Hy].
Qed.

(* in terms of bases: two different occupants of a row share no position *)
Lemma apart_no_common_base x y z :
  apart x y -> in_loc z (floc x) = true -> in_loc z (floc y) = true -> False.
Proof.
  unfold apart, in_loc. intros Ha Hx Hy.
  apply existsb_exists in Hx. destruct Hx as [p [Hp Hzp]].
  apply existsb_exists in Hy. destruct Hy as [q [Hq Hzq]].
  assert (overlap (floc x) (floc y) = true) as Ho; [|congruence].
  apply overlap_true_iff. exists p, q. split; [assumption|]. split; [assumption|].
  unfold part_overlap, in_part in *. lia.
Qed.

Lemma pack_no_common_base areas len rows :
  Forall wf_feat areas -> pack areas len = Ok rows ->
  Forall (fun r => ForallOrdPairs (fun x y => forall z, ~ (in_loc z (floc x) = true /\ in_loc z (floc y) = true))
                                  (r_contents r)) rows.
Proof.
  intros Hwf H. pose proof (pack_no_overlap areas len rows Hwf H) as Hno.
  eapply Forall_impl; [|exact Hno]. intros r Hr.
  induction Hr as [|x l Hx Hl IH]; constructor; [|assumption].
  eapply Forall_impl; [|exact Hx]. intros y (Hy & _) z (Hz1 & Hz2).
  eapply apart_no_common_base; eauto.
Qed.

(* ---------- completeness ---------- *)
Lemma place_perm rows : forall a rows',
  place rows a = Ok rows' -> Permutation (contents_of rows') (a :: contents_of rows).
Proof.
  induction rows as [|r rest IH]; intros a rows' H; cbn [place] in H.
  - destruct (row_add (mkRow 0 (-1) []) a) as [r'|k] eqn:E; cbn [bind] in H; [|discriminate].
    inversion H; subst. apply row_add_contents in E. unfold contents_of. cbn [flat_map].
    rewrite E. cbn [r_contents app]. apply Permutation_refl.
  - destruct (can_fit r a).
    + destruct (row_add r a) as [r'|k] eqn:E; cbn [bind] in H; [|discriminate].
      inversion H; subst. apply row_add_contents in E. unfold contents_of. cbn [flat_map]. rewrite E.
      rewrite <- app_assoc. cbn [app].
      apply Permutation_sym. apply Permutation_middle.
    + destruct (place rest a) as [rest'|k] eqn:E; cbn [bind] in H; [|discriminate].
      inversion H; subst. unfold contents_of. cbn [flat_map].
      apply IH in E. unfold contents_of in E.
      eapply Permutation_trans; [apply Permutation_app_head; exact E|].
      apply Permutation_sym. apply Permutation_middle.
Qed.

Lemma pack_go_perm areas : forall rows rows',
  pack_go rows areas = Ok rows' -> Permutation (contents_of rows') (contents_of rows ++ areas).
Proof.
  induction areas as [|a more IH]; intros rows rows' H; cbn [pack_go] in H.
  - inversion H; subst. rewrite app_nil_r. apply Permutation_refl.
  - destruct (place rows a) as [rows1|k] eqn:E; cbn [bind] in H; [|discriminate].
    apply IH in H. apply place_perm in E.
    eapply Permutation_trans; [exact H|].
    eapply Permutation_trans; [apply Permutation_app_tail; exact E|].
    cbn [app]. apply Permutation_middle.
Qed.

Lemma pack_complete areas len rows :
  pack areas len = Ok rows -> Permutation (contents_of rows) areas.
Proof.
  unfold pack. destruct areas as [|a more]; intros H.
  - inversion H; subst. apply Permutation_refl.
  - apply pack_go_perm in H. unfold contents_of in H at 2. cbn [flat_map r_contents app] in H. exact H.
Qed.

(* pack cannot fail on areas with non-negative starts *)
Lemma place_total rows : forall a, 0 <= fstart a -> exists rows', place rows a = Ok rows'.
Proof.
  induction rows as [|r rest IH]; intros a Ha; cbn [place].
  - destruct (row_add_ok (mkRow 0 (-1) []) a) as [r' E].
    { unfold can_fit. cbn [r_contents r_start]. lia. }
    rewrite E. cbn [bind]. eexists; reflexivity.
  - destruct (can_fit r a) eqn:Hfit.
    + destruct (row_add_ok r a Hfit) as [r' E]. rewrite E. cbn [bind]. eexists; reflexivity.
    + destruct (IH a Ha) as [rest' E]. rewrite E. cbn [bind]. eexists; reflexivity.
Qed.

Lemma pack_total areas len :
  Forall (fun a => 0 <= fstart a) areas -> exists rows, pack areas len = Ok rows.
Proof.
  unfold pack. destruct areas as [|a0 more0]; [eexists; reflexivity|].
  generalize (a0 :: more0) as areas. generalize [mkRow 0 len []] as rows.
  intros rows areas. revert rows. induction areas as [|a more IH]; intros rows H; cbn [pack_go].
  - eexists; reflexivity.
  - inversion H as [|a1 m1 Ha Hm]; subst.
    destruct (place_total rows a Ha) as [rows1 E]. rewrite E. cbn [bind]. apply IH. assumption.
Qed.

(* ---------- areas split at the origin ---------- *)
Lemma from_feature_facts f h :
  let a := from_feature f h in
  a_kind a = fkind f /\ a_ns a = fstart f /\ a_ne a = fend f /\ a_group a = 0 /\ a_height a = h /\
  a_prod a = fprod f /\
  (proto_core f = None -> a_start a = fstart f /\ a_end a = fend f) /\
  (forall core, proto_core f = Some core -> a_start a = loc_fstart core /\ a_end a = loc_fend core).
Proof.
  unfold from_feature, proto_core. destruct (fcore f) as [core|] eqn:E.
  - destruct (fkind f =? K_Proto) eqn:K; cbn [a_kind a_ns a_ne a_group a_height a_prod a_start a_end].
    + repeat (split; [reflexivity|]). split; [discriminate|].
      intros core0 H. inversion H; subst. split; reflexivity.
    + repeat (split; [reflexivity|]). split; [intros _; split; reflexivity|discriminate].
  - destruct (fkind f =? K_Proto); cbn [a_kind a_ns a_ne a_group a_height a_prod a_start a_end];
      repeat (split; [reflexivity|]); (split; [intros _; split; reflexivity|discriminate]).
Qed.

(* what adjust_cross_origin_area does to the extent, whatever the core branch *)
Lemma adjust_extents a f rc L g a' oe :
  a_group a = 0 ->
  adjust_cross_origin_area a f rc L g = Ok (a', oe) ->
  a_ns a' = a_ns a /\ a_kind a' = a_kind a /\ a_height a' = a_height a /\
  (rc = true -> oe = None /\ a_group a' = 0 /\
                a_ne a' = (match proto_core f with None => a_end a | Some _ => a_ne a end) + L) /\
  (rc = false -> exists e, oe = Some e /\ a_ne a' = L /\ a_ns e = 0 /\
                 a_ne e = (match proto_core f with None => fend f | Some _ => a_ne a end) /\
                 a_kind e = a_kind a /\ a_height e = a_height a /\ a_group a' = g /\ a_group e = g).
Proof.
  intros Hg H. unfold adjust_cross_origin_area in H.
  destruct (negb (fcrosses f && area_crosses a)); [discriminate|].
  assert (Hwg : with_group a g = set_group a g).
  { unfold with_group. rewrite Hg. reflexivity. }
  rewrite Hwg in H.
  destruct (proto_core f) as [core|].
  - destruct (loc_fend core <? loc_fstart core).
    + destruct rc; inversion H; subst; cbn; repeat split; try discriminate; try (intros; eexists; repeat split; reflexivity); auto.
    + destruct (fstart f <=? loc_fstart core).
      * destruct rc; inversion H; subst; cbn; repeat split; try discriminate; try (intros; eexists; repeat split; reflexivity); auto.
      * destruct rc; inversion H; subst; cbn; repeat split; try discriminate; try (intros; eexists; repeat split; reflexivity); auto.
  - destruct rc; inversion H; subst; cbn; repeat split; try discriminate; try (intros; eexists; repeat split; reflexivity); auto.
Qed.

(* an area that has to be split yields two areas with the same non-zero group id whose extents
   [start of the feature, L) and [0, end of the feature) partition the extent of the feature;
   a split happens exactly when the region itself does not cross the origin *)
Lemma split_links f h rc L g a' oe :
  g <> 0 ->
  adjust_cross_origin_area (from_feature f h) f rc L g = Ok (a', oe) ->
  (rc = true -> oe = None /\ a_group a' = 0 /\ a_ns a' = fstart f /\ a_ne a' = fend f + L) /\
  (rc = false -> exists e, oe = Some e /\
     a_group a' = g /\ a_group e = g /\ a_group a' <> 0 /\
     a_kind a' = fkind f /\ a_kind e = fkind f /\ a_height a' = h /\ a_height e = h /\
     a_ns a' = fstart f /\ a_ne a' = L /\ a_ns e = 0 /\ a_ne e = fend f).
Proof.
  intros Hg H.
  pose proof (from_feature_facts f h) as F. cbv zeta in F.
  destruct F as (Fk & Fns & Fne & Fg & Fh & _ & Fnone & _).
  destruct (adjust_extents _ _ _ _ _ _ _ Fg H) as (Hns & Hk & Hh & Htrue & Hfalse).
  split.
  - intros Hrc. destruct (Htrue Hrc) as (Hoe & Hgr & Hne). repeat split; try assumption; try congruence.
    rewrite Hne. destruct (proto_core f) eqn:E; [congruence|]. destruct (Fnone eq_refl) as (_ & He). congruence.
  - intros Hrc. destruct (Hfalse Hrc) as (e & Hoe & Hne & Hens & Hene & Hek & Heh & Hga & Hge).
    exists e. repeat split; try congruence.
    rewrite Hene. destruct (proto_core f); congruence.
Qed.

(* ---------- extents lie inside the announced range ---------- *)
Lemma loc1_facts p :
  bridges [p] = false /\ loc_fstart [p] = ps p /\ loc_fend [p] = pe p /\ lstart [p] = ps p /\
  lend [p] = pe p /\ last_part [p] = p.
Proof.
  unfold bridges, loc_fstart, loc_fend, lstart, lend, lmin, lmax, last_part, first_part, last_opt, lstrand.
  cbn [is_compound forallb rev app map fold_left]. destruct (pst p =? -1); repeat split; reflexivity.
Qed.

Lemma loc2_facts p q : pst p = 1 -> pst q = 1 -> ps q = 0 -> 0 < ps p ->
  bridges [p; q] = true /\ loc_fstart [p; q] = ps p /\ loc_fend [p; q] = pe q /\
  last_part [p; q] = q /\ first_part [p; q] = p.
Proof.
  intros Hp Hq Hs Hpos.
  unfold bridges, loc_fstart, loc_fend, last_part, first_part, last_opt, lstrand.
  cbn [is_compound forallb rev app check_order].
  rewrite Hp, Hq. cbn [Z.eqb Pos.eqb andb orb]. rewrite Hs.
  repeat split. apply orb_true_iff. left. lia.
Qed.

(* a region on a record of length N: one part, or [s, N) + [0, e) with 0 < e <= s *)
Definition wf_region (N : Z) (rloc : loc) : Prop :=
  (exists r, rloc = [r] /\ 0 <= ps r /\ ps r < pe r /\ pe r <= N) \/
  (exists r1 r2, rloc = [r1; r2] /\ pst r1 = 1 /\ pst r2 = 1 /\ 0 < ps r1 /\ ps r1 < N /\ pe r1 = N /\
                 ps r2 = 0 /\ 0 < pe r2 /\ pe r2 <= ps r1).
(* an area on that record: one non-empty part, or [s, N) + [0, e) with 0 < e < s *)
Definition wf_feat_ring (N : Z) (f : feat) : Prop :=
  (exists p, floc f = [p] /\ 0 <= ps p /\ ps p < pe p /\ pe p <= N) \/
  (exists p q, floc f = [p; q] /\ pst p = 1 /\ pst q = 1 /\ 0 < ps p /\ ps p < N /\ pe p = N /\
               ps q = 0 /\ 0 < pe q /\ pe q < ps p).

Definition area_ok (rloc : loc) (N h : Z) (f : feat) (a : area) : Prop :=
  extent_ok (range0 rloc N) a = true /\ a_height a = h /\ a_kind a = fkind f.

Lemma area_extent_in_range N circ rloc f h conv grp st' :
  wf_region N rloc -> wf_feat_ring N f -> contains rloc (floc f) = true ->
  (bridges rloc = true \/ fcrosses f = true -> circ = true) ->
  add_area_from_feature rloc N (extend_over_origin rloc N circ) h (conv, grp) f = Ok st' ->
  exists added, fst st' = conv ++ added /\ Forall (area_ok rloc N h f) added /\
                (length added = 1%nat \/ (length added = 2%nat /\ bridges rloc = false /\ fcrosses f = true)).
Proof.
  intros Hr Hf Hcont Hguard H.
  pose proof (from_feature_facts f h) as F. cbv zeta in F.
  destruct F as (Fk & Fns & Fne & Fg & Fh & _ & Fnone & _).
  unfold add_area_from_feature in H. unfold fcrosses, fstart, fend in *.
  destruct Hr as [(r & Er & Hr0 & Hr1 & Hr2)|(r1 & r2 & Er & Hs1 & Hs2 & Hr0 & Hr1 & Hr2 & Hr3 & Hr4 & Hr5)];
  destruct Hf as [(p & Ef & Hp0 & Hp1 & Hp2)|(p & q & Ef & Ht1 & Ht2 & Hp0 & Hp1 & Hp2 & Hp3 & Hp4 & Hp5)].
  - (* ordinary region, ordinary area *)
    destruct (loc1_facts r) as (Rb & Rs & Re & Rls & Rle & Rlast).
    destruct (loc1_facts p) as (Pb & Ps & Pe & _).
    rewrite Er, Ef in *. rewrite Pb in H. rewrite Rb in H. rewrite andb_false_r in H.
    assert (Hnew : area_ok [r] N h f (from_feature f h)).
    { unfold area_ok, extent_ok, range0. rewrite Rb, Rls, Rle. cbn [fst snd].
      rewrite Fns, Fne, Ps, Pe. unfold contains in Hcont. cbn [forallb existsb] in Hcont.
      unfold part_contains in Hcont. repeat split; try assumption. lia. }
    exists [from_feature f h]. split; [|split; [constructor; [assumption|constructor]|left; reflexivity]].
    destruct (extend_over_origin [r] N circ && contains [last_part [r]] [p]); inversion H; reflexivity.
  - (* whole-record region, origin-crossing area: split *)
    destruct (loc1_facts r) as (Rb & Rs & Re & Rls & Rle & Rlast).
    destruct (loc2_facts p q Ht1 Ht2 Hp3 Hp0) as (Pb & Ps & Pe & _).
    rewrite Er, Ef in *.
    unfold contains in Hcont. cbn [forallb existsb] in Hcont. unfold part_contains in Hcont.
    assert (Hc : circ = true) by (apply Hguard; right; assumption).
    assert (Hext : extend_over_origin [r] N circ = true).
    { unfold extend_over_origin. rewrite Hc, Rb, Rs, Re. lia. }
    rewrite Hext, Pb in H. cbn [andb] in H.
    assert (Hac : area_crosses (from_feature f h) = true).
    { unfold area_crosses. rewrite Fns, Fne, Ps, Pe. lia. }
    rewrite Hac in H. cbn [negb] in H. rewrite Rb in H.
    destruct (adjust_cross_origin_area (from_feature f h) f false N (grp + 1)) as [[a' oe]|k] eqn:Eadj;
      cbn [bind] in H; [|discriminate].
    destruct (adjust_extents _ _ _ _ _ _ _ Fg Eadj) as (Hns & Hk & Hh & _ & Hfalse).
    destruct (Hfalse eq_refl) as (e & Hoe & Hne & Hens & Hene & Hek & Heh & _).
    subst oe. inversion H; subst st'. cbn [fst].
    exists [a'; e]. split; [reflexivity|]. split.
    + assert (Hene' : a_ne e = pe q).
      { rewrite Hene. destruct (proto_core f); [rewrite Fne, Pe; reflexivity|unfold fend; rewrite Ef; exact Pe]. }
      constructor; [|constructor; [|constructor]].
      * unfold area_ok, extent_ok, range0. rewrite Rb, Rls, Rle. cbn [fst snd].
        rewrite Hns, Hne, Fns, Ps. repeat split; try congruence. lia.
      * unfold area_ok, extent_ok, range0. rewrite Rb, Rls, Rle. cbn [fst snd].
        rewrite Hens, Hene'. repeat split; try congruence. lia.
    + right. repeat split; assumption.
  - (* origin-crossing region, ordinary area *)
    destruct (loc2_facts r1 r2 Hs1 Hs2 Hr3 Hr0) as (Rb & Rs & Re & Rlast & Rfirst).
    destruct (loc1_facts p) as (Pb & Ps & Pe & _).
    rewrite Er, Ef in *.
    assert (Hc : circ = true) by (apply Hguard; left; assumption).
    assert (Hext : extend_over_origin [r1; r2] N circ = true).
    { unfold extend_over_origin. rewrite Hc, Rb. reflexivity. }
    rewrite Hext, Pb, Rb, Rlast in H. cbn [andb] in H.
    unfold contains in Hcont. cbn [forallb existsb] in Hcont. unfold part_contains in Hcont.
    destruct (contains [r2] [p]) eqn:Hin2.
    + inversion H; subst st'. cbn [fst]. exists [area_offset (from_feature f h) N].
      split; [reflexivity|]. split; [|left; reflexivity].
      constructor; [|constructor].
      unfold contains in Hin2. cbn [forallb existsb] in Hin2. unfold part_contains in Hin2.
      unfold area_ok, extent_ok, range0, area_offset. rewrite Rb, Rs, Rlast. cbn [fst snd a_ns a_ne a_height a_kind].
      rewrite Fns, Fne, Ps, Pe. repeat split; try assumption. lia.
    + inversion H; subst st'. cbn [fst]. exists [from_feature f h].
      split; [reflexivity|]. split; [|left; reflexivity].
      constructor; [|constructor].
      unfold contains in Hin2. cbn [forallb existsb] in Hin2. unfold part_contains in Hin2.
      unfold area_ok, extent_ok, range0. rewrite Rb, Rs, Rlast. cbn [fst snd].
      rewrite Fns, Fne, Ps, Pe. repeat split; try assumption. lia.
  - (* origin-crossing region, origin-crossing area: unrolled *)
    destruct (loc2_facts r1 r2 Hs1 Hs2 Hr3 Hr0) as (Rb & Rs & Re & Rlast & Rfirst).
    destruct (loc2_facts p q Ht1 Ht2 Hp3 Hp0) as (Pb & Ps & Pe & _).
    rewrite Er, Ef in *.
    assert (Hc : circ = true) by (apply Hguard; left; assumption).
    assert (Hext : extend_over_origin [r1; r2] N circ = true).
    { unfold extend_over_origin. rewrite Hc, Rb. reflexivity. }
    rewrite Hext, Pb in H. cbn [andb] in H.
    assert (Hac : area_crosses (from_feature f h) = true).
    { unfold area_crosses. rewrite Fns, Fne, Ps, Pe. lia. }
    rewrite Hac in H. cbn [negb] in H. rewrite Rb in H.
    destruct (adjust_cross_origin_area (from_feature f h) f true N (grp + 1)) as [[a' oe]|k] eqn:Eadj;
      cbn [bind] in H; [|discriminate].
    destruct (adjust_extents _ _ _ _ _ _ _ Fg Eadj) as (Hns & Hk & Hh & Htrue & _).
    destruct (Htrue eq_refl) as (Hoe & _ & Hne).
    subst oe. inversion H; subst st'. cbn [fst].
    exists [a']. split; [reflexivity|]. split; [|left; reflexivity].
    constructor; [|constructor].
    assert (Hne' : a_ne a' = pe q + N).
    { rewrite Hne. destruct (proto_core f) eqn:Ec; [rewrite Fne, Pe; reflexivity|].
      destruct (Fnone eq_refl) as (_ & He). rewrite He, Pe. reflexivity. }
    unfold contains in Hcont. cbn [forallb existsb] in Hcont. unfold part_contains in Hcont.
    unfold area_ok, extent_ok, range0. rewrite Rb, Rs, Rlast. cbn [fst snd].
    rewrite Hns, Hne', Fns, Ps. repeat split; try congruence. lia.
Qed.

(* ---------- core inside the extent (protoclusters), start/end = extent (sub-regions, candidates) ---------- *)
Lemma adjust_chain a f rc L g a' oe :
  a_group a = 0 -> a_ne a < a_ns a -> a_ns a <= L -> 0 <= a_ne a ->
  match proto_core f with
  | None => a_start a = a_ns a /\ a_end a = a_ne a /\ fend f = a_ne a
  | Some core =>
    let cs := loc_fstart core in let ce := loc_fend core in
    a_start a = cs /\ a_end a = ce /\
    ((ce < cs /\ a_ns a <= cs /\ cs <= L /\ 0 <= ce /\ ce <= a_ne a) \/
     (cs <= ce /\ fstart f <= cs /\ a_ns a <= cs /\ ce <= L) \/
     (cs <= ce /\ ~ (fstart f <= cs) /\ 0 <= cs /\ ce <= a_ne a))
  end ->
  adjust_cross_origin_area a f rc L g = Ok (a', oe) ->
  chain_ok a' = true /\ forall e, oe = Some e -> chain_ok e = true.
Proof.
  intros Hg H1 H2 H3 Hc H. unfold adjust_cross_origin_area in H.
  destruct (negb (fcrosses f && area_crosses a)); [discriminate|].
  assert (Hwg : with_group a g = set_group a g).
  { unfold with_group. rewrite Hg. reflexivity. }
  rewrite Hwg in H. unfold chain_ok.
  destruct (proto_core f) as [core|].
  - cbv zeta in Hc. destruct Hc as (Hs & He & Hcases).
    destruct (loc_fend core <? loc_fstart core) eqn:B1.
    + destruct rc; inversion H; subst; cbn; (split; [|intros e0 He0; inversion He0; subst; cbn]); lia.
    + destruct (fstart f <=? loc_fstart core) eqn:B2.
      * destruct rc; inversion H; subst; cbn; (split; [|intros e0 He0; inversion He0; subst; cbn]); lia.
      * destruct rc; inversion H; subst; cbn; (split; [|intros e0 He0; inversion He0; subst; cbn]); lia.
  - destruct Hc as (Hs & He & Hf).
    destruct rc; inversion H; subst; cbn; (split; [|intros e0 He0; inversion He0; subst; cbn]); lia.
Qed.

Definition wf_core_in (N : Z) (f : feat) (core : loc) : Prop :=
  contains (floc f) core = true /\
  ((exists c, core = [c] /\ 0 <= ps c /\ ps c < pe c /\ pe c <= N) \/
   (exists c1 c2, core = [c1; c2] /\ pst c1 = 1 /\ pst c2 = 1 /\ 0 < ps c1 /\ ps c1 < N /\ pe c1 = N /\
                  ps c2 = 0 /\ 0 < pe c2 /\ pe c2 < ps c1 /\ fcrosses f = true)).

(* well-formedness needed by the chain theorem: a protocluster has a core, which lies inside its extent.
   Nothing is asked of sub-regions and candidate clusters (their start/end ARE the extent).  This is
   not a guard against a defect any more: the former finding classes core_side_heuristic (side of the
   core guessed from length - core_start < core_end) and candidate_end_unshifted (candidate clusters
   sent through the protocluster branches) were repaired in the code. *)
Definition core_wf (N : Z) (f : feat) : Prop :=
  fkind f = K_Proto -> exists core, fcore f = Some core /\ wf_core_in N f core.

Lemma proto_core_cases N f : core_wf N f ->
  proto_core f = None \/ exists core, proto_core f = Some core /\ wf_core_in N f core.
Proof.
  unfold core_wf, proto_core. intros H. destruct (fkind f =? K_Proto) eqn:K; [|left; reflexivity].
  apply Z.eqb_eq in K. destruct (H K) as (core & Hc & Hwf). right. exists core. rewrite Hc. auto.
Qed.

Lemma from_feature_chain_single N f h p :
  core_wf N f -> floc f = [p] -> ps p < pe p ->
  let a := from_feature f h in a_ns a <= a_start a /\ a_start a <= a_end a /\ a_end a <= a_ne a.
Proof.
  intros Hg Ef Hp. cbv zeta.
  pose proof (from_feature_facts f h) as F. cbv zeta in F.
  destruct F as (Fk & Fns & Fne & Fg & Fh & _ & Fnone & Fcore).
  destruct (loc1_facts p) as (Pb & Ps & Pe & _).
  unfold fstart, fend in *. rewrite Ef in *.
  destruct (proto_core_cases N f Hg) as [Hnone|(core & Hcore & Hcont & Hshape)].
  - destruct (Fnone Hnone) as (Hs & He). rewrite Hs, He, Fns, Fne, Ps, Pe. lia.
  - destruct (Fcore core Hcore) as (Hs & He).
    destruct Hshape as [(c & Ec & Hc0 & Hc1 & Hc2)|(c1 & c2 & _ & _ & _ & _ & _ & _ & _ & _ & _ & Hcr)].
    + destruct (loc1_facts c) as (_ & Cs & Ce & _). subst core.
      rewrite Ef in Hcont. unfold contains in Hcont. cbn [forallb existsb] in Hcont. unfold part_contains in Hcont.
      rewrite Hs, He, Fns, Fne, Ps, Pe, Cs, Ce. lia.
    + unfold fcrosses in Hcr. rewrite Ef in Hcr. congruence.
Qed.

Lemma crossing_chain_pre N f h p q :
  core_wf N f -> floc f = [p; q] -> pst p = 1 -> pst q = 1 -> 0 < ps p -> ps p < N -> pe p = N ->
  ps q = 0 -> 0 < pe q -> pe q < ps p ->
  let a := from_feature f h in
  match proto_core f with
  | None => a_start a = a_ns a /\ a_end a = a_ne a /\ fend f = a_ne a
  | Some core =>
    let cs := loc_fstart core in let ce := loc_fend core in
    a_start a = cs /\ a_end a = ce /\
    ((ce < cs /\ a_ns a <= cs /\ cs <= N /\ 0 <= ce /\ ce <= a_ne a) \/
     (cs <= ce /\ fstart f <= cs /\ a_ns a <= cs /\ ce <= N) \/
     (cs <= ce /\ ~ (fstart f <= cs) /\ 0 <= cs /\ ce <= a_ne a))
  end.
Proof.
  intros Hg Ef Ht1 Ht2 Hp0 Hp1 Hp2 Hp3 Hp4 Hp5. cbv zeta.
  pose proof (from_feature_facts f h) as F. cbv zeta in F.
  destruct F as (Fk & Fns & Fne & Fg & Fh & _ & Fnone & Fcore).
  destruct (loc2_facts p q Ht1 Ht2 Hp3 Hp0) as (Pb & Ps & Pe & _).
  destruct (proto_core_cases N f Hg) as [Hnone|(core & Hcore & Hcont & Hshape)].
  - rewrite Hnone. destruct (Fnone Hnone) as (Hs & He). rewrite Hs, He, Fns, Fne. auto.
  - rewrite Hcore. destruct (Fcore core Hcore) as (Hs & He).
    split; [assumption|]. split; [assumption|].
    rewrite Fns, Fne.
    unfold fstart, fend in *. rewrite Ef in *. rewrite Ps, Pe in *.
    unfold contains in Hcont.
    destruct Hshape as [(c & Ec & Hc0 & Hc1 & Hc2)|(c1 & c2 & Ec & Hu1 & Hu2 & Hc0 & Hc1 & Hc2 & Hc3 & Hc4 & Hc5 & _)].
    + destruct (loc1_facts c) as (_ & Cs & Ce & _). subst core. rewrite Cs, Ce in *.
      cbn [forallb existsb] in Hcont. unfold part_contains in Hcont.
      destruct (ps p <=? ps c) eqn:B'; lia.
    + destruct (loc2_facts c1 c2 Hu1 Hu2 Hc3 Hc0) as (_ & Cs & Ce & _). subst core. rewrite Cs, Ce in *.
      cbn [forallb existsb] in Hcont. unfold part_contains in Hcont. lia.
Qed.

Lemma area_chain_in_extent N circ rloc f h conv grp st' :
  wf_region N rloc -> wf_feat_ring N f -> contains rloc (floc f) = true ->
  (bridges rloc = true \/ fcrosses f = true -> circ = true) ->
  core_wf N f ->
  add_area_from_feature rloc N (extend_over_origin rloc N circ) h (conv, grp) f = Ok st' ->
  exists added, fst st' = conv ++ added /\ Forall (fun a => chain_ok a = true) added.
Proof.
  intros Hr Hf Hcont Hguard Hchain H.
  pose proof (from_feature_facts f h) as F. cbv zeta in F.
  destruct F as (Fk & Fns & Fne & Fg & Fh & _).
  unfold add_area_from_feature in H. unfold fcrosses in *.
  destruct Hf as [(p & Ef & Hp0 & Hp1 & Hp2)|(p & q & Ef & Ht1 & Ht2 & Hp0 & Hp1 & Hp2 & Hp3 & Hp4 & Hp5)].
  - (* ordinary area: unchanged or shifted as a whole *)
    pose proof (from_feature_chain_single N f h p Hchain Ef Hp1) as Hc. cbv zeta in Hc.
    destruct (loc1_facts p) as (Pb & _). rewrite Ef in H. rewrite Pb in H. rewrite andb_false_r in H.
    destruct (extend_over_origin rloc N circ && contains [last_part rloc] [p]).
    + destruct (bridges rloc); inversion H; subst st'; cbn [fst]; eexists; (split; [reflexivity|]);
        (constructor; [|constructor]); unfold chain_ok, area_offset; cbn [a_ns a_ne a_start a_end]; lia.
    + inversion H; subst st'; cbn [fst]; eexists; (split; [reflexivity|]);
        (constructor; [|constructor]); unfold chain_ok; lia.
  - (* origin-crossing area *)
    pose proof (crossing_chain_pre N f h p q Hchain Ef Ht1 Ht2 Hp0 Hp1 Hp2 Hp3 Hp4 Hp5) as Hpre. cbv zeta in Hpre.
    destruct (loc2_facts p q Ht1 Ht2 Hp3 Hp0) as (Pb & Ps & Pe & _).
    assert (Hc : circ = true) by (apply Hguard; right; rewrite Ef; assumption).
    assert (Hext : extend_over_origin rloc N circ = true).
    { unfold extend_over_origin. rewrite Hc. cbn [andb].
      destruct Hr as [(r & Er & Hr0 & Hr1 & Hr2)|(r1 & r2 & Er & Hs1 & Hs2 & Hr0 & Hr1 & Hr2 & Hr3 & Hr4 & Hr5)].
      - destruct (loc1_facts r) as (Rb & Rs & Re & _). rewrite Er in *. rewrite Rb, Rs, Re.
        rewrite Ef in Hcont. unfold contains in Hcont. cbn [forallb existsb] in Hcont. unfold part_contains in Hcont. lia.
      - destruct (loc2_facts r1 r2 Hs1 Hs2 Hr3 Hr0) as (Rb & _). rewrite Er. rewrite Rb. reflexivity. }
    rewrite Ef in H. rewrite Hext, Pb in H. cbn [andb] in H.
    unfold fstart, fend in Fns, Fne. rewrite Ef in Fns, Fne.
    assert (Hac : area_crosses (from_feature f h) = true).
    { unfold area_crosses. rewrite Fns, Fne, Ps, Pe. lia. }
    rewrite Hac in H. cbn [negb] in H.
    destruct (adjust_cross_origin_area (from_feature f h) f (bridges rloc) N (grp + 1)) as [[a' oe]|k] eqn:Eadj;
      cbn [bind] in H; [|discriminate].
    assert (Hch : chain_ok a' = true /\ forall e, oe = Some e -> chain_ok e = true).
    { eapply adjust_chain; [exact Fg| | | |exact Hpre|exact Eadj]; rewrite ?Fns, ?Fne, ?Ps, ?Pe; lia. }
    destruct Hch as (Ha' & He').
    destruct oe as [e|]; inversion H; subst st'; cbn [fst]; eexists; (split; [reflexivity|]).
    + constructor; [assumption|]. constructor; [apply He'; reflexivity|constructor].
    + constructor; [assumption|constructor].
Qed.

(* the two former refutations, now positive: every protocluster whose core lies inside its extent (on
   either side of the origin), and every candidate cluster (any core) *)
Lemma proto_chain_in_extent N circ rloc f core h conv grp st' :
  wf_region N rloc -> wf_feat_ring N f -> contains rloc (floc f) = true ->
  (bridges rloc = true \/ fcrosses f = true -> circ = true) ->
  fkind f = K_Proto -> fcore f = Some core -> wf_core_in N f core ->
  add_area_from_feature rloc N (extend_over_origin rloc N circ) h (conv, grp) f = Ok st' ->
  exists added, fst st' = conv ++ added /\ Forall (fun a => chain_ok a = true) added.
Proof.
  intros Hr Hf Hcont Hguard Hk Hcore Hwf H.
  eapply area_chain_in_extent; try eassumption.
  intros _. exists core. split; assumption.
Qed.

Lemma cand_chain_in_extent N circ rloc f h conv grp st' :
  wf_region N rloc -> wf_feat_ring N f -> contains rloc (floc f) = true ->
  (bridges rloc = true \/ fcrosses f = true -> circ = true) ->
  fkind f = K_Cand ->
  add_area_from_feature rloc N (extend_over_origin rloc N circ) h (conv, grp) f = Ok st' ->
  exists added, fst st' = conv ++ added /\ Forall (fun a => chain_ok a = true) added.
Proof.
  intros Hr Hf Hcont Hguard Hk H.
  eapply area_chain_in_extent; try eassumption.
  intros Hk'. rewrite Hk in Hk'. discriminate.
Qed.

(* ---------- the witnesses of the two repaired findings (regression) ---------- *)
Definition witness_region : loc := [mkPart 100 1000 1; mkPart 0 50 1].
Definition witness_proto : feat :=
  mkFeat 0 K_Proto [mkPart 100 1000 1; mkPart 0 50 1] (Some [mkPart 200 300 1]) false 1.
Definition witness_proto_mirror : feat :=
  mkFeat 0 K_Proto [mkPart 900 1000 1; mkPart 0 800 1] (Some [mkPart 600 700 1]) false 1.
Definition witness_cand : feat :=
  mkFeat 0 K_Cand [mkPart 100 1000 1; mkPart 0 50 1] (Some [mkPart 400 700 1]) false 1.

Lemma witness_region_wf : wf_region 1000 witness_region.
Proof. right. exists (mkPart 100 1000 1), (mkPart 0 50 1). cbn. repeat split; lia. Qed.
Lemma witness_feat_wf f : floc f = witness_region -> wf_feat_ring 1000 f.
Proof. intros E. right. exists (mkPart 100 1000 1), (mkPart 0 50 1). cbn. repeat split; try lia. exact E. Qed.

(* ---------- build_area_rows: every emitted extent in range ---------- *)
Lemma insert_by_in {A} (lt : A -> A -> bool) x l y : In y (insert_by lt x l) -> y = x \/ In y l.
Proof.
  induction l as [|z l IH]; cbn [insert_by]; intros H.
  - destruct H as [H|[]]; auto.
  - destruct (lt x z).
    + destruct H as [H|H]; auto.
    + destruct H as [H|H]; [right; left; assumption|].
      destruct (IH H) as [H'|H']; [left; assumption|right; right; assumption].
Qed.

Lemma sort_fold_in {A} (lt : A -> A -> bool) l : forall acc y,
  In y (fold_left (fun acc x => insert_by lt x acc) l acc) -> In y acc \/ In y l.
Proof.
  induction l as [|x l IH]; cbn [fold_left]; intros acc y H; [left; assumption|].
  destruct (IH _ _ H) as [H1|H1].
  - destruct (insert_by_in lt x acc y H1) as [H2|H2]; [right; left; auto|left; assumption].
  - right; right; assumption.
Qed.

Lemma sort_by_in {A} (lt : A -> A -> bool) l y : In y (sort_by lt l) -> In y l.
Proof. unfold sort_by. intros H. destruct (sort_fold_in lt l [] y H) as [[]|H']; assumption. Qed.

Lemma unique_in rloc protos y : In y (unique_protoclusters rloc protos) -> In y protos.
Proof.
  unfold unique_protoclusters. destruct (negb (bridges rloc)); intro H.
  - apply sort_by_in in H. exact (sort_by_in _ _ _ H).
  - exact (sort_by_in _ _ _ H).
Qed.

Lemma pack_in areas len rows r y :
  pack areas len = Ok rows -> In r rows -> In y (r_contents r) -> In y areas.
Proof.
  intros H Hr Hy. apply pack_complete in H.
  eapply Permutation_in; [exact H|]. unfold contents_of. apply in_flat_map. exists r. auto.
Qed.

Definition feat_ok (N : Z) (circ : bool) (rloc : loc) (f : feat) : Prop :=
  wf_feat_ring N f /\ contains rloc (floc f) = true /\ (bridges rloc = true \/ fcrosses f = true -> circ = true).

Definition ext_ok (rloc : loc) (N : Z) (a : area) : Prop := extent_ok (range0 rloc N) a = true.

Lemma add_row_features_ext N circ rloc h fs : forall st st',
  wf_region N rloc -> Forall (feat_ok N circ rloc) fs -> Forall (ext_ok rloc N) (fst st) ->
  add_row_features rloc N (extend_over_origin rloc N circ) h st fs = Ok st' ->
  Forall (ext_ok rloc N) (fst st').
Proof.
  induction fs as [|f more IH]; intros st st' Hr Hfs Hst H; cbn [add_row_features] in H.
  - inversion H; subst. assumption.
  - inversion Hfs as [|f0 m0 (Hwf & Hcont & Hg) Hm]; subst.
    destruct (add_area_from_feature rloc N (extend_over_origin rloc N circ) h st f) as [st1|k] eqn:E;
      cbn [bind] in H; [|discriminate].
    eapply IH; [exact Hr|exact Hm| |exact H].
    destruct st as [conv grp].
    destruct (area_extent_in_range N circ rloc f h conv grp st1 Hr Hwf Hcont Hg E) as (added & Hfst & Hadded & _).
    rewrite Hfst. apply Forall_app. split; [exact Hst|].
    eapply Forall_impl; [|exact Hadded]. intros a (Ha & _). exact Ha.
Qed.

Lemma add_rows_ext N circ rloc rows : forall h st r,
  wf_region N rloc -> Forall (fun rw => Forall (feat_ok N circ rloc) (r_contents rw)) rows ->
  Forall (ext_ok rloc N) (fst st) ->
  add_rows rloc N (extend_over_origin rloc N circ) h st rows = Ok r ->
  Forall (ext_ok rloc N) (fst (fst r)).
Proof.
  induction rows as [|rw more IH]; intros h st r Hr Hrows Hst H; cbn [add_rows] in H.
  - inversion H; subst. exact Hst.
  - inversion Hrows as [|r0 m0 Hrw Hm]; subst.
    destruct (add_row_features rloc N (extend_over_origin rloc N circ) h st (r_contents rw)) as [st1|k] eqn:E;
      cbn [bind] in H; [|discriminate].
    eapply IH; [exact Hr|exact Hm| |exact H].
    eapply add_row_features_ext; eauto.
Qed.

Lemma rows_feat_ok N circ rloc areas len rows :
  Forall (feat_ok N circ rloc) areas -> pack areas len = Ok rows ->
  Forall (fun rw => Forall (feat_ok N circ rloc) (r_contents rw)) rows.
Proof.
  intros Hall H. apply Forall_forall. intros r Hr. apply Forall_forall. intros y Hy.
  rewrite Forall_forall in Hall. apply Hall. exact (pack_in areas len rows r y H Hr Hy).
Qed.

Lemma build_extents_in_range N circ rloc subs cands protos out :
  wf_region N rloc ->
  Forall (feat_ok N circ rloc) subs -> Forall (feat_ok N circ rloc) cands -> Forall (feat_ok N circ rloc) protos ->
  build_area_rows rloc N circ subs cands protos = Ok out ->
  Forall (fun a => extent_ok (range0 rloc N) a = true) out.
Proof.
  intros Hr Hs Hc Hp H. unfold build_area_rows in H.
  destruct (pack subs (-1)) as [sub_rows|k] eqn:E1; cbn [bind] in H; [|discriminate].
  destruct (pack (filter (fun c => nonempty subs || negb (fsingle c)) cands) (-1)) as [cand_rows|k] eqn:E2;
    cbn [bind] in H; [|discriminate].
  destruct (pack (unique_protoclusters rloc protos) (-1)) as [proto_rows|k] eqn:E3; cbn [bind] in H; [|discriminate].
  assert (H1 : Forall (fun rw => Forall (feat_ok N circ rloc) (r_contents rw)) sub_rows)
    by (eapply rows_feat_ok; [exact Hs|exact E1]).
  assert (H2 : Forall (fun rw => Forall (feat_ok N circ rloc) (r_contents rw)) cand_rows).
  { eapply rows_feat_ok; [|exact E2]. apply Forall_forall. intros x Hx. apply filter_In in Hx.
    rewrite Forall_forall in Hc. apply Hc. tauto. }
  assert (H3 : Forall (fun rw => Forall (feat_ok N circ rloc) (r_contents rw)) proto_rows).
  { eapply rows_feat_ok; [|exact E3]. apply Forall_forall. intros x Hx. apply unique_in in Hx.
    rewrite Forall_forall in Hp. apply Hp. exact Hx. }
  destruct (add_rows rloc N (extend_over_origin rloc N circ) 0 ([], 0) (cand_rows ++ sub_rows)) as [[st height]|k] eqn:E4;
    cbn [bind] in H; [|discriminate].
  assert (Hst : Forall (ext_ok rloc N) (fst st)).
  { change st with (fst (st, height)). eapply add_rows_ext; [exact Hr| | |exact E4].
    - apply Forall_app. split; assumption.
    - constructor. }
  match type of H with (do r2 <- add_rows _ _ _ ?hh _ _; _) = _ =>
    destruct (add_rows rloc N (extend_over_origin rloc N circ) hh st proto_rows) as [r2|k] eqn:E5 end;
    cbn [bind] in H; [|discriminate].
  inversion H; subst out.
  eapply add_rows_ext; [exact Hr|exact H3|exact Hst|exact E5].
Qed.

(* ---------- build_area_rows: start/end of every emitted area inside its extent ---------- *)
(* (provable for every region since the repair of core_side_heuristic and candidate_end_unshifted) *)
Definition feat_ok_core (N : Z) (circ : bool) (rloc : loc) (f : feat) : Prop :=
  feat_ok N circ rloc f /\ core_wf N f.

Definition chn_ok (a : area) : Prop := chain_ok a = true.

Lemma add_row_features_chain N circ rloc h fs : forall st st',
  wf_region N rloc -> Forall (feat_ok_core N circ rloc) fs -> Forall chn_ok (fst st) ->
  add_row_features rloc N (extend_over_origin rloc N circ) h st fs = Ok st' ->
  Forall chn_ok (fst st').
Proof.
  induction fs as [|f more IH]; intros st st' Hr Hfs Hst H; cbn [add_row_features] in H.
  - inversion H; subst. assumption.
  - inversion Hfs as [|f0 m0 ((Hwf & Hcont & Hg) & Hcore) Hm]; subst.
    destruct (add_area_from_feature rloc N (extend_over_origin rloc N circ) h st f) as [st1|k] eqn:E;
      cbn [bind] in H; [|discriminate].
    eapply IH; [exact Hr|exact Hm| |exact H].
    destruct st as [conv grp].
    destruct (area_chain_in_extent N circ rloc f h conv grp st1 Hr Hwf Hcont Hg Hcore E) as (added & Hfst & Hadded).
    rewrite Hfst. apply Forall_app. split; [exact Hst|exact Hadded].
Qed.

Lemma add_rows_chain N circ rloc rows : forall h st r,
  wf_region N rloc -> Forall (fun rw => Forall (feat_ok_core N circ rloc) (r_contents rw)) rows ->
  Forall chn_ok (fst st) ->
  add_rows rloc N (extend_over_origin rloc N circ) h st rows = Ok r ->
  Forall chn_ok (fst (fst r)).
Proof.
  induction rows as [|rw more IH]; intros h st r Hr Hrows Hst H; cbn [add_rows] in H.
  - inversion H; subst. exact Hst.
  - inversion Hrows as [|r0 m0 Hrw Hm]; subst.
    destruct (add_row_features rloc N (extend_over_origin rloc N circ) h st (r_contents rw)) as [st1|k] eqn:E;
      cbn [bind] in H; [|discriminate].
    eapply IH; [exact Hr|exact Hm| |exact H].
    eapply add_row_features_chain; eauto.
Qed.

Lemma rows_pred_ok (P : feat -> Prop) areas len rows :
  Forall P areas -> pack areas len = Ok rows -> Forall (fun rw => Forall P (r_contents rw)) rows.
Proof.
  intros Hall H. apply Forall_forall. intros r Hr. apply Forall_forall. intros y Hy.
  rewrite Forall_forall in Hall. apply Hall. exact (pack_in areas len rows r y H Hr Hy).
Qed.

Lemma build_chain_in_extent N circ rloc subs cands protos out :
  wf_region N rloc ->
  Forall (feat_ok_core N circ rloc) subs -> Forall (feat_ok_core N circ rloc) cands ->
  Forall (feat_ok_core N circ rloc) protos ->
  build_area_rows rloc N circ subs cands protos = Ok out ->
  Forall (fun a => chain_ok a = true) out.
Proof.
  intros Hr Hs Hc Hp H. unfold build_area_rows in H.
  destruct (pack subs (-1)) as [sub_rows|k] eqn:E1; cbn [bind] in H; [|discriminate].
  destruct (pack (filter (fun c => nonempty subs || negb (fsingle c)) cands) (-1)) as [cand_rows|k] eqn:E2;
    cbn [bind] in H; [|discriminate].
  destruct (pack (unique_protoclusters rloc protos) (-1)) as [proto_rows|k] eqn:E3; cbn [bind] in H; [|discriminate].
  assert (H1 : Forall (fun rw => Forall (feat_ok_core N circ rloc) (r_contents rw)) sub_rows)
    by (eapply rows_pred_ok; [exact Hs|exact E1]).
  assert (H2 : Forall (fun rw => Forall (feat_ok_core N circ rloc) (r_contents rw)) cand_rows).
  { eapply rows_pred_ok; [|exact E2]. apply Forall_forall. intros x Hx. apply filter_In in Hx.
    rewrite Forall_forall in Hc. apply Hc. tauto. }
  assert (H3 : Forall (fun rw => Forall (feat_ok_core N circ rloc) (r_contents rw)) proto_rows).
  { eapply rows_pred_ok; [|exact E3]. apply Forall_forall. intros x Hx. apply unique_in in Hx.
    rewrite Forall_forall in Hp. apply Hp. exact Hx. }
  destruct (add_rows rloc N (extend_over_origin rloc N circ) 0 ([], 0) (cand_rows ++ sub_rows)) as [[st height]|k] eqn:E4;
    cbn [bind] in H; [|discriminate].
  assert (Hst : Forall chn_ok (fst st)).
  { change st with (fst (st, height)). eapply add_rows_chain; [exact Hr| | |exact E4].
    - apply Forall_app. split; assumption.
    - constructor. }
  match type of H with (do r2 <- add_rows _ _ _ ?hh _ _; _) = _ =>
    destruct (add_rows rloc N (extend_over_origin rloc N circ) hh st proto_rows) as [r2|k] eqn:E5 end;
    cbn [bind] in H; [|discriminate].
  inversion H; subst out.
  eapply add_rows_chain; [exact Hr|exact H3|exact Hst|exact E5].
Qed.

(* the whole inequality chain of the property at the observation point:
   range start <= neighbouring_start <= start <= end <= neighbouring_end <= range end *)
Lemma build_full_chain N circ rloc subs cands protos out :
  wf_region N rloc ->
  Forall (feat_ok_core N circ rloc) subs -> Forall (feat_ok_core N circ rloc) cands ->
  Forall (feat_ok_core N circ rloc) protos ->
  build_area_rows rloc N circ subs cands protos = Ok out ->
  Forall (fun a => fst (range0 rloc N) <= a_ns a /\ a_ns a <= a_start a /\ a_start a <= a_end a /\
                   a_end a <= a_ne a /\ a_ne a <= snd (range0 rloc N)) out.
Proof.
  intros Hr Hs Hc Hp H.
  assert (weaken : forall l, Forall (feat_ok_core N circ rloc) l -> Forall (feat_ok N circ rloc) l).
  { intros l Hl. eapply Forall_impl; [|exact Hl]. intros a (Ha & _). exact Ha. }
  pose proof (build_extents_in_range N circ rloc subs cands protos out Hr (weaken _ Hs) (weaken _ Hc) (weaken _ Hp) H) as He.
  pose proof (build_chain_in_extent N circ rloc subs cands protos out Hr Hs Hc Hp H) as Hch.
  rewrite Forall_forall in *. intros a Ha. specialize (He a Ha). specialize (Hch a Ha).
  unfold extent_ok, chain_ok in *. lia.
Qed.
