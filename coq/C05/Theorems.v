(* C05 - property theorems. *)
From ASV Require Import Base Loc.
From ASV.C05 Require Import Model Proofs.

(* _merge_sets returns the connected components of the "share a protocluster" graph of its input
   sets: (1) the union of all protoclusters is kept, nothing is invented; (2) the returned groups are
   pairwise disjoint; (3) every non-empty input set lies wholly inside one returned group (so sets
   that intersect end up together); (4) every returned group has the members of a set built from
   input sets by repeatedly uniting two sets that share a protocluster (nothing is merged that is
   not linked by a chain of shared members); (5) no returned group is empty.  For all lists of
   groups, of any size - the statement the single-pass version of the code did not satisfy. *)
Theorem C05_merge_sets_components : forall groups,
  let out := merge_sets groups in
  (forall i, inAny i out <-> inAny i groups) /\
  ForallOrdPairs disjointP out /\
  (forall g, In g groups -> g <> [] -> exists h, In h out /\ subsetP g h) /\
  Forall (fun h => exists h0, built groups h0 /\ forall i, inS i h <-> inS i h0) out /\
  Forall (fun h => h <> []) out.
Proof. exact merge_sets_components. Qed.
Print Assumptions C05_merge_sets_components.

(* the `while changed` loop of _merge_sets always reaches a stable state within the fuel the model
   gives it (one pass more than there are later sets): after it, the first set is disjoint from
   every later set.  So the fuel is never the reason for a result. *)
Theorem C05_merge_sets_loop_stable : forall first rest f r',
  merge_stable (S (length rest)) first rest = (f, r') -> Forall (disjointP f) r'.
Proof. exact merge_stable_fuel_enough. Qed.
Print Assumptions C05_merge_sets_loop_stable.

(* partial version of "every protocluster is in at least one candidate": the final pass over the
   protoclusters not absorbed into a hybrid or interleaved group (plus the promoted extras) gives
   each of them a SINGLE candidate with exactly that member, unless a candidate already in the
   table contains it.  Missing for the full statement: that every member of a group handed to
   build_candidates stays a member of some candidate of the table (checked on every run by the
   decidable specification on the implementation's output). *)
Theorem C05_every_proto_covered_partial : forall w existing l ss,
  singles_go w existing l = Ok ss ->
  forall p, In p l ->
    (exists c, In c ss /\ cmem c = [p] /\ ckind c = K_SINGLE) \/
    (exists c, In c (tvalues existing) /\ inS (pid p) (cmem c)).
Proof. exact singles_go_covers. Qed.
Print Assumptions C05_every_proto_covered_partial.

(* "no protocluster is listed twice in a candidate" is FALSE of the faithful model (and of the
   code): on a circular record a hybrid whose joint core crosses the origin lists a contained
   protocluster twice (recorded finding hybrid_member_repeated) *)
Theorem C05_no_repeated_member_refuted :
  exists out c, create_candidates w_protos (Some 12) = Ok out /\ In c out /\
                ckind c = K_HYBRID /\ nodupb (map pid (cmem c)) = false.
Proof. exact repeated_member_witness. Qed.
Print Assumptions C05_no_repeated_member_refuted.

(* ---- non-vacuity ---- *)
Definition ex_p (i s e : Z) : proto := mkProto i [mkPart s e 1] [mkPart s e 1] i [].
(* the chain that the single-pass _merge_sets split into two groups: {P1,P5},{P2,P3},{P3,P5} *)
Example C05_ex_merge_chain :
  map (map pid) (merge_sets [[ex_p 1 0 10; ex_p 5 40 50]; [ex_p 2 10 20; ex_p 3 20 30]; [ex_p 3 20 30; ex_p 5 40 50]])
  = [[1; 2; 3; 5]].
Proof. vm_compute. reflexivity. Qed.
(* a merge really happens inside the loop, and the loop result is stable *)
Example C05_ex_loop :
  exists f r', merge_stable 3 [ex_p 1 0 10; ex_p 5 40 50] [[ex_p 2 10 20; ex_p 3 20 30]; [ex_p 3 20 30; ex_p 5 40 50]] = (f, r')
               /\ map pid f = [1; 5; 3; 2] /\ r' = [[]; []].
Proof. eexists. eexists. split; [vm_compute; reflexivity|split; reflexivity]. Qed.
(* singles: one protocluster gets its single, the other is already in a candidate with its coordinates *)
Example C05_ex_singles :
  exists c0, mk_cand None K_NEIGHBOURING [ex_p 1 0 10; ex_p 2 0 10] = Ok c0 /\
  exists ss, singles_go None [((0, 10), c0)] [ex_p 1 0 10; ex_p 3 5 20] = Ok ss /\ map (fun c => map pid (cmem c)) ss = [[3]].
Proof. eexists. split; [vm_compute; reflexivity|]. eexists. split; [vm_compute; reflexivity|reflexivity]. Qed.
