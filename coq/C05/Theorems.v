(* C05 - property theorems. *)
From ASV Require Import Base Loc.
From ASV.C05 Require Import Model Proofs.
From Coq Require Import Permutation Lia.

(* _merge_sets returns the connected components of the "share a protocluster" graph of its input
   sets: (1) the union of all protoclusters is kept, nothing is invented; (2) the returned groups are
   pairwise disjoint; (3) every non-empty input set lies wholly inside one returned group (so sets
   that intersect end up together); (4) every returned group has the members of a set built from
   input sets by repeatedly uniting two sets that share a protocluster (nothing is merged that is
   not linked by a chain of shared members); (5) no returned group is empty.  For all lists of
   groups, of any size - the statement the single-pass version of the code did not satisfy. *)
Theorem C05_merge_sets_components : forall groups,
  let out := merge_sets groups in
  (forall i, inAny i out <-> inAny i groups) /\
  ForallOrdPairs disjointP out /\
  (forall g, In g groups -> g <> [] -> exists h, In h out /\ subsetP g h) /\
  Forall (fun h => exists h0, built groups h0 /\ forall i, inS i h <-> inS i h0) out /\
  Forall (fun h => h <> []) out.
Proof. exact merge_sets_components. Qed.
Print Assumptions C05_merge_sets_components.

(* the `while changed` loop of _merge_sets always reaches a stable state within the fuel the model
   gives it (one pass more than there are later sets): after it, the first set is disjoint from
   every later set.  So the fuel is never the reason for a result. *)
Theorem C05_merge_sets_loop_stable : forall first rest f r',
  merge_stable (S (length rest)) first rest = (f, r') -> Forall (disjointP f) r'.
Proof. exact merge_stable_fuel_enough. Qed.
Print Assumptions C05_merge_sets_loop_stable.

(* partial version of "every protocluster is in at least one candidate": the final pass over the
   protoclusters not absorbed into a hybrid or interleaved group (plus the promoted extras) gives
   each of them a SINGLE candidate with exactly that member, unless a candidate already in the
   table contains it.  Missing for the full statement: that every member of a group handed to
   build_candidates stays a member of some candidate of the table (checked on every run by the
   decidable specification on the implementation's output). *)
Theorem C05_every_proto_covered_partial : forall w existing l ss,
  singles_go w existing l = Ok ss ->
  forall p, In p l ->
    (exists c, In c ss /\ cmem c = [p] /\ ckind c = K_SINGLE) \/
    (exists c, In c (tvalues existing) /\ inS (pid p) (cmem c)).
Proof. exact singles_go_covers. Qed.
Print Assumptions C05_every_proto_covered_partial.

(* no protocluster is listed twice in a candidate: for every input, any wrap point (positive statement after the
   repair of finding hybrid_member_repeated: `update_if_contained` skips a cluster that is already in the group;
   before the repair a hybrid whose joint core crosses the origin listed a contained protocluster twice) *)
Theorem C05_no_repeated_member : forall protos w out, create_candidates protos w = Ok out ->
  forall c, In c out -> NoDup (map pid (cmem c)).
Proof. exact no_repeated_member. Qed.
Print Assumptions C05_no_repeated_member.

(* the former witness of hybrid_member_repeated (circular record of length 12; was members 1, 1, 0, 2) *)
Theorem C05_no_repeated_member_witness :
  exists out, create_candidates w_protos (Some 12) = Ok out /\
              map (fun c => (ckind c, map pid (cmem c))) out = [(K_HYBRID, [1; 0; 2])].
Proof. exact repeated_member_witness_repaired. Qed.
Print Assumptions C05_no_repeated_member_witness.

(* the former witness of joint_core_wraps_assert (circular record of length 72): the input is still in the class
   (two hybrid groups with the same coordinates united, joint core connected across the origin, no member core
   crosses it, protoclusters left unassigned) and the formation now returns, covering every protocluster; before
   the repair `assert core_group` failed (Err E_Assert) *)
Theorem C05_joint_core_wraps_returns :
  class_joint_core_wraps jc_protos (Some 72) = true /\
  exists out, create_candidates jc_protos (Some 72) = Ok out /\
              map (fun c => (ckind c, map pid (cmem c))) out
              = [(K_HYBRID, [1; 0; 3; 5; 2; 4]); (K_SINGLE, [3]); (K_SINGLE, [5]); (K_SINGLE, [4])].
Proof. exact joint_core_wraps_witness_repaired. Qed.
Print Assumptions C05_joint_core_wraps_returns.

(* ---- deepening: statements about the whole formation (create_candidates = create_candidates_from_protoclusters) ---- *)

(* nothing is invented: every candidate has at least one member and every member is one of the supplied
   protoclusters (the same object, not just the same id); any wrap point *)
Theorem C05_members_supplied : forall protos w out, create_candidates protos w = Ok out ->
  forall c, In c out -> cmem c <> [] /\ forall p, In p (cmem c) -> In p protos.
Proof. exact members_from_input. Qed.
Print Assumptions C05_members_supplied.

(* each candidate's location is connect_locations of exactly its members' locations (linear and circular) *)
Theorem C05_location : forall protos w out, create_candidates protos w = Ok out ->
  forall c, In c out -> connect_locations (map ploc (cmem c)) w = Ok (cloc c).
Proof. exact location_is_connect. Qed.
Print Assumptions C05_location.

(* on a linear record with single-part protoclusters the location is one part [s, e) that covers every base of
   every member, and s and e are the start and the end of members: the span of exactly its members
   (composition with the C04 lemmas about connect_locations on a line) *)
Theorem C05_location_linear : forall protos out, create_candidates protos None = Ok out ->
  (forall p, In p protos -> exists q, ploc p = [q] /\ ps q < pe q) ->
  forall c, In c out -> exists h, cloc c = [h] /\
    (forall p x, In p (cmem c) -> ASV.C04.Proofs.base_of (ploc p) x -> ps h <= x < pe h) /\
    (exists p q, In p (cmem c) /\ ploc p = [q] /\ ps q = ps h) /\
    (exists p q, In p (cmem c) /\ ploc p = [q] /\ pe q = pe h).
Proof. exact location_linear. Qed.
Print Assumptions C05_location_linear.

(* every supplied protocluster is a member (by id) of at least one returned candidate, whenever the function
   returns.  The proof uses the code's own final check (as many distinct members as protoclusters) and
   C05_members_supplied: distinct member ids are ids of supplied protoclusters, and there are as many of them
   as protoclusters, so none is missing - also when several supplied protoclusters share an id.
   NOT claimed: that the function returns (before the repair of joint_core_wraps_assert it raised AssertionError
   in that class); that the final check can never fail is covered by the correspondence only. *)
Theorem C05_every_proto_covered : forall protos w out, create_candidates protos w = Ok out ->
  forall p, In p protos -> exists c, In c out /\ inS (pid p) (cmem c).
Proof. exact every_proto_covered. Qed.
Print Assumptions C05_every_proto_covered.

(* with distinct ids (distinct objects) the protocluster itself is the member *)
Theorem C05_every_proto_covered_member : forall protos w out, create_candidates protos w = Ok out ->
  NoDup (map pid protos) -> forall p, In p protos -> exists c, In c out /\ In p (cmem c).
Proof. exact every_proto_covered_strong. Qed.
Print Assumptions C05_every_proto_covered_member.

(* _merge_sets does not depend on the order (nor on the multiplicity) in which the sets are supplied: for two
   lists with the same elements every returned group has a returned group with the same members on the other side *)
Theorem C05_merge_sets_order_independent : forall G G', Permutation G G' ->
  forall h, In h (merge_sets G) -> exists h', In h' (merge_sets G') /\ forall i, inS i h <-> inS i h'.
Proof. exact merge_sets_perm. Qed.
Print Assumptions C05_merge_sets_order_independent.

Theorem C05_merge_sets_same_elements : forall G G', (forall g, In g G <-> In g G') ->
  forall h, In h (merge_sets G) -> exists h', In h' (merge_sets G') /\ forall i, inS i h <-> inS i h'.
Proof. exact merge_sets_order_independent. Qed.
Print Assumptions C05_merge_sets_same_elements.

(* chemical hybrids.  (1) the sets handed to _merge_sets by _find_hybrids are pairs of supplied protoclusters
   that share a defining gene; (2) completeness: two different supplied protoclusters sharing a defining gene
   are members of one hybrid group; (3) soundness: every hybrid group consists of one component m of that
   sharing relation (C05_merge_sets_components applied to the pairs: linked by a chain of shared genes, nothing
   else) plus protoclusters that share with nobody and whose core lies inside connect_locations of m's cores *)
Theorem C05_hybrid_pairs : forall clusters g, In g (hybrid_pair_groups clusters) ->
  exists x y, g = [x; y] /\ In x clusters /\ In y clusters /\ defs_intersect x y = true.
Proof. exact pair_group_spec. Qed.
Print Assumptions C05_hybrid_pairs.

Theorem C05_hybrids_complete : forall clusters w groups un, find_hybrids clusters w = Ok (groups, un) ->
  forall a b, In a clusters -> In b clusters -> a <> b -> defs_intersect a b = true ->
  exists g, In g groups /\ inS (pid a) g /\ inS (pid b) g.
Proof. exact hybrids_complete. Qed.
Print Assumptions C05_hybrids_complete.

Theorem C05_hybrids_sound : forall clusters w groups un, find_hybrids clusters w = Ok (groups, un) ->
  forall g, In g groups -> exists m core, In m (merge_sets (hybrid_pair_groups clusters)) /\
    connect_locations (map pcore m) w = Ok core /\
    (forall x, In x m -> In x g) /\
    forall x, In x g -> In x m \/
      (In x clusters /\ contains core (pcore x) = true /\ pmem x (concat (hybrid_pair_groups clusters)) = false).
Proof. exact hybrids_sound. Qed.
Print Assumptions C05_hybrids_sound.

(* partial version of "no two candidates with the same coordinates and membership": the de-duplication table of
   build_candidates never holds two candidates under the same (start, end) key, through any sequence of calls.
   Missing for the full statement: that a promoted replacement still has the coordinates of its key (a fact
   about connect_locations) and the comparison of the final singles with the table (both checked on every run
   by the decidable specification, clause "unique coordinates+membership") *)
Theorem C05_unique_partial : forall w kind groups existing singles e s,
  build_go w kind groups existing singles = Ok (e, s) -> keys_distinct existing -> keys_distinct e.
Proof. exact build_go_keys_distinct. Qed.
Print Assumptions C05_unique_partial.

(* "build_candidates does not depend on the order of the groups" is FALSE (documented behaviour of the promotion, not
   a finding): two groups of one call with the same coordinates are united, and only the members of the later one get
   an extra single.  The order of the groups comes from sorted structures; since the repair of
   supply_order_same_key_groups it no longer follows the supply order of the protoclusters (C05_order_witness) *)
Theorem C05_build_candidates_order_independent_refuted :
  exists c1 e1 s1 c2 e2 s2,
    build_candidates None K_HYBRID [oi_g1; oi_g2] [] [] = Ok (c1, e1, s1) /\
    build_candidates None K_HYBRID [oi_g2; oi_g1] [] [] = Ok (c2, e2, s2) /\
    map pid s1 = [3; 4] /\ map pid s2 = [1; 2].
Proof. exact build_candidates_order_dependent. Qed.
Print Assumptions C05_build_candidates_order_independent_refuted.

(* ---- non-vacuity ---- *)
Definition ex_p (i s e : Z) : proto := mkProto i [mkPart s e 1] [mkPart s e 1] i [].
(* the chain that the single-pass _merge_sets split into two groups: {P1,P5},{P2,P3},{P3,P5} *)
Example C05_ex_merge_chain :
  map (map pid) (merge_sets [[ex_p 1 0 10; ex_p 5 40 50]; [ex_p 2 10 20; ex_p 3 20 30]; [ex_p 3 20 30; ex_p 5 40 50]])
  = [[1; 2; 3; 5]].
Proof. vm_compute. reflexivity. Qed.
(* a merge really happens inside the loop, and the loop result is stable *)
Example C05_ex_loop :
  exists f r', merge_stable 3 [ex_p 1 0 10; ex_p 5 40 50] [[ex_p 2 10 20; ex_p 3 20 30]; [ex_p 3 20 30; ex_p 5 40 50]] = (f, r')
               /\ map pid f = [1; 5; 3; 2] /\ r' = [[]; []].
Proof. eexists. eexists. split; [vm_compute; reflexivity|split; reflexivity]. Qed.
(* singles: one protocluster gets its single, the other is already in a candidate with its coordinates *)
Example C05_ex_singles :
  exists c0, mk_cand None K_NEIGHBOURING [ex_p 1 0 10; ex_p 2 0 10] = Ok c0 /\
  exists ss, singles_go None [((0, 10), c0)] [ex_p 1 0 10; ex_p 3 5 20] = Ok ss /\ map (fun c => map pid (cmem c)) ss = [[3]].
Proof. eexists. split; [vm_compute; reflexivity|]. eexists. split; [vm_compute; reflexivity|reflexivity]. Qed.

(* the whole formation returns on a linear record with a hybrid pair (shared defining gene 7), a protocluster
   whose core overlaps the hybrid's core, and a distant one: hypotheses of C05_members_supplied, C05_location,
   C05_location_linear, C05_every_proto_covered(_member) are met by a non-trivial input *)
Definition ex_q (i s e cs ce : Z) (defs : list Z) : proto := mkProto i [mkPart s e 1] [mkPart cs ce 1] i defs.
Definition ex_protos : list proto :=
  [ex_q 0 0 100 40 60 [7]; ex_q 1 20 120 50 70 [7]; ex_q 2 50 150 65 90 []; ex_q 3 300 400 330 350 []].
Example C05_ex_formation :
  exists out, create_candidates ex_protos None = Ok out /\
    map (fun c => (ckind c, map pid (cmem c))) out
    = [(K_INTERLEAVED, [0; 1; 2]); (K_HYBRID, [0; 1]); (K_SINGLE, [3])]
    /\ NoDup (map pid ex_protos).
Proof.
  destruct (create_candidates ex_protos None) as [out|k] eqn:E; vm_compute in E; [|discriminate E].
  inversion E as [E']. eexists. split; [reflexivity|]. split; [vm_compute; reflexivity|].
  vm_compute. repeat constructor; cbn; intuition discriminate.
Qed.
(* hypotheses of C05_hybrids_complete / _sound *)
Example C05_ex_hybrids :
  exists groups un, find_hybrids ex_protos None = Ok (groups, un) /\ map (map pid) groups = [[0; 1]] /\
    defs_intersect (ex_q 0 0 100 40 60 [7]) (ex_q 1 20 120 50 70 [7]) = true.
Proof.
  destruct (find_hybrids ex_protos None) as [[g u]|k] eqn:E; vm_compute in E; [|discriminate E].
  inversion E. eexists. eexists. split; [reflexivity|]. split; vm_compute; reflexivity.
Qed.
(* the order of the sets really changes the list returned by _merge_sets while the groups stay the same *)
Example C05_ex_merge_order :
  map (map pid) (merge_sets [[ex_p 3 20 30; ex_p 5 40 50]; [ex_p 1 0 10; ex_p 5 40 50]]) = [[1; 3; 5]] /\
  map (map pid) (merge_sets [[ex_p 1 0 10; ex_p 5 40 50]; [ex_p 3 20 30; ex_p 5 40 50]]) = [[1; 3; 5]].
Proof. split; vm_compute; reflexivity. Qed.

(* ====================================================================================================== *)
(* second deepening pass                                                                                   *)
(* ====================================================================================================== *)

(* ---- the final coverage assertion never fires ---- *)
(* every supplied protocluster is (by id) a member of a candidate formed by the body of the function, i.e.
   BEFORE the code's own final check - proved through all passes (hybrids, the de-duplication table with
   promotion, interleaved incl. the origin walk, neighbouring, final singles), any wrap point *)
Theorem C05_formation_covers : forall protos w cands, formation_body protos w = Ok cands ->
  forall p, In p protos -> exists c, In c cands /\ inS (pid p) (cmem c).
Proof. exact Cover.formation_body_covers. Qed.
Print Assumptions C05_formation_covers.

(* hence, for distinct protoclusters, `assert len(assigned) == len(protoclusters)` cannot fail: whenever the
   passes themselves complete, create_candidates_from_protoclusters returns their sorted result *)
Theorem C05_coverage_assert_never_fires : forall protos w cands, protos <> [] -> NoDup (map pid protos) ->
  formation_body protos w = Ok cands -> create_candidates protos w = Ok (sort_by lt_cc cands).
Proof. exact Cover.coverage_assert_never_fires. Qed.
Print Assumptions C05_coverage_assert_never_fires.

(* the function fails exactly when one of its passes fails (never because of the final assertion) *)
Theorem C05_create_candidates_is_formation : forall protos w, protos <> [] -> NoDup (map pid protos) ->
  create_candidates protos w = match formation_body protos w with
                               | Ok cands => Ok (sort_by lt_cc cands) | Err k => Err k end.
Proof. exact Cover.create_candidates_is_formation. Qed.
Print Assumptions C05_create_candidates_is_formation.

(* ---- the meaning of NEIGHBOURING and INTERLEAVED ---- *)
(* find_interleaved / find_neighbouring / create_candidates transcribe the code after the repairs of the findings
   candidate_index_window (all candidates are looked at, no bisect window) and neighbouring_singles_not_linked (all
   singles are compared with each other).  The variants find_interleaved_v / find_neighbouring_v / create_candidates_v
   carry one switch per repair; with both switches ON they are the model; with a switch off they are the code as it
   was (history: class predicates used to label a violation if a defect returns, fn 21 / 22) *)
Theorem C05_variants_are_the_model :
  (forall clusters cands w, find_interleaved_v true clusters cands w = find_interleaved clusters cands w) /\
  (forall singles cands, find_neighbouring_v true true singles cands = find_neighbouring singles cands) /\
  (forall protos w, formation_body_v true true protos w = formation_body protos w) /\
  (forall protos w, create_candidates_v true true protos w = create_candidates protos w).
Proof. exact Kinds.variants_are_the_model. Qed.
Print Assumptions C05_variants_are_the_model.

(* soundness of neighbouring, no hypothesis, linear and circular: every neighbouring group is built by uniting, along
   shared members, sets each of which joins two units (candidate/candidate, candidate/protocluster,
   protocluster/protocluster) whose full extents overlap - nothing is grouped that is not linked by a chain of
   overlapping extents *)
Theorem C05_neighbouring_sound : forall singles cands g,
  In g (find_neighbouring singles cands) ->
  exists G h0, (forall x, In x G -> Kinds.nb_link singles cands x) /\ built G h0 /\ forall i, inS i g <-> inS i h0.
Proof. exact (Kinds.neighbouring_sound true true). Qed.
Print Assumptions C05_neighbouring_sound.

(* completeness of neighbouring, no hypothesis, linear and circular: any two units whose extents overlap end in one
   neighbouring group (with C05_merge_sets_components: the groups are exactly the transitive groups of overlapping
   extents).  Before the repairs of candidate_index_window and neighbouring_singles_not_linked this was false
   (C05_window_neighbouring_witness, C05_neighbouring_singles_witness) *)
Theorem C05_neighbouring_complete_cc : forall singles cands a b,
  In a cands -> In b cands -> a <> b -> cmem a <> [] -> overlap (cloc a) (cloc b) = true ->
  exists g, In g (find_neighbouring singles cands) /\ subsetP (cmem a) g /\ subsetP (cmem b) g.
Proof. exact Kinds.neighbouring_repaired_complete_cc. Qed.
Print Assumptions C05_neighbouring_complete_cc.
Theorem C05_neighbouring_complete_cs : forall singles cands c s,
  In c cands -> In s singles -> overlap (ploc s) (cloc c) = true ->
  exists g, In g (find_neighbouring singles cands) /\ subsetP (cmem c) g /\ inS (pid s) g.
Proof. exact Kinds.neighbouring_repaired_complete_cs. Qed.
Print Assumptions C05_neighbouring_complete_cs.
Theorem C05_neighbouring_complete_ss : forall singles cands s t,
  In s singles -> In t singles -> s <> t -> overlap (ploc s) (ploc t) = true ->
  exists g, In g (find_neighbouring singles cands) /\ inS (pid s) g /\ inS (pid t) g.
Proof. exact Kinds.neighbouring_repaired_complete_ss. Qed.
Print Assumptions C05_neighbouring_complete_ss.

(* interleaved on linear records (no wrap point): soundness - every interleaved group is built from sets each joining
   two units whose CORES overlap (a candidate's core = connect_locations of its members' cores) *)
Theorem C05_interleaved_sound_linear : forall clusters cands groups un,
  find_interleaved clusters cands None = Ok (groups, un) ->
  forall g, In g groups ->
  exists G h0, (forall x, In x G -> Kinds.il_link None clusters cands x) /\ built G h0 /\ forall i, inS i g <-> inS i h0.
Proof. exact (Kinds.interleaved_sound true). Qed.
Print Assumptions C05_interleaved_sound_linear.

(* completeness, linear: candidate/candidate, protocluster/protocluster and candidate/protocluster pairs with
   overlapping cores always end in one interleaved group (the early break of the core-sorted inner loop is harmless:
   proved from the sortedness of sort_by; the candidate/protocluster case holds since the repair of
   candidate_index_window, C05_window_witness) *)
Theorem C05_interleaved_complete_cc_linear : forall clusters cands groups un a b ka kb,
  find_interleaved clusters cands None = Ok (groups, un) ->
  In a cands -> In b cands -> a <> b -> ccore None a = Ok ka -> ccore None b = Ok kb -> overlap ka kb = true ->
  exists g, In g groups /\ subsetP (cmem a) g /\ subsetP (cmem b) g.
Proof. exact (Kinds.interleaved_complete_cc true). Qed.
Print Assumptions C05_interleaved_complete_cc_linear.
Theorem C05_interleaved_complete_pp_linear : forall clusters cands groups un x y,
  find_interleaved clusters cands None = Ok (groups, un) ->
  In x clusters -> In y clusters -> x <> y ->
  (forall p, In p (pcore x) -> ps p < pe p) -> (forall p, In p (pcore y) -> ps p < pe p) ->
  overlap (pcore x) (pcore y) = true ->
  exists g, In g groups /\ inS (pid x) g /\ inS (pid y) g.
Proof. exact (Kinds.interleaved_complete_pp true). Qed.
Print Assumptions C05_interleaved_complete_pp_linear.
Theorem C05_interleaved_complete_cp_linear : forall clusters cands groups un c k cl,
  find_interleaved clusters cands None = Ok (groups, un) ->
  In c cands -> ccore None c = Ok k -> In cl clusters -> overlap k (pcore cl) = true ->
  exists g, In g groups /\ subsetP (cmem c) g /\ inS (pid cl) g.
Proof. exact Kinds.interleaved_repaired_complete_cp. Qed.
Print Assumptions C05_interleaved_complete_cp_linear.

(* soundness also holds for the historical variants (any setting of the switches) *)
Theorem C05_sound_all_variants :
  (forall nw allp singles cands g, In g (find_neighbouring_v nw allp singles cands) ->
     exists G h0, (forall x, In x G -> Kinds.nb_link singles cands x) /\ built G h0 /\ forall i, inS i g <-> inS i h0) /\
  (forall nw clusters cands groups un, find_interleaved_v nw clusters cands None = Ok (groups, un) ->
     forall g, In g groups ->
     exists G h0, (forall x, In x G -> Kinds.il_link None clusters cands x) /\ built G h0 /\ forall i, inS i g <-> inS i h0).
Proof. split; [exact Kinds.neighbouring_sound|exact Kinds.interleaved_sound]. Qed.
Print Assumptions C05_sound_all_variants.

(* regression witnesses of the repaired finding candidate_index_window (design-time row 33) on linear records.
   Interleaved: the cores of protoclusters 0 and 6 overlap and an INTERLEAVED candidate of the result holds both, every
   clause about the meaning of the kinds holds; `old` is the result of the historical variant with the bisect window,
   in which no INTERLEAVED or HYBRID candidate holds both and the clauses fail *)
Theorem C05_window_witness :
  exists out old,
    create_candidates wi_protos None = Ok out /\ create_candidates_v false true wi_protos None = Ok old /\
    rel_I (kw_p 0 0 1000 100 900 [0]) (kw_p 6 880 1100 890 950 []) = true /\
    view out = [(K_INTERLEAVED, [0; 1; 2; 3; 4; 5; 6]); (K_HYBRID, [0; 1]); (K_HYBRID, [2; 3]); (K_HYBRID, [4; 5])] /\
    together [K_INTERLEAVED] (kw_p 0 0 1000 100 900 [0]) (kw_p 6 880 1100 890 950 []) out = true /\
    kinds_ok wi_protos out = true /\
    together [K_INTERLEAVED; K_HYBRID] (kw_p 0 0 1000 100 900 [0]) (kw_p 6 880 1100 890 950 []) old = false /\
    kinds_ok wi_protos old = false.
Proof. exact window_interleaved_witness. Qed.
Print Assumptions C05_window_witness.
(* the same for neighbouring: protocluster 6 lies inside the extent of hybrid {2,3}; a candidate now holds 6 and 2 *)
Theorem C05_window_neighbouring_witness :
  exists out old,
    create_candidates wn_protos None = Ok out /\ create_candidates_v false true wn_protos None = Ok old /\
    rel_N (kw_p 2 6 100 30 32 [1]) (kw_p 6 50 60 52 55 []) = true /\
    view out = [(K_HYBRID, [0; 1]); (K_HYBRID, [2; 3; 4; 5; 6]); (K_HYBRID, [4; 5]); (K_SINGLE, [6])] /\
    together all_kinds (kw_p 2 6 100 30 32 [1]) (kw_p 6 50 60 52 55 []) out = true /\
    kinds_ok wn_protos out = true /\
    together all_kinds (kw_p 2 6 100 30 32 [1]) (kw_p 6 50 60 52 55 []) old = false /\
    kinds_ok wn_protos old = false.
Proof. exact window_neighbouring_witness. Qed.
Print Assumptions C05_window_neighbouring_witness.
(* regression witness of the repaired finding neighbouring_singles_not_linked: 4 and 5 overlap, each also overlaps a
   hybrid; they are now in one NEIGHBOURING candidate with both hybrids (historical variant: two neighbouring
   candidates {0,1,4} and {5,2,3} that overlap each other) *)
Theorem C05_neighbouring_singles_witness :
  exists out old,
    create_candidates ws_protos None = Ok out /\ create_candidates_v true false ws_protos None = Ok old /\
    rel_N (kw_p 4 5 30 12 14 []) (kw_p 5 25 50 31 35 []) = true /\
    view out = [(K_NEIGHBOURING, [0; 1; 4; 5; 2; 3]); (K_HYBRID, [0; 1]); (K_SINGLE, [4]); (K_SINGLE, [5]); (K_HYBRID, [2; 3])] /\
    together [K_NEIGHBOURING] (kw_p 4 5 30 12 14 []) (kw_p 5 25 50 31 35 []) out = true /\
    kinds_ok ws_protos out = true /\
    view (filter (fun c => ckind c =? K_NEIGHBOURING) old) = [(K_NEIGHBOURING, [0; 1; 4]); (K_NEIGHBOURING, [5; 2; 3])] /\
    kinds_ok ws_protos old = false.
Proof. exact singles_linked_witness. Qed.
Print Assumptions C05_neighbouring_singles_witness.

(* ---- order independence, end to end ---- *)
(* create_candidates_from_protoclusters starts with `_ordered(protoclusters)` (since the repair of finding
   supply_order_same_key_groups): a sort by (product, core start, core end) followed by the stable sort by
   CDSCollection.__lt__.  The result does not depend on the order in which the protoclusters are supplied ...
   (1) on ANY record (linear, circular, origin-crossing, any strands), no hypothesis on __lt__, whenever the
       (product, core start, core end) triples of the protoclusters are pairwise different *)
Theorem C05_order_independent_prekeys : forall protos protos' w,
  Permutation protos protos' ->
  (forall a b, In a protos -> In b protos -> Order.pre_key a = Order.pre_key b -> a = b) ->
  create_candidates protos w = create_candidates protos' w.
Proof. exact Order.create_candidates_order_independent_prekeys. Qed.
Print Assumptions C05_order_independent_prekeys.
(* (2) whenever __lt__ is a strict weak order on the supplied protoclusters (transitive, incomparability transitive;
       it always is irreflexive) and no two different protoclusters tie under __lt__ AND share
       (product, core start, core end) *)
Theorem C05_order_independent : forall protos protos' w,
  Permutation protos protos' -> Order.lt_trans protos -> Order.lt_weak protos ->
  (forall a b, In a protos -> In b protos -> lt_pp a b = false -> lt_pp b a = false ->
               Order.pre_key a = Order.pre_key b -> a = b) ->
  create_candidates protos w = create_candidates protos' w.
Proof. exact Order.create_candidates_order_independent_keys. Qed.
Print Assumptions C05_order_independent.
(* (3) in particular on linear records with single-part protoclusters (any products, cores, defining genes, strands):
       pairwise different (coordinates, product, core start, core end) *)
Theorem C05_order_independent_keys_linear : forall protos protos' w,
  Permutation protos protos' ->
  (forall p, In p protos -> Order.single_lin p) ->
  (forall a b qa qb, In a protos -> In b protos -> ploc a = [qa] -> ploc b = [qb] ->
                     ps qa = ps qb -> pe qa = pe qb -> Order.pre_key a = Order.pre_key b -> a = b) ->
  create_candidates protos w = create_candidates protos' w.
Proof. exact Order.create_candidates_order_independent_keys_linear. Qed.
Print Assumptions C05_order_independent_keys_linear.
(* (4) the earlier guards, still sufficient: no ties under __lt__ at all and __lt__ transitive; pairwise different
       coordinates on linear records *)
Theorem C05_order_independent_partial : forall protos protos' w,
  Permutation protos protos' -> Order.no_tie protos -> Order.lt_trans protos ->
  create_candidates protos w = create_candidates protos' w.
Proof. exact Order.create_candidates_order_independent. Qed.
Print Assumptions C05_order_independent_partial.
Theorem C05_order_independent_linear : forall protos protos' w,
  Permutation protos protos' ->
  (forall p, In p protos -> Order.single_lin p) ->
  (forall a b qa qb, In a protos -> In b protos -> ploc a = [qa] -> ploc b = [qb] ->
                     ps qa = ps qb -> pe qa = pe qb -> a = b) ->
  create_candidates protos w = create_candidates protos' w.
Proof. exact Order.create_candidates_order_independent_linear. Qed.
Print Assumptions C05_order_independent_linear.
(* NOT proved (and not claimed): two different protoclusters with the same (product, core start, core end) that also
   tie under __lt__ (on linear records: the same coordinates) - `_ordered` keeps those in supply order (they differ
   only in defining genes / inner core parts / identity; equal products are C17's subject); and inputs with equal
   triples on which __lt__ is not a strict weak order (multi-part locations on circular records).
   With an (artificial) location that repeats a part __lt__ is cyclic, sorted() alone then depends on the supply order
   although nothing ties; before the repair two supply orders gave 4 and 3 candidates, now the pre-sort decides *)
Theorem C05_order_cyclic_lt_witness :
  Order.no_tie Order.ce_L1 /\ Permutation Order.ce_L1 Order.ce_L2 /\
  sort_by lt_pp Order.ce_L1 <> sort_by lt_pp Order.ce_L2 /\
  create_candidates Order.ce_L1 None = create_candidates Order.ce_L2 None /\
  exists o, create_candidates Order.ce_L1 None = Ok o.
Proof. exact Order.cyclic_lt_orders_now_agree. Qed.
Print Assumptions C05_order_cyclic_lt_witness.
(* regression witness of the repaired finding supply_order_same_key_groups, linear record, pairwise distinct
   (coordinates, product, core) triples: protoclusters 2 and 3 share coordinates and core and differ in product;
   sorted() keeps them in supply order (third clause), which used to decide which of two same-coordinate hybrid groups
   build_candidates sees last (only the later group's members get an extra single: SINGLE 1 or SINGLE 0).  Now both
   supply orders give the same candidates *)
Theorem C05_order_witness :
  Permutation [od_0; od_1; od_2; od_3] [od_0; od_1; od_3; od_2] /\
  sort_by lt_pp [od_0; od_1; od_2; od_3] <> sort_by lt_pp [od_0; od_1; od_3; od_2] /\
  create_candidates [od_0; od_1; od_2; od_3] None = create_candidates [od_0; od_1; od_3; od_2] None /\
  exists o, create_candidates [od_0; od_1; od_2; od_3] None = Ok o /\
            view o = [(K_HYBRID, [3; 2; 1; 0]); (K_SINGLE, [0])].
Proof. exact order_witness_repaired. Qed.
Print Assumptions C05_order_witness.

(* ---- C05_unique in full, linear records ---- *)
(* no two candidates (at different positions of the returned list) have the same location and the same members:
   the table keys are the candidates' own coordinates also after a promotion, a single is never a duplicate of a
   table candidate, two singles differ *)
Theorem C05_unique_linear : forall protos out, create_candidates protos None = Ok out ->
  (forall p, In p protos -> exists q, ploc p = [q] /\ ps q < pe q) ->
  forall c1 c2 l1 l2 l3, out = l1 ++ c1 :: l2 ++ c2 :: l3 ->
    ~ (cloc c1 = cloc c2 /\ (forall i, inS i (cmem c1) <-> inS i (cmem c2))).
Proof. exact Order.unique_linear. Qed.
Print Assumptions C05_unique_linear.

(* ---- non-vacuity of the new implications ---- *)
(* three single-part protoclusters with different coordinates: guards of C05_order_independent_* and of
   C05_unique_linear hold, the formation returns 4 candidates *)
Example C05_ex_order_guard : Order.no_tie Order.nt_protos /\
  (exists out, create_candidates Order.nt_protos None = Ok out /\ length out = 4%nat).
Proof. split; [exact Order.nt_protos_no_tie|exact Order.nt_protos_runs]. Qed.
(* C05_coverage_assert_never_fires: the body completes on the four protoclusters of C05_ex_formation *)
Example C05_ex_body : exists cands, formation_body ex_protos None = Ok cands /\ length cands = 3%nat.
Proof.
  destruct (formation_body ex_protos None) as [c|k] eqn:E; vm_compute in E; [|discriminate E].
  inversion E. eexists. split; [reflexivity|reflexivity].
Qed.

(* neighbouring/interleaved statements: the witness inputs above run through the model and the historical variants
   (C05_window_witness etc.); C05_order_independent_keys_linear: its guard holds on the four protoclusters of
   C05_order_witness (same coordinates for 2 and 3, different products) *)
Example C05_ex_order_keys_guard :
  (forall p, In p [od_0; od_1; od_2; od_3] -> Order.single_lin p) /\
  (forall a b qa qb, In a [od_0; od_1; od_2; od_3] -> In b [od_0; od_1; od_2; od_3] -> ploc a = [qa] -> ploc b = [qb] ->
                     ps qa = ps qb -> pe qa = pe qb -> Order.pre_key a = Order.pre_key b -> a = b).
Proof.
  split.
  - intros p Ip. cbn [In] in Ip.
    destruct Ip as [Ip|[Ip|[Ip|[Ip|[]]]]]; subst p; eexists; (split; [reflexivity|cbn; lia]).
  - intros a b qa qb Ia Ib Ha Hb Hs He Hk. cbn [In] in Ia, Ib.
    destruct Ia as [Ia|[Ia|[Ia|[Ia|[]]]]]; destruct Ib as [Ib|[Ib|[Ib|[Ib|[]]]]]; subst a b;
      try reflexivity; vm_compute in Hk; discriminate Hk.
Qed.

(* ====================================================================================================== *)
(* fourth pass: the candidate pair loop on circular records; interleaved completeness for any wrap point;   *)
(* classes of protocluster                                                                                 *)
(* ====================================================================================================== *)

(* ---- _find_interleaved_candidates: the candidate / candidate pair loop ---- *)
(* the pair loop compares EVERY pair of positions of the candidate list: two candidates whose (joint) cores overlap
   give a group whatever their order in the list, whatever their coordinates, linear or circular (the loop has no
   early exit; `cc` = the candidates with their core locations) *)
Theorem C05_candidate_pair_scan_complete : forall cc l1 a l2 b l3, cc = l1 ++ a :: l2 ++ b :: l3 ->
  overlap (snd a) (snd b) = true -> In (cmem (fst a) ++ cmem (fst b)) (find_interleaved_candidates cc).
Proof. exact Ring.cand_pair_scan_complete. Qed.
Print Assumptions C05_candidate_pair_scan_complete.

(* hence the "handle origin-crossing pairs" block (first against last candidate) is redundant: the groups returned are
   exactly the groups of the pair loop *)
Theorem C05_origin_block_redundant : forall cc g,
  In g (find_interleaved_candidates cc) <-> In g (map Ring.cc_group (pairs_rel Ring.cc_rel cc)).
Proof. exact Ring.origin_block_redundant. Qed.
Print Assumptions C05_origin_block_redundant.

(* why the loop must not stop early on a circular record: three chemical hybrids on a ring of 20000 bases, X = {0,1}
   crossing the origin (sorts first; its .end = 500 is the end of its post-origin part), Y = {3,2} before the origin
   with a core overlapping the pre-origin part of the core of X, Z = {4,5} nested in the neighbourhood of Y.  The model
   (= the code) forms INTERLEAVED {0,1,3,2} and every clause about the meaning of the kinds holds; the pair loop finds
   exactly the pair (X, Y); a loop with the early exit `if other.start > candidate.end: break` (pairs_early_exit, NOT
   the code) finds no pair at all, and the origin block compares X with Z only *)
Theorem C05_ring_pair_scan_witness :
  (exists out, create_candidates r8_protos (Some 20000) = Ok out /\
     view out = [(K_NEIGHBOURING, [0; 1; 6; 3; 2; 4; 5]); (K_INTERLEAVED, [0; 1; 3; 2]); (K_HYBRID, [0; 1]);
                 (K_SINGLE, [7]); (K_SINGLE, [6]); (K_HYBRID, [3; 2]); (K_HYBRID, [4; 5])] /\
     forallb (fun b => b) (kind_clauses r8_protos (Some 20000) (map to_ocand out)) = true) /\
  map ids_of r8_cc = [[0; 1]; [3; 2]; [4; 5]] /\
  map (fun ck => (fstart (cloc (fst ck)), fend (cloc (fst ck)))) r8_cc = [(19500, 500); (18900, 19950); (19000, 19180)] /\
  map (fun xy => (ids_of (fst xy), ids_of (snd xy))) (pairs_rel Ring.cc_rel r8_cc) = [([0; 1], [3; 2])] /\
  pairs_early_exit r8_cc = [] /\
  (match first_last r8_cc with Some (f, l) => (ids_of f, ids_of l, Ring.cc_rel f l) | None => ([], [], true) end)
  = ([0; 1], [4; 5], false).
Proof. exact ring_three_hybrids_witness. Qed.
Print Assumptions C05_ring_pair_scan_witness.

(* ---- interleaved: completeness for ANY wrap point (linear and circular records, origin-crossing cores included) ---- *)
(* two candidates whose joint cores overlap (cores = connect_locations with the wrap point, overlap of locations on the
   ring), two protoclusters whose cores overlap, a candidate and a protocluster whose cores overlap: always inside one
   interleaved group.  The groups found by the origin walk (_find_cross_origin_interleaved) only add to the list
   handed to _merge_sets.  Generalises C05_interleaved_complete_cc/_pp/_cp_linear *)
Theorem C05_interleaved_complete_cc : forall clusters cands w groups un a b ka kb,
  find_interleaved clusters cands w = Ok (groups, un) ->
  In a cands -> In b cands -> a <> b -> ccore w a = Ok ka -> ccore w b = Ok kb -> overlap ka kb = true ->
  exists g, In g groups /\ subsetP (cmem a) g /\ subsetP (cmem b) g.
Proof. exact (Ring.interleaved_complete_cc_any true). Qed.
Print Assumptions C05_interleaved_complete_cc.
Theorem C05_interleaved_complete_pp : forall clusters cands w groups un x y,
  find_interleaved clusters cands w = Ok (groups, un) ->
  In x clusters -> In y clusters -> x <> y ->
  (forall p, In p (pcore x) -> ps p < pe p) -> (forall p, In p (pcore y) -> ps p < pe p) ->
  overlap (pcore x) (pcore y) = true ->
  exists g, In g groups /\ inS (pid x) g /\ inS (pid y) g.
Proof. exact (Ring.interleaved_complete_pp_any true). Qed.
Print Assumptions C05_interleaved_complete_pp.
Theorem C05_interleaved_complete_cp : forall clusters cands w groups un c k cl,
  find_interleaved clusters cands w = Ok (groups, un) ->
  In c cands -> ccore w c = Ok k -> In cl clusters -> overlap k (pcore cl) = true ->
  exists g, In g groups /\ subsetP (cmem c) g /\ inS (pid cl) g.
Proof. exact Ring.interleaved_complete_cp_any. Qed.
Print Assumptions C05_interleaved_complete_cp.

(* ---- classes of protocluster ---- *)
(* `pdefs` is the value of the PUBLIC property definition_cdses.  (1) a SideloadedProtocluster (flag false) has none,
   whatever add_cds recorded in the private set; (2) a rule-based Protocluster has exactly the private set; (3) a
   protocluster without defining genes shares a defining gene with nobody; (4) it is in none of the pairs handed to
   _merge_sets by _find_hybrids *)
Theorem C05_sideloaded_no_defining_genes :
  (forall genes p, pdefs (with_defs_k genes (p, false)) = []) /\
  (forall genes p, pdefs (with_defs_k genes (p, true)) = private_defs genes p) /\
  (forall a b, pdefs a = [] -> defs_intersect a b = false /\ defs_intersect b a = false) /\
  (forall clusters g x, In g (hybrid_pair_groups clusters) -> In x g -> pdefs x <> []).
Proof. exact sideloaded_summary. Qed.
Print Assumptions C05_sideloaded_no_defining_genes.

(* (5) so a protocluster without defining genes is a member of a hybrid group only by containment: the group consists
   of a transitive group m of protoclusters sharing defining genes - all of which HAVE defining genes - and the
   protocluster is not in m, its core lies inside connect_locations of m's cores *)
Theorem C05_no_defs_only_by_containment : forall clusters w groups un, find_hybrids clusters w = Ok (groups, un) ->
  forall g x, In g groups -> In x g -> pdefs x = [] ->
  exists m core, In m (merge_sets (hybrid_pair_groups clusters)) /\
    connect_locations (map pcore m) w = Ok core /\ (forall y, In y m -> In y g /\ pdefs y <> []) /\
    ~ In x m /\ contains core (pcore x) = true.
Proof. exact Ring.no_defs_only_by_containment. Qed.
Print Assumptions C05_no_defs_only_by_containment.

(* Record level, through Protocluster.add_cds: gene 0 has CORE functions for the products of protoclusters 0 and 1 and
   lies in both cores.  add_cds records it in the private set of both; with 1 sideloaded the public property of 1 is
   empty and the result is INTERLEAVED {0,1}; were 1 rule-based the result would be CHEMICAL_HYBRID {0,1} *)
Theorem C05_sideloaded_witness :
  map (fun pk => private_defs sl_genes (fst pk)) (sl_protos false) = [[0]; [0]; []; []] /\
  map (fun pk => pdefs (with_defs_k sl_genes pk)) (sl_protos false) = [[0]; []; []; []] /\
  (exists out, record_create 4000 false sl_genes (sl_protos false) = Ok out /\
               view out = [(K_INTERLEAVED, [0; 1]); (K_INTERLEAVED, [3; 2])]) /\
  (exists out, record_create 4000 false sl_genes (sl_protos true) = Ok out /\
               view out = [(K_HYBRID, [0; 1]); (K_INTERLEAVED, [3; 2])]).
Proof. exact sideloaded_witness. Qed.
Print Assumptions C05_sideloaded_witness.

(* non-vacuity of C05_no_defs_only_by_containment: protocluster 2 has no defining genes and its core [45,55) lies inside
   the joint core [40,70) of the sharing pair {0,1}: it is a member of the hybrid group *)
Example C05_ex_no_defs_contained :
  exists groups un, find_hybrids [ex_q 0 0 100 40 60 [7]; ex_q 1 20 120 50 70 [7]; ex_q 2 30 90 45 55 []] None = Ok (groups, un)
    /\ map (map pid) groups = [[0; 1; 2]] /\ pdefs (ex_q 2 30 90 45 55 []) = [].
Proof.
  destruct (find_hybrids [ex_q 0 0 100 40 60 [7]; ex_q 1 20 120 50 70 [7]; ex_q 2 30 90 45 55 []] None) as [[g u]|k] eqn:E;
    vm_compute in E; [|discriminate E].
  inversion E. eexists. eexists. split; [reflexivity|]. split; vm_compute; reflexivity.
Qed.
(* C05_interleaved_complete_* at a wrap point and C05_candidate_pair_scan_complete: C05_ring_pair_scan_witness runs the
   formation on a circular record where the pair (X, Y) is found and INTERLEAVED {0,1,3,2} is formed *)
