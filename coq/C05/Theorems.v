(* C05 - property theorems. *)
From ASV Require Import Base Loc.
From ASV.C05 Require Import Model Proofs.
From Coq Require Import Permutation.

(* _merge_sets returns the connected components of the "share a protocluster" graph of its input
   sets: (1) the union of all protoclusters is kept, nothing is invented; (2) the returned groups are
   pairwise disjoint; (3) every non-empty input set lies wholly inside one returned group (so sets
   that intersect end up together); (4) every returned group has the members of a set built from
   input sets by repeatedly uniting two sets that share a protocluster (nothing is merged that is
   not linked by a chain of shared members); (5) no returned group is empty.  For all lists of
   groups, of any size - the statement the single-pass version of the code did not satisfy. *)
Theorem C05_merge_sets_components : forall groups,
  let out := merge_sets groups in
  (forall i, inAny i out <-> inAny i groups) /\
  ForallOrdPairs disjointP out /\
  (forall g, In g groups -> g <> [] -> exists h, In h out /\ subsetP g h) /\
  Forall (fun h => exists h0, built groups h0 /\ forall i, inS i h <-> inS i h0) out /\
  Forall (fun h => h <> []) out.
Proof. exact merge_sets_components. Qed.
Print Assumptions C05_merge_sets_components.

(* the `while changed` loop of _merge_sets always reaches a stable state within the fuel the model
   gives it (one pass more than there are later sets): after it, the first set is disjoint from
   every later set.  So the fuel is never the reason for a result. *)
Theorem C05_merge_sets_loop_stable : forall first rest f r',
  merge_stable (S (length rest)) first rest = (f, r') -> Forall (disjointP f) r'.
Proof. exact merge_stable_fuel_enough. Qed.
Print Assumptions C05_merge_sets_loop_stable.

(* partial version of "every protocluster is in at least one candidate": the final pass over the
   protoclusters not absorbed into a hybrid or interleaved group (plus the promoted extras) gives
   each of them a SINGLE candidate with exactly that member, unless a candidate already in the
   table contains it.  Missing for the full statement: that every member of a group handed to
   build_candidates stays a member of some candidate of the table (checked on every run by the
   decidable specification on the implementation's output). *)
Theorem C05_every_proto_covered_partial : forall w existing l ss,
  singles_go w existing l = Ok ss ->
  forall p, In p l ->
    (exists c, In c ss /\ cmem c = [p] /\ ckind c = K_SINGLE) \/
    (exists c, In c (tvalues existing) /\ inS (pid p) (cmem c)).
Proof. exact singles_go_covers. Qed.
Print Assumptions C05_every_proto_covered_partial.

(* no protocluster is listed twice in a candidate: for every input, any wrap point (positive statement after the
   repair of finding hybrid_member_repeated: `update_if_contained` skips a cluster that is already in the group;
   before the repair a hybrid whose joint core crosses the origin listed a contained protocluster twice) *)
Theorem C05_no_repeated_member : forall protos w out, create_candidates protos w = Ok out ->
  forall c, In c out -> NoDup (map pid (cmem c)).
Proof. exact no_repeated_member. Qed.
Print Assumptions C05_no_repeated_member.

(* the former witness of hybrid_member_repeated (circular record of length 12; was members 1, 1, 0, 2) *)
Theorem C05_no_repeated_member_witness :
  exists out, create_candidates w_protos (Some 12) = Ok out /\
              map (fun c => (ckind c, map pid (cmem c))) out = [(K_HYBRID, [1; 0; 2])].
Proof. exact repeated_member_witness_repaired. Qed.
Print Assumptions C05_no_repeated_member_witness.

(* the former witness of joint_core_wraps_assert (circular record of length 72): the input is still in the class
   (two hybrid groups with the same coordinates united, joint core connected across the origin, no member core
   crosses it, protoclusters left unassigned) and the formation now returns, covering every protocluster; before
   the repair `assert core_group` failed (Err E_Assert) *)
Theorem C05_joint_core_wraps_returns :
  class_joint_core_wraps jc_protos (Some 72) = true /\
  exists out, create_candidates jc_protos (Some 72) = Ok out /\
              map (fun c => (ckind c, map pid (cmem c))) out
              = [(K_HYBRID, [1; 0; 3; 5; 2; 4]); (K_SINGLE, [3]); (K_SINGLE, [5]); (K_SINGLE, [4])].
Proof. exact joint_core_wraps_witness_repaired. Qed.
Print Assumptions C05_joint_core_wraps_returns.

(* ---- deepening: statements about the whole formation (create_candidates = create_candidates_from_protoclusters) ---- *)

(* nothing is invented: every candidate has at least one member and every member is one of the supplied
   protoclusters (the same object, not just the same id); any wrap point *)
Theorem C05_members_supplied : forall protos w out, create_candidates protos w = Ok out ->
  forall c, In c out -> cmem c <> [] /\ forall p, In p (cmem c) -> In p protos.
Proof. exact members_from_input. Qed.
Print Assumptions C05_members_supplied.

(* each candidate's location is connect_locations of exactly its members' locations (linear and circular) *)
Theorem C05_location : forall protos w out, create_candidates protos w = Ok out ->
  forall c, In c out -> connect_locations (map ploc (cmem c)) w = Ok (cloc c).
Proof. exact location_is_connect. Qed.
Print Assumptions C05_location.

(* on a linear record with single-part protoclusters the location is one part [s, e) that covers every base of
   every member, and s and e are the start and the end of members: the span of exactly its members
   (composition with the C04 lemmas about connect_locations on a line) *)
Theorem C05_location_linear : forall protos out, create_candidates protos None = Ok out ->
  (forall p, In p protos -> exists q, ploc p = [q] /\ ps q < pe q) ->
  forall c, In c out -> exists h, cloc c = [h] /\
    (forall p x, In p (cmem c) -> ASV.C04.Proofs.base_of (ploc p) x -> ps h <= x < pe h) /\
    (exists p q, In p (cmem c) /\ ploc p = [q] /\ ps q = ps h) /\
    (exists p q, In p (cmem c) /\ ploc p = [q] /\ pe q = pe h).
Proof. exact location_linear. Qed.
Print Assumptions C05_location_linear.

(* every supplied protocluster is a member (by id) of at least one returned candidate, whenever the function
   returns.  The proof uses the code's own final check (as many distinct members as protoclusters) and
   C05_members_supplied: distinct member ids are ids of supplied protoclusters, and there are as many of them
   as protoclusters, so none is missing - also when several supplied protoclusters share an id.
   NOT claimed: that the function returns (before the repair of joint_core_wraps_assert it raised AssertionError
   in that class); that the final check can never fail is covered by the correspondence only. *)
Theorem C05_every_proto_covered : forall protos w out, create_candidates protos w = Ok out ->
  forall p, In p protos -> exists c, In c out /\ inS (pid p) (cmem c).
Proof. exact every_proto_covered. Qed.
Print Assumptions C05_every_proto_covered.

(* with distinct ids (distinct objects) the protocluster itself is the member *)
Theorem C05_every_proto_covered_member : forall protos w out, create_candidates protos w = Ok out ->
  NoDup (map pid protos) -> forall p, In p protos -> exists c, In c out /\ In p (cmem c).
Proof. exact every_proto_covered_strong. Qed.
Print Assumptions C05_every_proto_covered_member.

(* _merge_sets does not depend on the order (nor on the multiplicity) in which the sets are supplied: for two
   lists with the same elements every returned group has a returned group with the same members on the other side *)
Theorem C05_merge_sets_order_independent : forall G G', Permutation G G' ->
  forall h, In h (merge_sets G) -> exists h', In h' (merge_sets G') /\ forall i, inS i h <-> inS i h'.
Proof. exact merge_sets_perm. Qed.
Print Assumptions C05_merge_sets_order_independent.

Theorem C05_merge_sets_same_elements : forall G G', (forall g, In g G <-> In g G') ->
  forall h, In h (merge_sets G) -> exists h', In h' (merge_sets G') /\ forall i, inS i h <-> inS i h'.
Proof. exact merge_sets_order_independent. Qed.
Print Assumptions C05_merge_sets_same_elements.

(* chemical hybrids.  (1) the sets handed to _merge_sets by _find_hybrids are pairs of supplied protoclusters
   that share a defining gene; (2) completeness: two different supplied protoclusters sharing a defining gene
   are members of one hybrid group; (3) soundness: every hybrid group consists of one component m of that
   sharing relation (C05_merge_sets_components applied to the pairs: linked by a chain of shared genes, nothing
   else) plus protoclusters that share with nobody and whose core lies inside connect_locations of m's cores *)
Theorem C05_hybrid_pairs : forall clusters g, In g (hybrid_pair_groups clusters) ->
  exists x y, g = [x; y] /\ In x clusters /\ In y clusters /\ defs_intersect x y = true.
Proof. exact pair_group_spec. Qed.
Print Assumptions C05_hybrid_pairs.

Theorem C05_hybrids_complete : forall clusters w groups un, find_hybrids clusters w = Ok (groups, un) ->
  forall a b, In a clusters -> In b clusters -> a <> b -> defs_intersect a b = true ->
  exists g, In g groups /\ inS (pid a) g /\ inS (pid b) g.
Proof. exact hybrids_complete. Qed.
Print Assumptions C05_hybrids_complete.

Theorem C05_hybrids_sound : forall clusters w groups un, find_hybrids clusters w = Ok (groups, un) ->
  forall g, In g groups -> exists m core, In m (merge_sets (hybrid_pair_groups clusters)) /\
    connect_locations (map pcore m) w = Ok core /\
    (forall x, In x m -> In x g) /\
    forall x, In x g -> In x m \/
      (In x clusters /\ contains core (pcore x) = true /\ pmem x (concat (hybrid_pair_groups clusters)) = false).
Proof. exact hybrids_sound. Qed.
Print Assumptions C05_hybrids_sound.

(* partial version of "no two candidates with the same coordinates and membership": the de-duplication table of
   build_candidates never holds two candidates under the same (start, end) key, through any sequence of calls.
   Missing for the full statement: that a promoted replacement still has the coordinates of its key (a fact
   about connect_locations) and the comparison of the final singles with the table (both checked on every run
   by the decidable specification, clause "unique coordinates+membership") *)
Theorem C05_unique_partial : forall w kind groups existing singles e s,
  build_go w kind groups existing singles = Ok (e, s) -> keys_distinct existing -> keys_distinct e.
Proof. exact build_go_keys_distinct. Qed.
Print Assumptions C05_unique_partial.

(* "build_candidates does not depend on the order of the groups" is FALSE: two groups of one call with the same
   coordinates are united, and only the members of the later one get an extra single *)
Theorem C05_build_candidates_order_independent_refuted :
  exists c1 e1 s1 c2 e2 s2,
    build_candidates None K_HYBRID [oi_g1; oi_g2] [] [] = Ok (c1, e1, s1) /\
    build_candidates None K_HYBRID [oi_g2; oi_g1] [] [] = Ok (c2, e2, s2) /\
    map pid s1 = [3; 4] /\ map pid s2 = [1; 2].
Proof. exact build_candidates_order_dependent. Qed.
Print Assumptions C05_build_candidates_order_independent_refuted.

(* ---- non-vacuity ---- *)
Definition ex_p (i s e : Z) : proto := mkProto i [mkPart s e 1] [mkPart s e 1] i [].
(* the chain that the single-pass _merge_sets split into two groups: {P1,P5},{P2,P3},{P3,P5} *)
Example C05_ex_merge_chain :
  map (map pid) (merge_sets [[ex_p 1 0 10; ex_p 5 40 50]; [ex_p 2 10 20; ex_p 3 20 30]; [ex_p 3 20 30; ex_p 5 40 50]])
  = [[1; 2; 3; 5]].
Proof. vm_compute. reflexivity. Qed.
(* a merge really happens inside the loop, and the loop result is stable *)
Example C05_ex_loop :
  exists f r', merge_stable 3 [ex_p 1 0 10; ex_p 5 40 50] [[ex_p 2 10 20; ex_p 3 20 30]; [ex_p 3 20 30; ex_p 5 40 50]] = (f, r')
               /\ map pid f = [1; 5; 3; 2] /\ r' = [[]; []].
Proof. eexists. eexists. split; [vm_compute; reflexivity|split; reflexivity]. Qed.
(* singles: one protocluster gets its single, the other is already in a candidate with its coordinates *)
Example C05_ex_singles :
  exists c0, mk_cand None K_NEIGHBOURING [ex_p 1 0 10; ex_p 2 0 10] = Ok c0 /\
  exists ss, singles_go None [((0, 10), c0)] [ex_p 1 0 10; ex_p 3 5 20] = Ok ss /\ map (fun c => map pid (cmem c)) ss = [[3]].
Proof. eexists. split; [vm_compute; reflexivity|]. eexists. split; [vm_compute; reflexivity|reflexivity]. Qed.

(* the whole formation returns on a linear record with a hybrid pair (shared defining gene 7), a protocluster
   whose core overlaps the hybrid's core, and a distant one: hypotheses of C05_members_supplied, C05_location,
   C05_location_linear, C05_every_proto_covered(_member) are met by a non-trivial input *)
Definition ex_q (i s e cs ce : Z) (defs : list Z) : proto := mkProto i [mkPart s e 1] [mkPart cs ce 1] i defs.
Definition ex_protos : list proto :=
  [ex_q 0 0 100 40 60 [7]; ex_q 1 20 120 50 70 [7]; ex_q 2 50 150 65 90 []; ex_q 3 300 400 330 350 []].
Example C05_ex_formation :
  exists out, create_candidates ex_protos None = Ok out /\
    map (fun c => (ckind c, map pid (cmem c))) out
    = [(K_INTERLEAVED, [0; 1; 2]); (K_HYBRID, [0; 1]); (K_SINGLE, [3])]
    /\ NoDup (map pid ex_protos).
Proof.
  destruct (create_candidates ex_protos None) as [out|k] eqn:E; vm_compute in E; [|discriminate E].
  inversion E as [E']. eexists. split; [reflexivity|]. split; [vm_compute; reflexivity|].
  vm_compute. repeat constructor; cbn; intuition discriminate.
Qed.
(* hypotheses of C05_hybrids_complete / _sound *)
Example C05_ex_hybrids :
  exists groups un, find_hybrids ex_protos None = Ok (groups, un) /\ map (map pid) groups = [[0; 1]] /\
    defs_intersect (ex_q 0 0 100 40 60 [7]) (ex_q 1 20 120 50 70 [7]) = true.
Proof.
  destruct (find_hybrids ex_protos None) as [[g u]|k] eqn:E; vm_compute in E; [|discriminate E].
  inversion E. eexists. eexists. split; [reflexivity|]. split; vm_compute; reflexivity.
Qed.
(* the order of the sets really changes the list returned by _merge_sets while the groups stay the same *)
Example C05_ex_merge_order :
  map (map pid) (merge_sets [[ex_p 3 20 30; ex_p 5 40 50]; [ex_p 1 0 10; ex_p 5 40 50]]) = [[1; 3; 5]] /\
  map (map pid) (merge_sets [[ex_p 1 0 10; ex_p 5 40 50]; [ex_p 3 20 30; ex_p 5 40 50]]) = [[1; 3; 5]].
Proof. split; vm_compute; reflexivity. Qed.
