(* C05 - lemmas and proofs. *)
From ASV Require Import Base Loc.
From ASV.C05 Require Import Model.
From ASV.C04 Require Proofs.
From Coq Require Import Lia ZifyBool Permutation Setoid.

(* ---------- sets of protoclusters as lists: membership by id ---------- *)
Definition inS (i : Z) (g : list proto) : Prop := In i (map pid g).
Definition disjointP (a b : list proto) : Prop := forall i, inS i a -> inS i b -> False.
Definition subsetP (a b : list proto) : Prop := forall i, inS i a -> inS i b.
Definition inAny (i : Z) (L : list (list proto)) : Prop := exists s, In s L /\ inS i s.
Definition subAny (g : list proto) (L : list (list proto)) : Prop := exists s, In s L /\ subsetP g s.

(* an output group is built from input groups by uniting sets that share a protocluster *)
Inductive built (G : list (list proto)) : list proto -> Prop :=
| built_in : forall g, In g G -> built G g
| built_union : forall a b, built G a -> built G b -> disjoint a b = false -> built G (union a b).
Definition bE (G : list (list proto)) (s : list proto) : Prop := s = [] \/ built G s.

Lemma pmem_inS : forall p g, pmem p g = true <-> inS (pid p) g.
Proof.
  intros p g. unfold pmem, inS. rewrite existsb_exists. split.
  - intros [q [Hq He]]. apply Z.eqb_eq in He. rewrite <- He. apply in_map. exact Hq.
  - intro H. apply in_map_iff in H. destruct H as [q [He Hq]]. exists q. split; [exact Hq|].
    apply Z.eqb_eq. exact He.
Qed.

Lemma disjoint_spec : forall a b, disjoint a b = true <-> disjointP a b.
Proof.
  intros a b. unfold disjoint, disjointP. split.
  - intros H i Ha Hb. apply negb_true_iff in H.
    apply in_map_iff in Ha. destruct Ha as [x [Hx Hin]].
    assert (Hex : existsb (fun x0 => pmem x0 b) a = true).
    { apply existsb_exists. exists x. split; [exact Hin|]. apply pmem_inS. rewrite Hx. exact Hb. }
    rewrite Hex in H. discriminate H.
  - intro H. destruct (existsb (fun x => pmem x b) a) eqn:E; [|reflexivity].
    apply existsb_exists in E. destruct E as [x [Hin Hm]]. apply pmem_inS in Hm.
    exfalso. apply (H (pid x)); [|exact Hm]. unfold inS. apply in_map. exact Hin.
Qed.

Lemma inS_nil : forall i, inS i [] <-> False.
Proof. intro i. unfold inS. cbn. tauto. Qed.

Lemma inS_union : forall i a b, inS i (union a b) <-> inS i a \/ inS i b.
Proof.
  intros i a b. unfold union, inS. rewrite map_app, in_app_iff. split.
  - intros [H|H]; [left; exact H|]. right. apply in_map_iff in H. destruct H as [x [Hx Hin]].
    apply filter_In in Hin. destruct Hin as [Hin _]. apply in_map_iff. exists x. split; assumption.
  - intros [H|H]; [left; exact H|]. apply in_map_iff in H. destruct H as [x [Hx Hin]].
    destruct (pmem x a) eqn:E.
    + left. apply pmem_inS in E. rewrite Hx in E. exact E.
    + right. apply in_map_iff. exists x. split; [exact Hx|]. apply filter_In. split; [exact Hin|].
      rewrite E. reflexivity.
Qed.

Lemma inAny_nil : forall i, inAny i [] <-> False.
Proof. intro i. unfold inAny. split; [intros [s [H _]]; exact H|tauto]. Qed.
Lemma inAny_cons : forall i s L, inAny i (s :: L) <-> inS i s \/ inAny i L.
Proof.
  intros i s L. unfold inAny. split.
  - intros [t [[Ht|Ht] Hi]]; [left; rewrite Ht; exact Hi|right; exists t; split; assumption].
  - intros [H|[t [Ht Hi]]]; [exists s; split; [left; reflexivity|exact H]|exists t; split; [right; exact Ht|exact Hi]].
Qed.
Lemma subAny_cons : forall g s L, subAny g (s :: L) <-> subsetP g s \/ subAny g L.
Proof.
  intros g s L. unfold subAny. split.
  - intros [t [[Ht|Ht] Hi]]; [left; rewrite Ht; exact Hi|right; exists t; split; assumption].
  - intros [H|[t [Ht Hi]]]; [exists s; split; [left; reflexivity|exact H]|exists t; split; [right; exact Ht|exact Hi]].
Qed.

Lemma subsetP_union_l : forall g a b, subsetP g a -> subsetP g (union a b).
Proof. intros g a b H i Hi. apply inS_union. left. apply H. exact Hi. Qed.
Lemma subsetP_union_r : forall g a b, subsetP g b -> subsetP g (union a b).
Proof. intros g a b H i Hi. apply inS_union. right. apply H. exact Hi. Qed.

Lemma is_empty_true : forall (s : list proto), is_empty s = true -> s = [].
Proof. intros s H. destruct s; [reflexivity|discriminate H]. Qed.

(* ---------- merge_pass ---------- *)
Fixpoint cnt (l : list (list proto)) : nat :=
  match l with [] => O | s :: r => ((if is_empty s then 0 else 1) + cnt r)%nat end.

Lemma cnt_le_length : forall l, (cnt l <= length l)%nat.
Proof. induction l as [|s r IH]; cbn [cnt length]; [lia|]. destruct (is_empty s); lia. Qed.

Lemma merge_pass_length : forall rest first f r' c,
  merge_pass first rest = (f, r', c) -> length r' = length rest.
Proof.
  induction rest as [|s r IH]; intros first f r' c H; cbn [merge_pass] in H.
  - inversion H. reflexivity.
  - destruct (is_empty s || disjoint first s) eqn:E.
    + destruct (merge_pass first r) as [[f0 r0] c0] eqn:E2. inversion H; subst.
      cbn [length]. f_equal. exact (IH _ _ _ _ E2).
    + destruct (merge_pass (union first s) r) as [[f0 r0] c0] eqn:E2. inversion H; subst.
      cbn [length]. f_equal. exact (IH _ _ _ _ E2).
Qed.

Lemma merge_pass_U : forall rest first f r' c,
  merge_pass first rest = (f, r', c) ->
  forall i, inAny i (f :: r') <-> inAny i (first :: rest).
Proof.
  induction rest as [|s r IH]; intros first f r' c H i; cbn [merge_pass] in H.
  - inversion H. tauto.
  - destruct (is_empty s || disjoint first s) eqn:E.
    + destruct (merge_pass first r) as [[f0 r0] c0] eqn:E2. inversion H; subst.
      specialize (IH _ _ _ _ E2 i). rewrite !inAny_cons in *. tauto.
    + destruct (merge_pass (union first s) r) as [[f0 r0] c0] eqn:E2. inversion H; subst.
      specialize (IH _ _ _ _ E2 i). rewrite !inAny_cons in *. rewrite inS_union in IH.
      rewrite inS_nil. tauto.
Qed.

Lemma merge_pass_S : forall rest first f r' c,
  merge_pass first rest = (f, r', c) ->
  forall g, subAny g (first :: rest) -> subAny g (f :: r').
Proof.
  induction rest as [|s r IH]; intros first f r' c H g; cbn [merge_pass] in H.
  - inversion H. tauto.
  - destruct (is_empty s || disjoint first s) eqn:E.
    + destruct (merge_pass first r) as [[f0 r0] c0] eqn:E2. inversion H; subst.
      specialize (IH _ _ _ _ E2 g). rewrite !subAny_cons in *. tauto.
    + destruct (merge_pass (union first s) r) as [[f0 r0] c0] eqn:E2. inversion H; subst.
      specialize (IH _ _ _ _ E2 g). rewrite !subAny_cons in *.
      intros [Hg|[Hg|Hg]].
      * destruct IH as [IH|IH]; [left; apply subsetP_union_l; exact Hg|left; exact IH|right; right; exact IH].
      * destruct IH as [IH|IH]; [left; apply subsetP_union_r; exact Hg|left; exact IH|right; right; exact IH].
      * destruct IH as [IH|IH]; [right; exact Hg|left; exact IH|right; right; exact IH].
Qed.

Lemma merge_pass_B : forall G rest first f r' c,
  merge_pass first rest = (f, r', c) ->
  Forall (bE G) (first :: rest) -> Forall (bE G) (f :: r').
Proof.
  intros G. induction rest as [|s r IH]; intros first f r' c H HB; cbn [merge_pass] in H.
  - inversion H; subst. exact HB.
  - destruct (is_empty s || disjoint first s) eqn:E.
    + destruct (merge_pass first r) as [[f0 r0] c0] eqn:E2. inversion H; subst.
      inversion HB as [|x1 l1 Hf Hr]; subst. inversion Hr as [|x2 l2 Hs Hr']; subst.
      assert (IH' : Forall (bE G) (f :: r0)) by (apply (IH _ _ _ _ E2); constructor; assumption).
      inversion IH' as [|x3 l3 Hf3 Hr3]; subst. constructor; [exact Hf3|]. constructor; assumption.
    + destruct (merge_pass (union first s) r) as [[f0 r0] c0] eqn:E2. inversion H; subst.
      inversion HB as [|x1 l1 Hf Hr]; subst. inversion Hr as [|x2 l2 Hs Hr']; subst.
      apply orb_false_iff in E. destruct E as [Ee Ed].
      assert (Hu : bE G (union first s)).
      { right. destruct Hf as [Hf|Hf].
        - subst first. unfold disjoint in Ed. cbn in Ed. discriminate Ed.
        - destruct Hs as [Hs|Hs]; [subst s; cbn in Ee; discriminate Ee|].
          apply built_union; assumption. }
      assert (IH' : Forall (bE G) (f :: r0)) by (apply (IH _ _ _ _ E2); constructor; assumption).
      inversion IH' as [|x3 l3 Hf3 Hr3]; subst. constructor; [exact Hf3|].
      constructor; [left; reflexivity|exact Hr3].
Qed.

Lemma merge_pass_C : forall rest first f r' c,
  merge_pass first rest = (f, r', c) ->
  (c = false -> f = first /\ r' = rest /\ Forall (disjointP first) rest) /\
  (c = true -> (cnt r' < cnt rest)%nat) /\ (cnt r' <= cnt rest)%nat.
Proof.
  induction rest as [|s r IH]; intros first f r' c H; cbn [merge_pass] in H.
  - inversion H; subst. split; [intros _; repeat split; constructor|]. split; [discriminate|cbn; lia].
  - destruct (is_empty s || disjoint first s) eqn:E.
    + destruct (merge_pass first r) as [[f0 r0] c0] eqn:E2. inversion H; subst.
      destruct (IH _ _ _ _ E2) as [Hc [Ht Hle]]. cbn [cnt]. split; [|split].
      * intro Hf. destruct (Hc Hf) as [A [B C]]. subst. split; [reflexivity|]. split; [reflexivity|].
        constructor; [|exact C].
        apply orb_true_iff in E. destruct E as [E|E].
        -- apply is_empty_true in E. subst s. intros i _ Hi. apply inS_nil in Hi. exact Hi.
        -- apply disjoint_spec. exact E.
      * intro Hf. specialize (Ht Hf). lia.
      * lia.
    + destruct (merge_pass (union first s) r) as [[f0 r0] c0] eqn:E2. inversion H; subst.
      destruct (IH _ _ _ _ E2) as [Hc [Ht Hle]]. cbn [cnt].
      apply orb_false_iff in E. destruct E as [Ee Ed]. rewrite Ee. cbn [is_empty].
      split; [discriminate|]. split; [intros _; lia|lia].
Qed.

(* ---------- merge_stable ---------- *)
Lemma merge_stable_length : forall n first rest f r',
  merge_stable n first rest = (f, r') -> length r' = length rest.
Proof.
  induction n as [|n IH]; intros first rest f r' H; cbn [merge_stable] in H.
  - inversion H. reflexivity.
  - destruct (merge_pass first rest) as [[f1 r1] c] eqn:E. destruct c.
    + rewrite (IH _ _ _ _ H). exact (merge_pass_length _ _ _ _ _ E).
    + inversion H; subst. exact (merge_pass_length _ _ _ _ _ E).
Qed.

Lemma merge_stable_U : forall n first rest f r',
  merge_stable n first rest = (f, r') -> forall i, inAny i (f :: r') <-> inAny i (first :: rest).
Proof.
  induction n as [|n IH]; intros first rest f r' H i; cbn [merge_stable] in H.
  - inversion H. tauto.
  - destruct (merge_pass first rest) as [[f1 r1] c] eqn:E. destruct c.
    + rewrite (IH _ _ _ _ H i). exact (merge_pass_U _ _ _ _ _ E i).
    + inversion H; subst. exact (merge_pass_U _ _ _ _ _ E i).
Qed.

Lemma merge_stable_S : forall n first rest f r',
  merge_stable n first rest = (f, r') -> forall g, subAny g (first :: rest) -> subAny g (f :: r').
Proof.
  induction n as [|n IH]; intros first rest f r' H g Hg; cbn [merge_stable] in H.
  - inversion H; subst. exact Hg.
  - destruct (merge_pass first rest) as [[f1 r1] c] eqn:E. destruct c.
    + apply (IH _ _ _ _ H g). exact (merge_pass_S _ _ _ _ _ E g Hg).
    + inversion H; subst. exact (merge_pass_S _ _ _ _ _ E g Hg).
Qed.

Lemma merge_stable_B : forall G n first rest f r',
  merge_stable n first rest = (f, r') -> Forall (bE G) (first :: rest) -> Forall (bE G) (f :: r').
Proof.
  intros G. induction n as [|n IH]; intros first rest f r' H HB; cbn [merge_stable] in H.
  - inversion H; subst. exact HB.
  - destruct (merge_pass first rest) as [[f1 r1] c] eqn:E. destruct c.
    + apply (IH _ _ _ _ H). exact (merge_pass_B _ _ _ _ _ _ E HB).
    + inversion H; subst. exact (merge_pass_B _ _ _ _ _ _ E HB).
Qed.

(* the `while changed` loop always ends in a stable state: the fuel S (length rest) suffices *)
Lemma merge_stable_stable : forall n first rest f r',
  (cnt rest < n)%nat -> merge_stable n first rest = (f, r') -> Forall (disjointP f) r'.
Proof.
  induction n as [|n IH]; intros first rest f r' Hn H; [lia|]. cbn [merge_stable] in H.
  destruct (merge_pass first rest) as [[f1 r1] c] eqn:E.
  destruct (merge_pass_C _ _ _ _ _ E) as [Hc [Ht Hle]]. destruct c.
  - specialize (Ht eq_refl). apply (IH f1 r1 f r'); [lia|exact H].
  - inversion H; subst. destruct (Hc eq_refl) as [A [B C]]. subst. exact C.
Qed.

(* ---------- merge_outer ---------- *)
Lemma merge_outer_U : forall n L, (length L <= n)%nat ->
  forall i, inAny i (merge_outer n L) <-> inAny i L.
Proof.
  induction n as [|n IH]; intros L Hn i.
  - cbn [merge_outer]. tauto.
  - destruct L as [|first rest]; [cbn [merge_outer]; tauto|].
    destruct rest as [|s r]; [cbn [merge_outer]; tauto|].
    cbn [merge_outer]. cbn [length] in Hn.
    destruct (is_empty first) eqn:Ee.
    + rewrite !inAny_cons. rewrite (IH (s :: r) ltac:(cbn [length]; lia) i). rewrite inAny_cons. tauto.
    + destruct (merge_stable (S (length (s :: r))) first (s :: r)) as [f1 r1] eqn:E.
      pose proof (merge_stable_length _ _ _ _ _ E) as HL. cbn [length] in HL.
      rewrite inAny_cons. rewrite (IH r1 ltac:(lia) i). rewrite <- inAny_cons.
      exact (merge_stable_U _ _ _ _ _ E i).
Qed.

Lemma merge_outer_S : forall n L, (length L <= n)%nat ->
  forall g, subAny g L -> subAny g (merge_outer n L).
Proof.
  induction n as [|n IH]; intros L Hn g Hg.
  - cbn [merge_outer]. exact Hg.
  - destruct L as [|first rest]; [cbn [merge_outer]; exact Hg|].
    destruct rest as [|s r]; [cbn [merge_outer]; exact Hg|].
    cbn [merge_outer]. cbn [length] in Hn.
    destruct (is_empty first) eqn:Ee.
    + apply subAny_cons in Hg. apply subAny_cons. destruct Hg as [Hg|Hg]; [left; exact Hg|right].
      apply IH; [cbn [length]; lia|exact Hg].
    + destruct (merge_stable (S (length (s :: r))) first (s :: r)) as [f1 r1] eqn:E.
      pose proof (merge_stable_length _ _ _ _ _ E) as HL. cbn [length] in HL.
      pose proof (merge_stable_S _ _ _ _ _ E g Hg) as H1.
      apply subAny_cons in H1. apply subAny_cons. destruct H1 as [H1|H1]; [left; exact H1|right].
      apply IH; [lia|exact H1].
Qed.

Lemma merge_outer_B : forall G n L, Forall (bE G) L -> Forall (bE G) (merge_outer n L).
Proof.
  intros G. induction n as [|n IH]; intros L HB.
  - cbn [merge_outer]. exact HB.
  - destruct L as [|first rest]; [cbn [merge_outer]; exact HB|].
    destruct rest as [|s r]; [cbn [merge_outer]; exact HB|].
    cbn [merge_outer].
    destruct (is_empty first) eqn:Ee.
    + inversion HB as [|x l Hf Hr]; subst. constructor; [exact Hf|]. apply IH. exact Hr.
    + destruct (merge_stable (S (length (s :: r))) first (s :: r)) as [f1 r1] eqn:E.
      pose proof (merge_stable_B G _ _ _ _ _ E HB) as H1.
      inversion H1 as [|x l Hf Hr]; subst. constructor; [exact Hf|]. apply IH. exact Hr.
Qed.

Lemma merge_outer_D : forall n L, (length L <= n)%nat -> ForallOrdPairs disjointP (merge_outer n L).
Proof.
  induction n as [|n IH]; intros L Hn.
  - destruct L; [cbn [merge_outer]; constructor|cbn [length] in Hn; lia].
  - destruct L as [|first rest]; [cbn [merge_outer]; constructor|].
    destruct rest as [|s r]; [cbn [merge_outer]; constructor; constructor|].
    cbn [merge_outer]. cbn [length] in Hn.
    destruct (is_empty first) eqn:Ee.
    + constructor; [|apply IH; cbn [length]; lia].
      apply is_empty_true in Ee. subst first. apply Forall_forall. intros x _ i Hi _.
      apply inS_nil in Hi. exact Hi.
    + destruct (merge_stable (S (length (s :: r))) first (s :: r)) as [f1 r1] eqn:E.
      pose proof (merge_stable_length _ _ _ _ _ E) as HL. cbn [length] in HL.
      assert (Hst : Forall (disjointP f1) r1).
      { apply (merge_stable_stable (S (length (s :: r))) first (s :: r) f1 r1); [|exact E].
        pose proof (cnt_le_length (s :: r)). lia. }
      constructor; [|apply IH; lia].
      apply Forall_forall. intros x Hx i Hi1 Hix.
      assert (Hany : inAny i (merge_outer n r1)) by (exists x; split; assumption).
      apply (proj1 (merge_outer_U n r1 ltac:(lia) i)) in Hany. destruct Hany as [t [Ht Hit]].
      rewrite Forall_forall in Hst. exact (Hst t Ht i Hi1 Hit).
Qed.

(* ---------- sort_by is a permutation ---------- *)
Lemma insert_by_perm : forall A (lt : A -> A -> bool) x l, Permutation (insert_by lt x l) (x :: l).
Proof.
  intros A lt x. induction l as [|y ys IH]; cbn [insert_by]; [apply Permutation_refl|].
  destruct (lt x y); [apply Permutation_refl|].
  apply Permutation_trans with (y :: x :: ys); [apply perm_skip; exact IH|apply perm_swap].
Qed.

Lemma sort_by_perm : forall A (lt : A -> A -> bool) l, Permutation (sort_by lt l) l.
Proof.
  intros A lt l. unfold sort_by.
  assert (G : forall l acc, Permutation (fold_left (fun acc x => insert_by lt x acc) l acc) (l ++ acc)).
  { induction l0 as [|x xs IH]; intro acc; cbn [fold_left app]; [apply Permutation_refl|].
    apply Permutation_trans with (xs ++ insert_by lt x acc); [apply IH|].
    apply Permutation_trans with (xs ++ x :: acc); [apply Permutation_app_head; apply insert_by_perm|].
    apply Permutation_sym. apply Permutation_middle. }
  specialize (G l []). rewrite app_nil_r in G. exact G.
Qed.

Lemma sort_by_in : forall A (lt : A -> A -> bool) l x, In x (sort_by lt l) <-> In x l.
Proof.
  intros A lt l x. split; apply Permutation_in; [apply sort_by_perm|apply Permutation_sym; apply sort_by_perm].
Qed.

(* ---------- merge_core: the statement about _merge_sets ---------- *)
Lemma FOP_filter : forall A (R : A -> A -> Prop) (f : A -> bool) l,
  ForallOrdPairs R l -> ForallOrdPairs R (filter f l).
Proof.
  intros A R f l H. induction H as [|a l Ha Hl IH]; cbn [filter]; [constructor|].
  destruct (f a); [|exact IH]. constructor; [|exact IH].
  apply Forall_forall. intros x Hx. apply filter_In in Hx. destruct Hx as [Hx _].
  rewrite Forall_forall in Ha. exact (Ha x Hx).
Qed.

Lemma inAny_filter_nonempty : forall i L,
  inAny i (filter (fun g : list proto => negb (is_empty g)) L) <-> inAny i L.
Proof.
  intros i L. unfold inAny. split.
  - intros [s [Hs Hi]]. apply filter_In in Hs. exists s. split; [exact (proj1 Hs)|exact Hi].
  - intros [s [Hs Hi]]. exists s. split; [|exact Hi]. apply filter_In. split; [exact Hs|].
    destruct s; [apply inS_nil in Hi; contradiction|reflexivity].
Qed.

Lemma inAny_perm : forall i L L', (forall s, In s L <-> In s L') -> inAny i L <-> inAny i L'.
Proof.
  intros i L L' H. unfold inAny. split; intros [s [Hs Hi]]; exists s; split; try exact Hi; apply H; exact Hs.
Qed.

Lemma built_weaken : forall G G' s, (forall g, In g G -> In g G') -> built G s -> built G' s.
Proof.
  intros G G' s HG H. induction H as [g Hg|a b Ha IHa Hb IHb Hd].
  - apply built_in. apply HG. exact Hg.
  - apply built_union; assumption.
Qed.

Theorem merge_core_components : forall groups,
  let out := merge_core groups in
  (forall i, inAny i out <-> inAny i groups) /\
  ForallOrdPairs disjointP out /\
  (forall g, In g groups -> g <> [] -> exists h, In h out /\ subsetP g h) /\
  Forall (built groups) out /\
  Forall (fun h => h <> []) out.
Proof.
  intros groups out. unfold out, merge_core.
  set (ordered := sort_by (fun a b => group_key a <? group_key b) groups).
  assert (Hin : forall s, In s ordered <-> In s groups) by (intro s; apply sort_by_in).
  repeat split.
  - intro H. apply (proj1 (inAny_filter_nonempty _ _)) in H.
    apply (proj1 (merge_outer_U _ ordered (le_n _) i)) in H.
    apply (proj1 (inAny_perm i ordered groups Hin)). exact H.
  - intro H. apply (proj2 (inAny_filter_nonempty _ _)).
    apply (proj2 (merge_outer_U _ ordered (le_n _) i)).
    apply (proj2 (inAny_perm i ordered groups Hin)). exact H.
  - apply FOP_filter. apply merge_outer_D. apply le_n.
  - intros g Hg Hne.
    assert (H0 : subAny g ordered).
    { exists g. split; [apply Hin; exact Hg|]. intros i Hi. exact Hi. }
    apply (merge_outer_S _ ordered (le_n _)) in H0. destruct H0 as [h [Hh Hsub]].
    exists h. split; [|exact Hsub]. apply filter_In. split; [exact Hh|].
    destruct h as [|x h']; [|reflexivity]. exfalso.
    destruct g as [|y g']; [apply Hne; reflexivity|].
    specialize (Hsub (pid y)). apply (proj1 (inS_nil (pid y))). apply Hsub. left. reflexivity.
  - apply Forall_forall. intros h Hh. apply filter_In in Hh. destruct Hh as [Hh Hne].
    assert (HB : Forall (bE ordered) (merge_outer (length ordered) ordered)).
    { apply merge_outer_B. apply Forall_forall. intros s Hs. right. apply built_in. exact Hs. }
    rewrite Forall_forall in HB. destruct (HB h Hh) as [He|Hb].
    + subst h. discriminate Hne.
    + apply (built_weaken ordered groups h); [intros g Hg; apply Hin; exact Hg|exact Hb].
  - apply Forall_forall. intros h Hh. apply filter_In in Hh. destruct Hh as [_ Hne].
    intro He. subst h. discriminate Hne.
Qed.

(* ---------- from merge_core to merge_sets (= _merge_sets: each group through _ordered) ---------- *)
Lemma inS_sort_by : forall lt i g, inS i (sort_by lt g) <-> inS i g.
Proof.
  intros lt i g. unfold inS. split; apply Permutation_in; apply Permutation_map;
  [apply sort_by_perm|apply Permutation_sym; apply sort_by_perm].
Qed.

Lemma inS_set_insert : forall i x l, inS i (set_insert x l) <-> i = pid x \/ inS i l.
Proof.
  intros i x. unfold inS. induction l as [|y ys IH]; cbn [set_insert map In].
  - split; [intros [H|H]; [left; symmetry; exact H|contradiction]|intros [H|H]; [left; symmetry; exact H|contradiction]].
  - destruct (pid x <? pid y) eqn:E1.
    + cbn [map In]. split; [intros [H|H]; [left; symmetry; exact H|right; exact H]
                            |intros [H|H]; [left; symmetry; exact H|right; exact H]].
    + destruct (pid x =? pid y) eqn:E2.
      * apply Z.eqb_eq in E2. cbn [map In]. split; [intro H; right; exact H|].
        intros [H|H]; [left; rewrite H, E2; reflexivity|exact H].
      * cbn [map In]. rewrite IH. tauto.
Qed.

Lemma inS_iter : forall i g, inS i (iter g) <-> inS i g.
Proof.
  intros i. unfold iter. induction g as [|x xs IH]; cbn [fold_right]; [tauto|].
  rewrite inS_set_insert, IH. unfold inS. cbn [map In]. split; intros [H|H]; auto.
Qed.

Lemma inS_ordered_set : forall i g, inS i (ordered_set g) <-> inS i g.
Proof.
  intros i g. unfold ordered_set, ordered_list. rewrite !inS_sort_by. apply inS_iter.
Qed.

Lemma FOP_map_ordered : forall L, ForallOrdPairs disjointP L -> ForallOrdPairs disjointP (map ordered_set L).
Proof.
  intros L H. induction H as [|a l Ha Hl IH]; cbn [map]; [constructor|].
  constructor; [|exact IH]. apply Forall_forall. intros x Hx. apply in_map_iff in Hx.
  destruct Hx as [b [Hb Hin]]. subst x. rewrite Forall_forall in Ha.
  intros i Hi1 Hi2. apply (proj1 (inS_ordered_set _ _)) in Hi1. apply (proj1 (inS_ordered_set _ _)) in Hi2.
  exact (Ha b Hin i Hi1 Hi2).
Qed.

Theorem merge_sets_components : forall groups,
  let out := merge_sets groups in
  (forall i, inAny i out <-> inAny i groups) /\
  ForallOrdPairs disjointP out /\
  (forall g, In g groups -> g <> [] -> exists h, In h out /\ subsetP g h) /\
  Forall (fun h => exists h0, built groups h0 /\ forall i, inS i h <-> inS i h0) out /\
  Forall (fun h => h <> []) out.
Proof.
  intros groups out. unfold out, merge_sets.
  destruct (merge_core_components groups) as [HU [HD [HS [HB HN]]]].
  split; [|split; [|split; [|split]]].
  - intro i. rewrite <- (HU i). unfold inAny. split.
    + intros [s [Hs Hi]]. apply in_map_iff in Hs. destruct Hs as [s0 [He Hs0]]. subst s.
      exists s0. split; [exact Hs0|]. apply (proj1 (inS_ordered_set _ _)). exact Hi.
    + intros [s [Hs Hi]]. exists (ordered_set s). split; [apply in_map; exact Hs|].
      apply (proj2 (inS_ordered_set _ _)). exact Hi.
  - apply FOP_map_ordered. exact HD.
  - intros g Hg Hne. destruct (HS g Hg Hne) as [h [Hh Hsub]]. exists (ordered_set h).
    split; [apply in_map; exact Hh|]. intros i Hi. apply (proj2 (inS_ordered_set _ _)). apply Hsub. exact Hi.
  - apply Forall_forall. intros h Hh. apply in_map_iff in Hh. destruct Hh as [h0 [He Hh0]]. subst h.
    exists h0. rewrite Forall_forall in HB. split; [exact (HB h0 Hh0)|]. intro i. apply inS_ordered_set.
  - apply Forall_forall. intros h Hh. apply in_map_iff in Hh. destruct Hh as [h0 [He Hh0]]. subst h.
    rewrite Forall_forall in HN. specialize (HN h0 Hh0). destruct h0 as [|x h0']; [exfalso; apply HN; reflexivity|].
    intro He. assert (Hi : inS (pid x) (ordered_set (x :: h0'))).
    { apply (proj2 (inS_ordered_set _ _)). left. reflexivity. }
    rewrite He in Hi. apply (proj1 (inS_nil _)) in Hi. exact Hi.
Qed.

(* ---------- the final singles pass never drops a protocluster ---------- *)
Lemma tget_in : forall k t c, tget k t = Some c -> In c (tvalues t).
Proof.
  intros k. induction t as [|[k' c'] r IH]; intros c H; cbn [tget] in H; [discriminate H|].
  unfold tvalues. cbn [map snd In]. destruct (key_eqb k k').
  - inversion H. left. reflexivity.
  - right. exact (IH c H).
Qed.

Lemma mk_cand_members : forall w kind ms c, mk_cand w kind ms = Ok c -> cmem c = ms /\ ckind c = kind.
Proof.
  intros w kind ms c H. unfold mk_cand in H. destruct ms as [|m ms']; [discriminate H|].
  destruct (connect_locations (map ploc (m :: ms')) w) as [l|k]; cbn [bind] in H; [|discriminate H].
  destruct (check_collection_loc l) as [u|k]; cbn [bind] in H; [|discriminate H].
  inversion H. split; reflexivity.
Qed.

Lemma singles_go_covers : forall w existing l ss,
  singles_go w existing l = Ok ss ->
  forall p, In p l ->
    (exists c, In c ss /\ cmem c = [p] /\ ckind c = K_SINGLE) \/
    (exists c, In c (tvalues existing) /\ inS (pid p) (cmem c)).
Proof.
  intros w existing. induction l as [|q r IH]; intros ss H p Hp; [destruct Hp|].
  cbn [singles_go] in H.
  destruct (match tget (fstart (ploc q), fend (ploc q)) existing with
            | Some ex => pmem q (cmem ex) | None => false end) eqn:Eskip.
  - destruct Hp as [Hp|Hp].
    + subst q. right. destruct (tget (fstart (ploc p), fend (ploc p)) existing) as [ex|] eqn:Et; [|discriminate Eskip].
      exists ex. split; [exact (tget_in _ _ _ Et)|apply pmem_inS; exact Eskip].
    + exact (IH ss H p Hp).
  - destruct (mk_cand w K_SINGLE [q]) as [c|k] eqn:Ec; cbn [bind] in H; [|discriminate H].
    destruct (singles_go w existing r) as [cs|k] eqn:Er; cbn [bind] in H; [|discriminate H].
    inversion H; subst ss. destruct Hp as [Hp|Hp].
    + subst q. left. exists c. destruct (mk_cand_members _ _ _ _ Ec) as [A B].
      split; [left; reflexivity|split; assumption].
    + destruct (IH cs eq_refl p Hp) as [[c' [Hc' Hm]]|Hex].
      * left. exists c'. split; [right; exact Hc'|exact Hm].
      * right. exact Hex.
Qed.

(* the fuel given to the `while changed` loop in merge_outer is always enough *)
Lemma merge_stable_fuel_enough : forall first rest f r',
  merge_stable (S (length rest)) first rest = (f, r') -> Forall (disjointP f) r'.
Proof.
  intros first rest f r' H. apply (merge_stable_stable (S (length rest)) first rest f r'); [|exact H].
  pose proof (cnt_le_length rest). lia.
Qed.

(* regression witness of the repaired finding hybrid_member_repeated (circular record of length 12): before the
   repair the hybrid listed protocluster 1 twice (members 1, 1, 0, 2); the general statement is no_repeated_member below *)
Definition w_wrapped : loc := [mkPart 5 12 1; mkPart 0 4 1].
Definition w_protos : list proto :=
  [mkProto 0 w_wrapped w_wrapped 2 [1]; mkProto 1 w_wrapped w_wrapped 0 []; mkProto 2 [mkPart 5 12 1] [mkPart 5 12 1] 1 [1]].
Lemma repeated_member_witness_repaired :
  exists out, create_candidates w_protos (Some 12) = Ok out /\
              map (fun c => (ckind c, map pid (cmem c))) out = [(K_HYBRID, [1; 0; 2])].
Proof.
  destruct (create_candidates w_protos (Some 12)) as [out|k] eqn:E; vm_compute in E; [|discriminate E].
  inversion E as [E']. eexists. split; [reflexivity|]. vm_compute. reflexivity.
Qed.

(* ====================================================================================== *)
(* members of every candidate are protoclusters that were supplied; every candidate's      *)
(* location is connect_locations of its members' locations                                 *)
(* ====================================================================================== *)
Definition allin (P : list proto) (G : list (list proto)) : Prop := forall g x, In g G -> In x g -> In x P.

Lemma allin_app : forall P A B, allin P A -> allin P B -> allin P (A ++ B).
Proof. intros P A B HA HB g x Hg Hx. apply in_app_or in Hg. destruct Hg as [Hg|Hg]; [exact (HA g x Hg Hx)|exact (HB g x Hg Hx)]. Qed.

Lemma In_set_insert : forall (x y : proto) l, In y (set_insert x l) -> y = x \/ In y l.
Proof.
  intros x y. induction l as [|z zs IH]; cbn [set_insert]; intro H.
  - destruct H as [H|[]]. left. symmetry. exact H.
  - destruct (pid x <? pid z).
    + destruct H as [H|H]; [left; symmetry; exact H|right; exact H].
    + destruct (pid x =? pid z).
      * right. exact H.
      * destruct H as [H|H]; [right; left; exact H|]. destruct (IH H) as [A|A]; [left; exact A|right; right; exact A].
Qed.

Lemma In_iter : forall l y, In y (iter l) -> In y l.
Proof.
  unfold iter. induction l as [|x xs IH]; cbn [fold_right]; intros y H; [destruct H|].
  apply In_set_insert in H. destruct H as [H|H]; [left; symmetry; exact H|right; apply IH; exact H].
Qed.

Lemma In_union : forall a b x, In x (union a b) -> In x a \/ In x b.
Proof.
  intros a b x H. unfold union in H. apply in_app_or in H. destruct H as [H|H]; [left; exact H|right].
  apply filter_In in H. exact (proj1 H).
Qed.

Lemma In_diff : forall a b x, In x (diff a b) -> In x a.
Proof. intros a b x H. unfold diff in H. apply filter_In in H. exact (proj1 H). Qed.

Lemma In_set_add : forall x l y, In y (set_add x l) -> y = x \/ In y l.
Proof.
  intros x l y H. unfold set_add in H. destruct (pmem x l); [right; exact H|].
  apply in_app_or in H. destruct H as [H|[H|[]]]; [right; exact H|left; symmetry; exact H].
Qed.

Lemma In_fold_set_add : forall l acc y, In y (fold_left (fun a p => set_add p a) l acc) -> In y acc \/ In y l.
Proof.
  induction l as [|x xs IH]; intros acc y H; cbn [fold_left] in H; [left; exact H|].
  destruct (IH _ _ H) as [A|A]; [|right; right; exact A].
  apply In_set_add in A. destruct A as [A|A]; [right; left; symmetry; exact A|left; exact A].
Qed.

Lemma In_fold_set_add' : forall l acc y, In y (fold_left (fun s x => set_add x s) l acc) -> In y acc \/ In y l.
Proof. exact In_fold_set_add. Qed.

Lemma In_ordered_list : forall g x, In x (ordered_list g) <-> In x g.
Proof. intros g x. unfold ordered_list. rewrite !sort_by_in. tauto. Qed.

Lemma In_ordered_set : forall g x, In x (ordered_set g) -> In x g.
Proof. intros g x H. unfold ordered_set in H. apply (proj1 (In_ordered_list _ _)) in H. apply In_iter. exact H. Qed.

Lemma In_skipn' : forall A n (l : list A) x, In x (skipn n l) -> In x l.
Proof. intros A n l x H. rewrite <- (firstn_skipn n l). apply in_or_app. right. exact H. Qed.
Lemma In_firstn' : forall A n (l : list A) x, In x (firstn n l) -> In x l.
Proof. intros A n l x H. rewrite <- (firstn_skipn n l). apply in_or_app. left. exact H. Qed.

Lemma last_opt_In : forall A (l : list A) y, last_opt l = Some y -> In y l.
Proof.
  intros A l y H. unfold last_opt in H. destruct (rev l) as [|z zs] eqn:E; [discriminate H|].
  inversion H; subst. apply in_rev. rewrite E. left. reflexivity.
Qed.

Lemma first_last_In : forall A (l : list A) x y, first_last l = Some (x, y) -> In x l /\ In y l.
Proof.
  intros A l x y H. unfold first_last in H. destruct l as [|a r]; [discriminate H|].
  destruct (last_opt (a :: r)) as [z|] eqn:E; [|discriminate H]. inversion H; subst.
  split; [left; reflexivity|apply last_opt_In; exact E].
Qed.

Lemma built_In : forall G h, built G h -> forall x, In x h -> exists g, In g G /\ In x g.
Proof.
  intros G h Hb. induction Hb as [g Hg|a b Ha IHa Hb IHb Hd]; intros x Hx.
  - exists g. split; assumption.
  - apply In_union in Hx. destruct Hx as [Hx|Hx]; [apply IHa|apply IHb]; exact Hx.
Qed.

Lemma merge_sets_allin : forall P G, allin P G -> allin P (merge_sets G).
Proof.
  intros P G H g x Hg Hx. unfold merge_sets in Hg. apply in_map_iff in Hg. destruct Hg as [h [He Hh]]. subst g.
  apply In_ordered_set in Hx.
  pose proof (merge_core_components G) as HC. cbv zeta in HC. destruct HC as [_ [_ [_ [HB _]]]].
  rewrite Forall_forall in HB.
  destruct (built_In G h (HB h Hh) x Hx) as [g0 [Hg0 Hx0]]. exact (H g0 x Hg0 Hx0).
Qed.

Lemma pairs_rel_In : forall A (rel : A -> A -> bool) l x y,
  In (x, y) (pairs_rel rel l) -> In x l /\ In y l /\ rel x y = true.
Proof.
  intros A rel. induction l as [|z r IH]; intros x y H; cbn [pairs_rel] in H; [destruct H|].
  apply in_app_or in H. destruct H as [H|H].
  - apply in_map_iff in H. destruct H as [y0 [He Hy]]. inversion He; subst. apply filter_In in Hy.
    destruct Hy as [Hy Hr]. split; [left; reflexivity|]. split; [right; exact Hy|exact Hr].
  - destruct (IH x y H) as [A1 [A2 A3]]. split; [right; exact A1|]. split; [right; exact A2|exact A3].
Qed.

Lemma mapM_In : forall A B (f : A -> res B) l r, mapM f l = Ok r ->
  forall y, In y r -> exists x, In x l /\ f x = Ok y.
Proof.
  intros A B f. induction l as [|a l IH]; intros r H y Hy; cbn [mapM] in H.
  - inversion H; subst. destruct Hy.
  - destruct (f a) as [b|k] eqn:Ea; cbn [bind] in H; [|discriminate H].
    destruct (mapM f l) as [bs|k] eqn:El; cbn [bind] in H; [|discriminate H].
    inversion H; subst. destruct Hy as [Hy|Hy].
    + subst. exists a. split; [left; reflexivity|exact Ea].
    + destruct (IH bs eq_refl y Hy) as [x [Hx Hf]]. exists x. split; [right; exact Hx|exact Hf].
Qed.

Lemma pair_groups_allin : forall (P : list proto) (prs : list (proto * proto)),
  (forall x y, In (x, y) prs -> In x P /\ In y P) -> allin P (map (fun xy => [fst xy; snd xy]) prs).
Proof.
  intros P prs H g x Hg Hx. apply in_map_iff in Hg. destruct Hg as [[a b] [He Hab]]. subst g. cbn [fst snd] in Hx.
  destruct (H a b Hab) as [Ha Hb]. destruct Hx as [Hx|[Hx|[]]]; subst; assumption.
Qed.

Lemma contained_until_In : forall core limit cl x, In x (contained_until core limit cl) -> In x cl.
Proof.
  intros core limit. induction cl as [|c r IH]; intros x H; cbn [contained_until] in H; [destruct H|].
  destruct (limit <? lstart (ploc c)); [destruct H|].
  destruct (contains core (pcore c)).
  - destruct H as [H|H]; [left; exact H|right; exact (IH x H)].
  - right. exact (IH x H).
Qed.

Lemma first_occ_In : forall l seen x, In x (first_occ seen l) -> In x l.
Proof.
  induction l as [|c r IH]; intros seen x H; cbn [first_occ] in H; [destruct H|].
  destruct (pmem c seen).
  - right. exact (IH _ _ H).
  - destruct H as [H|H]; [left; exact H|right; exact (IH _ _ H)].
Qed.

Lemma hybrid_extend_In : forall w clusters group r, hybrid_extend w clusters group = Ok r ->
  forall x, In x r -> In x group \/ In x clusters.
Proof.
  intros w clusters group r H x Hx. unfold hybrid_extend in H.
  destruct (connect_locations (map pcore group) w) as [core|k]; cbn [bind] in H; [|discriminate H].
  inversion H; subst; clear H. apply in_app_or in Hx. destruct Hx as [Hx|Hx]; [left; exact Hx|right].
  apply first_occ_In in Hx. apply in_app_or in Hx. destruct Hx as [Hx|Hx].
  - apply contained_until_In in Hx. apply In_skipn' in Hx. exact Hx.
  - destruct (is_compound core); [apply contained_until_In in Hx; exact Hx|destruct Hx].
Qed.

Lemma find_hybrids_allin : forall clusters w groups un,
  find_hybrids clusters w = Ok (groups, un) -> allin clusters groups /\ incl un clusters.
Proof.
  intros clusters w groups un H. unfold find_hybrids in H. cbv zeta in H.
  match type of H with bind ?e _ = _ => destruct e as [extended|k] eqn:EM end; cbn [bind] in H; [|discriminate H].
  inversion H; subst; clear H. split.
  - intros g x Hg Hx. apply in_map_iff in Hg. destruct Hg as [g0 [He Hg0]]. subst g. apply (proj1 (In_ordered_list _ _)) in Hx.
    destruct (mapM_In _ _ _ _ _ EM g0 Hg0) as [m [Hm Hext]].
    destruct (hybrid_extend_In _ _ _ _ Hext x Hx) as [A|A].
    + refine (merge_sets_allin clusters _ _ m x Hm A). apply pair_groups_allin.
      intros a b Hab. apply in_app_or in Hab. destruct Hab as [Hab|Hab].
      * apply pairs_rel_In in Hab. destruct Hab as [Ha [Hb _]]. apply sort_by_in in Ha. apply sort_by_in in Hb.
        split; assumption.
      * destruct (first_last (sort_by core_key_lt clusters)) as [[f l]|] eqn:Efl; [|destruct Hab].
        destruct (negb (pid f =? pid l) && defs_intersect f l); [|destruct Hab].
        destruct Hab as [Hab|[]]. inversion Hab; subst. apply first_last_In in Efl. destruct Efl as [Ha Hb].
        apply sort_by_in in Ha. apply sort_by_in in Hb. split; assumption.
    + apply sort_by_in in A. apply In_iter in A. apply In_diff in A. exact A.
  - intros x Hx. apply In_ordered_set in Hx. apply In_diff in Hx. apply In_diff in Hx. exact Hx.
Qed.

(* ---------- candidates ---------- *)
Definition wfc (w : option Z) (c : cand) : Prop :=
  cmem c <> [] /\ connect_locations (map ploc (cmem c)) w = Ok (cloc c).
Definition good (P : list proto) (w : option Z) (c : cand) : Prop := wfc w c /\ incl (cmem c) P.

Lemma mk_cand_wfc : forall w kind ms c, mk_cand w kind ms = Ok c -> wfc w c /\ cmem c = ms /\ ckind c = kind.
Proof.
  intros w kind ms c H. unfold mk_cand in H. destruct ms as [|m ms']; [discriminate H|].
  destruct (connect_locations (map ploc (m :: ms')) w) as [l|k] eqn:El; cbn [bind] in H; [|discriminate H].
  destruct (check_collection_loc l) as [u|k]; cbn [bind] in H; [|discriminate H].
  inversion H; subst; clear H. cbn [cmem cloc ckind]. split; [split; [discriminate|exact El]|split; reflexivity].
Qed.

Lemma tset_values : forall k c t x, In x (tvalues (tset k c t)) -> x = c \/ In x (tvalues t).
Proof.
  intros k c. unfold tvalues. induction t as [|[k' c'] r IH]; intros x H; cbn [tset map snd In] in *.
  - destruct H as [H|[]]. left. symmetry. exact H.
  - destruct (key_eqb k k'); cbn [map snd In] in H.
    + destruct H as [H|H]; [left; symmetry; exact H|right; right; exact H].
    + destruct H as [H|H]; [right; left; exact H|]. destruct (IH x H) as [A|A]; [left; exact A|right; right; exact A].
Qed.

Lemma build_go_good : forall P w kind groups existing singles e s,
  build_go w kind groups existing singles = Ok (e, s) ->
  allin P groups -> (forall c, In c (tvalues existing) -> good P w c) -> incl singles P ->
  (forall c, In c (tvalues e) -> good P w c) /\ incl s P.
Proof.
  intros P w kind. induction groups as [|group rest IH]; intros existing singles e s H HG HE HS; cbn [build_go] in H.
  - inversion H; subst. split; assumption.
  - destruct (negb ((kind =? K_SINGLE) || (1 <? zlen group))); [discriminate H|].
    destruct (mk_cand w kind (ordered_list group)) as [candidate|k] eqn:Ec; cbn [bind] in H; [|discriminate H].
    assert (HGr : allin P rest) by (intros g x Hg Hx; exact (HG g x (or_intror Hg) Hx)).
    assert (Hgroup : incl group P) by (intros x Hx; exact (HG group x (or_introl eq_refl) Hx)).
    assert (Hcand : good P w candidate).
    { destruct (mk_cand_wfc _ _ _ _ Ec) as [A [B _]]. split; [exact A|]. rewrite B. intros x Hx.
      apply Hgroup. apply In_ordered_list. exact Hx. }
    destruct (tget (ckey candidate) existing) as [ex|] eqn:Et.
    + pose proof (HE ex (tget_in _ _ _ Et)) as Hex.
      destruct (is_empty (iter (diff group (iter (cmem ex))))) eqn:Eex.
      * exact (IH _ _ _ _ H HGr HE HS).
      * destruct (mk_cand w (ckind ex) (ordered_list (iter (cmem ex) ++ iter (diff group (iter (cmem ex))))))
          as [replacement|k] eqn:Er; cbn [bind] in H; [|discriminate H].
        apply (IH _ _ _ _ H HGr).
        -- intros c Hc. apply tset_values in Hc. destruct Hc as [Hc|Hc]; [|exact (HE c Hc)]. subst c.
           destruct (mk_cand_wfc _ _ _ _ Er) as [A [B _]]. split; [exact A|]. rewrite B. intros x Hx.
           apply (proj1 (In_ordered_list _ _)) in Hx. apply in_app_or in Hx. destruct Hx as [Hx|Hx].
           ++ apply In_iter in Hx. exact (proj2 Hex x Hx).
           ++ apply In_iter in Hx. apply In_diff in Hx. exact (Hgroup x Hx).
        -- intros x Hx. apply In_fold_set_add' in Hx. destruct Hx as [Hx|Hx]; [exact (HS x Hx)|].
           apply In_iter in Hx. apply In_diff in Hx. exact (Hgroup x Hx).
    + apply (IH _ _ _ _ H HGr); [|exact HS].
      intros c Hc. apply tset_values in Hc. destruct Hc as [Hc|Hc]; [subst c; exact Hcand|exact (HE c Hc)].
Qed.

Lemma build_candidates_good : forall P w kind groups existing singles cs e s,
  build_candidates w kind groups existing singles = Ok (cs, e, s) ->
  allin P groups -> (forall c, In c (tvalues existing) -> good P w c) -> incl singles P ->
  (forall c, In c cs -> good P w c) /\ (forall c, In c (tvalues e) -> good P w c) /\ incl s P.
Proof.
  intros P w kind groups existing singles cs e s H HG HE HS. unfold build_candidates in H.
  destruct (build_go w kind groups existing singles) as [[e0 s0]|k] eqn:Eb; cbn [bind] in H; [|discriminate H].
  inversion H; subst; clear H. destruct (build_go_good _ _ _ _ _ _ _ _ Eb HG HE HS) as [A B].
  split; [|split; assumption]. intros c Hc. apply sort_by_in in Hc. exact (A c Hc).
Qed.

(* ---------- _find_interleaved ---------- *)
Lemma with_cores_In : forall w cands cc, with_cores w cands = Ok cc -> forall ck, In ck cc -> In (fst ck) cands.
Proof.
  intros w cands cc H ck Hck. unfold with_cores in H. destruct (mapM_In _ _ _ _ _ H ck Hck) as [c [Hc Hf]].
  destruct (ccore w c) as [k|e]; cbn [bind] in Hf; [|discriminate Hf]. inversion Hf; subst. exact Hc.
Qed.

Lemma core_pairs_from_In : forall c rest o, In o (core_pairs_from c rest) -> In o rest.
Proof.
  intros c. induction rest as [|a r IH]; intros o H; cbn [core_pairs_from] in H; [destruct H|].
  destruct (lend (pcore c) <=? lstart (pcore a)); [destruct H|].
  destruct (overlap (pcore c) (pcore a)).
  - destruct H as [H|H]; [left; exact H|right; exact (IH o H)].
  - right. exact (IH o H).
Qed.

Lemma core_pairs_In : forall l x y, In (x, y) (core_pairs l) -> In x l /\ In y l.
Proof.
  induction l as [|c r IH]; intros x y H; cbn [core_pairs] in H; [destruct H|].
  apply in_app_or in H. destruct H as [H|H].
  - apply in_map_iff in H. destruct H as [o [He Ho]]. inversion He; subst. apply core_pairs_from_In in Ho.
    split; [left; reflexivity|right; exact Ho].
  - destruct (IH x y H) as [A B]. split; right; assumption.
Qed.

Lemma cand_scan_In : forall rel limit cc ck, In ck (cand_scan rel limit cc) -> In ck cc.
Proof.
  intros rel limit. induction cc as [|a r IH]; intros ck H; cbn [cand_scan] in H; [destruct H|].
  destruct (limit <? lstart (cloc (fst a))); [destruct H|].
  destruct (rel a).
  - destruct H as [H|H]; [left; exact H|right; exact (IH ck H)].
  - right. exact (IH ck H).
Qed.

Lemma cand_scan_plain_In : forall rel limit cs c, In c (cand_scan_plain rel limit cs) -> In c cs.
Proof.
  intros rel limit. induction cs as [|a r IH]; intros c H; cbn [cand_scan_plain] in H; [destruct H|].
  destruct (limit <? lstart (cloc a)); [destruct H|].
  destruct (rel a).
  - destruct H as [H|H]; [left; exact H|right; exact (IH c H)].
  - right. exact (IH c H).
Qed.

Lemma cross_walk_In : forall core n l st cg found, cross_walk core n l st = (cg, found) ->
  forall x, In x cg -> In x (fst st) \/ In x l.
Proof.
  intros core n. induction l as [|c r IH]; intros st cg found H x Hx; cbn [cross_walk] in H.
  - subst st. left. exact Hx.
  - destruct st as [cg0 found0]. destruct (negb (set_size found0 <? n)); [inversion H; subst; left; exact Hx|].
    destruct (negb (overlap (pcore c) core)); [inversion H; subst; left; exact Hx|].
    destruct (IH _ _ _ H x Hx) as [A|A]; [|right; right; exact A]. cbn [fst] in A.
    apply In_set_add in A. destruct A as [A|A]; [right; left; symmetry; exact A|left; exact A].
Qed.

Lemma cross_core_group_In : forall crossing x, In x (cross_core_group crossing) ->
  exists ck, In ck crossing /\ In x (cmem (fst ck)).
Proof.
  intros crossing x. unfold cross_core_group.
  assert (G : forall l acc, In x (fold_left (fun acc ck => fold_left (fun a p => set_add p a)
                      (filter (fun p => bridges (pcore p)) (cmem (fst ck))) acc) l acc) ->
              In x acc \/ exists ck : cand * loc, In ck l /\ In x (cmem (fst ck))).
  { induction l as [|ck r IH]; intros acc H; cbn [fold_left] in H; [left; exact H|].
    destruct (IH _ H) as [A|[ck' [A B]]].
    - apply In_fold_set_add in A. destruct A as [A|A]; [left; exact A|right]. apply filter_In in A.
      exists ck. split; [left; reflexivity|exact (proj1 A)].
    - right. exists ck'. split; [right; exact A|exact B]. }
  intro H. destruct (G crossing [] H) as [[]|A]. exact A.
Qed.

Lemma cross_all_group_In : forall crossing x, In x (cross_all_group crossing) ->
  exists ck, In ck crossing /\ In x (cmem (fst ck)).
Proof.
  intros crossing x. unfold cross_all_group.
  assert (G : forall l acc, In x (fold_left (fun acc ck => fold_left (fun a p => set_add p a)
                      (cmem (fst ck)) acc) l acc) ->
              In x acc \/ exists ck : cand * loc, In ck l /\ In x (cmem (fst ck))).
  { induction l as [|ck r IH]; intros acc H; cbn [fold_left] in H; [left; exact H|].
    destruct (IH _ H) as [A|[ck' [A B]]].
    - apply In_fold_set_add in A. destruct A as [A|A]; [left; exact A|right].
      exists ck. split; [left; reflexivity|exact A].
    - right. exists ck'. split; [right; exact A|exact B]. }
  intro H. destruct (G crossing [] H) as [[]|A]. exact A.
Qed.

Lemma find_cross_allin : forall P w cc unassigned groups found groups',
  find_cross_origin_interleaved w cc unassigned groups = Ok (found, groups') ->
  allin P groups -> incl unassigned P -> (forall ck, In ck cc -> incl (cmem (fst ck)) P) -> allin P groups'.
Proof.
  intros P w cc unassigned groups found groups' H HG HU HC. unfold find_cross_origin_interleaved in H.
  destruct (is_empty unassigned || is_empty cc); [inversion H; subst; exact HG|].
  destruct (is_empty (filter (fun ck : cand * loc => cand_core_crosses (snd ck)) cc)); [inversion H; subst; exact HG|].
  destruct (connect_locations (map snd (filter (fun ck : cand * loc => cand_core_crosses (snd ck)) cc)) w) as [core|k];
    cbn [bind] in H; [|discriminate H].
  cbv zeta in H.
  set (crossing := filter (fun ck : cand * loc => cand_core_crosses (snd ck)) cc) in *.
  set (cg0 := if is_empty (cross_core_group crossing) then cross_all_group crossing else cross_core_group crossing) in *.
  assert (Hcg0 : forall x, In x cg0 -> exists ck, In ck crossing /\ In x (cmem (fst ck))).
  { intros x Hx. unfold cg0 in Hx. destruct (is_empty (cross_core_group crossing));
      [exact (cross_all_group_In _ _ Hx)|exact (cross_core_group_In _ _ Hx)]. }
  destruct (is_empty cg0); [discriminate H|].
  destruct (cross_walk core (zlen unassigned) (rev (tl unassigned)) (cg0, [])) as [cg1 f1] eqn:E1.
  destruct (cross_walk core (zlen unassigned) unassigned (cg1, f1)) as [cg found2] eqn:E2.
  assert (Hcg : incl cg P).
  { intros x Hx. destruct (cross_walk_In _ _ _ _ _ _ E2 x Hx) as [A|A]; [|exact (HU x A)]. cbn [fst] in A.
    destruct (cross_walk_In _ _ _ _ _ _ E1 x A) as [B|B].
    - cbn [fst] in B. apply Hcg0 in B. destruct B as [ck [B1 B2]]. apply filter_In in B1.
      exact (HC ck (proj1 B1) x B2).
    - apply in_rev in B. apply HU. destruct unassigned; [destruct B|right; exact B]. }
  destruct (existsb (fun ck : cand * loc => set_eqb cg (cmem (fst ck))) cc); [inversion H; subst; exact HG|].
  destruct (1 <? set_size cg); inversion H; subst; [|exact HG].
  apply allin_app; [exact HG|]. intros g x Hg Hx. destruct Hg as [Hg|[]]. subst g. exact (Hcg x Hx).
Qed.

Lemma find_interleaved_allin : forall P clusters cands w groups un,
  find_interleaved clusters cands w = Ok (groups, un) ->
  incl clusters P -> (forall c, In c cands -> incl (cmem c) P) -> allin P groups /\ incl un clusters.
Proof.
  intros P clusters cands w groups un H HCl HCa. unfold find_interleaved in H. cbv zeta in H.
  destruct (with_cores w cands) as [cc|k] eqn:Ecc; cbn [bind] in H; [|discriminate H].
  assert (Hcc : forall ck, In ck cc -> incl (cmem (fst ck)) P).
  { intros ck Hck. apply HCa. exact (with_cores_In _ _ _ Ecc ck Hck). }
  match type of H with bind ?e _ = _ => destruct e as [[found3 groups3]|k] eqn:EF end; cbn [bind] in H; [|discriminate H].
  inversion H; subst; clear H. split.
  - apply merge_sets_allin. refine (find_cross_allin P _ _ _ _ _ _ EF _ _ Hcc).
    + apply allin_app; [apply allin_app|].
      * intros g x Hg Hx. unfold find_interleaved_candidates in Hg. apply in_map_iff in Hg.
        destruct Hg as [[a b] [He Hab]]. subst g. cbn [fst snd] in Hx.
        assert (Hin : In a cc /\ In b cc).
        { apply in_app_or in Hab. destruct Hab as [Hab|Hab].
          - apply pairs_rel_In in Hab. destruct Hab as [A [B _]]. split; assumption.
          - destruct cc as [|c1 [|c2 r]]; [destruct Hab|destruct Hab|].
            destruct (first_last (c1 :: c2 :: r)) as [[f l]|] eqn:Efl; [|destruct Hab].
            destruct (overlap (snd f) (snd l)); [|destruct Hab]. destruct Hab as [Hab|[]]. inversion Hab; subst.
            exact (first_last_In _ _ _ _ Efl). }
        apply in_app_or in Hx. destruct Hx as [Hx|Hx]; [exact (Hcc a (proj1 Hin) x Hx)|exact (Hcc b (proj2 Hin) x Hx)].
      * apply pair_groups_allin. intros a b Hab. apply core_pairs_In in Hab. destruct Hab as [A B].
        apply sort_by_in in A. apply sort_by_in in B. split; apply HCl; assumption.
      * intros g x Hg Hx. apply in_map_iff in Hg. destruct Hg as [[ck cl] [He Hh]]. subst g. cbn [fst snd] in Hx.
        apply in_flat_map in Hh. destruct Hh as [cl0 [Hcl0 Hh]]. apply in_map_iff in Hh.
        destruct Hh as [ck0 [He Hck0]]. inversion He; subst. apply filter_In in Hck0. destruct Hck0 as [Hck0 _].
        apply sort_by_in in Hcl0.
        apply in_app_or in Hx. destruct Hx as [Hx|[Hx|[]]]; [exact (Hcc ck Hck0 x Hx)|subst x; exact (HCl cl Hcl0)].
    + intros x Hx. apply sort_by_in in Hx. exact (HCl x Hx).
  - intros x Hx. apply sort_by_in in Hx. apply In_iter in Hx. apply In_diff in Hx. exact Hx.
Qed.

(* ---------- _find_neighbouring ---------- *)
Lemma find_neighbouring_allin : forall P singles cands,
  incl singles P -> (forall c, In c cands -> incl (cmem c) P) -> allin P (find_neighbouring singles cands).
Proof.
  intros P singles cands HS HC. unfold find_neighbouring. cbv zeta. apply merge_sets_allin.
  assert (HU : forall x, In x (iter (diff singles (map snd
             (flat_map (fun s => map (fun c => (c, s))
                (filter (fun c => overlap (ploc s) (cloc c)) cands)) singles)))) -> In x P).
  { intros x Hx. apply In_iter in Hx. apply In_diff in Hx. exact (HS x Hx). }
  apply allin_app; [apply allin_app; [apply allin_app|]|].
  - intros g x Hg Hx. unfold find_neighbouring_candidates in Hg. apply in_map_iff in Hg.
    destruct Hg as [[a b] [He Hab]]. subst g. cbn [fst snd] in Hx. apply pairs_rel_In in Hab. destruct Hab as [A [B _]].
    apply In_union in Hx. destruct Hx as [Hx|Hx]; [exact (HC a A x Hx)|exact (HC b B x Hx)].
  - intros g x Hg Hx. apply in_map_iff in Hg. destruct Hg as [[c s] [He Hh]]. subst g. cbn [fst snd] in Hx.
    apply in_flat_map in Hh. destruct Hh as [s0 [Hs0 Hh]]. apply in_map_iff in Hh. destruct Hh as [c0 [He Hc0]].
    inversion He; subst. apply filter_In in Hc0.
    assert (Hc : In c cands) by exact (proj1 Hc0).
    apply In_union in Hx. destruct Hx as [Hx|[Hx|[]]]; [exact (HC c Hc x Hx)|subst x; exact (HS s Hs0)].
  - intros g x Hg Hx. apply in_flat_map in Hg. destruct Hg as [c [Hc Hg]].
    match type of Hg with In g (match ?f with _ => _ end) => destruct f as [|s r] eqn:Ef end; [destruct Hg|].
    destruct Hg as [Hg|[]]. subst g.
    assert (Hcc : In c cands).
    { match type of Hc with In c (if ?b then _ else _) => destruct b end; [destruct Hc|].
      apply in_app_or in Hc. destruct Hc as [Hc|Hc].
      - destruct cands as [|c0 r0]; [destruct Hc|]. destruct (bridges (cloc c0)); [|destruct Hc].
        destruct Hc as [Hc|[]]. subst. left. reflexivity.
      - destruct cands as [|c0 [|c1 r1]]; [destruct Hc|destruct Hc|].
        destruct (last_opt (c0 :: c1 :: r1)) as [cl|] eqn:El; [|destruct Hc].
        destruct (bridges (cloc cl)); [|destruct Hc]. destruct Hc as [Hc|[]]. subst. exact (last_opt_In _ _ _ El). }
    apply in_app_or in Hx. destruct Hx as [Hx|[Hx|[]]]; [exact (HC c Hcc x Hx)|]. subst x.
    assert (Hs : In s (s :: r)) by (left; reflexivity). rewrite <- Ef in Hs. apply filter_In in Hs.
    exact (HU s (proj1 Hs)).
  - unfold find_neighbouring_protoclusters. apply pair_groups_allin. intros a b Hab.
    assert (Hin : forall y, In y singles -> In y P) by exact HS.
    apply in_app_or in Hab. destruct Hab as [Hab|Hab].
    + apply pairs_rel_In in Hab. destruct Hab as [A [B _]]. split; apply Hin; assumption.
    + match type of Hab with In _ (match ?l with _ => _ end) => destruct l as [|p1 [|p2 r]] eqn:El end;
        [destruct Hab|destruct Hab|].
      destruct (first_last (p1 :: p2 :: r)) as [[f l]|] eqn:Efl; [|destruct Hab].
      destruct (negb (pid f =? pid l) && overlap (ploc f) (ploc l)); [|destruct Hab].
      destruct Hab as [Hab|[]]. inversion Hab; subst. apply first_last_In in Efl.
      split; apply Hin; tauto.
Qed.

(* ---------- the final singles and the whole formation ---------- *)
Lemma singles_go_good : forall P w existing l ss, singles_go w existing l = Ok ss -> incl l P ->
  forall c, In c ss -> good P w c /\ ckind c = K_SINGLE /\ exists p, cmem c = [p] /\ In p l.
Proof.
  intros P w existing. induction l as [|q r IH]; intros ss H HL c Hc; cbn [singles_go] in H.
  - inversion H; subst. destruct Hc.
  - assert (HR : incl r P) by (intros x Hx; apply HL; right; exact Hx).
    destruct (match tget (fstart (ploc q), fend (ploc q)) existing with
              | Some ex => pmem q (cmem ex) | None => false end).
    + destruct (IH ss H HR c Hc) as [A [B [p [C D]]]]. split; [exact A|]. split; [exact B|]. exists p. split; [exact C|right; exact D].
    + destruct (mk_cand w K_SINGLE [q]) as [c0|k] eqn:Ec; cbn [bind] in H; [|discriminate H].
      destruct (singles_go w existing r) as [cs|k] eqn:Er; cbn [bind] in H; [|discriminate H].
      inversion H; subst ss. destruct Hc as [Hc|Hc].
      * subst c0. destruct (mk_cand_wfc _ _ _ _ Ec) as [A [B C]]. split; [split; [exact A|]|].
        -- rewrite B. intros x [Hx|[]]. subst x. apply HL. left. reflexivity.
        -- split; [exact C|]. exists q. split; [exact B|left; reflexivity].
      * destruct (IH cs eq_refl HR c Hc) as [A [B [p [C D]]]]. split; [exact A|]. split; [exact B|].
        exists p. split; [exact C|right; exact D].
Qed.

Lemma formation_body_good : forall protos w cands, formation_body protos w = Ok cands ->
  forall c, In c cands -> good protos w c.
Proof.
  intros protos w cands H. unfold formation_body in H. cbv zeta in H.
  destruct (find_hybrids (ordered_list protos) w) as [[hg un1]|k] eqn:E1; cbn [bind] in H; [|discriminate H].
  destruct (find_hybrids_allin _ _ _ _ E1) as [A1 B1].
  assert (HP : incl (ordered_list protos) protos) by (intros x Hx; exact (proj1 (In_ordered_list _ _) Hx)).
  assert (A1' : allin protos hg) by (intros g x Hg Hx; exact (HP x (A1 g x Hg Hx))).
  assert (B1' : incl un1 protos) by (intros x Hx; exact (HP x (B1 x Hx))).
  destruct (build_candidates w K_HYBRID hg [] []) as [[[c1 e1] s1]|k] eqn:E2; cbn [bind] in H; [|discriminate H].
  destruct (build_candidates_good protos _ _ _ _ _ _ _ _ E2 A1') as [G1 [T1 S1]];
    [intros c []|intros x []|].
  destruct (find_interleaved un1 c1 w) as [[ig un2]|k] eqn:E3; cbn [bind] in H; [|discriminate H].
  destruct (find_interleaved_allin protos _ _ _ _ _ E3 B1') as [A3 B3]; [intros c Hc; exact (proj2 (G1 c Hc))|].
  assert (B3' : incl un2 protos) by (intros x Hx; exact (B1' x (B3 x Hx))).
  destruct (build_candidates w K_INTERLEAVED ig e1 s1) as [[[c2 e2] s2]|k] eqn:E4; cbn [bind] in H; [|discriminate H].
  destruct (build_candidates_good protos _ _ _ _ _ _ _ _ E4 A3 T1 S1) as [G2 [T2 S2]].
  destruct (build_candidates w K_NEIGHBOURING (find_neighbouring un2 c2) e2 s2) as [[[c3 e3] s3]|k] eqn:E5;
    cbn [bind] in H; [|discriminate H].
  assert (A5 : allin protos (find_neighbouring un2 c2)).
  { apply find_neighbouring_allin; [exact B3'|intros c Hc; exact (proj2 (G2 c Hc))]. }
  destruct (build_candidates_good protos _ _ _ _ _ _ _ _ E5 A5 T2 S2) as [G3 [T3 S3]].
  destruct (singles_go w e3 (ordered_set (un2 ++ s3))) as [ss|k] eqn:E6; cbn [bind] in H; [|discriminate H].
  inversion H; subst; clear H. intros c Hc. apply in_app_or in Hc. destruct Hc as [Hc|Hc]; [exact (G3 c Hc)|].
  refine (proj1 (singles_go_good protos _ _ _ _ E6 _ c Hc)).
  intros x Hx. apply In_ordered_set in Hx. apply in_app_or in Hx. destruct Hx as [Hx|Hx]; [exact (B3' x Hx)|exact (S3 x Hx)].
Qed.

Lemma create_candidates_good : forall protos w out, create_candidates protos w = Ok out ->
  forall c, In c out -> good protos w c.
Proof.
  intros protos w out H c Hc. unfold create_candidates in H. destruct protos as [|p ps]; [inversion H; subst; destruct Hc|].
  destruct (formation_body (p :: ps) w) as [cands|k] eqn:E; cbn [bind] in H; [|discriminate H].
  destruct (negb (assigned_count cands =? zlen (p :: ps))); [discriminate H|]. inversion H; subst.
  apply sort_by_in in Hc. exact (formation_body_good _ _ _ E c Hc).
Qed.

(* ---------- the three clauses for create_candidates ---------- *)
Lemma members_from_input : forall protos w out, create_candidates protos w = Ok out ->
  forall c, In c out -> cmem c <> [] /\ forall p, In p (cmem c) -> In p protos.
Proof.
  intros protos w out H c Hc. destruct (create_candidates_good _ _ _ H c Hc) as [[A _] B]. split; [exact A|exact B].
Qed.

Lemma location_is_connect : forall protos w out, create_candidates protos w = Ok out ->
  forall c, In c out -> connect_locations (map ploc (cmem c)) w = Ok (cloc c).
Proof. intros protos w out H c Hc. exact (proj2 (proj1 (create_candidates_good _ _ _ H c Hc))). Qed.

(* iteration of a set: strictly ascending ids *)
Fixpoint asc (l : list Z) : Prop :=
  match l with [] => True | x :: r => (forall y, In y r -> x < y) /\ asc r end.

Lemma asc_set_insert : forall x l, asc (map pid l) -> asc (map pid (set_insert x l)).
Proof.
  intros x. induction l as [|y ys IH]; intro H; cbn [set_insert].
  - cbn. split; [intros z []|exact I].
  - cbn [map asc] in H. destruct H as [H1 H2]. destruct (pid x <? pid y) eqn:E1.
    + cbn [map asc]. split; [|split; assumption]. intros z [Hz|Hz]; [subst z; lia|]. specialize (H1 z Hz). lia.
    + destruct (pid x =? pid y) eqn:E2; [cbn [map asc]; split; assumption|].
      cbn [map asc]. split; [|exact (IH H2)]. intros z Hz.
      apply (proj1 (inS_set_insert z x ys)) in Hz. destruct Hz as [Hz|Hz]; [subst z; lia|exact (H1 z Hz)].
Qed.

Lemma asc_iter : forall l, asc (map pid (iter l)).
Proof. unfold iter. induction l as [|x xs IH]; cbn [fold_right]; [exact I|]. apply asc_set_insert. exact IH. Qed.

Lemma asc_NoDup : forall l, asc l -> NoDup l.
Proof.
  induction l as [|x r IH]; intro H; [constructor|]. destruct H as [H1 H2]. constructor; [|exact (IH H2)].
  intro Hx. specialize (H1 x Hx). lia.
Qed.

Lemma inS_concat : forall i (cands : list cand), inS i (concat (map cmem cands)) -> exists c, In c cands /\ inS i (cmem c).
Proof.
  intros i. induction cands as [|c r IH]; cbn [map concat]; intro H; [destruct H|].
  unfold inS in H. rewrite map_app in H. apply in_app_or in H. destruct H as [H|H].
  - exists c. split; [left; reflexivity|exact H].
  - destruct (IH H) as [c' [A B]]. exists c'. split; [right; exact A|exact B].
Qed.

(* every protocluster is a member of a candidate: the code's final assertion (as many distinct members as
   protoclusters) together with "every member was supplied" leaves no protocluster out *)
Lemma every_proto_covered : forall protos w out, create_candidates protos w = Ok out ->
  forall p, In p protos -> exists c, In c out /\ inS (pid p) (cmem c).
Proof.
  intros protos w out H p Hp. unfold create_candidates in H. destruct protos as [|p0 ps0]; [destruct Hp|].
  set (protos := p0 :: ps0) in *.
  destruct (formation_body protos w) as [cands|k] eqn:E; cbn [bind] in H; [|discriminate H].
  destruct (negb (assigned_count cands =? zlen protos)) eqn:Ea; [discriminate H|]. inversion H; subst out; clear H.
  apply negb_false_iff in Ea. apply Z.eqb_eq in Ea. unfold assigned_count, set_size, zlen in Ea.
  apply Nat2Z.inj in Ea.
  set (M := concat (map cmem cands)) in *.
  assert (Hincl : incl (map pid (iter M)) (map pid protos)).
  { intros i Hi. apply in_map_iff in Hi. destruct Hi as [x [Hx Hin]]. subst i. apply In_iter in Hin.
    unfold M in Hin. apply in_concat in Hin. destruct Hin as [g [Hg Hxg]]. apply in_map_iff in Hg.
    destruct Hg as [c [Hc Hcc]]. subst g. apply in_map. exact (proj2 (formation_body_good _ _ _ E c Hcc) x Hxg). }
  assert (Hrev : incl (map pid protos) (map pid (iter M))).
  { apply NoDup_length_incl; [apply asc_NoDup; apply asc_iter| |exact Hincl]. rewrite !map_length. lia. }
  assert (Hi : inS (pid p) M).
  { apply inS_iter. apply Hrev. apply in_map. exact Hp. }
  apply inS_concat in Hi. destruct Hi as [c [Hc Hic]]. exists c. split; [apply sort_by_in; exact Hc|exact Hic].
Qed.

Lemma NoDup_map_inj : forall (l : list proto) x y, NoDup (map pid l) -> In x l -> In y l -> pid x = pid y -> x = y.
Proof.
  induction l as [|a r IH]; intros x y Hnd Hx Hy He; [destruct Hx|]. cbn [map] in Hnd. inversion Hnd as [|? ? Hn Hr]; subst.
  destruct Hx as [Hx|Hx]; destruct Hy as [Hy|Hy].
  - subst. reflexivity.
  - subst a. exfalso. apply Hn. rewrite He. apply in_map. exact Hy.
  - subst a. exfalso. apply Hn. rewrite <- He. apply in_map. exact Hx.
  - exact (IH x y Hr Hx Hy He).
Qed.

Lemma every_proto_covered_strong : forall protos w out, create_candidates protos w = Ok out ->
  NoDup (map pid protos) -> forall p, In p protos -> exists c, In c out /\ In p (cmem c).
Proof.
  intros protos w out H Hnd p Hp. destruct (every_proto_covered _ _ _ H p Hp) as [c [Hc Hi]].
  exists c. split; [exact Hc|]. unfold inS in Hi. apply in_map_iff in Hi. destruct Hi as [x [Hx Hin]].
  pose proof (proj2 (members_from_input _ _ _ H c Hc) x Hin) as Hxp.
  rewrite <- (NoDup_map_inj protos x p Hnd Hxp Hp Hx). exact Hin.
Qed.

(* ---------- linear records: the location is the exact span of the members ---------- *)
Lemma location_linear : forall protos out, create_candidates protos None = Ok out ->
  (forall p, In p protos -> exists q, ploc p = [q] /\ ps q < pe q) ->
  forall c, In c out -> exists h, cloc c = [h] /\
    (forall p x, In p (cmem c) -> ASV.C04.Proofs.base_of (ploc p) x -> ps h <= x < pe h) /\
    (exists p q, In p (cmem c) /\ ploc p = [q] /\ ps q = ps h) /\
    (exists p q, In p (cmem c) /\ ploc p = [q] /\ pe q = pe h).
Proof.
  intros protos out H Hs c Hc. destruct (create_candidates_good _ _ _ H c Hc) as [[Hne Hcon] Hin].
  set (locs := map ploc (cmem c)) in *.
  assert (Hsimple : ASV.C04.Proofs.simple_locs locs).
  { unfold ASV.C04.Proofs.simple_locs. apply Forall_forall. intros l Hl. unfold locs in Hl. apply in_map_iff in Hl.
    destruct Hl as [p [He Hp]]. subst l. destruct (Hs p (Hin p Hp)) as [q [Hq _]]. exists q. exact Hq. }
  assert (Hwf : Forall ASV.C04.Proofs.wf_loc locs).
  { apply Forall_forall. intros l Hl. unfold locs in Hl. apply in_map_iff in Hl.
    destruct Hl as [p [He Hp]]. subst l. destruct (Hs p (Hin p Hp)) as [q [Hq Hlt]]. rewrite Hq.
    split; [discriminate|]. constructor; [exact Hlt|constructor]. }
  assert (Hlne : locs <> []).
  { unfold locs. destruct (cmem c); [exfalso; apply Hne; reflexivity|discriminate]. }
  destruct (ASV.C04.Proofs.connect_line_simple locs Hlne Hsimple Hwf) as [h [Hh [Hps [Hpe _]]]].
  rewrite Hcon in Hh. inversion Hh as [Hcl]. exists h. split; [exact Hcl|]. split; [|split].
  - intros p x Hp Hb. apply (ASV.C04.Proofs.hull_covers locs h Hsimple Hps Hpe (ploc p) x); [|exact Hb].
    unfold locs. apply in_map. exact Hp.
  - destruct (ASV.C04.Proofs.hull_tight locs h Hlne Hsimple Hps Hpe) as [[l [q [Hl [Hlq Hq]]]] _].
    unfold locs in Hl. apply in_map_iff in Hl. destruct Hl as [p [He Hp]]. exists p, q. subst l.
    split; [exact Hp|split; [exact Hlq|exact Hq]].
  - destruct (ASV.C04.Proofs.hull_tight locs h Hlne Hsimple Hps Hpe) as [_ [l [q [Hl [Hlq Hq]]]]].
    unfold locs in Hl. apply in_map_iff in Hl. destruct Hl as [p [He Hp]]. exists p, q. subst l.
    split; [exact Hp|split; [exact Hlq|exact Hq]].
Qed.

(* ---------- _merge_sets does not depend on the order (or multiplicity) of the supplied sets ---------- *)
Lemma FOP_In_cases : forall A (R : A -> A -> Prop) l a b,
  ForallOrdPairs R l -> In a l -> In b l -> a = b \/ R a b \/ R b a.
Proof.
  intros A R l a b H. induction H as [|x l Hx Hl IH]; intros Ha Hb; [destruct Ha|].
  rewrite Forall_forall in Hx. destruct Ha as [Ha|Ha]; destruct Hb as [Hb|Hb].
  - left. congruence.
  - subst a. right. left. exact (Hx b Hb).
  - subst b. right. right. exact (Hx a Ha).
  - exact (IH Ha Hb).
Qed.

Lemma disjoint_false_witness : forall a b, disjoint a b = false -> exists i, inS i a /\ inS i b.
Proof.
  intros a b H. unfold disjoint in H. apply negb_false_iff in H. apply existsb_exists in H.
  destruct H as [x [Hx Hm]]. exists (pid x). split; [apply in_map; exact Hx|apply pmem_inS; exact Hm].
Qed.

Lemma built_in_component : forall G out,
  (forall g, In g G -> g <> [] -> exists h, In h out /\ subsetP g h) ->
  ForallOrdPairs disjointP out ->
  forall s, built G s -> s = [] \/ exists h, In h out /\ subsetP s h.
Proof.
  intros G out HS HD s Hb. induction Hb as [g Hg|a b Ha IHa Hb IHb Hd].
  - destruct g as [|x g']; [left; reflexivity|right]. apply HS; [exact Hg|discriminate].
  - right. destruct (disjoint_false_witness _ _ Hd) as [i [Hia Hib]].
    destruct IHa as [Ea|[ha [Hha Hsa]]]; [subst a; apply inS_nil in Hia; contradiction|].
    destruct IHb as [Eb|[hb [Hhb Hsb]]]; [subst b; apply inS_nil in Hib; contradiction|].
    destruct (FOP_In_cases _ _ _ ha hb HD Hha Hhb) as [E|[E|E]].
    + subst hb. exists ha. split; [exact Hha|]. intros j Hj. apply inS_union in Hj. destruct Hj; [apply Hsa|apply Hsb]; assumption.
    + exfalso. exact (E i (Hsa i Hia) (Hsb i Hib)).
    + exfalso. exact (E i (Hsb i Hib) (Hsa i Hia)).
Qed.

Lemma merge_sets_order_independent : forall G G', (forall g, In g G <-> In g G') ->
  forall h, In h (merge_sets G) -> exists h', In h' (merge_sets G') /\ forall i, inS i h <-> inS i h'.
Proof.
  intros G G' HGG h Hh.
  pose proof (merge_sets_components G) as C. cbv zeta in C. destruct C as [_ [HD [HS [HB HN]]]].
  pose proof (merge_sets_components G') as C'. cbv zeta in C'. destruct C' as [_ [HD' [HS' [HB' _]]]].
  rewrite Forall_forall in HB, HB', HN.
  destruct (HB h Hh) as [h0 [Hb0 He0]].
  assert (Hx : exists x, inS x h).
  { destruct h as [|x h']; [exfalso; exact (HN [] Hh eq_refl)|]. exists (pid x). left. reflexivity. }
  destruct Hx as [x Hx].
  assert (Hb0' : built G' h0) by (apply (built_weaken G G'); [intros g Hg; apply HGG; exact Hg|exact Hb0]).
  destruct (built_in_component G' _ HS' HD' h0 Hb0') as [E|[h' [Hh' Hsub]]].
  { subst h0. apply He0 in Hx. apply inS_nil in Hx. contradiction. }
  exists h'. split; [exact Hh'|].
  destruct (HB' h' Hh') as [h0' [HbA He0']].
  assert (Hb0'' : built G h0') by (apply (built_weaken G' G); [intros g Hg; apply HGG; exact Hg|exact HbA]).
  destruct (built_in_component G _ HS HD h0' Hb0'') as [E|[h2 [Hh2 Hsub2]]].
  { subst h0'. assert (Hx' : inS x h') by (apply Hsub; apply He0; exact Hx). apply He0' in Hx'. apply inS_nil in Hx'. contradiction. }
  assert (Hx2 : inS x h2) by (apply Hsub2; apply He0'; apply Hsub; apply He0; exact Hx).
  destruct (FOP_In_cases _ _ _ h h2 HD Hh Hh2) as [E|[E|E]].
  - subst h2. intro i. split; [intro Hi; apply Hsub; apply He0; exact Hi|intro Hi; apply Hsub2; apply He0'; exact Hi].
  - exfalso. exact (E x Hx Hx2).
  - exfalso. exact (E x Hx2 Hx).
Qed.

Lemma merge_sets_perm : forall G G', Permutation G G' ->
  forall h, In h (merge_sets G) -> exists h', In h' (merge_sets G') /\ forall i, inS i h <-> inS i h'.
Proof.
  intros G G' HP. apply merge_sets_order_independent. intro g. split; apply Permutation_in; [exact HP|apply Permutation_sym; exact HP].
Qed.

(* ---------- chemical hybrids: the sets handed to _merge_sets are exactly the pairs sharing a defining gene ---------- *)
Definition hybrid_pair_groups (clusters : list proto) : list (list proto) :=
  let sorted_c := sort_by core_key_lt clusters in
  map (fun xy => [fst xy; snd xy])
      (pairs_rel defs_intersect sorted_c ++
       match first_last sorted_c with
       | Some (f, l) => if negb (pid f =? pid l) && defs_intersect f l then [(f, l)] else []
       | None => []
       end).

Lemma find_hybrids_shape : forall clusters w groups un, find_hybrids clusters w = Ok (groups, un) ->
  exists extended,
    mapM (hybrid_extend w (sort_by core_start_lt (iter (diff clusters (concat (hybrid_pair_groups clusters))))))
         (merge_sets (hybrid_pair_groups clusters)) = Ok extended /\ groups = map ordered_list extended.
Proof.
  intros clusters w groups un H. unfold find_hybrids in H. cbv zeta in H.
  match type of H with bind ?e _ = _ => destruct e as [extended|k] eqn:EM end; cbn [bind] in H; [|discriminate H].
  inversion H; subst; clear H. exists extended. split; [exact EM|reflexivity].
Qed.

Lemma pair_group_spec : forall clusters g, In g (hybrid_pair_groups clusters) ->
  exists x y, g = [x; y] /\ In x clusters /\ In y clusters /\ defs_intersect x y = true.
Proof.
  intros clusters g Hg. unfold hybrid_pair_groups in Hg. cbv zeta in Hg. apply in_map_iff in Hg.
  destruct Hg as [[x y] [He Hxy]]. subst g. exists x, y. split; [reflexivity|].
  apply in_app_or in Hxy. destruct Hxy as [Hxy|Hxy].
  - apply pairs_rel_In in Hxy. destruct Hxy as [A [B C]]. apply sort_by_in in A. apply sort_by_in in B. tauto.
  - destruct (first_last (sort_by core_key_lt clusters)) as [[f l]|] eqn:Efl; [|destruct Hxy].
    destruct (negb (pid f =? pid l) && defs_intersect f l) eqn:Ec; [|destruct Hxy].
    destruct Hxy as [Hxy|[]]. inversion Hxy; subst. apply first_last_In in Efl. destruct Efl as [A B].
    apply sort_by_in in A. apply sort_by_in in B. apply andb_true_iff in Ec. tauto.
Qed.

Lemma pairs_rel_complete : forall A (rel : A -> A -> bool) l1 x l2 y l3,
  rel x y = true -> In (x, y) (pairs_rel rel (l1 ++ x :: l2 ++ y :: l3)).
Proof.
  intros A rel. induction l1 as [|a r IH]; intros x l2 y l3 H; cbn [app pairs_rel]; apply in_or_app.
  - left. apply in_map. apply filter_In. split; [apply in_or_app; right; left; reflexivity|exact H].
  - right. exact (IH x l2 y l3 H).
Qed.

Lemma In_two_split : forall A (l : list A) a b, a <> b -> In a l -> In b l ->
  (exists l1 l2 l3, l = l1 ++ a :: l2 ++ b :: l3) \/ (exists l1 l2 l3, l = l1 ++ b :: l2 ++ a :: l3).
Proof.
  intros A l a b Hne Ha Hb. apply in_split in Ha. destruct Ha as [l1 [r He]]. subst l.
  apply in_app_or in Hb. destruct Hb as [Hb|[Hb|Hb]].
  - right. apply in_split in Hb. destruct Hb as [m1 [m2 He]]. subst l1. exists m1, m2, r.
    rewrite <- app_assoc. reflexivity.
  - exfalso. exact (Hne Hb).
  - left. apply in_split in Hb. destruct Hb as [m1 [m2 He]]. subst r. exists l1, m1, m2. reflexivity.
Qed.

Lemma zmem_In : forall x l, zmem x l = true <-> In x l.
Proof.
  intros x l. unfold zmem. rewrite existsb_exists. split.
  - intros [y [Hy He]]. apply Z.eqb_eq in He. subst y. exact Hy.
  - intro H. exists x. split; [exact H|apply Z.eqb_refl].
Qed.

Lemma defs_intersect_sym : forall a b, defs_intersect a b = true -> defs_intersect b a = true.
Proof.
  intros a b H. unfold defs_intersect in *. apply existsb_exists in H. destruct H as [g [Hg Hm]].
  apply zmem_In in Hm. apply existsb_exists. exists g. split; [exact Hm|apply zmem_In; exact Hg].
Qed.

Lemma mapM_In_fwd : forall A B (f : A -> res B) l r, mapM f l = Ok r ->
  forall x, In x l -> exists y, In y r /\ f x = Ok y.
Proof.
  intros A B f. induction l as [|a l IH]; intros r H x Hx; cbn [mapM] in H; [destruct Hx|].
  destruct (f a) as [b|k] eqn:Ea; cbn [bind] in H; [|discriminate H].
  destruct (mapM f l) as [bs|k] eqn:El; cbn [bind] in H; [|discriminate H].
  inversion H; subst. destruct Hx as [Hx|Hx].
  - subst. exists b. split; [left; reflexivity|exact Ea].
  - destruct (IH bs eq_refl x Hx) as [y [Hy Hf]]. exists y. split; [right; exact Hy|exact Hf].
Qed.

Lemma contained_until_spec : forall core limit cl x, In x (contained_until core limit cl) -> contains core (pcore x) = true.
Proof.
  intros core limit. induction cl as [|c r IH]; intros x H; cbn [contained_until] in H; [destruct H|].
  destruct (limit <? lstart (ploc c)); [destruct H|].
  destruct (contains core (pcore c)) eqn:E.
  - destruct H as [H|H]; [subst; exact E|exact (IH x H)].
  - exact (IH x H).
Qed.

Lemma hybrid_extend_spec : forall w clusters group r, hybrid_extend w clusters group = Ok r ->
  exists core extra, connect_locations (map pcore group) w = Ok core /\ r = group ++ extra /\
    forall x, In x extra -> In x clusters /\ contains core (pcore x) = true.
Proof.
  intros w clusters group r H. unfold hybrid_extend in H.
  destruct (connect_locations (map pcore group) w) as [core|k]; cbn [bind] in H; [|discriminate H].
  inversion H; subst; clear H. eexists. eexists. split; [reflexivity|]. split; [reflexivity|].
  intros x Hx. apply first_occ_In in Hx. apply in_app_or in Hx. destruct Hx as [Hx|Hx].
  - split; [apply contained_until_In in Hx; apply In_skipn' in Hx; exact Hx|exact (contained_until_spec _ _ _ _ Hx)].
  - destruct (is_compound core); [|destruct Hx].
    split; [apply contained_until_In in Hx; exact Hx|exact (contained_until_spec _ _ _ _ Hx)].
Qed.

(* completeness: two supplied protoclusters that share a defining gene are in the same hybrid group *)
Lemma hybrids_complete : forall clusters w groups un, find_hybrids clusters w = Ok (groups, un) ->
  forall a b, In a clusters -> In b clusters -> a <> b -> defs_intersect a b = true ->
  exists g, In g groups /\ inS (pid a) g /\ inS (pid b) g.
Proof.
  intros clusters w groups un H a b Ha Hb Hne Hd. destruct (find_hybrids_shape _ _ _ _ H) as [extended [EM Hg]].
  assert (Hpair : exists pr, In pr (hybrid_pair_groups clusters) /\ inS (pid a) pr /\ inS (pid b) pr /\ pr <> []).
  { apply (sort_by_in _ core_key_lt) in Ha. apply (sort_by_in _ core_key_lt) in Hb.
    unfold hybrid_pair_groups. cbv zeta.
    destruct (In_two_split _ _ a b Hne Ha Hb) as [[l1 [l2 [l3 E]]]|[l1 [l2 [l3 E]]]].
    - exists [a; b]. split; [|split; [left; reflexivity|split; [right; left; reflexivity|discriminate]]].
      apply in_map_iff. exists (a, b). split; [reflexivity|]. apply in_or_app. left. rewrite E.
      apply pairs_rel_complete. exact Hd.
    - exists [b; a]. split; [|split; [right; left; reflexivity|split; [left; reflexivity|discriminate]]].
      apply in_map_iff. exists (b, a). split; [reflexivity|]. apply in_or_app. left. rewrite E.
      apply pairs_rel_complete. apply defs_intersect_sym. exact Hd. }
  destruct Hpair as [pr [Hpr [Hia [Hib Hprne]]]].
  pose proof (merge_sets_components (hybrid_pair_groups clusters)) as C. cbv zeta in C. destruct C as [_ [_ [HS _]]].
  destruct (HS pr Hpr Hprne) as [h [Hh Hsub]].
  destruct (mapM_In_fwd _ _ _ _ _ EM h Hh) as [e [He Hext]].
  destruct (hybrid_extend_spec _ _ _ _ Hext) as [core [extra [_ [Er _]]]].
  exists (ordered_list e). split; [subst groups; apply in_map; exact He|].
  assert (Hin : forall i, inS i h -> inS i (ordered_list e)).
  { intros i Hi. unfold ordered_list. rewrite !inS_sort_by. subst e. unfold inS. rewrite map_app. apply in_or_app. left. exact Hi. }
  split; apply Hin; apply Hsub; assumption.
Qed.

(* soundness: every member of a hybrid group belongs to one component of the sharing relation, or its core
   lies inside that component's joint core and it shares a defining gene with nobody *)
Lemma hybrids_sound : forall clusters w groups un, find_hybrids clusters w = Ok (groups, un) ->
  forall g, In g groups -> exists m core, In m (merge_sets (hybrid_pair_groups clusters)) /\
    connect_locations (map pcore m) w = Ok core /\
    (forall x, In x m -> In x g) /\
    forall x, In x g -> In x m \/
      (In x clusters /\ contains core (pcore x) = true /\ pmem x (concat (hybrid_pair_groups clusters)) = false).
Proof.
  intros clusters w groups un H g Hg. destruct (find_hybrids_shape _ _ _ _ H) as [extended [EM Hgs]]. subst groups.
  apply in_map_iff in Hg. destruct Hg as [e [He Hin]]. subst g.
  destruct (mapM_In _ _ _ _ _ EM e Hin) as [m [Hm Hext]].
  destruct (hybrid_extend_spec _ _ _ _ Hext) as [core [extra [Hc [Er Hx]]]].
  exists m, core. split; [exact Hm|]. split; [exact Hc|]. split.
  - intros x Hxm. apply In_ordered_list. subst e. apply in_or_app. left. exact Hxm.
  - intros x Hxe. apply (proj1 (In_ordered_list _ _)) in Hxe. subst e. apply in_app_or in Hxe.
    destruct Hxe as [Hxe|Hxe]; [left; exact Hxe|right]. destruct (Hx x Hxe) as [A B].
    apply sort_by_in in A. apply In_iter in A. unfold diff in A. apply filter_In in A. destruct A as [A1 A2].
    split; [exact A1|]. split; [exact B|]. apply negb_true_iff in A2. exact A2.
Qed.

(* ---------- the table never holds two candidates under the same (start, end) ---------- *)
Fixpoint keys_distinct (t : table) : Prop :=
  match t with
  | [] => True
  | (k, _) :: r => (forall k' c', In (k', c') r -> key_eqb k k' = false) /\ keys_distinct r
  end.

Lemma key_eqb_sym : forall a b, key_eqb a b = key_eqb b a.
Proof. intros a b. unfold key_eqb. rewrite (Z.eqb_sym (fst a)), (Z.eqb_sym (snd a)). reflexivity. Qed.

Lemma tset_In_key : forall k c t k' c', In (k', c') (tset k c t) -> (exists c0, In (k', c0) t) \/ k' = k.
Proof.
  intros k c. induction t as [|[k0 c0] r IH]; intros k' c' H; cbn [tset] in H.
  - destruct H as [H|[]]. inversion H. right. reflexivity.
  - destruct (key_eqb k k0).
    + destruct H as [H|H]; [inversion H; subst; left; exists c0; left; reflexivity|left; exists c'; right; exact H].
    + destruct H as [H|H]; [inversion H; subst; left; exists c'; left; reflexivity|].
      destruct (IH k' c' H) as [[c1 A]|A]; [left; exists c1; right; exact A|right; exact A].
Qed.

Lemma tset_keys_distinct : forall k c t, keys_distinct t -> keys_distinct (tset k c t).
Proof.
  intros k c. induction t as [|[k0 c0] r IH]; intro H; cbn [tset].
  - cbn. split; [intros k' c' []|exact I].
  - cbn [keys_distinct] in H. destruct H as [H1 H2]. destruct (key_eqb k k0) eqn:E.
    + cbn [keys_distinct]. split; assumption.
    + cbn [keys_distinct]. split; [|exact (IH H2)]. intros k' c' Hin.
      destruct (tset_In_key _ _ _ _ _ Hin) as [[c1 A]|A]; [exact (H1 k' c1 A)|]. subst k'. rewrite key_eqb_sym. exact E.
Qed.

Lemma build_go_keys_distinct : forall w kind groups existing singles e s,
  build_go w kind groups existing singles = Ok (e, s) -> keys_distinct existing -> keys_distinct e.
Proof.
  intros w kind. induction groups as [|group rest IH]; intros existing singles e s H HK; cbn [build_go] in H.
  - inversion H; subst. exact HK.
  - destruct (negb ((kind =? K_SINGLE) || (1 <? zlen group))); [discriminate H|].
    destruct (mk_cand w kind (ordered_list group)) as [candidate|k]; cbn [bind] in H; [|discriminate H].
    destruct (tget (ckey candidate) existing) as [ex|].
    + destruct (is_empty (iter (diff group (iter (cmem ex))))); [exact (IH _ _ _ _ H HK)|].
      destruct (mk_cand w (ckind ex) (ordered_list (iter (cmem ex) ++ iter (diff group (iter (cmem ex))))))
        as [replacement|k]; cbn [bind] in H; [|discriminate H].
      apply (IH _ _ _ _ H). apply tset_keys_distinct. exact HK.
    + apply (IH _ _ _ _ H). apply tset_keys_distinct. exact HK.
Qed.

(* build_candidates is NOT independent of the order of the groups: when two groups of one call have the same
   coordinates, the later one is united into the earlier one and only ITS members get an extra single *)
Definition oi_p (i s e : Z) : proto := mkProto i [mkPart s e 1] [mkPart s e 1] i [].
Definition oi_g1 : list proto := [oi_p 1 0 50; oi_p 2 10 20].
Definition oi_g2 : list proto := [oi_p 3 0 50; oi_p 4 30 40].
Lemma build_candidates_order_dependent :
  exists c1 e1 s1 c2 e2 s2,
    build_candidates None K_HYBRID [oi_g1; oi_g2] [] [] = Ok (c1, e1, s1) /\
    build_candidates None K_HYBRID [oi_g2; oi_g1] [] [] = Ok (c2, e2, s2) /\
    map pid s1 = [3; 4] /\ map pid s2 = [1; 2].
Proof.
  destruct (build_candidates None K_HYBRID [oi_g1; oi_g2] [] []) as [[[c1 e1] s1]|k] eqn:E1; vm_compute in E1; [|discriminate E1].
  destruct (build_candidates None K_HYBRID [oi_g2; oi_g1] [] []) as [[[c2 e2] s2]|k] eqn:E2; vm_compute in E2; [|discriminate E2].
  inversion E1; inversion E2; subst. do 6 eexists. split; [reflexivity|]. split; [reflexivity|]. split; vm_compute; reflexivity.
Qed.

(* ====================================================================================== *)
(* no protocluster is listed twice in a candidate (positive statement after the repair of  *)
(* hybrid_member_repeated), and the regression witness of joint_core_wraps_assert          *)
(* ====================================================================================== *)
Definition ndg (g : list proto) : Prop := NoDup (map pid g).

Lemma ndg_perm : forall g g', Permutation g g' -> ndg g -> ndg g'.
Proof. intros g g' Hp H. unfold ndg in *. exact (Permutation_NoDup (Permutation_map pid Hp) H). Qed.

Lemma ndg_sort_by : forall lt g, ndg g -> ndg (sort_by lt g).
Proof. intros lt g H. exact (ndg_perm _ _ (Permutation_sym (sort_by_perm _ lt g)) H). Qed.

Lemma ndg_ordered_list : forall g, ndg g -> ndg (ordered_list g).
Proof. intros g H. unfold ordered_list. apply ndg_sort_by. apply ndg_sort_by. exact H. Qed.

Lemma ndg_iter : forall g, ndg (iter g).
Proof. intro g. unfold ndg. apply asc_NoDup. apply asc_iter. Qed.

Lemma ndg_ordered_set : forall g, ndg (ordered_set g).
Proof. intro g. unfold ordered_set. apply ndg_ordered_list. apply ndg_iter. Qed.

Lemma ndg_merge_sets : forall G h, In h (merge_sets G) -> ndg h.
Proof. intros G h H. unfold merge_sets in H. apply in_map_iff in H. destruct H as [g [E _]]. subst h. apply ndg_ordered_set. Qed.

Lemma NoDup_app_disj : forall (a b : list Z), NoDup a -> NoDup b -> (forall x, In x a -> In x b -> False) -> NoDup (a ++ b).
Proof.
  induction a as [|x a IH]; intros b Ha Hb Hd; cbn [app]; [exact Hb|].
  inversion Ha as [|? ? Hx Ha']; subst. constructor.
  - intro Hin. apply in_app_or in Hin. destruct Hin as [Hin|Hin]; [exact (Hx Hin)|exact (Hd x (or_introl eq_refl) Hin)].
  - apply IH; [exact Ha'|exact Hb|]. intros y Hy1 Hy2. exact (Hd y (or_intror Hy1) Hy2).
Qed.

(* `if cluster not in group`: what is appended is new and appended once *)
Lemma first_occ_fresh : forall l seen,
  ndg (first_occ seen l) /\ forall x, In x (first_occ seen l) -> ~ inS (pid x) seen.
Proof.
  induction l as [|c r IH]; intro seen; cbn [first_occ].
  - split; [constructor|intros x []].
  - destruct (pmem c seen) eqn:Ec; [exact (IH seen)|].
    destruct (IH (c :: seen)) as [A B]. split.
    + unfold ndg. cbn [map]. constructor; [|exact A]. intro Hin. apply in_map_iff in Hin.
      destruct Hin as [y [Ey Hy]]. apply (B y Hy). unfold inS. cbn [map]. left. symmetry. exact Ey.
    + intros x [Hx|Hx].
      * subst x. intro Hs. apply pmem_inS in Hs. rewrite Hs in Ec. discriminate Ec.
      * intro Hs. apply (B x Hx). unfold inS in *. cbn [map]. right. exact Hs.
Qed.

Lemma hybrid_extend_ndg : forall w clusters group r, hybrid_extend w clusters group = Ok r -> ndg group -> ndg r.
Proof.
  intros w clusters group r H Hg. unfold hybrid_extend in H.
  destruct (connect_locations (map pcore group) w) as [core|k]; cbn [bind] in H; [|discriminate H].
  inversion H; subst; clear H. unfold ndg. rewrite map_app.
  match goal with |- NoDup (_ ++ map pid (first_occ group ?l)) => destruct (first_occ_fresh l group) as [A B] end.
  apply NoDup_app_disj; [exact Hg|exact A|].
  intros i Hi1 Hi2. apply in_map_iff in Hi2. destruct Hi2 as [y [Ey Hy]]. subst i. exact (B y Hy Hi1).
Qed.

Lemma find_hybrids_ndg : forall clusters w groups un, find_hybrids clusters w = Ok (groups, un) ->
  forall g, In g groups -> ndg g.
Proof.
  intros clusters w groups un H. unfold find_hybrids in H. cbv zeta in H.
  match type of H with bind ?e _ = _ => destruct e as [extended|k] eqn:EM end; cbn [bind] in H; [|discriminate H].
  inversion H; subst; clear H. intros g Hg. apply in_map_iff in Hg. destruct Hg as [g0 [He Hg0]]. subst g.
  apply ndg_ordered_list. destruct (mapM_In _ _ _ _ _ EM g0 Hg0) as [m [Hm Hext]].
  exact (hybrid_extend_ndg _ _ _ _ Hext (ndg_merge_sets _ _ Hm)).
Qed.

Lemma build_go_ndg : forall w kind groups existing singles e s,
  build_go w kind groups existing singles = Ok (e, s) ->
  (forall g, In g groups -> ndg g) -> (forall c, In c (tvalues existing) -> ndg (cmem c)) ->
  forall c, In c (tvalues e) -> ndg (cmem c).
Proof.
  intros w kind. induction groups as [|group rest IH]; intros existing singles e s H HG HE; cbn [build_go] in H.
  - inversion H; subst. exact HE.
  - destruct (negb ((kind =? K_SINGLE) || (1 <? zlen group))); [discriminate H|].
    destruct (mk_cand w kind (ordered_list group)) as [candidate|k] eqn:Ec; cbn [bind] in H; [|discriminate H].
    assert (HGr : forall g, In g rest -> ndg g) by (intros g Hg; exact (HG g (or_intror Hg))).
    assert (Hcand : ndg (cmem candidate)).
    { destruct (mk_cand_members _ _ _ _ Ec) as [B _]. rewrite B. apply ndg_ordered_list. exact (HG group (or_introl eq_refl)). }
    destruct (tget (ckey candidate) existing) as [ex|] eqn:Et.
    + destruct (is_empty (iter (diff group (iter (cmem ex))))) eqn:Eex.
      * exact (IH _ _ _ _ H HGr HE).
      * destruct (mk_cand w (ckind ex) (ordered_list (iter (cmem ex) ++ iter (diff group (iter (cmem ex))))))
          as [replacement|k] eqn:Er; cbn [bind] in H; [|discriminate H].
        apply (IH _ _ _ _ H HGr).
        intros c Hc. apply tset_values in Hc. destruct Hc as [Hc|Hc]; [|exact (HE c Hc)]. subst c.
        destruct (mk_cand_members _ _ _ _ Er) as [B _]. rewrite B. apply ndg_ordered_list.
        unfold ndg. rewrite map_app. apply NoDup_app_disj; [apply ndg_iter|apply ndg_iter|].
        intros i Hi1 Hi2. apply in_map_iff in Hi2. destruct Hi2 as [y [Ey Hy]]. subst i.
        apply In_iter in Hy. unfold diff in Hy. apply filter_In in Hy. destruct Hy as [_ Hy].
        apply negb_true_iff in Hy. assert (Hm : pmem y (iter (cmem ex)) = true) by (apply pmem_inS; exact Hi1).
        rewrite Hm in Hy. discriminate Hy.
    + apply (IH _ _ _ _ H HGr).
      intros c Hc. apply tset_values in Hc. destruct Hc as [Hc|Hc]; [subst c; exact Hcand|exact (HE c Hc)].
Qed.

Lemma build_candidates_ndg : forall w kind groups existing singles cs e s,
  build_candidates w kind groups existing singles = Ok (cs, e, s) ->
  (forall g, In g groups -> ndg g) -> (forall c, In c (tvalues existing) -> ndg (cmem c)) ->
  (forall c, In c cs -> ndg (cmem c)) /\ (forall c, In c (tvalues e) -> ndg (cmem c)).
Proof.
  intros w kind groups existing singles cs e s H HG HE. unfold build_candidates in H.
  destruct (build_go w kind groups existing singles) as [[e0 s0]|k] eqn:Eb; cbn [bind] in H; [|discriminate H].
  inversion H; subst; clear H. pose proof (build_go_ndg _ _ _ _ _ _ _ Eb HG HE) as A.
  split; [|exact A]. intros c Hc. apply sort_by_in in Hc. exact (A c Hc).
Qed.

Lemma find_interleaved_ndg : forall clusters cands w groups un,
  find_interleaved clusters cands w = Ok (groups, un) -> forall g, In g groups -> ndg g.
Proof.
  intros clusters cands w groups un H. unfold find_interleaved in H. cbv zeta in H.
  destruct (with_cores w cands) as [cc|k] eqn:Ecc; cbn [bind] in H; [|discriminate H].
  match type of H with bind ?e _ = _ => destruct e as [[found3 groups3]|k] eqn:EF end; cbn [bind] in H; [|discriminate H].
  inversion H; subst; clear H. intros g Hg. exact (ndg_merge_sets _ _ Hg).
Qed.

Lemma formation_body_ndg : forall protos w cands, formation_body protos w = Ok cands ->
  forall c, In c cands -> ndg (cmem c).
Proof.
  intros protos w cands H. unfold formation_body in H. cbv zeta in H.
  destruct (find_hybrids (ordered_list protos) w) as [[hg un1]|k] eqn:E1; cbn [bind] in H; [|discriminate H].
  pose proof (find_hybrids_ndg _ _ _ _ E1) as A1.
  destruct (build_candidates w K_HYBRID hg [] []) as [[[c1 e1] s1]|k] eqn:E2; cbn [bind] in H; [|discriminate H].
  destruct (build_candidates_ndg _ _ _ _ _ _ _ _ E2 A1) as [G1 T1]; [intros c []|].
  destruct (find_interleaved un1 c1 w) as [[ig un2]|k] eqn:E3; cbn [bind] in H; [|discriminate H].
  pose proof (find_interleaved_ndg _ _ _ _ _ E3) as A3.
  destruct (build_candidates w K_INTERLEAVED ig e1 s1) as [[[c2 e2] s2]|k] eqn:E4; cbn [bind] in H; [|discriminate H].
  destruct (build_candidates_ndg _ _ _ _ _ _ _ _ E4 A3 T1) as [G2 T2].
  destruct (build_candidates w K_NEIGHBOURING (find_neighbouring un2 c2) e2 s2) as [[[c3 e3] s3]|k] eqn:E5;
    cbn [bind] in H; [|discriminate H].
  assert (A5 : forall g, In g (find_neighbouring un2 c2) -> ndg g).
  { intros g Hg. unfold find_neighbouring in Hg. cbv zeta in Hg. exact (ndg_merge_sets _ _ Hg). }
  destruct (build_candidates_ndg _ _ _ _ _ _ _ _ E5 A5 T2) as [G3 T3].
  destruct (singles_go w e3 (ordered_set (un2 ++ s3))) as [ss|k] eqn:E6; cbn [bind] in H; [|discriminate H].
  inversion H; subst; clear H. intros c Hc. apply in_app_or in Hc. destruct Hc as [Hc|Hc]; [exact (G3 c Hc)|].
  destruct (singles_go_good (ordered_set (un2 ++ s3)) _ _ _ _ E6 (fun x Hx => Hx) c Hc) as [_ [_ [p [Ep _]]]].
  rewrite Ep. unfold ndg. cbn [map]. constructor; [intros []|constructor].
Qed.

(* every candidate lists each protocluster at most once (by id) - no hypothesis on the input *)
Lemma no_repeated_member : forall protos w out, create_candidates protos w = Ok out ->
  forall c, In c out -> NoDup (map pid (cmem c)).
Proof.
  intros protos w out H c Hc. unfold create_candidates in H. destruct protos as [|p ps]; [inversion H; subst; destruct Hc|].
  destruct (formation_body (p :: ps) w) as [cands|k] eqn:E; cbn [bind] in H; [|discriminate H].
  destruct (negb (assigned_count cands =? zlen (p :: ps))); [discriminate H|]. inversion H; subst.
  apply sort_by_in in Hc. exact (formation_body_ndg _ _ _ E c Hc).
Qed.

(* regression witness of the repaired finding joint_core_wraps_assert (circular record of length 72): hybrids {1,2}
   and {0,5} both span [0:71] and are united; the united core is connected across the origin although no member core
   crosses it; 3 and 4 are still unassigned.  Before the repair: Err E_Assert (`assert core_group`). *)
Definition jc_p (i s e cs ce prod : Z) (defs : list Z) : proto := mkProto i [mkPart s e 1] [mkPart cs ce 1] prod defs.
Definition jc_protos : list proto :=
  [jc_p 0 0 71 51 52 5 [0]; jc_p 1 0 71 11 16 3 [1]; jc_p 2 4 12 7 12 4 [1];
   jc_p 3 0 68 50 53 0 []; jc_p 4 30 58 50 53 2 []; jc_p 5 0 68 51 56 1 [0]].
Lemma joint_core_wraps_witness_repaired :
  class_joint_core_wraps jc_protos (Some 72) = true /\
  exists out, create_candidates jc_protos (Some 72) = Ok out /\
              map (fun c => (ckind c, map pid (cmem c))) out
              = [(K_HYBRID, [1; 0; 3; 5; 2; 4]); (K_SINGLE, [3]); (K_SINGLE, [5]); (K_SINGLE, [4])].
Proof.
  split; [vm_compute; reflexivity|].
  destruct (create_candidates jc_protos (Some 72)) as [out|k] eqn:E; vm_compute in E; [|discriminate E].
  inversion E as [E']. eexists. split; [reflexivity|]. vm_compute. reflexivity.
Qed.

(* ====================================================================================== *)
(* second deepening pass.  Three self-contained developments, each in its own module       *)
(* (names inside are local to the module; Theorems.v refers to Cover.x, Kinds.x)           *)
(* ====================================================================================== *)
Module Cover.
(* C05 - the final coverage assertion of create_candidates_from_protoclusters never fires:
   every supplied protocluster (by id) is a member of one of the candidates formed by formation_body,
   hence the number of distinct members equals the number of protoclusters. *)

(* ---------- membership by id: small facts ---------- *)
Lemma inS_dec : forall i g, inS i g \/ ~ inS i g.
Proof.
  intros i g. unfold inS. destruct (in_dec Z.eq_dec i (map pid g)) as [H|H]; [left; exact H|right; exact H].
Qed.

Lemma inS_app : forall i a b, inS i (a ++ b) <-> inS i a \/ inS i b.
Proof. intros i a b. unfold inS. rewrite map_app. apply in_app_iff. Qed.

Lemma inS_In : forall x g, In x g -> inS (pid x) g.
Proof. intros x g H. unfold inS. apply in_map. exact H. Qed.

Lemma inS_witness : forall i g, inS i g -> exists x, In x g /\ pid x = i.
Proof.
  intros i g H. unfold inS in H. apply in_map_iff in H. destruct H as [x [Hx Hin]]. exists x. split; assumption.
Qed.

Lemma inS_diff_intro : forall i a b, inS i a -> ~ inS i b -> inS i (diff a b).
Proof.
  intros i a b Ha Hb. apply inS_witness in Ha. destruct Ha as [x [Hx He]]. subst i.
  apply inS_In. unfold diff. apply filter_In. split; [exact Hx|].
  destruct (pmem x b) eqn:E; [|reflexivity]. exfalso. apply Hb. apply pmem_inS. exact E.
Qed.

Lemma inS_ordered_list : forall i g, inS i (ordered_list g) <-> inS i g.
Proof. intros i g. unfold ordered_list. rewrite !inS_sort_by. tauto. Qed.

Lemma inS_concat_any : forall i L, inS i (concat L) -> inAny i L.
Proof.
  intros i. induction L as [|g r IH]; cbn [concat]; intro H; [destruct H|].
  apply inS_app in H. apply inAny_cons. destruct H as [H|H]; [left; exact H|right; exact (IH H)].
Qed.

Lemma inAny_concat : forall i L, inAny i L -> inS i (concat L).
Proof.
  intros i. induction L as [|g r IH]; intro H; [apply inAny_nil in H; destruct H|].
  apply inAny_cons in H. cbn [concat]. apply inS_app. destruct H as [H|H]; [left; exact H|right; exact (IH H)].
Qed.

Lemma inS_set_add : forall i x l, inS i (set_add x l) <-> i = pid x \/ inS i l.
Proof.
  intros i x l. unfold set_add. destruct (pmem x l) eqn:E.
  - split; [intro H; right; exact H|]. intros [H|H]; [|exact H]. subst i. apply pmem_inS. exact E.
  - rewrite inS_app. unfold inS at 2. cbn [map In]. split.
    + intros [H|[H|[]]]; [right; exact H|left; symmetry; exact H].
    + intros [H|H]; [right; left; symmetry; exact H|left; exact H].
Qed.

Lemma is_empty_false : forall A (l : list A), is_empty l = false -> exists x, In x l.
Proof. intros A l H. destruct l as [|x r]; [discriminate H|]. exists x. left. reflexivity. Qed.

Lemma is_empty_inS : forall (l : list proto) i, is_empty l = true -> inS i l -> False.
Proof. intros l i H Hi. apply is_empty_true in H. subst l. apply inS_nil in Hi. exact Hi. Qed.

(* a set with at most one element: all ids are equal *)
Lemma size_le1 : forall l i j, set_size l <= 1 -> inS i l -> inS j l -> i = j.
Proof.
  intros l i j Hs Hi Hj. unfold set_size, zlen in Hs.
  apply (proj2 (inS_iter i l)) in Hi. apply (proj2 (inS_iter j l)) in Hj.
  destruct (iter l) as [|a [|b r]].
  - apply inS_nil in Hi. destruct Hi.
  - unfold inS in Hi, Hj. cbn [map In] in Hi, Hj.
    destruct Hi as [Hi|[]]. destruct Hj as [Hj|[]]. rewrite <- Hi, <- Hj. reflexivity.
  - exfalso. clear Hi Hj. cbn [length] in Hs. lia.
Qed.

(* ---------- 1. _find_hybrids loses no protocluster ---------- *)
Lemma find_hybrids_covers : forall clusters w groups un,
  find_hybrids clusters w = Ok (groups, un) ->
  forall i, inS i clusters -> inAny i groups \/ inS i un.
Proof.
  intros clusters w groups un H i Hi. unfold find_hybrids in H. cbv zeta in H.
  match type of H with bind ?e _ = _ => destruct e as [extended|k] eqn:EM end; cbn [bind] in H; [|discriminate H].
  inversion H; subst; clear H.
  match type of EM with mapM _ (merge_sets ?G) = _ => set (PG := G) in * end.
  assert (Hext : forall j, inAny j extended -> inAny j (map ordered_list extended)).
  { intros j [e [He Hje]]. exists (ordered_list e). split; [apply in_map; exact He|apply inS_ordered_list; exact Hje]. }
  destruct (inS_dec i (concat PG)) as [HP|HP].
  - left. apply Hext. apply inS_concat_any in HP.
    pose proof (merge_sets_components PG) as C. cbv zeta in C. destruct C as [HU _].
    apply (proj2 (HU i)) in HP. destruct HP as [m [Hm Him]].
    destruct (mapM_In_fwd _ _ _ _ _ EM m Hm) as [e [He Hx]].
    destruct (hybrid_extend_spec _ _ _ _ Hx) as [core [extra [_ [Er _]]]].
    exists e. split; [exact He|]. subst e. apply inS_app. left. exact Him.
  - destruct (inS_dec i (concat extended)) as [HE|HE].
    + left. apply Hext. apply inS_concat_any. exact HE.
    + right. apply inS_ordered_set. apply inS_diff_intro; [|exact HE]. apply inS_diff_intro; [exact Hi|exact HP].
Qed.

(* ---------- 2. build_candidates: what is in the table stays covered, every group gets covered ---------- *)
Definition cov (i : Z) (t : table) : Prop := exists c, In c (tvalues t) /\ inS i (cmem c).

Lemma tset_new : forall k c t, In c (tvalues (tset k c t)).
Proof.
  intros k c. unfold tvalues. induction t as [|[k' c'] r IH]; cbn [tset map snd In].
  - left. reflexivity.
  - destruct (key_eqb k k'); cbn [map snd In]; [left; reflexivity|right; exact IH].
Qed.

Lemma tset_keep : forall k c t x, In x (tvalues t) -> In x (tvalues (tset k c t)) \/ tget k t = Some x.
Proof.
  intros k c. unfold tvalues. induction t as [|[k' c'] r IH]; intros x H; cbn [map snd In] in H; [destruct H|].
  cbn [tset tget]. destruct (key_eqb k k'); cbn [map snd In].
  - destruct H as [H|H]; [right; rewrite H; reflexivity|left; right; exact H].
  - destruct H as [H|H]; [left; left; exact H|]. destruct (IH x H) as [A|A]; [left; right; exact A|right; exact A].
Qed.

Lemma build_go_covers : forall w kind groups existing singles e s,
  build_go w kind groups existing singles = Ok (e, s) ->
  (forall i, cov i existing -> cov i e) /\ (forall g i, In g groups -> inS i g -> cov i e).
Proof.
  intros w kind. induction groups as [|group rest IH]; intros existing singles e s H; cbn [build_go] in H.
  - inversion H; subst. split; [intros i Hi; exact Hi|intros g i []].
  - destruct (negb ((kind =? K_SINGLE) || (1 <? zlen group))); [discriminate H|].
    destruct (mk_cand w kind (ordered_list group)) as [candidate|k] eqn:Ec; cbn [bind] in H; [|discriminate H].
    destruct (mk_cand_wfc _ _ _ _ Ec) as [_ [Bc _]].
    assert (Step : forall existing' singles', build_go w kind rest existing' singles' = Ok (e, s) ->
              (forall i, cov i existing -> cov i existing') -> (forall i, inS i group -> cov i existing') ->
              (forall i, cov i existing -> cov i e) /\ (forall g i, In g (group :: rest) -> inS i g -> cov i e)).
    { intros existing' singles' H' K1 K2. destruct (IH _ _ _ _ H') as [A B]. split.
      - intros i Hi. apply A. apply K1. exact Hi.
      - intros g i [Hg|Hg] Hi; [subst g; apply A; apply K2; exact Hi|exact (B g i Hg Hi)]. }
    destruct (tget (ckey candidate) existing) as [ex|] eqn:Et.
    + destruct (is_empty (iter (diff group (iter (cmem ex))))) eqn:Eex.
      * apply (Step _ _ H); [intros i Hi; exact Hi|].
        intros i Hi. exists ex. split; [exact (tget_in _ _ _ Et)|].
        destruct (inS_dec i (iter (cmem ex))) as [A|A]; [apply inS_iter; exact A|]. exfalso.
        apply (is_empty_inS _ i Eex). apply inS_iter. apply inS_diff_intro; assumption.
      * destruct (mk_cand w (ckind ex) (ordered_list (iter (cmem ex) ++ iter (diff group (iter (cmem ex))))))
          as [replacement|k] eqn:Er; cbn [bind] in H; [|discriminate H].
        destruct (mk_cand_wfc _ _ _ _ Er) as [_ [Br _]].
        apply (Step _ _ H).
        -- intros i [c [Hc Hic]]. destruct (tset_keep (ckey candidate) replacement existing c Hc) as [A|A].
           ++ exists c. split; [exact A|exact Hic].
           ++ rewrite Et in A. inversion A; subst c. exists replacement. split; [apply tset_new|].
              rewrite Br. apply inS_ordered_list. apply inS_app. left. apply inS_iter. exact Hic.
        -- intros i Hi. exists replacement. split; [apply tset_new|].
           rewrite Br. apply inS_ordered_list. apply inS_app.
           destruct (inS_dec i (iter (cmem ex))) as [A|A]; [left; exact A|right].
           apply inS_iter. apply inS_diff_intro; assumption.
    + apply (Step _ _ H).
      * intros i [c [Hc Hic]]. destruct (tset_keep (ckey candidate) candidate existing c Hc) as [A|A].
        -- exists c. split; [exact A|exact Hic].
        -- rewrite Et in A. discriminate A.
      * intros i Hi. exists candidate. split; [apply tset_new|]. rewrite Bc. apply inS_ordered_list. exact Hi.
Qed.

Lemma build_candidates_covers : forall w kind groups existing singles cs e s,
  build_candidates w kind groups existing singles = Ok (cs, e, s) ->
  cs = sort_by lt_cc (tvalues e) /\
  (forall i, cov i existing -> cov i e) /\ (forall g i, In g groups -> inS i g -> cov i e).
Proof.
  intros w kind groups existing singles cs e s H. unfold build_candidates in H.
  destruct (build_go w kind groups existing singles) as [[e0 s0]|k] eqn:Eb; cbn [bind] in H; [|discriminate H].
  inversion H; subst; clear H. split; [reflexivity|]. exact (build_go_covers _ _ _ _ _ _ _ Eb).
Qed.

(* ---------- 3. _find_interleaved ---------- *)
Lemma cross_walk_inv : forall core n l st cg found, cross_walk core n l st = (cg, found) ->
  (forall i, inS i (snd st) -> inS i (fst st)) ->
  (forall i, inS i found -> inS i cg) /\ (forall i, inS i (fst st) -> inS i cg).
Proof.
  intros core n. induction l as [|c r IH]; intros st cg found H Hinv; cbn [cross_walk] in H.
  - subst st. cbn [fst snd] in *. split; [exact Hinv|intros i Hi; exact Hi].
  - destruct st as [cg0 found0]. cbn [fst snd] in *.
    destruct (negb (set_size found0 <? n)); [inversion H; subst; split; [exact Hinv|intros i Hi; exact Hi]|].
    destruct (negb (overlap (pcore c) core)); [inversion H; subst; split; [exact Hinv|intros i Hi; exact Hi]|].
    destruct (IH _ _ _ H) as [A B].
    + cbn [fst snd]. intros i Hi. apply inS_set_add in Hi. apply inS_set_add.
      destruct Hi as [Hi|Hi]; [left; exact Hi|right; exact (Hinv i Hi)].
    + split; [exact A|]. intros i Hi. apply B. cbn [fst]. apply inS_set_add. right. exact Hi.
Qed.

Lemma find_cross_covers : forall w cc unassigned groups found groups',
  find_cross_origin_interleaved w cc unassigned groups = Ok (found, groups') ->
  (forall g, In g groups -> In g groups') /\
  (forall i, inS i found -> inAny i groups' \/ exists ck, In ck cc /\ inS i (cmem (fst ck))).
Proof.
  intros w cc unassigned groups found groups' H. unfold find_cross_origin_interleaved in H.
  assert (Triv : forall G : list (list proto), (forall g, In g G -> In g G) /\
            (forall i, inS i [] -> inAny i G \/ exists ck : cand * loc, In ck cc /\ inS i (cmem (fst ck)))).
  { intro G. split; [intros g Hg; exact Hg|]. intros i Hi. apply inS_nil in Hi. destruct Hi. }
  destruct (is_empty unassigned || is_empty cc); [inversion H; subst; apply Triv|].
  destruct (is_empty (filter (fun ck : cand * loc => cand_core_crosses (snd ck)) cc)); [inversion H; subst; apply Triv|].
  destruct (connect_locations (map snd (filter (fun ck : cand * loc => cand_core_crosses (snd ck)) cc)) w) as [core|k];
    cbn [bind] in H; [|discriminate H].
  cbv zeta in H.
  set (crossing := filter (fun ck : cand * loc => cand_core_crosses (snd ck)) cc) in *.
  set (cg0 := if is_empty (cross_core_group crossing) then cross_all_group crossing else cross_core_group crossing) in *.
  assert (Hcg0 : forall x, In x cg0 -> exists ck, In ck crossing /\ In x (cmem (fst ck))).
  { intros x Hx. unfold cg0 in Hx. destruct (is_empty (cross_core_group crossing));
      [exact (cross_all_group_In _ _ Hx)|exact (cross_core_group_In _ _ Hx)]. }
  destruct (is_empty cg0) eqn:Eemp; [discriminate H|].
  destruct (cross_walk core (zlen unassigned) (rev (tl unassigned)) (cg0, [])) as [cg1 f1] eqn:E1.
  destruct (cross_walk core (zlen unassigned) unassigned (cg1, f1)) as [cg found2] eqn:E2.
  destruct (cross_walk_inv _ _ _ _ _ _ E1) as [I1 M1].
  { cbn [fst snd]. intros i Hi. apply inS_nil in Hi. destruct Hi. }
  destruct (cross_walk_inv _ _ _ _ _ _ E2) as [I2 M2]; [exact I1|]. cbn [fst snd] in M1, M2.
  destruct (existsb (fun ck : cand * loc => set_eqb cg (cmem (fst ck))) cc); [inversion H; subst; apply Triv|].
  destruct (1 <? set_size cg) eqn:Es; inversion H; subst; clear H.
  - split; [intros g Hg; apply in_or_app; left; exact Hg|].
    intros i Hi. left. exists cg. split; [apply in_or_app; right; left; reflexivity|exact (I2 i Hi)].
  - split; [intros g Hg; exact Hg|]. intros i Hi. right.
    destruct (is_empty_false _ _ Eemp) as [x0 Hx0]. destruct (Hcg0 x0 Hx0) as [ck [Hck Hxm]].
    exists ck. split; [unfold crossing in Hck; apply filter_In in Hck; exact (proj1 Hck)|].
    assert (He : pid x0 = i).
    { apply (size_le1 cg); [apply Z.ltb_ge in Es; exact Es| |exact (I2 i Hi)].
      apply M2. apply M1. apply inS_In. exact Hx0. }
    rewrite <- He. apply inS_In. exact Hxm.
Qed.

Lemma find_interleaved_covers : forall clusters cands w groups un,
  find_interleaved clusters cands w = Ok (groups, un) ->
  forall i, inS i clusters ->
    inAny i groups \/ inS i un \/ exists c, In c cands /\ inS i (cmem c).
Proof.
  intros clusters cands w groups un H i Hi. unfold find_interleaved in H. cbv zeta in H.
  destruct (with_cores w cands) as [cc|k] eqn:Ecc; cbn [bind] in H; [|discriminate H].
  match type of H with bind ?e _ = _ => destruct e as [[found3 groups3]|k] eqn:EF end; cbn [bind] in H; [|discriminate H].
  inversion H; subst; clear H.
  destruct (find_cross_covers _ _ _ _ _ _ EF) as [Hsub Hf3].
  pose proof (merge_sets_components groups3) as C. cbv zeta in C. destruct C as [HU _].
  match goal with |- context [diff clusters ?F] => destruct (inS_dec i F) as [HF|HF] end.
  - apply inS_app in HF. destruct HF as [HF|HF]; [apply inS_app in HF; destruct HF as [HF|HF]|].
    + left. apply HU. apply inS_concat_any in HF. destruct HF as [g [Hg Hig]]. exists g. split; [|exact Hig].
      apply Hsub. apply in_or_app. left. apply in_or_app. right. exact Hg.
    + left. apply HU. apply inS_witness in HF. destruct HF as [x [Hx Hxi]].
      apply in_map_iff in Hx. destruct Hx as [h [Hh Hin]].
      exists (cmem (fst (fst h)) ++ [snd h]). split.
      * apply Hsub. apply in_or_app. right. apply in_map_iff. exists h. split; [reflexivity|exact Hin].
      * apply inS_app. right. rewrite Hh. rewrite <- Hxi. left. reflexivity.
    + destruct (Hf3 i HF) as [A|[ck [Hck Hic]]].
      * left. apply HU. exact A.
      * right. right. exists (fst ck). split; [exact (with_cores_In _ _ _ Ecc ck Hck)|exact Hic].
  - right. left. apply inS_sort_by. apply inS_iter. apply inS_diff_intro; assumption.
Qed.

(* ---------- 4. / 5. the whole formation ---------- *)
Lemma formation_body_covers_id : forall protos w cands, formation_body protos w = Ok cands ->
  forall i, inS i protos -> exists c, In c cands /\ inS i (cmem c).
Proof.
  intros protos w cands H i Hi0.
  assert (Hi : inS i (ordered_list protos)) by (apply inS_ordered_list; exact Hi0).
  unfold formation_body in H. cbv zeta in H.
  destruct (find_hybrids (ordered_list protos) w) as [[hg un1]|k] eqn:E1; cbn [bind] in H; [|discriminate H].
  destruct (build_candidates w K_HYBRID hg [] []) as [[[c1 e1] s1]|k] eqn:E2; cbn [bind] in H; [|discriminate H].
  destruct (build_candidates_covers _ _ _ _ _ _ _ _ E2) as [Ec1 [A1 B1]].
  destruct (find_interleaved un1 c1 w) as [[ig un2]|k] eqn:E3; cbn [bind] in H; [|discriminate H].
  destruct (build_candidates w K_INTERLEAVED ig e1 s1) as [[[c2 e2] s2]|k] eqn:E4; cbn [bind] in H; [|discriminate H].
  destruct (build_candidates_covers _ _ _ _ _ _ _ _ E4) as [Ec2 [A2 B2]].
  destruct (build_candidates w K_NEIGHBOURING (find_neighbouring un2 c2) e2 s2) as [[[c3 e3] s3]|k] eqn:E5;
    cbn [bind] in H; [|discriminate H].
  destruct (build_candidates_covers _ _ _ _ _ _ _ _ E5) as [Ec3 [A3 B3]].
  destruct (singles_go w e3 (ordered_set (un2 ++ s3))) as [ss|k] eqn:E6; cbn [bind] in H; [|discriminate H].
  inversion H; subst cands; clear H.
  assert (Fin : cov i e3 -> exists c, In c (c3 ++ ss) /\ inS i (cmem c)).
  { intros [c [Hc Hic]]. exists c. split; [|exact Hic]. apply in_or_app. left. rewrite Ec3. apply sort_by_in. exact Hc. }
  destruct (find_hybrids_covers _ _ _ _ E1 i Hi) as [[g [Hg Hig]]|Hu].
  - apply Fin. apply A3. apply A2. exact (B1 g i Hg Hig).
  - destruct (find_interleaved_covers _ _ _ _ _ E3 i Hu) as [[g [Hg Hig]]|[Hu2|[c [Hc Hic]]]].
    + apply Fin. apply A3. exact (B2 g i Hg Hig).
    + assert (Hq : inS i (ordered_set (un2 ++ s3))).
      { apply inS_ordered_set. apply inS_app. left. exact Hu2. }
      apply inS_witness in Hq. destruct Hq as [q [Hq Hqi]].
      destruct (singles_go_covers _ _ _ _ E6 q Hq) as [[c [Hc [Hm _]]]|Hex].
      * exists c. split; [apply in_or_app; right; exact Hc|]. rewrite Hm. rewrite <- Hqi. left. reflexivity.
      * apply Fin. rewrite <- Hqi. exact Hex.
    + apply Fin. apply A3. apply A2. exists c. split; [|exact Hic].
      rewrite Ec1 in Hc. apply sort_by_in in Hc. exact Hc.
Qed.

Lemma formation_body_covers : forall protos w cands, formation_body protos w = Ok cands ->
  forall p, In p protos -> exists c, In c cands /\ inS (pid p) (cmem c).
Proof.
  intros protos w cands H p Hp. apply (formation_body_covers_id protos w cands H). apply inS_In. exact Hp.
Qed.

(* ---------- the final assertion ---------- *)
Lemma inS_concat_cands : forall i (cands : list cand) c, In c cands -> inS i (cmem c) -> inS i (concat (map cmem cands)).
Proof.
  intros i cands c Hc Hi. apply inAny_concat. exists (cmem c). split; [apply in_map; exact Hc|exact Hi].
Qed.

Lemma assigned_count_all : forall protos w cands, NoDup (map pid protos) ->
  formation_body protos w = Ok cands -> assigned_count cands = zlen protos.
Proof.
  intros protos w cands Hnd E. unfold assigned_count, set_size, zlen. f_equal.
  set (M := concat (map cmem cands)).
  assert (Hincl : incl (map pid (iter M)) (map pid protos)).
  { intros i Hi. apply in_map_iff in Hi. destruct Hi as [x [Hx Hin]]. subst i. apply In_iter in Hin.
    unfold M in Hin. apply in_concat in Hin. destruct Hin as [g [Hg Hxg]]. apply in_map_iff in Hg.
    destruct Hg as [c [Hc Hcc]]. subst g. apply in_map. exact (proj2 (formation_body_good _ _ _ E c Hcc) x Hxg). }
  assert (Hrev : incl (map pid protos) (map pid (iter M))).
  { intros i Hi. destruct (formation_body_covers_id _ _ _ E i Hi) as [c [Hc Hic]].
    apply (proj2 (inS_iter i M)). unfold M. exact (inS_concat_cands i cands c Hc Hic). }
  assert (Hnd2 : NoDup (map pid (iter M))) by (apply asc_NoDup; apply asc_iter).
  pose proof (NoDup_incl_length Hnd2 Hincl) as L1.
  pose proof (NoDup_incl_length Hnd Hrev) as L2.
  rewrite !map_length in L1, L2. apply Nat.le_antisymm; assumption.
Qed.

Lemma coverage_assert_never_fires : forall protos w cands, protos <> [] -> NoDup (map pid protos) ->
  formation_body protos w = Ok cands -> create_candidates protos w = Ok (sort_by lt_cc cands).
Proof.
  intros protos w cands Hne Hnd E. pose proof (assigned_count_all _ _ _ Hnd E) as Ha.
  unfold create_candidates. destruct protos as [|p0 ps0]; [exfalso; apply Hne; reflexivity|].
  rewrite E. cbn [bind]. rewrite Ha. rewrite Z.eqb_refl. cbn [negb]. reflexivity.
Qed.

(* consequently: the whole function fails exactly when the formation itself fails *)
Lemma create_candidates_is_formation : forall protos w, protos <> [] -> NoDup (map pid protos) ->
  create_candidates protos w = match formation_body protos w with
                               | Ok cands => Ok (sort_by lt_cc cands)
                               | Err k => Err k
                               end.
Proof.
  intros protos w Hne Hnd. destruct (formation_body protos w) as [cands|k] eqn:E.
  - exact (coverage_assert_never_fires _ _ _ Hne Hnd E).
  - unfold create_candidates. destruct protos as [|p0 ps0]; [exfalso; apply Hne; reflexivity|].
    rewrite E. reflexivity.
Qed.
End Cover.

Module Kinds.
(* C05 - what the kinds NEIGHBOURING and INTERLEAVED mean: soundness of the grouping for the model as it is,
   completeness for the model with the two proposed repairs switched on. *)

(* ====================================================================================== *)
(* (1) with both flags ON the variants are the model (the code after the repairs)         *)
(* ====================================================================================== *)
Lemma find_interleaved_v_true : forall clusters cands w,
  find_interleaved_v true clusters cands w = find_interleaved clusters cands w.
Proof. intros. reflexivity. Qed.

Lemma find_neighbouring_v_true : forall singles cands,
  find_neighbouring_v true true singles cands = find_neighbouring singles cands.
Proof. intros. reflexivity. Qed.

Lemma formation_body_v_true : forall protos w,
  formation_body_v true true protos w = formation_body protos w.
Proof. intros. reflexivity. Qed.

Lemma create_candidates_v_true : forall protos w,
  create_candidates_v true true protos w = create_candidates protos w.
Proof.
  intros protos w. unfold create_candidates_v, create_candidates. destruct protos as [|p r]; [reflexivity|].
  rewrite formation_body_v_true. reflexivity.
Qed.

Theorem variants_are_the_model :
  (forall clusters cands w, find_interleaved_v true clusters cands w = find_interleaved clusters cands w) /\
  (forall singles cands, find_neighbouring_v true true singles cands = find_neighbouring singles cands) /\
  (forall protos w, formation_body_v true true protos w = formation_body protos w) /\
  (forall protos w, create_candidates_v true true protos w = create_candidates protos w).
Proof.
  split; [exact find_interleaved_v_true|]. split; [exact find_neighbouring_v_true|].
  split; [exact formation_body_v_true|exact create_candidates_v_true].
Qed.

(* ====================================================================================== *)
(* overlap is symmetric                                                                    *)
(* ====================================================================================== *)
Lemma part_overlap_sym : forall a b, part_overlap a b = part_overlap b a.
Proof.
  intros a b. unfold part_overlap.
  destruct (in_part (ps a) b), (in_part (pe a - 1) b), (in_part (ps b) a), (in_part (pe b - 1) a); reflexivity.
Qed.

Lemma overlap_true_sym : forall a b, overlap a b = true -> overlap b a = true.
Proof.
  intros a b H. unfold overlap in *. apply existsb_exists in H. destruct H as [p [Hp H]].
  apply existsb_exists in H. destruct H as [q [Hq H]].
  apply existsb_exists. exists q. split; [exact Hq|]. apply existsb_exists. exists p. split; [exact Hp|].
  rewrite part_overlap_sym. exact H.
Qed.

Lemma overlap_sym : forall a b, overlap a b = overlap b a.
Proof.
  intros a b. destruct (overlap a b) eqn:E1.
  - symmetry. apply overlap_true_sym. exact E1.
  - destruct (overlap b a) eqn:E2; [|reflexivity]. apply overlap_true_sym in E2. rewrite E2 in E1. discriminate E1.
Qed.

(* ====================================================================================== *)
(* (2) NEIGHBOURING: the sets handed to _merge_sets                                        *)
(* ====================================================================================== *)
Inductive nb_link (singles : list proto) (cands : list cand) : list proto -> Prop :=
| nbl_cc : forall a b, In a cands -> In b cands -> overlap (cloc a) (cloc b) = true ->
    nb_link singles cands (union (cmem a) (cmem b))
| nbl_cs : forall c s, In c cands -> In s singles -> overlap (ploc s) (cloc c) = true ->
    nb_link singles cands (union (cmem c) [s])
| nbl_cs' : forall c s, In c cands -> In s singles -> overlap (ploc s) (cloc c) = true ->
    nb_link singles cands (cmem c ++ [s])
| nbl_ss : forall s t, In s singles -> In t singles -> overlap (ploc s) (ploc t) = true ->
    nb_link singles cands [s; t].

Definition nb_hits (nw : bool) (singles : list proto) (cands : list cand) : list (cand * proto) :=
  flat_map (fun s =>
     map (fun c => (c, s))
         (if nw then filter (fun c => overlap (ploc s) (cloc c)) cands
          else cand_scan_plain (fun c => overlap (ploc s) (cloc c)) (lend (ploc s))
                               (skipn (window_index_plain cands s) cands ++ firstn 1 cands))) singles.
Definition nb_unassigned (nw : bool) (singles : list proto) (cands : list cand) : list proto :=
  diff singles (map snd (nb_hits nw singles cands)).
Definition nb_edges (nw : bool) (singles : list proto) (cands : list cand) : list cand :=
  if is_empty (nb_unassigned nw singles cands) || is_empty cands then [] else
  (match cands with c0 :: _ => if bridges (cloc c0) then [c0] else [] | [] => [] end)
  ++ (match cands with
      | _ :: _ :: _ => match last_opt cands with
                       | Some cl => if bridges (cloc cl) then [cl] else []
                       | None => []
                       end
      | _ => []
      end).
Definition nb_edge_groups (nw : bool) (singles : list proto) (cands : list cand) : list (list proto) :=
  flat_map (fun c =>
              match filter (fun s => overlap (ploc s) (cloc c)) (iter (nb_unassigned nw singles cands)) with
              | s :: _ => [cmem c ++ [s]]
              | [] => []
              end) (nb_edges nw singles cands).
(* the list handed to _merge_sets *)
Definition nb_groups (nw allp : bool) (singles : list proto) (cands : list cand) : list (list proto) :=
  ((find_neighbouring_candidates cands
    ++ map (fun h : cand * proto => union (cmem (fst h)) [snd h]) (nb_hits nw singles cands))
   ++ nb_edge_groups nw singles cands)
  ++ find_neighbouring_protoclusters
       (if allp then singles else sort_by lt_pp (iter (nb_unassigned nw singles cands))).

Lemma find_neighbouring_v_groups : forall nw allp singles cands,
  find_neighbouring_v nw allp singles cands = merge_sets (nb_groups nw allp singles cands).
Proof. intros. reflexivity. Qed.

Lemma cand_scan_plain_rel : forall rel limit cs c, In c (cand_scan_plain rel limit cs) -> rel c = true.
Proof.
  intros rel limit. induction cs as [|a r IH]; intros c H; cbn [cand_scan_plain] in H; [destruct H|].
  destruct (limit <? lstart (cloc a)); [destruct H|].
  destruct (rel a) eqn:E.
  - destruct H as [H|H]; [subst; exact E|exact (IH c H)].
  - exact (IH c H).
Qed.

Lemma nb_hits_spec : forall nw singles cands c s, In (c, s) (nb_hits nw singles cands) ->
  In c cands /\ In s singles /\ overlap (ploc s) (cloc c) = true.
Proof.
  intros nw singles cands c s H. unfold nb_hits in H. apply in_flat_map in H. destruct H as [s0 [Hs0 H]].
  apply in_map_iff in H. destruct H as [c0 [He Hc0]]. inversion He; subst c0 s0. clear He.
  destruct nw.
  - apply filter_In in Hc0. destruct Hc0 as [A B]. split; [exact A|]. split; [exact Hs0|exact B].
  - pose proof (cand_scan_plain_rel _ _ _ _ Hc0) as Hr. cbv beta in Hr.
    apply cand_scan_plain_In in Hc0. split; [|split; [exact Hs0|exact Hr]].
    apply in_app_or in Hc0. destruct Hc0 as [A|A]; [exact (In_skipn' _ _ _ _ A)|exact (In_firstn' _ _ _ _ A)].
Qed.

Lemma nb_hits_complete : forall singles cands c s, In c cands -> In s singles ->
  overlap (ploc s) (cloc c) = true -> In (c, s) (nb_hits true singles cands).
Proof.
  intros singles cands c s Hc Hs Ho. unfold nb_hits. apply in_flat_map. exists s. split; [exact Hs|].
  apply in_map_iff. exists c. split; [reflexivity|]. apply filter_In. split; [exact Hc|exact Ho].
Qed.

Lemma nb_unassigned_In : forall nw singles cands x, In x (iter (nb_unassigned nw singles cands)) -> In x singles.
Proof. intros nw singles cands x H. apply In_iter in H. unfold nb_unassigned in H. apply In_diff in H. exact H. Qed.

Lemma nb_edges_In : forall nw singles cands c, In c (nb_edges nw singles cands) -> In c cands.
Proof.
  intros nw singles cands c Hc. unfold nb_edges in Hc.
  destruct (is_empty (nb_unassigned nw singles cands) || is_empty cands); [destruct Hc|].
  apply in_app_or in Hc. destruct Hc as [Hc|Hc].
  - destruct cands as [|c0 r0]; [destruct Hc|]. destruct (bridges (cloc c0)); [|destruct Hc].
    destruct Hc as [Hc|[]]. subst. left. reflexivity.
  - destruct cands as [|c0 [|c1 r1]]; [destruct Hc|destruct Hc|].
    destruct (last_opt (c0 :: c1 :: r1)) as [cl|] eqn:El; [|destruct Hc].
    destruct (bridges (cloc cl)); [|destruct Hc]. destruct Hc as [Hc|[]]. subst. exact (last_opt_In _ _ _ El).
Qed.

Lemma fnp_spec : forall pcs g, In g (find_neighbouring_protoclusters pcs) ->
  exists s t, g = [s; t] /\ In s pcs /\ In t pcs /\ overlap (ploc s) (ploc t) = true.
Proof.
  intros pcs g Hg. unfold find_neighbouring_protoclusters in Hg. cbv zeta in Hg. apply in_map_iff in Hg.
  destruct Hg as [[s t] [He Hst]]. subst g. cbn [fst snd]. exists s, t. split; [reflexivity|].
  apply in_app_or in Hst. destruct Hst as [Hst|Hst].
  - apply pairs_rel_In in Hst. exact Hst.
  - destruct pcs as [|p1 [|p2 r]]; [destruct Hst|destruct Hst|].
    destruct (first_last (p1 :: p2 :: r)) as [[f l]|] eqn:Efl; [|destruct Hst].
    destruct (negb (pid f =? pid l) && overlap (ploc f) (ploc l)) eqn:Ec; [|destruct Hst].
    destruct Hst as [Hst|[]]. inversion Hst; subst f l. apply first_last_In in Efl.
    apply andb_true_iff in Ec. destruct Efl as [A B]. split; [exact A|]. split; [exact B|exact (proj2 Ec)].
Qed.

Lemma nb_groups_link : forall nw allp singles cands g,
  In g (nb_groups nw allp singles cands) -> nb_link singles cands g.
Proof.
  intros nw allp singles cands g Hg. unfold nb_groups in Hg.
  apply in_app_or in Hg. destruct Hg as [Hg|Hg]; [apply in_app_or in Hg; destruct Hg as [Hg|Hg];
    [apply in_app_or in Hg; destruct Hg as [Hg|Hg]|]|].
  - unfold find_neighbouring_candidates in Hg. apply in_map_iff in Hg. destruct Hg as [[a b] [He Hab]]. subst g.
    cbn [fst snd]. apply pairs_rel_In in Hab. destruct Hab as [A [B C]]. apply nbl_cc; assumption.
  - apply in_map_iff in Hg. destruct Hg as [[c s] [He Hh]]. subst g. cbn [fst snd].
    destruct (nb_hits_spec _ _ _ _ _ Hh) as [A [B C]]. apply nbl_cs; assumption.
  - unfold nb_edge_groups in Hg. apply in_flat_map in Hg. destruct Hg as [c [Hc Hg]].
    destruct (filter (fun s => overlap (ploc s) (cloc c)) (iter (nb_unassigned nw singles cands))) as [|s r] eqn:Ef;
      [destruct Hg|].
    destruct Hg as [Hg|[]]. subst g.
    assert (Hs : In s (s :: r)) by (left; reflexivity). rewrite <- Ef in Hs. apply filter_In in Hs.
    destruct Hs as [Hs1 Hs2]. apply nbl_cs'; [exact (nb_edges_In _ _ _ _ Hc)|exact (nb_unassigned_In _ _ _ _ Hs1)|exact Hs2].
  - destruct (fnp_spec _ _ Hg) as [s [t [He [A [B C]]]]]. subst g.
    assert (Hin : forall y, In y (if allp then singles else sort_by lt_pp (iter (nb_unassigned nw singles cands))) -> In y singles).
    { intros y Hy. destruct allp; [exact Hy|]. apply sort_by_in in Hy. exact (nb_unassigned_In _ _ _ _ Hy). }
    apply nbl_ss; [exact (Hin s A)|exact (Hin t B)|exact C].
Qed.

Theorem neighbouring_sound : forall nw allp singles cands g,
  In g (find_neighbouring_v nw allp singles cands) ->
  exists G h0, (forall x, In x G -> nb_link singles cands x) /\ built G h0 /\ forall i, inS i g <-> inS i h0.
Proof.
  intros nw allp singles cands g Hg. rewrite find_neighbouring_v_groups in Hg.
  pose proof (merge_sets_components (nb_groups nw allp singles cands)) as C. cbv zeta in C.
  destruct C as [_ [_ [_ [HB _]]]]. rewrite Forall_forall in HB. destruct (HB g Hg) as [h0 [Hb He]].
  exists (nb_groups nw allp singles cands), h0. split; [|split; [exact Hb|exact He]].
  intros x Hx. exact (nb_groups_link _ _ _ _ _ Hx).
Qed.

(* ====================================================================================== *)
(* (3) NEIGHBOURING with both repairs: completeness                                        *)
(* ====================================================================================== *)
Lemma merge_sets_holds : forall G g0, In g0 G -> g0 <> [] -> exists h, In h (merge_sets G) /\ subsetP g0 h.
Proof.
  intros G g0 Hg Hne. pose proof (merge_sets_components G) as C. cbv zeta in C.
  destruct C as [_ [_ [HS _]]]. exact (HS g0 Hg Hne).
Qed.

Lemma subsetP_nonempty : forall a g, a <> [] -> subsetP a g -> g <> [].
Proof.
  intros a g Ha Hs He. subst g. destruct a as [|x a']; [apply Ha; reflexivity|].
  apply (proj1 (inS_nil (pid x))). apply Hs. left. reflexivity.
Qed.

Lemma inS_single : forall s, inS (pid s) [s].
Proof. intro s. left. reflexivity. Qed.

Theorem neighbouring_repaired_complete_cc : forall singles cands a b,
  In a cands -> In b cands -> a <> b -> cmem a <> [] -> overlap (cloc a) (cloc b) = true ->
  exists g, In g (find_neighbouring_v true true singles cands) /\ subsetP (cmem a) g /\ subsetP (cmem b) g.
Proof.
  intros singles cands a b Ha Hb Hne Hma Ho. rewrite find_neighbouring_v_groups.
  assert (Hg0 : exists g0, In g0 (nb_groups true true singles cands) /\ subsetP (cmem a) g0 /\ subsetP (cmem b) g0).
  { destruct (In_two_split _ _ a b Hne Ha Hb) as [[l1 [l2 [l3 E]]]|[l1 [l2 [l3 E]]]].
    - exists (union (cmem a) (cmem b)). split; [|split; [apply subsetP_union_l|apply subsetP_union_r]; intros i Hi; exact Hi].
      unfold nb_groups. apply in_or_app. left. apply in_or_app. left. apply in_or_app. left.
      unfold find_neighbouring_candidates. apply in_map_iff. exists (a, b). split; [reflexivity|].
      rewrite E. apply pairs_rel_complete. exact Ho.
    - exists (union (cmem b) (cmem a)). split; [|split; [apply subsetP_union_r|apply subsetP_union_l]; intros i Hi; exact Hi].
      unfold nb_groups. apply in_or_app. left. apply in_or_app. left. apply in_or_app. left.
      unfold find_neighbouring_candidates. apply in_map_iff. exists (b, a). split; [reflexivity|].
      rewrite E. apply pairs_rel_complete. apply overlap_true_sym. exact Ho. }
  destruct Hg0 as [g0 [Hg0 [Sa Sb]]].
  destruct (merge_sets_holds _ g0 Hg0 (subsetP_nonempty _ _ Hma Sa)) as [h [Hh Hsub]].
  exists h. split; [exact Hh|]. split; intros i Hi; apply Hsub; [apply Sa|apply Sb]; exact Hi.
Qed.

Theorem neighbouring_repaired_complete_cs : forall singles cands c s,
  In c cands -> In s singles -> overlap (ploc s) (cloc c) = true ->
  exists g, In g (find_neighbouring_v true true singles cands) /\ subsetP (cmem c) g /\ inS (pid s) g.
Proof.
  intros singles cands c s Hc Hs Ho. rewrite find_neighbouring_v_groups.
  assert (Hg0 : In (union (cmem c) [s]) (nb_groups true true singles cands)).
  { unfold nb_groups. apply in_or_app. left. apply in_or_app. left. apply in_or_app. right.
    apply in_map_iff. exists (c, s). split; [reflexivity|]. apply nb_hits_complete; assumption. }
  assert (Hs0 : inS (pid s) (union (cmem c) [s])) by (apply inS_union; right; apply inS_single).
  assert (Hne : union (cmem c) [s] <> []).
  { intro He. rewrite He in Hs0. apply inS_nil in Hs0. exact Hs0. }
  destruct (merge_sets_holds _ _ Hg0 Hne) as [h [Hh Hsub]].
  exists h. split; [exact Hh|]. split; [|apply Hsub; exact Hs0].
  intros i Hi. apply Hsub. apply inS_union. left. exact Hi.
Qed.

Theorem neighbouring_repaired_complete_ss : forall singles cands s t,
  In s singles -> In t singles -> s <> t -> overlap (ploc s) (ploc t) = true ->
  exists g, In g (find_neighbouring_v true true singles cands) /\ inS (pid s) g /\ inS (pid t) g.
Proof.
  intros singles cands s t Hs Ht Hne Ho. rewrite find_neighbouring_v_groups.
  assert (Hg0 : exists g0, In g0 (nb_groups true true singles cands) /\ inS (pid s) g0 /\ inS (pid t) g0).
  { destruct (In_two_split _ _ s t Hne Hs Ht) as [[l1 [l2 [l3 E]]]|[l1 [l2 [l3 E]]]].
    - exists [s; t]. split; [|split; [left; reflexivity|right; left; reflexivity]].
      unfold nb_groups. apply in_or_app. right. unfold find_neighbouring_protoclusters. cbv zeta.
      apply in_map_iff. exists (s, t). split; [reflexivity|]. apply in_or_app. left.
      rewrite E. apply pairs_rel_complete. exact Ho.
    - exists [t; s]. split; [|split; [right; left; reflexivity|left; reflexivity]].
      unfold nb_groups. apply in_or_app. right. unfold find_neighbouring_protoclusters. cbv zeta.
      apply in_map_iff. exists (t, s). split; [reflexivity|]. apply in_or_app. left.
      rewrite E. apply pairs_rel_complete. apply overlap_true_sym. exact Ho. }
  destruct Hg0 as [g0 [Hg0 [Sa Sb]]].
  assert (Hne0 : g0 <> []). { intro He. rewrite He in Sa. apply inS_nil in Sa. exact Sa. }
  destruct (merge_sets_holds _ g0 Hg0 Hne0) as [h [Hh Hsub]].
  exists h. split; [exact Hh|]. split; apply Hsub; assumption.
Qed.

(* ====================================================================================== *)
(* (4) INTERLEAVED on linear records (no wrap point)                                       *)
(* ====================================================================================== *)
Inductive il_link (w : option Z) (clusters : list proto) (cands : list cand) : list proto -> Prop :=
| ill_cc : forall a b ka kb, In a cands -> In b cands -> ccore w a = Ok ka -> ccore w b = Ok kb ->
    overlap ka kb = true -> il_link w clusters cands (cmem a ++ cmem b)
| ill_pp : forall x y, In x clusters -> In y clusters -> overlap (pcore x) (pcore y) = true ->
    il_link w clusters cands [x; y]
| ill_cp : forall c k cl, In c cands -> ccore w c = Ok k -> In cl clusters -> overlap k (pcore cl) = true ->
    il_link w clusters cands (cmem c ++ [cl]).

Definition il_hits (nw : bool) (clusters : list proto) (cc : list (cand * loc)) : list ((cand * loc) * proto) :=
  flat_map (fun cl =>
      map (fun ck => (ck, cl))
          (if nw then filter (fun ck : cand * loc => overlap (snd ck) (pcore cl)) cc
           else cand_scan (fun ck => overlap (snd ck) (pcore cl)) (lend (ploc cl))
                          (skipn (window_index cc cl) cc))) (sort_by core_start_lt clusters).
(* the list handed to _find_cross_origin_interleaved, and (on a linear record) to _merge_sets *)
Definition il_groups (nw : bool) (clusters : list proto) (cc : list (cand * loc)) : list (list proto) :=
  (find_interleaved_candidates cc
   ++ map (fun xy : proto * proto => [fst xy; snd xy]) (core_pairs (sort_by core_start_lt clusters)))
  ++ map (fun h : (cand * loc) * proto => cmem (fst (fst h)) ++ [snd h]) (il_hits nw clusters cc).

(* without a wrap point connect_locations returns one part *)
Lemma connect_linear_simple : forall l r, connect_locations l None = Ok r -> is_compound r = false.
Proof.
  intros l r H. unfold connect_locations, connect_fuel in H.
  replace (2 * length l + 8)%nat with (S (2 * length l + 7))%nat in H by lia.
  cbn [connect] in H. destruct l as [|l0 l']; [discriminate H|].
  destruct (existsb bridges (l0 :: l')); [discriminate H|].
  destruct (mapM (fun l => reduce_parts l None) (l0 :: l')) as [red|k]; cbn [bind] in H; [|discriminate H].
  unfold hull in H. destruct (mkFL (lmin (map lstart red)) (lmax (map lend red)) (common_strand red)) as [p|k];
    cbn [bind] in H; [|discriminate H].
  inversion H. reflexivity.
Qed.

Lemma connect_nil : forall w, connect_locations [] w = Err E_Value.
Proof. intro w. destruct w; reflexivity. Qed.

Lemma ccore_nonempty : forall w c k, ccore w c = Ok k -> cmem c <> [].
Proof.
  intros w c k H He. unfold ccore in H. rewrite He in H. cbn [map] in H. rewrite connect_nil in H. discriminate H.
Qed.

Lemma with_cores_spec : forall w cands cc, with_cores w cands = Ok cc ->
  forall ck, In ck cc -> In (fst ck) cands /\ ccore w (fst ck) = Ok (snd ck).
Proof.
  intros w cands cc H ck Hck. unfold with_cores in H. destruct (mapM_In _ _ _ _ _ H ck Hck) as [c [Hc Hf]].
  destruct (ccore w c) as [k|e] eqn:Ek; cbn [bind] in Hf; [|discriminate Hf]. inversion Hf; subst ck. cbn [fst snd].
  split; [exact Hc|exact Ek].
Qed.

Lemma with_cores_fwd : forall w cands cc, with_cores w cands = Ok cc ->
  forall c k, In c cands -> ccore w c = Ok k -> In (c, k) cc.
Proof.
  intros w cands cc H c k Hc Hk. unfold with_cores in H. destruct (mapM_In_fwd _ _ _ _ _ H c Hc) as [y [Hy Hf]].
  rewrite Hk in Hf. cbn [bind] in Hf. inversion Hf; subst y. exact Hy.
Qed.

Lemma cross_linear : forall cc unassigned groups,
  (forall ck, In ck cc -> is_compound (snd ck) = false) ->
  find_cross_origin_interleaved None cc unassigned groups = Ok ([], groups).
Proof.
  intros cc unassigned groups Hnc. unfold find_cross_origin_interleaved.
  destruct (is_empty unassigned || is_empty cc); [reflexivity|].
  assert (Hf : filter (fun ck : cand * loc => cand_core_crosses (snd ck)) cc = []).
  { destruct (filter (fun ck : cand * loc => cand_core_crosses (snd ck)) cc) as [|x r] eqn:E; [reflexivity|].
    assert (Hx : In x (x :: r)) by (left; reflexivity). rewrite <- E in Hx. apply filter_In in Hx.
    destruct Hx as [Hx1 Hx2]. unfold cand_core_crosses in Hx2. rewrite (Hnc x Hx1) in Hx2. discriminate Hx2. }
  cbv zeta. rewrite Hf. reflexivity.
Qed.

(* on a linear record the interleaved groups are _merge_sets of il_groups *)
Lemma find_interleaved_v_linear : forall nw clusters cands groups un,
  find_interleaved_v nw clusters cands None = Ok (groups, un) ->
  exists cc, with_cores None cands = Ok cc /\ groups = merge_sets (il_groups nw clusters cc).
Proof.
  intros nw clusters cands groups un H. unfold find_interleaved_v in H. cbv zeta in H.
  destruct (with_cores None cands) as [cc|k] eqn:Ecc; cbn [bind] in H; [|discriminate H].
  assert (Hnc : forall ck, In ck cc -> is_compound (snd ck) = false).
  { intros ck Hck. destruct (with_cores_spec _ _ _ Ecc ck Hck) as [_ Hk]. unfold ccore in Hk.
    exact (connect_linear_simple _ _ Hk). }
  rewrite (cross_linear cc _ _ Hnc) in H. cbn [bind] in H. inversion H. exists cc. split; reflexivity.
Qed.

Lemma core_pairs_from_rel : forall c rest o, In o (core_pairs_from c rest) -> overlap (pcore c) (pcore o) = true.
Proof.
  intros c. induction rest as [|a r IH]; intros o H; cbn [core_pairs_from] in H; [destruct H|].
  destruct (lend (pcore c) <=? lstart (pcore a)); [destruct H|].
  destruct (overlap (pcore c) (pcore a)) eqn:E.
  - destruct H as [H|H]; [subst; exact E|exact (IH o H)].
  - exact (IH o H).
Qed.

Lemma core_pairs_rel : forall l x y, In (x, y) (core_pairs l) -> overlap (pcore x) (pcore y) = true.
Proof.
  induction l as [|c r IH]; intros x y H; cbn [core_pairs] in H; [destruct H|].
  apply in_app_or in H. destruct H as [H|H].
  - apply in_map_iff in H. destruct H as [o [He Ho]]. inversion He; subst. exact (core_pairs_from_rel _ _ _ Ho).
  - exact (IH x y H).
Qed.

Lemma cand_scan_rel : forall rel limit cc ck, In ck (cand_scan rel limit cc) -> rel ck = true.
Proof.
  intros rel limit. induction cc as [|a r IH]; intros ck H; cbn [cand_scan] in H; [destruct H|].
  destruct (limit <? lstart (cloc (fst a))); [destruct H|].
  destruct (rel a) eqn:E.
  - destruct H as [H|H]; [subst; exact E|exact (IH ck H)].
  - exact (IH ck H).
Qed.

Lemma il_hits_spec : forall nw clusters cc ck cl, In (ck, cl) (il_hits nw clusters cc) ->
  In ck cc /\ In cl clusters /\ overlap (snd ck) (pcore cl) = true.
Proof.
  intros nw clusters cc ck cl H. unfold il_hits in H. apply in_flat_map in H. destruct H as [cl0 [Hcl0 H]].
  apply in_map_iff in H. destruct H as [ck0 [He Hck0]]. inversion He; subst ck0 cl0. clear He.
  apply sort_by_in in Hcl0. destruct nw.
  - apply filter_In in Hck0. destruct Hck0 as [A B]. split; [exact A|]. split; [exact Hcl0|exact B].
  - pose proof (cand_scan_rel _ _ _ _ Hck0) as Hr. cbv beta in Hr.
    apply cand_scan_In in Hck0. apply In_skipn' in Hck0. split; [exact Hck0|]. split; [exact Hcl0|exact Hr].
Qed.

Lemma il_hits_complete : forall clusters cc ck cl, In ck cc -> In cl clusters ->
  overlap (snd ck) (pcore cl) = true -> In (ck, cl) (il_hits true clusters cc).
Proof.
  intros clusters cc ck cl Hck Hcl Ho. unfold il_hits. apply in_flat_map. exists cl.
  split; [apply sort_by_in; exact Hcl|].
  apply in_map_iff. exists ck. split; [reflexivity|]. apply filter_In. split; [exact Hck|exact Ho].
Qed.

Lemma fic_spec : forall cc g, In g (find_interleaved_candidates cc) ->
  exists a b, g = cmem (fst a) ++ cmem (fst b) /\ In a cc /\ In b cc /\ overlap (snd a) (snd b) = true.
Proof.
  intros cc g Hg. unfold find_interleaved_candidates in Hg. cbv zeta in Hg. apply in_map_iff in Hg.
  destruct Hg as [[a b] [He Hab]]. subst g. cbn [fst snd]. exists a, b. split; [reflexivity|].
  apply in_app_or in Hab. destruct Hab as [Hab|Hab].
  - apply pairs_rel_In in Hab. exact Hab.
  - destruct cc as [|c1 [|c2 r]]; [destruct Hab|destruct Hab|].
    destruct (first_last (c1 :: c2 :: r)) as [[f l]|] eqn:Efl; [|destruct Hab].
    destruct (overlap (snd f) (snd l)) eqn:Ec; [|destruct Hab].
    destruct Hab as [Hab|[]]. inversion Hab; subst f l. apply first_last_In in Efl.
    destruct Efl as [A B]. split; [exact A|]. split; [exact B|exact Ec].
Qed.

Lemma il_groups_link : forall nw clusters cands cc g, with_cores None cands = Ok cc ->
  In g (il_groups nw clusters cc) -> il_link None clusters cands g.
Proof.
  intros nw clusters cands cc g Ecc Hg. unfold il_groups in Hg.
  apply in_app_or in Hg. destruct Hg as [Hg|Hg]; [apply in_app_or in Hg; destruct Hg as [Hg|Hg]|].
  - destruct (fic_spec _ _ Hg) as [a [b [He [A [B C]]]]]. subst g.
    destruct (with_cores_spec _ _ _ Ecc a A) as [A1 A2]. destruct (with_cores_spec _ _ _ Ecc b B) as [B1 B2].
    exact (ill_cc None clusters cands (fst a) (fst b) (snd a) (snd b) A1 B1 A2 B2 C).
  - apply in_map_iff in Hg. destruct Hg as [[x y] [He Hxy]]. subst g. cbn [fst snd].
    pose proof (core_pairs_rel _ _ _ Hxy) as Hr. apply core_pairs_In in Hxy. destruct Hxy as [A B].
    apply sort_by_in in A. apply sort_by_in in B. apply ill_pp; assumption.
  - apply in_map_iff in Hg. destruct Hg as [[ck cl] [He Hh]]. subst g. cbn [fst snd].
    destruct (il_hits_spec _ _ _ _ _ Hh) as [A [B C]]. destruct (with_cores_spec _ _ _ Ecc ck A) as [A1 A2].
    exact (ill_cp None clusters cands (fst ck) (snd ck) cl A1 A2 B C).
Qed.

Theorem interleaved_sound : forall nw clusters cands groups un,
  find_interleaved_v nw clusters cands None = Ok (groups, un) ->
  forall g, In g groups ->
  exists G h0, (forall x, In x G -> il_link None clusters cands x) /\ built G h0 /\ forall i, inS i g <-> inS i h0.
Proof.
  intros nw clusters cands groups un H g Hg. destruct (find_interleaved_v_linear _ _ _ _ _ H) as [cc [Ecc Egr]].
  subst groups. pose proof (merge_sets_components (il_groups nw clusters cc)) as C. cbv zeta in C.
  destruct C as [_ [_ [_ [HB _]]]]. rewrite Forall_forall in HB. destruct (HB g Hg) as [h0 [Hb He]].
  exists (il_groups nw clusters cc), h0. split; [|split; [exact Hb|exact He]].
  intros x Hx. exact (il_groups_link _ _ _ _ _ Ecc Hx).
Qed.

Lemma inS_app : forall i a b, inS i (a ++ b) <-> inS i a \/ inS i b.
Proof. intros i a b. unfold inS. rewrite map_app. apply in_app_iff. Qed.

(* completeness: two candidates with overlapping cores end in one group (whatever the flag) *)
Theorem interleaved_complete_cc : forall nw clusters cands groups un a b ka kb,
  find_interleaved_v nw clusters cands None = Ok (groups, un) ->
  In a cands -> In b cands -> a <> b -> ccore None a = Ok ka -> ccore None b = Ok kb -> overlap ka kb = true ->
  exists g, In g groups /\ subsetP (cmem a) g /\ subsetP (cmem b) g.
Proof.
  intros nw clusters cands groups un a b ka kb H Ha Hb Hne Hka Hkb Ho.
  destruct (find_interleaved_v_linear _ _ _ _ _ H) as [cc [Ecc Egr]]. subst groups.
  pose proof (with_cores_fwd _ _ _ Ecc a ka Ha Hka) as Ia. pose proof (with_cores_fwd _ _ _ Ecc b kb Hb Hkb) as Ib.
  assert (Hne' : (a, ka) <> (b, kb)) by (intro He; inversion He; apply Hne; assumption).
  assert (Hg0 : exists g0, In g0 (il_groups nw clusters cc) /\ subsetP (cmem a) g0 /\ subsetP (cmem b) g0).
  { destruct (In_two_split _ _ _ _ Hne' Ia Ib) as [[l1 [l2 [l3 E]]]|[l1 [l2 [l3 E]]]].
    - exists (cmem a ++ cmem b).
      split; [|split; intros i Hi; apply inS_app; [left|right]; exact Hi].
      unfold il_groups. apply in_or_app. left. apply in_or_app. left.
      unfold find_interleaved_candidates. cbv zeta. apply in_map_iff. exists ((a, ka), (b, kb)). split; [reflexivity|].
      apply in_or_app. left. rewrite E. apply pairs_rel_complete. exact Ho.
    - exists (cmem b ++ cmem a).
      split; [|split; intros i Hi; apply inS_app; [right|left]; exact Hi].
      unfold il_groups. apply in_or_app. left. apply in_or_app. left.
      unfold find_interleaved_candidates. cbv zeta. apply in_map_iff. exists ((b, kb), (a, ka)). split; [reflexivity|].
      apply in_or_app. left. rewrite E. apply pairs_rel_complete. cbn [snd]. apply overlap_true_sym. exact Ho. }
  destruct Hg0 as [g0 [Hg0 [Sa Sb]]].
  destruct (merge_sets_holds _ g0 Hg0 (subsetP_nonempty _ _ (ccore_nonempty _ _ _ Hka) Sa)) as [h [Hh Hsub]].
  exists h. split; [exact Hh|]. split; intros i Hi; apply Hsub; [apply Sa|apply Sb]; exact Hi.
Qed.

(* completeness with the window repair: a candidate and a protocluster with overlapping cores end in one group *)
Theorem interleaved_repaired_complete_cp : forall clusters cands groups un c k cl,
  find_interleaved_v true clusters cands None = Ok (groups, un) ->
  In c cands -> ccore None c = Ok k -> In cl clusters -> overlap k (pcore cl) = true ->
  exists g, In g groups /\ subsetP (cmem c) g /\ inS (pid cl) g.
Proof.
  intros clusters cands groups un c k cl H Hc Hk Hcl Ho.
  destruct (find_interleaved_v_linear _ _ _ _ _ H) as [cc [Ecc Egr]]. subst groups.
  pose proof (with_cores_fwd _ _ _ Ecc c k Hc Hk) as Ic.
  assert (Hg0 : In (cmem c ++ [cl]) (il_groups true clusters cc)).
  { unfold il_groups. apply in_or_app. right. apply in_map_iff. exists ((c, k), cl). split; [reflexivity|].
    apply il_hits_complete; [exact Ic|exact Hcl|exact Ho]. }
  assert (Hs0 : inS (pid cl) (cmem c ++ [cl])) by (apply inS_app; right; apply inS_single).
  assert (Hne : cmem c ++ [cl] <> []).
  { intro He. rewrite He in Hs0. apply inS_nil in Hs0. exact Hs0. }
  destruct (merge_sets_holds _ _ Hg0 Hne) as [h [Hh Hsub]].
  exists h. split; [exact Hh|]. split; [|apply Hsub; exact Hs0].
  intros i Hi. apply Hsub. apply inS_app. left. exact Hi.
Qed.

(* completeness for two protoclusters with overlapping cores: the inner loop breaks at the first later protocluster
   (by core start) whose core starts at or after the end of the current core; the list being sorted by core start and the
   parts of the cores being proper intervals, the break never comes before an overlapping protocluster *)
Fixpoint ssorted {A} (key : A -> Z) (l : list A) : Prop :=
  match l with [] => True | x :: r => (forall y, In y r -> key x <= key y) /\ ssorted key r end.

Lemma insert_by_ssorted : forall A (key : A -> Z) x l,
  ssorted key l -> ssorted key (insert_by (fun a b => key a <? key b) x l).
Proof.
  intros A key x. induction l as [|y ys IH]; intro H; cbn [insert_by].
  - cbn [ssorted]. split; [intros y []|exact I].
  - destruct H as [Hy Hys]. destruct (key x <? key y) eqn:E.
    + apply Z.ltb_lt in E. cbn [ssorted]. split; [|split; [exact Hy|exact Hys]].
      intros z [Hz|Hz]; [subst z; lia|]. specialize (Hy z Hz). lia.
    + apply Z.ltb_ge in E. cbn [ssorted]. split; [|exact (IH Hys)].
      intros z Hz. apply (Permutation_in _ (insert_by_perm A (fun a b => key a <? key b) x ys)) in Hz.
      destruct Hz as [Hz|Hz]; [subst z; exact E|exact (Hy z Hz)].
Qed.

Lemma sort_by_ssorted : forall A (key : A -> Z) l, ssorted key (sort_by (fun a b => key a <? key b) l).
Proof.
  intros A key l. unfold sort_by.
  assert (G : forall l acc, ssorted key acc ->
                ssorted key (fold_left (fun acc x => insert_by (fun a b => key a <? key b) x acc) l acc)).
  { induction l0 as [|x xs IH]; intros acc Ha; cbn [fold_left]; [exact Ha|].
    apply IH. apply insert_by_ssorted. exact Ha. }
  apply G. exact I.
Qed.

Lemma ssorted_app_r : forall A (key : A -> Z) l1 l2, ssorted key (l1 ++ l2) -> ssorted key l2.
Proof.
  intros A key. induction l1 as [|a r IH]; intros l2 H; [exact H|]. cbn [app ssorted] in H. exact (IH l2 (proj2 H)).
Qed.

Lemma ssorted_before : forall A (key : A -> Z) l2 y l3, ssorted key (l2 ++ y :: l3) ->
  forall o, In o l2 -> key o <= key y.
Proof.
  intros A key. induction l2 as [|a r IH]; intros y l3 H o Ho; [destruct Ho|]. cbn [app ssorted] in H.
  destruct H as [Ha Hr].
  destruct Ho as [Ho|Ho]; [subst o; apply Ha; apply in_or_app; right; left; reflexivity|exact (IH y l3 Hr o Ho)].
Qed.

Lemma overlap_hull_lt : forall a b, (forall p, In p a -> ps p < pe p) -> (forall p, In p b -> ps p < pe p) ->
  overlap a b = true -> lstart b < lend a.
Proof.
  intros a b Ha Hb Ho.
  assert (Fa : Forall ASV.C04.Proofs.wf_part a) by (apply Forall_forall; exact Ha).
  assert (Fb : Forall ASV.C04.Proofs.wf_part b) by (apply Forall_forall; exact Hb).
  apply (ASV.C04.Proofs.overlap_spec a b Fa Fb) in Ho. destruct Ho as [x [[p [Hp Hpx]] [q [Hq Hqx]]]].
  assert (H1 : lstart b <= ps q) by (unfold lstart; apply ASV.C04.Proofs.lmin_le; apply in_map; exact Hq).
  assert (H2 : pe p <= lend a) by (unfold lend; apply ASV.C04.Proofs.lmax_ge; apply in_map; exact Hp).
  lia.
Qed.

Lemma core_pairs_from_complete : forall x l2 y l3,
  (forall o, In o l2 -> lstart (pcore o) < lend (pcore x)) -> lstart (pcore y) < lend (pcore x) ->
  overlap (pcore x) (pcore y) = true -> In y (core_pairs_from x (l2 ++ y :: l3)).
Proof.
  intros x. induction l2 as [|o r IH]; intros y l3 Hl Hy Ho; cbn [app core_pairs_from].
  - destruct (lend (pcore x) <=? lstart (pcore y)) eqn:E; [apply Z.leb_le in E; lia|].
    rewrite Ho. left. reflexivity.
  - assert (Hlo : lstart (pcore o) < lend (pcore x)) by (apply Hl; left; reflexivity).
    destruct (lend (pcore x) <=? lstart (pcore o)) eqn:E; [apply Z.leb_le in E; lia|].
    assert (IH' : In y (core_pairs_from x (r ++ y :: l3))).
    { apply IH; [intros o' Ho'; apply Hl; right; exact Ho'|exact Hy|exact Ho]. }
    destruct (overlap (pcore x) (pcore o)); [right; exact IH'|exact IH'].
Qed.

Lemma core_pairs_complete : forall l1 x l2 y l3,
  ssorted (fun p => lstart (pcore p)) (l1 ++ x :: l2 ++ y :: l3) ->
  lstart (pcore y) < lend (pcore x) -> overlap (pcore x) (pcore y) = true ->
  In (x, y) (core_pairs (l1 ++ x :: l2 ++ y :: l3)).
Proof.
  intros l1 x l2 y l3 Hs Hy Ho. apply ssorted_app_r in Hs. induction l1 as [|a r IH]; cbn [app core_pairs]; apply in_or_app.
  - left. apply in_map. apply core_pairs_from_complete; [|exact Hy|exact Ho].
    cbn [ssorted] in Hs. destruct Hs as [_ Hs]. intros o Hin.
    pose proof (ssorted_before _ (fun p => lstart (pcore p)) l2 y l3 Hs o Hin) as Hle. cbv beta in Hle. lia.
  - right. exact IH.
Qed.

Theorem interleaved_complete_pp : forall nw clusters cands groups un x y,
  find_interleaved_v nw clusters cands None = Ok (groups, un) ->
  In x clusters -> In y clusters -> x <> y ->
  (forall p, In p (pcore x) -> ps p < pe p) -> (forall p, In p (pcore y) -> ps p < pe p) ->
  overlap (pcore x) (pcore y) = true ->
  exists g, In g groups /\ inS (pid x) g /\ inS (pid y) g.
Proof.
  intros nw clusters cands groups un x y H Hx Hy Hne Wx Wy Ho.
  destruct (find_interleaved_v_linear _ _ _ _ _ H) as [cc [Ecc Egr]]. subst groups.
  pose proof (sort_by_ssorted _ (fun p => lstart (pcore p)) clusters) as Hs.
  change (ssorted (fun p => lstart (pcore p)) (sort_by core_start_lt clusters)) in Hs.
  apply (sort_by_in _ core_start_lt) in Hx. apply (sort_by_in _ core_start_lt) in Hy.
  assert (Hg0 : exists g0, In g0 (il_groups nw clusters cc) /\ inS (pid x) g0 /\ inS (pid y) g0).
  { destruct (In_two_split _ _ x y Hne Hx Hy) as [[l1 [l2 [l3 E]]]|[l1 [l2 [l3 E]]]].
    - exists [x; y]. split; [|split; [left; reflexivity|right; left; reflexivity]].
      unfold il_groups. apply in_or_app. left. apply in_or_app. right.
      apply in_map_iff. exists (x, y). split; [reflexivity|]. rewrite E in Hs |- *.
      apply core_pairs_complete; [exact Hs|exact (overlap_hull_lt _ _ Wx Wy Ho)|exact Ho].
    - exists [y; x]. split; [|split; [right; left; reflexivity|left; reflexivity]].
      unfold il_groups. apply in_or_app. left. apply in_or_app. right.
      apply in_map_iff. exists (y, x). split; [reflexivity|]. rewrite E in Hs |- *.
      apply overlap_true_sym in Ho.
      apply core_pairs_complete; [exact Hs|exact (overlap_hull_lt _ _ Wy Wx Ho)|exact Ho]. }
  destruct Hg0 as [g0 [Hg0 [Sa Sb]]].
  assert (Hne0 : g0 <> []). { intro He. rewrite He in Sa. apply inS_nil in Sa. exact Sa. }
  destruct (merge_sets_holds _ g0 Hg0 Hne0) as [h [Hh Hsub]].
  exists h. split; [exact Hh|]. split; apply Hsub; assumption.
Qed.
End Kinds.

Module Order.
(* C05 - order independence of create_candidates_from_protoclusters under a no-tie guard,
   a readable sufficient condition on linear records, and uniqueness material. *)

(* ================================================================== generic: the stable insertion sort *)
(* weakly sorted: no later element is smaller than an earlier one *)
Inductive wsorted {A} (lt : A -> A -> bool) : list A -> Prop :=
| ws_nil : wsorted lt []
| ws_cons : forall a l, wsorted lt l -> (forall b, In b l -> lt b a = false) -> wsorted lt (a :: l).

(* irreflexive and transitive on the elements that satisfy P *)
Definition irrefl_on {A} (P : A -> Prop) (lt : A -> A -> bool) : Prop :=
  forall a, P a -> lt a a = false.
Definition trans_on {A} (P : A -> Prop) (lt : A -> A -> bool) : Prop :=
  forall a b c, P a -> P b -> P c -> lt a b = true -> lt b c = true -> lt a c = true.

Lemma lt_asym_on : forall A (P : A -> Prop) (lt : A -> A -> bool),
  irrefl_on P lt -> trans_on P lt ->
  forall a b, P a -> P b -> lt a b = true -> lt b a = false.
Proof.
  intros A P lt Hirr Htr a b Pa Pb H. destruct (lt b a) eqn:E; [|reflexivity].
  pose proof (Htr a b a Pa Pb Pa H E) as X. rewrite (Hirr a Pa) in X. discriminate.
Qed.

Lemma insert_by_wsorted_on : forall A (P : A -> Prop) (lt : A -> A -> bool),
  irrefl_on P lt -> trans_on P lt ->
  forall x l, P x -> (forall y, In y l -> P y) -> wsorted lt l -> wsorted lt (insert_by lt x l).
Proof.
  intros A P lt Hirr Htr x. induction l as [|y ys IH]; intros Px Pl Hs; cbn [insert_by].
  - constructor; [constructor|]. intros b Hb. destruct Hb.
  - inversion Hs as [|? ? Hs' Hall]; subst.
    assert (Py : P y) by (apply Pl; left; reflexivity).
    assert (Pys : forall z, In z ys -> P z) by (intros z Hz; apply Pl; right; exact Hz).
    destruct (lt x y) eqn:E.
    + constructor; [exact Hs|]. intros z Hz. destruct Hz as [Hz|Hz].
      * subst z. apply (lt_asym_on A P lt Hirr Htr); assumption.
      * destruct (lt z x) eqn:Ezx; [|reflexivity].
        pose proof (Htr z x y (Pys z Hz) Px Py Ezx E) as X. rewrite (Hall z Hz) in X. discriminate.
    + constructor; [apply IH; assumption|].
      intros z Hz.
      apply (Permutation_in _ (insert_by_perm A lt x ys)) in Hz. destruct Hz as [Hz|Hz].
      * subst z. exact E.
      * apply Hall. exact Hz.
Qed.

Lemma fold_insert_wsorted_on : forall A (P : A -> Prop) (lt : A -> A -> bool),
  irrefl_on P lt -> trans_on P lt ->
  forall l acc, (forall y, In y l -> P y) -> (forall y, In y acc -> P y) -> wsorted lt acc ->
  wsorted lt (fold_left (fun acc x => insert_by lt x acc) l acc).
Proof.
  intros A P lt Hirr Htr. induction l as [|x xs IH]; intros acc Pl Pacc Hs; cbn [fold_left]; [exact Hs|].
  apply IH.
  - intros y Hy. apply Pl. right. exact Hy.
  - intros y Hy. apply (Permutation_in _ (insert_by_perm A lt x acc)) in Hy. destruct Hy as [Hy|Hy].
    + subst y. apply Pl. left. reflexivity.
    + apply Pacc. exact Hy.
  - apply (insert_by_wsorted_on A P lt Hirr Htr); [apply Pl; left; reflexivity|exact Pacc|exact Hs].
Qed.

Lemma sort_by_wsorted_on : forall A (P : A -> Prop) (lt : A -> A -> bool),
  irrefl_on P lt -> trans_on P lt ->
  forall l, (forall y, In y l -> P y) -> wsorted lt (sort_by lt l).
Proof.
  intros A P lt Hirr Htr l Pl. unfold sort_by.
  apply (fold_insert_wsorted_on A P lt Hirr Htr); [exact Pl| |constructor].
  intros y Hy. destruct Hy.
Qed.

(* two weakly sorted arrangements of the same elements coincide when no two different elements tie
   (no transitivity needed here) *)
Lemma wsorted_unique : forall A (lt : A -> A -> bool) (l1 l2 : list A),
  wsorted lt l1 -> wsorted lt l2 -> Permutation l1 l2 ->
  (forall a b, In a l1 -> In b l1 -> lt a b = false -> lt b a = false -> a = b) ->
  l1 = l2.
Proof.
  intros A lt. induction l1 as [|a t1 IH]; intros l2 H1 H2 Hp Htot.
  - apply Permutation_nil in Hp. symmetry. exact Hp.
  - destruct l2 as [|b t2]; [apply Permutation_sym in Hp; apply Permutation_nil in Hp; discriminate|].
    inversion H1 as [|? ? H1' Ha]; subst. inversion H2 as [|? ? H2' Hb]; subst.
    assert (Hab : a = b).
    { assert (Ia : In a (b :: t2)) by (apply (Permutation_in _ Hp); left; reflexivity).
      assert (Ib : In b (a :: t1)) by (apply (Permutation_in _ (Permutation_sym Hp)); left; reflexivity).
      destruct Ia as [E|Ia]; [symmetry; exact E|].
      destruct Ib as [E|Ib]; [exact E|].
      apply Htot; [left; reflexivity|right; exact Ib|apply Hb; exact Ia|apply Ha; exact Ib]. }
    subst b. f_equal. apply IH; [exact H1'|exact H2'|apply Permutation_cons_inv with a; exact Hp|].
    intros x y Hx Hy. apply Htot; right; assumption.
Qed.

(* the sort of a permuted list is the same list, provided no two different elements tie and the
   comparison is a strict order on the elements of the list *)
Lemma sort_by_perm_unique_on : forall A (lt : A -> A -> bool) (l l' : list A),
  irrefl_on (fun a => In a l) lt -> trans_on (fun a => In a l) lt ->
  Permutation l l' ->
  (forall a b, In a l -> In b l -> lt a b = false -> lt b a = false -> a = b) ->
  sort_by lt l = sort_by lt l'.
Proof.
  intros A lt l l' Hirr Htr Hp Htot. apply (wsorted_unique A lt).
  - apply (sort_by_wsorted_on A (fun a => In a l) lt Hirr Htr). intros y Hy. exact Hy.
  - apply (sort_by_wsorted_on A (fun a => In a l) lt Hirr Htr). intros y Hy.
    apply (Permutation_in _ (Permutation_sym Hp)). exact Hy.
  - apply Permutation_trans with l; [apply sort_by_perm|].
    apply Permutation_trans with l'; [exact Hp|apply Permutation_sym; apply sort_by_perm].
  - intros a b Ia Ib. apply Htot; apply (Permutation_in _ (sort_by_perm A lt l)); assumption.
Qed.

(* ================================================================== (1) order independence of the formation *)
Lemma pair_lt_irrefl : forall x, pair_lt x x = false.
Proof. intros [a b]. unfold pair_lt. cbn [fst snd]. lia. Qed.

Lemma if_true_l : forall (c x : bool), (if c then true else x) = c || x.
Proof. intros [|] x; reflexivity. Qed.
Lemma if_false_l : forall (c x : bool), (if c then false else x) = negb c && x.
Proof. intros [|] x; reflexivity. Qed.

(* CDSCollection.__lt__ between protoclusters: the shortcuts, then the (start, -len) comparison *)
Lemma lt_pp_unfold : forall a b,
  lt_pp a b = (contains (ploc a) (ploc b) && negb (contains (ploc b) (ploc a)))
              || (negb (contains (ploc b) (ploc a) && negb (contains (ploc a) (ploc b)))
                  && pair_lt (comparator (ploc a)) (comparator (ploc b))).
Proof.
  intros a b. unfold lt_pp, coll_lt. cbn [existsb].
  rewrite if_true_l, if_false_l. reflexivity.
Qed.

Lemma lt_pp_irrefl : forall a, lt_pp a a = false.
Proof.
  intros a. rewrite lt_pp_unfold. rewrite pair_lt_irrefl.
  destruct (contains (ploc a) (ploc a)); reflexivity.
Qed.

Lemma lt_pp_asym : forall a b, lt_pp a b = true -> lt_pp b a = false.
Proof.
  intros a b. rewrite !lt_pp_unfold.
  destruct (contains (ploc a) (ploc b)), (contains (ploc b) (ploc a)); cbn [andb orb negb];
    try (intros; reflexivity); try (intros; discriminate).
  - destruct (comparator (ploc a)) as [x y], (comparator (ploc b)) as [x' y'].
    unfold pair_lt; cbn [fst snd]. lia.
  - destruct (comparator (ploc a)) as [x y], (comparator (ploc b)) as [x' y'].
    unfold pair_lt; cbn [fst snd]. lia.
Qed.

(* the guard: no two different protoclusters of the input tie under __lt__ *)
Definition no_tie (protos : list proto) : Prop :=
  forall a b, In a protos -> In b protos -> lt_pp a b = false -> lt_pp b a = false -> a = b.
(* __lt__ is transitive on the protoclusters of the input (it always is irreflexive and asymmetric: lt_pp_irrefl,
   lt_pp_asym; it is NOT transitive on arbitrary multi-part locations: lt_pp_cycle below) *)
Definition lt_trans (protos : list proto) : Prop := trans_on (fun a => In a protos) lt_pp.

Lemma sorted_protos_order_independent : forall protos protos',
  Permutation protos protos' -> no_tie protos -> lt_trans protos ->
  ordered_list protos = ordered_list protos'.
Proof.
  intros protos protos' Hp Hnt Htr. unfold ordered_list. apply sort_by_perm_unique_on.
  - intros a _. apply lt_pp_irrefl.
  - intros a b c Ia Ib Ic. apply Htr; apply (sort_by_in _ pre_lt); assumption.
  - apply Permutation_trans with protos; [apply sort_by_perm|].
    apply Permutation_trans with protos'; [exact Hp|apply Permutation_sym; apply sort_by_perm].
  - intros a b Ia Ib. apply Hnt; apply (sort_by_in _ pre_lt); assumption.
Qed.

Lemma zlen_perm : forall A (l l' : list A), Permutation l l' -> zlen l = zlen l'.
Proof. intros A l l' Hp. unfold zlen. rewrite (Permutation_length Hp). reflexivity. Qed.

Lemma formation_body_of_sorted : forall protos protos' w,
  ordered_list protos = ordered_list protos' -> formation_body protos w = formation_body protos' w.
Proof. intros protos protos' w H. unfold formation_body. rewrite H. reflexivity. Qed.

Lemma formation_body_v_of_sorted : forall nw allp protos protos' w,
  ordered_list protos = ordered_list protos' ->
  formation_body_v nw allp protos w = formation_body_v nw allp protos' w.
Proof. intros nw allp protos protos' w H. unfold formation_body_v. rewrite H. reflexivity. Qed.

(* create_candidates depends on the order of its input only through _ordered(protoclusters) *)
Lemma create_candidates_of_sorted : forall protos protos' w,
  Permutation protos protos' -> ordered_list protos = ordered_list protos' ->
  create_candidates protos w = create_candidates protos' w.
Proof.
  intros protos protos' w Hp Hs.
  destruct protos as [|p l].
  - apply Permutation_nil in Hp. subst protos'. reflexivity.
  - destruct protos' as [|p' l'].
    + apply Permutation_sym in Hp. apply Permutation_nil in Hp. discriminate.
    + unfold create_candidates.
      rewrite (formation_body_of_sorted (p :: l) (p' :: l') w Hs).
      rewrite (zlen_perm _ _ _ Hp). reflexivity.
Qed.

Lemma create_candidates_v_of_sorted : forall nw allp protos protos' w,
  Permutation protos protos' -> ordered_list protos = ordered_list protos' ->
  create_candidates_v nw allp protos w = create_candidates_v nw allp protos' w.
Proof.
  intros nw allp protos protos' w Hp Hs.
  destruct protos as [|p l].
  - apply Permutation_nil in Hp. subst protos'. reflexivity.
  - destruct protos' as [|p' l'].
    + apply Permutation_sym in Hp. apply Permutation_nil in Hp. discriminate.
    + unfold create_candidates_v.
      rewrite (formation_body_v_of_sorted nw allp (p :: l) (p' :: l') w Hs).
      rewrite (zlen_perm _ _ _ Hp). reflexivity.
Qed.

(* END TO END: the candidates do not depend on the order in which the protoclusters are supplied, when no two
   of them tie under __lt__ and __lt__ is transitive on them *)
Theorem create_candidates_order_independent : forall protos protos' w,
  Permutation protos protos' -> no_tie protos -> lt_trans protos ->
  create_candidates protos w = create_candidates protos' w.
Proof.
  intros protos protos' w Hp Hnt Htr. apply create_candidates_of_sorted; [exact Hp|].
  apply sorted_protos_order_independent; assumption.
Qed.

Theorem create_candidates_v_order_independent : forall nw allp protos protos' w,
  Permutation protos protos' -> no_tie protos -> lt_trans protos ->
  create_candidates_v nw allp protos w = create_candidates_v nw allp protos' w.
Proof.
  intros nw allp protos protos' w Hp Hnt Htr. apply create_candidates_v_of_sorted; [exact Hp|].
  apply sorted_protos_order_independent; assumption.
Qed.

(* why transitivity is part of the guard: on arbitrary (multi-part) locations __lt__ has cycles without any tie,
   and then sorted() does depend on the order of its input *)
Definition cy_A : proto := mkProto 1 [mkPart 0 10 1] [mkPart 1 2 1] 1 [].
Definition cy_B : proto := mkProto 2 [mkPart 0 9 1; mkPart 0 9 1] [mkPart 1 2 1] 2 [].
Definition cy_C : proto := mkProto 3 [mkPart 0 3 1; mkPart 20 32 1] [mkPart 1 2 1] 3 [].
Lemma lt_pp_cycle :
  lt_pp cy_A cy_B = true /\ lt_pp cy_B cy_C = true /\ lt_pp cy_C cy_A = true.
Proof. vm_compute. repeat split. Qed.
Lemma no_tie_alone_not_enough :
  no_tie [cy_A; cy_B; cy_C] /\ Permutation [cy_A; cy_B; cy_C] [cy_B; cy_C; cy_A] /\
  sort_by lt_pp [cy_A; cy_B; cy_C] <> sort_by lt_pp [cy_B; cy_C; cy_A].
Proof.
  split; [|split].
  - intros a b Ha Hb.
    cbn [In] in Ha, Hb.
    destruct Ha as [Ha|[Ha|[Ha|[]]]]; destruct Hb as [Hb|[Hb|[Hb|[]]]]; subst a b;
      try (intros; reflexivity); vm_compute; intros; discriminate.
  - apply Permutation_trans with [cy_B; cy_A; cy_C]; [apply perm_swap|].
    apply perm_skip. apply perm_swap.
  - vm_compute. intros H. discriminate.
Qed.

(* Before the repair of supply_order_same_key_groups the formation itself inherited this: five protoclusters, no
   tie, two orders of supply, different candidates (4 and 3).  Since `_ordered(protoclusters)` pre-sorts by
   (product, core start, core end), which is a total order on these five, both orders now give the same result
   (instance of create_candidates_order_independent_prekeys below; here by computation). *)
Definition ce_A : proto := mkProto 1 [mkPart 0 10 1] [mkPart 1 2 1] 1 [100].
Definition ce_B : proto := mkProto 5 [mkPart 0 9 1; mkPart 0 9 1] [mkPart 0 1 1] 5 [].
Definition ce_C : proto := mkProto 3 [mkPart 0 3 1; mkPart 20 32 1] [mkPart 1 2 1] 3 [200].
Definition ce_P2 : proto := mkProto 2 [mkPart 25 32 1] [mkPart 26 27 1] 2 [100].
Definition ce_P4 : proto := mkProto 4 [mkPart 21 25 1] [mkPart 22 23 1] 4 [200].
Definition ce_L1 : list proto := [ce_P2; ce_P4; ce_A; ce_B; ce_C].
Definition ce_L2 : list proto := [ce_P2; ce_P4; ce_B; ce_C; ce_A].
Lemma cyclic_lt_orders_now_agree :
  no_tie ce_L1 /\ Permutation ce_L1 ce_L2 /\
  sort_by lt_pp ce_L1 <> sort_by lt_pp ce_L2 /\
  create_candidates ce_L1 None = create_candidates ce_L2 None /\
  exists o, create_candidates ce_L1 None = Ok o.
Proof.
  split; [|split; [|split; [|split]]].
  - intros a b Ha Hb. unfold ce_L1 in Ha, Hb. cbn [In] in Ha, Hb.
    destruct Ha as [Ha|[Ha|[Ha|[Ha|[Ha|[]]]]]]; destruct Hb as [Hb|[Hb|[Hb|[Hb|[Hb|[]]]]]]; subst a b;
      try (intros; reflexivity); vm_compute; intros; discriminate.
  - unfold ce_L1, ce_L2. do 2 apply perm_skip.
    apply Permutation_trans with [ce_B; ce_A; ce_C]; [apply perm_swap|].
    apply perm_skip. apply perm_swap.
  - vm_compute. intros H. discriminate.
  - vm_compute. reflexivity.
  - eexists. vm_compute. reflexivity.
Qed.

(* ================================================================== (2) linear records: single-part protoclusters *)
(* a protocluster whose location is one part with start < end *)
Definition single_lin (p : proto) : Prop := exists q, ploc p = [q] /\ ps q < pe q.

(* on single parts the containment shortcuts agree with the (start, -len) comparison *)
Lemma lt_pp_single : forall a b qa qb,
  ploc a = [qa] -> ploc b = [qb] -> ps qa <= pe qa -> ps qb <= pe qb ->
  lt_pp a b = pair_lt (ps qa, ps qa - pe qa) (ps qb, ps qb - pe qb).
Proof.
  intros a b qa qb Ha Hb La Lb. rewrite lt_pp_unfold. rewrite Ha, Hb.
  unfold contains, comparator, bridges, is_compound, lstart, llen, part_contains, pair_lt.
  cbn [forallb existsb map lmin fold_left fold_right fst snd].
  lia.
Qed.

Lemma no_tie_linear_distinct : forall protos,
  (forall p, In p protos -> single_lin p) ->
  (forall a b qa qb, In a protos -> In b protos -> ploc a = [qa] -> ploc b = [qb] ->
                     ps qa = ps qb -> pe qa = pe qb -> a = b) ->
  no_tie protos.
Proof.
  intros protos Hlin Hdist a b Ia Ib Hab Hba.
  destruct (Hlin a Ia) as [qa [Ha La]]. destruct (Hlin b Ib) as [qb [Hb Lb]].
  rewrite (lt_pp_single a b qa qb Ha Hb) in Hab by lia.
  rewrite (lt_pp_single b a qb qa Hb Ha) in Hba by lia.
  unfold pair_lt in Hab, Hba. cbn [fst snd] in Hab, Hba.
  apply (Hdist a b qa qb Ia Ib Ha Hb); lia.
Qed.

(* the simpler reading: different protoclusters of the input have different locations, all on one strand *)
Lemma no_tie_linear_distinct_loc : forall protos st,
  (forall p, In p protos -> exists q, ploc p = [q] /\ ps q < pe q /\ pst q = st) ->
  (forall a b, In a protos -> In b protos -> ploc a = ploc b -> a = b) ->
  no_tie protos.
Proof.
  intros protos st Hlin Hdist. apply no_tie_linear_distinct.
  - intros p Ip. destruct (Hlin p Ip) as [q [H1 [H2 _]]]. exists q. split; assumption.
  - intros a b qa qb Ia Ib Ha Hb Hs He. apply Hdist; [exact Ia|exact Ib|].
    destruct (Hlin a Ia) as [qa' [Ha' [_ Sa]]]. destruct (Hlin b Ib) as [qb' [Hb' [_ Sb]]].
    rewrite Ha in Ha'. rewrite Hb in Hb'. injection Ha' as <-. injection Hb' as <-.
    rewrite Ha, Hb. f_equal.
    destruct qa as [s1 e1 t1], qb as [s2 e2 t2]. cbn [ps pe pst] in *. subst. reflexivity.
Qed.

Lemma lt_trans_linear : forall protos, (forall p, In p protos -> single_lin p) -> lt_trans protos.
Proof.
  intros protos Hlin a b c Ia Ib Ic Hab Hbc.
  destruct (Hlin a Ia) as [qa [Ha La]]. destruct (Hlin b Ib) as [qb [Hb Lb]].
  destruct (Hlin c Ic) as [qc [Hc Lc]].
  rewrite (lt_pp_single a b qa qb Ha Hb) in Hab by lia.
  rewrite (lt_pp_single b c qb qc Hb Hc) in Hbc by lia.
  rewrite (lt_pp_single a c qa qc Ha Hc) by lia.
  unfold pair_lt in *. cbn [fst snd] in *. lia.
Qed.

(* END TO END on linear records: with single-part protoclusters of pairwise different coordinates the
   candidates do not depend on the order in which the protoclusters are supplied *)
Theorem create_candidates_order_independent_linear : forall protos protos' w,
  Permutation protos protos' ->
  (forall p, In p protos -> single_lin p) ->
  (forall a b qa qb, In a protos -> In b protos -> ploc a = [qa] -> ploc b = [qb] ->
                     ps qa = ps qb -> pe qa = pe qb -> a = b) ->
  create_candidates protos w = create_candidates protos' w.
Proof.
  intros protos protos' w Hp Hlin Hdist. apply create_candidates_order_independent; [exact Hp| |].
  - apply no_tie_linear_distinct; assumption.
  - apply lt_trans_linear; exact Hlin.
Qed.

Theorem create_candidates_v_order_independent_linear : forall nw allp protos protos' w,
  Permutation protos protos' ->
  (forall p, In p protos -> single_lin p) ->
  (forall a b qa qb, In a protos -> In b protos -> ploc a = [qa] -> ploc b = [qb] ->
                     ps qa = ps qb -> pe qa = pe qb -> a = b) ->
  create_candidates_v nw allp protos w = create_candidates_v nw allp protos' w.
Proof.
  intros nw allp protos protos' w Hp Hlin Hdist. apply create_candidates_v_order_independent; [exact Hp| |].
  - apply no_tie_linear_distinct; assumption.
  - apply lt_trans_linear; exact Hlin.
Qed.

(* ================================================================== (2b) the pre-sort of _ordered resolves the ties
   of __lt__: sorted(sorted(group, key=(product, core_start, core_end))) is sorted by the lexicographic combination *)
Definition pre_key (p : proto) : Z * (Z * Z) := (pprod p, (fstart (pcore p), fend (pcore p))).

Lemma pre_lt_irrefl : forall a, pre_lt a a = false.
Proof. intros a. unfold pre_lt, pair_lt. cbn [fst snd]. lia. Qed.
Lemma pre_lt_trans : forall a b c, pre_lt a b = true -> pre_lt b c = true -> pre_lt a c = true.
Proof. intros a b c. unfold pre_lt, pair_lt. cbn [fst snd]. lia. Qed.
Lemma pre_lt_tie : forall a b, pre_lt a b = false -> pre_lt b a = false -> pre_key a = pre_key b.
Proof.
  intros a b. unfold pre_lt, pair_lt, pre_key. cbn [fst snd]. intros H1 H2.
  assert (E : pprod a = pprod b /\ fstart (pcore a) = fstart (pcore b) /\ fend (pcore a) = fend (pcore b)) by lia.
  destruct E as [E1 [E2 E3]]. rewrite E1, E2, E3. reflexivity.
Qed.

(* generic: a stable sort by lt2 of a list sorted by lt1 is sorted by "lt2, ties of lt2 by lt1" *)
Definition lex2 {A} (lt1 lt2 : A -> A -> bool) (a b : A) : bool := lt2 a b || (negb (lt2 b a) && lt1 a b).
(* lt is a strict WEAK order on P: being incomparable is transitive (with irreflexivity and transitivity) *)
Definition weak_on {A} (P : A -> Prop) (lt : A -> A -> bool) : Prop :=
  forall a b c, P a -> P b -> P c -> lt a b = true -> lt a c = true \/ lt c b = true.

Lemma insert_by_lex : forall A (P : A -> Prop) (lt1 lt2 : A -> A -> bool),
  irrefl_on P lt2 -> trans_on P lt2 -> weak_on P lt2 ->
  forall x l, P x -> (forall y, In y l -> P y) -> wsorted (lex2 lt1 lt2) l ->
    (forall y, In y l -> lt1 x y = false) -> wsorted (lex2 lt1 lt2) (insert_by lt2 x l).
Proof.
  intros A P lt1 lt2 Hirr Htr Hwk x. induction l as [|y ys IH]; intros Px Pl Hs H1; cbn [insert_by].
  - constructor; [constructor|]. intros b [].
  - inversion Hs as [|? ? Hs' Hall]; subst.
    assert (Py : P y) by (apply Pl; left; reflexivity).
    assert (Pys : forall z, In z ys -> P z) by (intros z Hz; apply Pl; right; exact Hz).
    destruct (lt2 x y) eqn:E.
    + constructor; [exact Hs|]. intros z Hz.
      assert (Pz : P z) by (apply Pl; exact Hz).
      assert (Hxz : lt2 x z = true).
      { destruct Hz as [Hz|Hz]; [subst z; exact E|].
        destruct (Hwk x y z Px Py Pz E) as [X|X]; [exact X|].
        pose proof (Hall z Hz) as L. unfold lex2 in L. rewrite X in L. discriminate L. }
      unfold lex2. rewrite (lt_asym_on A P lt2 Hirr Htr x z Px Pz Hxz), Hxz. reflexivity.
    + constructor.
      * apply IH; [exact Px|exact Pys|exact Hs'|intros z Hz; apply H1; right; exact Hz].
      * intros z Hz. apply (Permutation_in _ (insert_by_perm A lt2 x ys)) in Hz. destruct Hz as [Hz|Hz].
        -- subst z. unfold lex2. rewrite E. rewrite (H1 y (or_introl eq_refl)). destruct (lt2 y x); reflexivity.
        -- apply Hall. exact Hz.
Qed.

Lemma fold_insert_lex : forall A (P : A -> Prop) (lt1 lt2 : A -> A -> bool),
  irrefl_on P lt2 -> trans_on P lt2 -> weak_on P lt2 ->
  forall l acc, (forall y, In y l -> P y) -> (forall y, In y acc -> P y) ->
    wsorted lt1 l -> (forall x y, In x l -> In y acc -> lt1 x y = false) ->
    wsorted (lex2 lt1 lt2) acc ->
    wsorted (lex2 lt1 lt2) (fold_left (fun acc x => insert_by lt2 x acc) l acc).
Proof.
  intros A P lt1 lt2 Hirr Htr Hwk. induction l as [|x xs IH]; intros acc Pl Pacc Hs1 Hx Hs; cbn [fold_left]; [exact Hs|].
  inversion Hs1 as [|? ? Hs1' Hall]; subst.
  apply IH.
  - intros y Hy. apply Pl. right. exact Hy.
  - intros y Hy. apply (Permutation_in _ (insert_by_perm A lt2 x acc)) in Hy.
    destruct Hy as [Hy|Hy]; [subst y; apply Pl; left; reflexivity|apply Pacc; exact Hy].
  - exact Hs1'.
  - intros x' y Hx' Hy. apply (Permutation_in _ (insert_by_perm A lt2 x acc)) in Hy. destruct Hy as [Hy|Hy].
    + subst y. apply Hall. exact Hx'.
    + apply Hx; [right; exact Hx'|exact Hy].
  - apply (insert_by_lex A P lt1 lt2 Hirr Htr Hwk); [apply Pl; left; reflexivity|exact Pacc|exact Hs|].
    intros y Hy. apply Hx; [left; reflexivity|exact Hy].
Qed.

Lemma two_pass_wsorted : forall A (P : A -> Prop) (lt1 lt2 : A -> A -> bool),
  irrefl_on P lt1 -> trans_on P lt1 -> irrefl_on P lt2 -> trans_on P lt2 -> weak_on P lt2 ->
  forall l, (forall y, In y l -> P y) -> wsorted (lex2 lt1 lt2) (sort_by lt2 (sort_by lt1 l)).
Proof.
  intros A P lt1 lt2 I1 T1 I2 T2 W2 l Pl.
  change (sort_by lt2 (sort_by lt1 l)) with (fold_left (fun acc x => insert_by lt2 x acc) (sort_by lt1 l) []).
  apply (fold_insert_lex A P lt1 lt2 I2 T2 W2).
  - intros y Hy. apply Pl. apply (sort_by_in _ lt1). exact Hy.
  - intros y [].
  - apply (sort_by_wsorted_on A P lt1 I1 T1). exact Pl.
  - intros x y _ [].
  - constructor.
Qed.

(* the two-pass sort of a permuted list is the same list when no two different elements tie under BOTH comparisons *)
Lemma two_pass_perm_unique : forall A (lt1 lt2 : A -> A -> bool) (l l' : list A),
  irrefl_on (fun a => In a l) lt1 -> trans_on (fun a => In a l) lt1 ->
  irrefl_on (fun a => In a l) lt2 -> trans_on (fun a => In a l) lt2 -> weak_on (fun a => In a l) lt2 ->
  Permutation l l' ->
  (forall a b, In a l -> In b l -> lt2 a b = false -> lt2 b a = false ->
               lt1 a b = false -> lt1 b a = false -> a = b) ->
  sort_by lt2 (sort_by lt1 l) = sort_by lt2 (sort_by lt1 l').
Proof.
  intros A lt1 lt2 l l' I1 T1 I2 T2 W2 Hp Htot.
  assert (Hperm : forall m, Permutation (sort_by lt2 (sort_by lt1 m)) m).
  { intros m. apply Permutation_trans with (sort_by lt1 m); apply sort_by_perm. }
  apply (wsorted_unique A (lex2 lt1 lt2)).
  - apply (two_pass_wsorted A (fun a => In a l) lt1 lt2 I1 T1 I2 T2 W2). intros y Hy. exact Hy.
  - apply (two_pass_wsorted A (fun a => In a l) lt1 lt2 I1 T1 I2 T2 W2). intros y Hy.
    apply (Permutation_in _ (Permutation_sym Hp)). exact Hy.
  - apply Permutation_trans with l; [apply Hperm|].
    apply Permutation_trans with l'; [exact Hp|apply Permutation_sym; apply Hperm].
  - intros a b Ia Ib Hab Hba.
    apply (Permutation_in _ (Hperm l)) in Ia. apply (Permutation_in _ (Hperm l)) in Ib.
    unfold lex2 in Hab, Hba.
    destruct (lt2 a b) eqn:E1; destruct (lt2 b a) eqn:E2; cbn in Hab, Hba; try discriminate.
    apply Htot; assumption.
Qed.

(* __lt__ is a strict weak order on the protoclusters of the input *)
Definition lt_weak (protos : list proto) : Prop := weak_on (fun a => In a protos) lt_pp.

(* _ordered(protoclusters) does not depend on the supply order when __lt__ is a strict weak order on the input and
   no two different protoclusters tie under __lt__ AND have the same (product, core start, core end) *)
Lemma ordered_protos_order_independent : forall protos protos',
  Permutation protos protos' -> lt_trans protos -> lt_weak protos ->
  (forall a b, In a protos -> In b protos -> lt_pp a b = false -> lt_pp b a = false ->
               pre_key a = pre_key b -> a = b) ->
  ordered_list protos = ordered_list protos'.
Proof.
  intros protos protos' Hp Htr Hwk Htot. unfold ordered_list. apply two_pass_perm_unique.
  - intros a _. apply pre_lt_irrefl.
  - intros a b c _ _ _. apply pre_lt_trans.
  - intros a _. apply lt_pp_irrefl.
  - exact Htr.
  - exact Hwk.
  - exact Hp.
  - intros a b Ia Ib H1 H2 H3 H4. apply Htot; try assumption. apply pre_lt_tie; assumption.
Qed.

(* END TO END, any wrap point *)
Theorem create_candidates_order_independent_keys : forall protos protos' w,
  Permutation protos protos' -> lt_trans protos -> lt_weak protos ->
  (forall a b, In a protos -> In b protos -> lt_pp a b = false -> lt_pp b a = false ->
               pre_key a = pre_key b -> a = b) ->
  create_candidates protos w = create_candidates protos' w.
Proof.
  intros protos protos' w Hp Htr Hwk Htot. apply create_candidates_of_sorted; [exact Hp|].
  apply ordered_protos_order_independent; assumption.
Qed.

(* END TO END, any record (linear, circular, origin-crossing, any strands) and NO hypothesis on __lt__: pairwise
   different (product, core start, core end) *)
Theorem create_candidates_order_independent_prekeys : forall protos protos' w,
  Permutation protos protos' ->
  (forall a b, In a protos -> In b protos -> pre_key a = pre_key b -> a = b) ->
  create_candidates protos w = create_candidates protos' w.
Proof.
  intros protos protos' w Hp Hd. apply create_candidates_of_sorted; [exact Hp|].
  unfold ordered_list. f_equal. apply sort_by_perm_unique_on.
  - intros a _. apply pre_lt_irrefl.
  - intros a b c _ _ _. apply pre_lt_trans.
  - exact Hp.
  - intros a b Ia Ib H1 H2. apply Hd; try assumption. apply pre_lt_tie; assumption.
Qed.

Lemma lt_weak_linear : forall protos, (forall p, In p protos -> single_lin p) -> lt_weak protos.
Proof.
  intros protos Hlin a b c Ia Ib Ic Hab.
  destruct (Hlin a Ia) as [qa [Ha La]]. destruct (Hlin b Ib) as [qb [Hb Lb]].
  destruct (Hlin c Ic) as [qc [Hc Lc]].
  rewrite (lt_pp_single a b qa qb Ha Hb) in Hab by lia.
  rewrite (lt_pp_single a c qa qc Ha Hc) by lia.
  rewrite (lt_pp_single c b qc qb Hc Hb) by lia.
  unfold pair_lt in *. cbn [fst snd] in *. lia.
Qed.

(* END TO END on linear records: single-part protoclusters with pairwise different
   (coordinates, product, core start, core end) *)
Theorem create_candidates_order_independent_keys_linear : forall protos protos' w,
  Permutation protos protos' ->
  (forall p, In p protos -> single_lin p) ->
  (forall a b qa qb, In a protos -> In b protos -> ploc a = [qa] -> ploc b = [qb] ->
                     ps qa = ps qb -> pe qa = pe qb -> pre_key a = pre_key b -> a = b) ->
  create_candidates protos w = create_candidates protos' w.
Proof.
  intros protos protos' w Hp Hlin Hdist. apply create_candidates_order_independent_keys; [exact Hp| | |].
  - apply lt_trans_linear; exact Hlin.
  - apply lt_weak_linear; exact Hlin.
  - intros a b Ia Ib Hab Hba Hk.
    destruct (Hlin a Ia) as [qa [Ha La]]. destruct (Hlin b Ib) as [qb [Hb Lb]].
    rewrite (lt_pp_single a b qa qb Ha Hb) in Hab by lia.
    rewrite (lt_pp_single b a qb qa Hb Ha) in Hba by lia.
    unfold pair_lt in Hab, Hba. cbn [fst snd] in Hab, Hba.
    apply (Hdist a b qa qb Ia Ib Ha Hb); [lia|lia|exact Hk].
Qed.

(* non-vacuity: three concrete protoclusters (nested, overlapping, and one sharing a start) *)
Definition nt_p (i s e cs ce : Z) : proto := mkProto i [mkPart s e 1] [mkPart cs ce 1] i [].
Definition nt_protos : list proto :=
  [nt_p 1 100 900 600 700; nt_p 2 100 500 200 300; nt_p 3 400 1200 1000 1100].
Lemma nt_protos_hyps :
  (forall p, In p nt_protos -> single_lin p) /\
  (forall a b qa qb, In a nt_protos -> In b nt_protos -> ploc a = [qa] -> ploc b = [qb] ->
                     ps qa = ps qb -> pe qa = pe qb -> a = b).
Proof.
  split.
  - intros p Ip. cbn [In nt_protos] in Ip.
    destruct Ip as [Ip|[Ip|[Ip|[]]]]; subst p; eexists; (split; [reflexivity|cbn; lia]).
  - intros a b qa qb Ia Ib Ha Hb Hs He. cbn [In nt_protos] in Ia, Ib.
    destruct Ia as [Ia|[Ia|[Ia|[]]]]; destruct Ib as [Ib|[Ib|[Ib|[]]]]; subst a b;
      try reflexivity;
      cbn in Ha, Hb; injection Ha as <-; injection Hb as <-; cbn in Hs, He; lia.
Qed.
Lemma nt_protos_no_tie : no_tie nt_protos.
Proof. apply no_tie_linear_distinct; apply nt_protos_hyps. Qed.
Lemma nt_protos_order_independent : forall protos' w,
  Permutation nt_protos protos' -> create_candidates nt_protos w = create_candidates protos' w.
Proof.
  intros protos' w Hp. apply create_candidates_order_independent_linear; [exact Hp| |]; apply nt_protos_hyps.
Qed.
(* and the formation succeeds on them (the statement is not about an error value) *)
Lemma nt_protos_runs : exists out, create_candidates nt_protos None = Ok out /\ length out = 4%nat.
Proof. eexists. split; [vm_compute; reflexivity|reflexivity]. Qed.

(* ================================================================== (3) no two candidates with the same coordinates
   and membership (linear records, single-part protoclusters) *)
Definition linP (P : list proto) : Prop := forall p, In p P -> exists q, ploc p = [q] /\ ps q < pe q.
(* (smallest start, largest end) of a list of members *)
Definition span (ms : list proto) : Z * Z :=
  (lmin (map lstart (map ploc ms)), lmax (map lend (map ploc ms))).
(* every entry of the table is stored under its own coordinates *)
Definition keys_match (t : table) : Prop := forall k c, In (k, c) t -> ckey c = k.

Lemma key_eqb_eq : forall a b, key_eqb a b = true -> a = b.
Proof. intros [a1 a2] [b1 b2] H. unfold key_eqb in H. cbn [fst snd] in H. f_equal; lia. Qed.
Lemma key_eqb_refl : forall a, key_eqb a a = true.
Proof. intros [a1 a2]. unfold key_eqb. cbn [fst snd]. lia. Qed.

Lemma ckey_single : forall c h, cloc c = [h] -> ckey c = (ps h, pe h).
Proof.
  intros c h H. unfold ckey, fstart, fend. rewrite H. unfold lstrand, last_opt. cbn [forallb rev app].
  destruct (pst h =? -1); reflexivity.
Qed.

Lemma good_linear : forall P c, linP P -> good P None c ->
  exists h, cloc c = [h] /\ ps h = fst (span (cmem c)) /\ pe h = snd (span (cmem c)).
Proof.
  intros P c Hs [[Hne Hcon] Hin]. unfold span. cbn [fst snd].
  set (locs := map ploc (cmem c)) in *.
  assert (Hsimple : ASV.C04.Proofs.simple_locs locs).
  { unfold ASV.C04.Proofs.simple_locs. apply Forall_forall. intros l Hl. unfold locs in Hl. apply in_map_iff in Hl.
    destruct Hl as [p [He Hp]]. subst l. destruct (Hs p (Hin p Hp)) as [q [Hq _]]. exists q. exact Hq. }
  assert (Hwf : Forall ASV.C04.Proofs.wf_loc locs).
  { apply Forall_forall. intros l Hl. unfold locs in Hl. apply in_map_iff in Hl.
    destruct Hl as [p [He Hp]]. subst l. destruct (Hs p (Hin p Hp)) as [q [Hq Hlt]]. rewrite Hq.
    split; [discriminate|]. constructor; [exact Hlt|constructor]. }
  assert (Hlne : locs <> []).
  { unfold locs. destruct (cmem c); [exfalso; apply Hne; reflexivity|discriminate]. }
  destruct (ASV.C04.Proofs.connect_line_simple locs Hlne Hsimple Hwf) as [h [Hh [Hps [Hpe _]]]].
  rewrite Hcon in Hh. inversion Hh as [Hcl]. exists h. split; [exact Hcl|]. split; assumption.
Qed.

(* on a linear record the coordinates of a candidate are the span of its members *)
Lemma good_ckey : forall P c, linP P -> good P None c -> ckey c = span (cmem c).
Proof.
  intros P c Hs Hg. destruct (good_linear P c Hs Hg) as [h [Hc [H1 H2]]].
  rewrite (ckey_single c h Hc). rewrite H1, H2. symmetry. apply surjective_pairing.
Qed.

Lemma in_mstarts : forall ms v, In v (map lstart (map ploc ms)) <-> exists x, In x ms /\ lstart (ploc x) = v.
Proof.
  intros ms v. rewrite map_map. rewrite in_map_iff. split.
  - intros [x [A B]]. exists x. split; assumption.
  - intros [x [A B]]. exists x. split; assumption.
Qed.
Lemma in_mends : forall ms v, In v (map lend (map ploc ms)) <-> exists x, In x ms /\ lend (ploc x) = v.
Proof.
  intros ms v. rewrite map_map. rewrite in_map_iff. split.
  - intros [x [A B]]. exists x. split; assumption.
  - intros [x [A B]]. exists x. split; assumption.
Qed.

(* the span of a union of two member lists with one and the same span is that span *)
Lemma span_union : forall ms1 ms2 m k,
  ms1 <> [] -> span ms1 = k -> span ms2 = k ->
  (forall x, In x m -> In x ms1 \/ In x ms2) -> (forall x, In x ms1 -> In x m) -> span m = k.
Proof.
  intros ms1 ms2 m k Hne H1 H2 Hsub Hsup. subst k. unfold span in *. injection H2 as E1 E2.
  assert (Hs1 : map lstart (map ploc ms1) <> []) by (destruct ms1; [congruence|discriminate]).
  assert (He1 : map lend (map ploc ms1) <> []) by (destruct ms1; [congruence|discriminate]).
  assert (Hmne : m <> []).
  { destruct ms1 as [|x r]; [congruence|]. intro Hm. pose proof (Hsup x (or_introl eq_refl)) as Hx.
    rewrite Hm in Hx. destruct Hx. }
  assert (Hsm : map lstart (map ploc m) <> []) by (destruct m; [congruence|discriminate]).
  assert (Hem : map lend (map ploc m) <> []) by (destruct m; [congruence|discriminate]).
  f_equal.
  - apply Z.le_antisymm.
    + apply ASV.C04.Proofs.lmin_le.
      pose proof (ASV.C04.Proofs.lmin_in _ Hs1) as Hin. apply in_mstarts in Hin. destruct Hin as [x [Hx Hv]].
      apply in_mstarts. exists x. split; [apply Hsup; exact Hx|exact Hv].
    + pose proof (ASV.C04.Proofs.lmin_in _ Hsm) as Hin. apply in_mstarts in Hin. destruct Hin as [x [Hx Hv]].
      rewrite <- Hv. destruct (Hsub x Hx) as [Hx1|Hx2].
      * apply ASV.C04.Proofs.lmin_le. apply in_mstarts. exists x. split; [exact Hx1|reflexivity].
      * rewrite <- E1. apply ASV.C04.Proofs.lmin_le. apply in_mstarts. exists x. split; [exact Hx2|reflexivity].
  - apply Z.le_antisymm.
    + pose proof (ASV.C04.Proofs.lmax_in _ Hem) as Hin. apply in_mends in Hin. destruct Hin as [x [Hx Hv]].
      rewrite <- Hv. destruct (Hsub x Hx) as [Hx1|Hx2].
      * apply ASV.C04.Proofs.lmax_ge. apply in_mends. exists x. split; [exact Hx1|reflexivity].
      * rewrite <- E2. apply ASV.C04.Proofs.lmax_ge. apply in_mends. exists x. split; [exact Hx2|reflexivity].
    + apply ASV.C04.Proofs.lmax_ge.
      pose proof (ASV.C04.Proofs.lmax_in _ He1) as Hin. apply in_mends in Hin. destruct Hin as [x [Hx Hv]].
      apply in_mends. exists x. split; [apply Hsup; exact Hx|exact Hv].
Qed.

(* iteration of a set without repeated ids loses nothing *)
Lemma In_set_insert_keep : forall (x y : proto) l, In y l -> In y (set_insert x l).
Proof.
  intros x y. induction l as [|a r IH]; intro H; [destruct H|]. cbn [set_insert].
  destruct (pid x <? pid a); [right; exact H|]. destruct (pid x =? pid a); [exact H|].
  destruct H as [H|H]; [left; exact H|right; exact (IH H)].
Qed.
Lemma In_set_insert_new : forall (x : proto) l, ~ inS (pid x) l -> In x (set_insert x l).
Proof.
  intros x. induction l as [|a r IH]; intro H; cbn [set_insert]; [left; reflexivity|].
  destruct (pid x <? pid a); [left; reflexivity|]. destruct (pid x =? pid a) eqn:E.
  - exfalso. apply H. unfold inS. cbn [map In]. left. lia.
  - right. apply IH. intro Hr. apply H. unfold inS in *. cbn [map In]. right. exact Hr.
Qed.
Lemma In_iter_ndg : forall l x, ndg l -> In x l -> In x (iter l).
Proof.
  induction l as [|a r IH]; intros x Hnd Hx; [destruct Hx|].
  unfold ndg in Hnd. cbn [map] in Hnd. inversion Hnd as [|? ? Hn Hr]; subst.
  unfold iter. cbn [fold_right]. change (fold_right set_insert [] r) with (iter r).
  destruct Hx as [Hx|Hx].
  - subst x. apply In_set_insert_new. intro Hi. apply (proj1 (inS_iter _ _)) in Hi. exact (Hn Hi).
  - apply In_set_insert_keep. apply IH; [exact Hr|exact Hx].
Qed.

Lemma tset_In_cases : forall k c t k' c',
  In (k', c') (tset k c t) -> In (k', c') t \/ (c' = c /\ key_eqb k k' = true).
Proof.
  intros k c. induction t as [|[k0 c0] r IH]; intros k' c' H; cbn [tset] in H.
  - destruct H as [H|[]]. inversion H; subst. right. split; [reflexivity|apply key_eqb_refl].
  - destruct (key_eqb k k0) eqn:E.
    + destruct H as [H|H]; [inversion H; subst; right; split; [reflexivity|exact E]|left; right; exact H].
    + destruct H as [H|H]; [left; left; exact H|].
      destruct (IH k' c' H) as [A|A]; [left; right; exact A|right; exact A].
Qed.

Lemma tget_key : forall k t c, tget k t = Some c -> exists k', In (k', c) t /\ key_eqb k k' = true.
Proof.
  intros k. induction t as [|[k0 c0] r IH]; intros c H; cbn [tget] in H; [discriminate H|].
  destruct (key_eqb k k0) eqn:E.
  - inversion H; subst. exists k0. split; [left; reflexivity|exact E].
  - destruct (IH c H) as [k' [A B]]. exists k'. split; [right; exact A|exact B].
Qed.

Lemma tget_of_entry : forall t k c, keys_distinct t -> In (k, c) t -> tget k t = Some c.
Proof.
  induction t as [|[k0 c0] r IH]; intros k c HK Hin; [destruct Hin|].
  cbn [keys_distinct] in HK. destruct HK as [H1 H2]. cbn [tget]. destruct Hin as [Hin|Hin].
  - inversion Hin; subst. rewrite key_eqb_refl. reflexivity.
  - rewrite key_eqb_sym. rewrite (H1 k c Hin). exact (IH k c H2 Hin).
Qed.

Lemma In_tvalues : forall (t : table) c, In c (tvalues t) <-> exists k, In (k, c) t.
Proof.
  intros t c. unfold tvalues. rewrite in_map_iff. split.
  - intros [[k c'] [A B]]. cbn [snd] in A. subst c'. exists k. exact B.
  - intros [k H]. exists (k, c). split; [reflexivity|exact H].
Qed.

(* one group of build_candidates *)
Lemma build_go_split : forall w kind group rest existing singles e s,
  build_go w kind (group :: rest) existing singles = Ok (e, s) ->
  exists e1 s1, build_go w kind [group] existing singles = Ok (e1, s1) /\ build_go w kind rest e1 s1 = Ok (e, s).
Proof.
  intros w kind group rest existing singles e s H. cbn [build_go] in *.
  destruct (negb ((kind =? K_SINGLE) || (1 <? zlen group))); [discriminate H|].
  destruct (mk_cand w kind (ordered_list group)) as [candidate|k]; cbn [bind] in *; [|discriminate H].
  destruct (tget (ckey candidate) existing) as [ex|].
  - destruct (is_empty (iter (diff group (iter (cmem ex))))).
    + do 2 eexists. split; [reflexivity|exact H].
    + destruct (mk_cand w (ckind ex) (ordered_list (iter (cmem ex) ++ iter (diff group (iter (cmem ex))))))
        as [replacement|k]; cbn [bind] in *; [|discriminate H].
      do 2 eexists. split; [reflexivity|exact H].
  - do 2 eexists. split; [reflexivity|exact H].
Qed.

Lemma build_go_step_match : forall P kind group existing singles e1 s1, linP P ->
  build_go None kind [group] existing singles = Ok (e1, s1) ->
  incl group P -> keys_match existing ->
  (forall c, In c (tvalues existing) -> good P None c) ->
  (forall c, In c (tvalues existing) -> ndg (cmem c)) ->
  keys_match e1.
Proof.
  intros P kind group existing singles e1 s1 Hs H Hgroup HK HE HN. cbn [build_go] in H.
  destruct (negb ((kind =? K_SINGLE) || (1 <? zlen group))); [discriminate H|].
  destruct (mk_cand None kind (ordered_list group)) as [candidate|k] eqn:Ec; cbn [bind] in H; [|discriminate H].
  destruct (mk_cand_wfc _ _ _ _ Ec) as [Wc [Mc _]].
  assert (Hcand : good P None candidate).
  { split; [exact Wc|]. rewrite Mc. intros x Hx. apply Hgroup. apply In_ordered_list. exact Hx. }
  pose proof (good_ckey P candidate Hs Hcand) as Kc. rewrite Mc in Kc.
  destruct (tget (ckey candidate) existing) as [ex|] eqn:Et.
  - destruct (tget_key _ _ _ Et) as [k' [Hin Hk']]. apply key_eqb_eq in Hk'. subst k'.
    pose proof (HK _ _ Hin) as Kex.
    assert (Hinv : In ex (tvalues existing)) by (apply In_tvalues; exists (ckey candidate); exact Hin).
    pose proof (HE ex Hinv) as Gex. pose proof (HN ex Hinv) as Nex.
    destruct (is_empty (iter (diff group (iter (cmem ex))))).
    + inversion H; subst. exact HK.
    + destruct (mk_cand None (ckind ex) (ordered_list (iter (cmem ex) ++ iter (diff group (iter (cmem ex))))))
        as [replacement|k] eqn:Er; cbn [bind] in H; [|discriminate H].
      inversion H; subst e1 s1; clear H.
      destruct (mk_cand_wfc _ _ _ _ Er) as [Wr [Mr _]].
      assert (Hsub : forall x, In x (cmem replacement) -> In x (cmem ex) \/ In x (ordered_list group)).
      { intros x Hx. rewrite Mr in Hx. apply (proj1 (In_ordered_list _ _)) in Hx. apply in_app_or in Hx.
        destruct Hx as [Hx|Hx].
        - left. apply In_iter. exact Hx.
        - right. apply In_ordered_list. apply In_iter in Hx. apply In_diff in Hx. exact Hx. }
      assert (Hsup : forall x, In x (cmem ex) -> In x (cmem replacement)).
      { intros x Hx. rewrite Mr. apply In_ordered_list. apply in_or_app. left. apply In_iter_ndg; assumption. }
      assert (Hrep : good P None replacement).
      { split; [exact Wr|]. intros x Hx. destruct (Hsub x Hx) as [A|A].
        - exact (proj2 Gex x A).
        - apply Hgroup. apply In_ordered_list. exact A. }
      intros k c Hc. apply tset_In_cases in Hc. destruct Hc as [Hc|[Hc Hk]]; [exact (HK k c Hc)|].
      subst c. apply key_eqb_eq in Hk. subst k.
      rewrite (good_ckey P replacement Hs Hrep).
      apply (span_union (cmem ex) (ordered_list group)).
      * exact (proj1 (proj1 Gex)).
      * rewrite <- (good_ckey P ex Hs Gex). exact Kex.
      * symmetry. exact Kc.
      * exact Hsub.
      * exact Hsup.
  - inversion H; subst e1 s1; clear H.
    intros k c Hc. apply tset_In_cases in Hc. destruct Hc as [Hc|[Hc Hk]]; [exact (HK k c Hc)|].
    subst c. apply key_eqb_eq in Hk. exact Hk.
Qed.

(* the invariant of the table of build_candidates on a linear record *)
Definition tinv (P : list proto) (t : table) : Prop :=
  keys_distinct t /\ keys_match t /\
  (forall c, In c (tvalues t) -> good P None c) /\ (forall c, In c (tvalues t) -> ndg (cmem c)).

Lemma build_go_keys_match : forall P kind groups existing singles e s, linP P ->
  build_go None kind groups existing singles = Ok (e, s) ->
  allin P groups -> (forall g, In g groups -> ndg g) -> incl singles P -> tinv P existing ->
  tinv P e /\ incl s P.
Proof.
  intros P kind. induction groups as [|group rest IH]; intros existing singles e s Hs H HG HNg HS HT.
  - cbn [build_go] in H. inversion H; subst. split; assumption.
  - destruct (build_go_split _ _ _ _ _ _ _ _ H) as [e1 [s1 [H1 H2]]].
    destruct HT as [T1 [T2 [T3 T4]]].
    assert (HG1 : allin P [group]).
    { intros g x [Hg|[]] Hx. subst g. exact (HG group x (or_introl eq_refl) Hx). }
    assert (HGr : allin P rest) by (intros g x Hg Hx; exact (HG g x (or_intror Hg) Hx)).
    destruct (build_go_good P _ _ _ _ _ _ _ H1 HG1 T3 HS) as [G1 S1].
    apply (IH e1 s1 e s Hs H2 HGr).
    + intros g Hg. exact (HNg g (or_intror Hg)).
    + exact S1.
    + split; [|split; [|split]].
      * exact (build_go_keys_distinct _ _ _ _ _ _ _ H1 T1).
      * apply (build_go_step_match P kind group existing singles e1 s1 Hs H1); try assumption.
        intros x Hx. exact (HG group x (or_introl eq_refl) Hx).
      * exact G1.
      * apply (build_go_ndg _ _ _ _ _ _ _ H1); [|exact T4].
        intros g [Hg|[]]. subst g. exact (HNg group (or_introl eq_refl)).
Qed.

Lemma build_candidates_tinv : forall P kind groups existing singles cs e s, linP P ->
  build_candidates None kind groups existing singles = Ok (cs, e, s) ->
  allin P groups -> (forall g, In g groups -> ndg g) -> incl singles P -> tinv P existing ->
  cs = sort_by lt_cc (tvalues e) /\ tinv P e /\ incl s P.
Proof.
  intros P kind groups existing singles cs e s Hs H HG HN HS HT. unfold build_candidates in H.
  destruct (build_go None kind groups existing singles) as [[e0 s0]|k] eqn:Eb; cbn [bind] in H; [|discriminate H].
  inversion H; subst; clear H. split; [reflexivity|].
  exact (build_go_keys_match P kind groups existing singles e s Hs Eb HG HN HS HT).
Qed.

(* the formation on a linear record: the table after the three passes, and the final singles *)
Lemma formation_body_shape : forall protos cands, linP protos -> formation_body protos None = Ok cands ->
  exists e3 l ss, cands = sort_by lt_cc (tvalues e3) ++ ss /\ tinv protos e3 /\
                  singles_go None e3 l = Ok ss /\ ndg l /\ incl l protos.
Proof.
  intros protos cands Hs H. unfold formation_body in H. cbv zeta in H.
  destruct (find_hybrids (ordered_list protos) None) as [[hg un1]|k] eqn:E1; cbn [bind] in H; [|discriminate H].
  destruct (find_hybrids_allin _ _ _ _ E1) as [A1 B1].
  pose proof (find_hybrids_ndg _ _ _ _ E1) as N1.
  assert (HP : incl (ordered_list protos) protos) by (intros x Hx; exact (proj1 (In_ordered_list _ _) Hx)).
  assert (A1' : allin protos hg) by (intros g x Hg Hx; exact (HP x (A1 g x Hg Hx))).
  assert (B1' : incl un1 protos) by (intros x Hx; exact (HP x (B1 x Hx))).
  assert (T0 : tinv protos []).
  { split; [exact I|]. split; [intros k c []|]. split; intros c []. }
  destruct (build_candidates None K_HYBRID hg [] []) as [[[c1 e1] s1]|k] eqn:E2; cbn [bind] in H; [|discriminate H].
  destruct (build_candidates_tinv protos _ _ _ _ _ _ _ Hs E2 A1' N1 (fun x (Hx : In x []) => match Hx with end) T0)
    as [C1 [T1 S1]].
  assert (G1 : forall c, In c c1 -> good protos None c).
  { intros c Hc. rewrite C1 in Hc. apply sort_by_in in Hc. exact (proj1 (proj2 (proj2 T1)) c Hc). }
  destruct (find_interleaved un1 c1 None) as [[ig un2]|k] eqn:E3; cbn [bind] in H; [|discriminate H].
  destruct (find_interleaved_allin protos _ _ _ _ _ E3 B1') as [A3 B3]; [intros c Hc; exact (proj2 (G1 c Hc))|].
  pose proof (find_interleaved_ndg _ _ _ _ _ E3) as N3.
  assert (B3' : incl un2 protos) by (intros x Hx; exact (B1' x (B3 x Hx))).
  destruct (build_candidates None K_INTERLEAVED ig e1 s1) as [[[c2 e2] s2]|k] eqn:E4; cbn [bind] in H; [|discriminate H].
  destruct (build_candidates_tinv protos _ _ _ _ _ _ _ Hs E4 A3 N3 S1 T1) as [C2 [T2 S2]].
  assert (G2 : forall c, In c c2 -> good protos None c).
  { intros c Hc. rewrite C2 in Hc. apply sort_by_in in Hc. exact (proj1 (proj2 (proj2 T2)) c Hc). }
  destruct (build_candidates None K_NEIGHBOURING (find_neighbouring un2 c2) e2 s2) as [[[c3 e3] s3]|k] eqn:E5;
    cbn [bind] in H; [|discriminate H].
  assert (A5 : allin protos (find_neighbouring un2 c2)).
  { apply find_neighbouring_allin; [exact B3'|intros c Hc; exact (proj2 (G2 c Hc))]. }
  assert (N5 : forall g, In g (find_neighbouring un2 c2) -> ndg g).
  { intros g Hg. unfold find_neighbouring in Hg. cbv zeta in Hg. exact (ndg_merge_sets _ _ Hg). }
  destruct (build_candidates_tinv protos _ _ _ _ _ _ _ Hs E5 A5 N5 S2 T2) as [C3 [T3 S3]].
  destruct (singles_go None e3 (ordered_set (un2 ++ s3))) as [ss|k] eqn:E6; cbn [bind] in H; [|discriminate H].
  inversion H; subst cands; clear H.
  exists e3, (ordered_set (un2 ++ s3)), ss. split; [rewrite C3; reflexivity|]. split; [exact T3|].
  split; [exact E6|]. split; [apply ndg_ordered_set|].
  intros x Hx. apply In_ordered_set in Hx. apply in_app_or in Hx. destruct Hx as [Hx|Hx]; [exact (B3' x Hx)|exact (S3 x Hx)].
Qed.

(* same coordinates and same membership *)
Definition same_cand (a b : cand) : Prop :=
  cloc a = cloc b /\ (forall i, inS i (cmem a) <-> inS i (cmem b)).

Lemma same_cand_sym : forall a b, ~ same_cand a b -> ~ same_cand b a.
Proof.
  intros a b H [H1 H2]. apply H. split; [symmetry; exact H1|]. intro i. symmetry. apply H2.
Qed.

Lemma FOP_perm : forall A (R : A -> A -> Prop) l l', (forall a b, R a b -> R b a) ->
  Permutation l l' -> ForallOrdPairs R l -> ForallOrdPairs R l'.
Proof.
  intros A R l l' Hsym Hp. induction Hp as [|x l l' Hp IH|x y l|l l' l'' Hp1 IH1 Hp2 IH2]; intro H.
  - exact H.
  - inversion H as [|? ? HF HR]; subst. constructor; [|exact (IH HR)].
    rewrite Forall_forall in *. intros z Hz. apply HF. apply (Permutation_in _ (Permutation_sym Hp)). exact Hz.
  - inversion H as [|? ? HF HR]; subst. inversion HR as [|? ? HF' HR']; subst.
    inversion HF as [|? ? Hyx HFy]; subst.
    constructor; [constructor; [apply Hsym; exact Hyx|exact HF']|constructor; [exact HFy|exact HR']].
  - exact (IH2 (IH1 H)).
Qed.

Lemma FOP_app : forall A (R : A -> A -> Prop) l1 l2,
  ForallOrdPairs R l1 -> ForallOrdPairs R l2 -> (forall a b, In a l1 -> In b l2 -> R a b) ->
  ForallOrdPairs R (l1 ++ l2).
Proof.
  intros A R. induction l1 as [|x r IH]; intros l2 H1 H2 Hx; cbn [app]; [exact H2|].
  inversion H1 as [|? ? HF HR]; subst. constructor.
  - apply Forall_forall. intros z Hz. apply in_app_or in Hz. destruct Hz as [Hz|Hz].
    + rewrite Forall_forall in HF. exact (HF z Hz).
    + apply Hx; [left; reflexivity|exact Hz].
  - apply IH; [exact HR|exact H2|]. intros a b Ha Hb. apply Hx; [right; exact Ha|exact Hb].
Qed.

Lemma FOP_split : forall A (R : A -> A -> Prop) l1 c1 l2 c2 l3,
  ForallOrdPairs R (l1 ++ c1 :: l2 ++ c2 :: l3) -> R c1 c2.
Proof.
  intros A R. induction l1 as [|x r IH]; intros c1 l2 c2 l3 H; cbn [app] in H;
    inversion H as [|? ? HF HR]; subst.
  - rewrite Forall_forall in HF. apply HF. apply in_or_app. right. left. reflexivity.
  - exact (IH c1 l2 c2 l3 HR).
Qed.

(* candidates of the table: different keys, hence different coordinates *)
Lemma table_FOP : forall t, keys_distinct t -> keys_match t ->
  ForallOrdPairs (fun a b => ~ same_cand a b) (tvalues t).
Proof.
  induction t as [|[k c] r IH]; intros HD HM; [constructor|].
  change (tvalues ((k, c) :: r)) with (c :: tvalues r).
  cbn [keys_distinct] in HD. destruct HD as [D1 D2]. constructor.
  - apply Forall_forall. intros c' Hc' [Hloc _]. apply In_tvalues in Hc'. destruct Hc' as [k' Hk'].
    pose proof (D1 k' c' Hk') as E.
    assert (Ka : ckey c = k) by (apply HM; left; reflexivity).
    assert (Kb : ckey c' = k') by (apply HM; right; exact Hk').
    assert (Kk : k = k') by (rewrite <- Ka, <- Kb; unfold ckey; rewrite Hloc; reflexivity).
    rewrite <- Kk in E. rewrite key_eqb_refl in E. discriminate E.
  - apply IH; [exact D2|]. intros k0 c0 H0. apply HM. right. exact H0.
Qed.

(* the final singles: one per protocluster of an id-duplicate-free list, each for a protocluster that is not a
   member of the table candidate with its coordinates *)
Lemma singles_go_info : forall w existing l ss, singles_go w existing l = Ok ss -> ndg l ->
  ForallOrdPairs (fun a b => ~ same_cand a b) ss /\
  (forall c, In c ss -> exists p, In p l /\ cmem c = [p] /\
     match tget (fstart (ploc p), fend (ploc p)) existing with
     | Some ex => pmem p (cmem ex) | None => false end = false).
Proof.
  intros w existing. induction l as [|q r IH]; intros ss H Hnd; cbn [singles_go] in H.
  - inversion H; subst. split; [constructor|intros c []].
  - assert (Hr : ndg r) by (unfold ndg in *; cbn [map] in Hnd; inversion Hnd; assumption).
    assert (Hq : ~ In (pid q) (map pid r)) by (unfold ndg in Hnd; cbn [map] in Hnd; inversion Hnd; assumption).
    destruct (match tget (fstart (ploc q), fend (ploc q)) existing with
              | Some ex => pmem q (cmem ex) | None => false end) eqn:Eskip.
    + destruct (IH ss H Hr) as [A B]. split; [exact A|]. intros c Hc.
      destruct (B c Hc) as [p [P1 P2]]. exists p. split; [right; exact P1|exact P2].
    + destruct (mk_cand w K_SINGLE [q]) as [c0|k] eqn:Ec; cbn [bind] in H; [|discriminate H].
      destruct (singles_go w existing r) as [cs|k] eqn:Er; cbn [bind] in H; [|discriminate H].
      inversion H; subst ss; clear H.
      assert (X : ForallOrdPairs (fun a b => ~ same_cand a b) cs /\
                  (forall c, In c cs -> exists p, In p r /\ cmem c = [p] /\
                     match tget (fstart (ploc p), fend (ploc p)) existing with
                     | Some ex => pmem p (cmem ex) | None => false end = false)).
      { first [exact (IH cs Er Hr)|exact (IH cs eq_refl Hr)]. }
      destruct X as [A B]. destruct (mk_cand_members _ _ _ _ Ec) as [Mq _]. split.
      * constructor; [|exact A]. apply Forall_forall. intros c' Hc' [_ Hsame].
        destruct (B c' Hc') as [p [P1 [P2 _]]]. apply Hq.
        assert (Hi : inS (pid q) (cmem c')).
        { apply Hsame. rewrite Mq. unfold inS. cbn [map In]. left. reflexivity. }
        rewrite P2 in Hi. unfold inS in Hi. cbn [map In] in Hi. destruct Hi as [Hi|[]].
        rewrite <- Hi. apply in_map. exact P1.
      * intros c [Hc|Hc].
        -- subst c. exists q. split; [left; reflexivity|]. split; [exact Mq|exact Eskip].
        -- destruct (B c Hc) as [p [P1 P2]]. exists p. split; [right; exact P1|exact P2].
Qed.

Lemma pkey_single : forall p q, ploc p = [q] -> (fstart (ploc p), fend (ploc p)) = span [p].
Proof.
  intros p q H. unfold span. cbn [map]. rewrite H.
  unfold fstart, fend, lstrand, last_opt, lstart, lend.
  cbn [map forallb rev app lmin lmax fold_left]. destruct (pst q =? -1); reflexivity.
Qed.

(* the returned list never holds two candidates with the same coordinates and the same membership *)
Lemma formation_unique_linear : forall protos cands, linP protos -> formation_body protos None = Ok cands ->
  exists pre, Permutation pre cands /\ ForallOrdPairs (fun a b => ~ same_cand a b) pre.
Proof.
  intros protos cands Hs E.
  destruct (formation_body_shape protos cands Hs E) as [e3 [l [ss [Hc [[T1 [T2 [T3 T4]]] [Hsg [Hnd Hincl]]]]]]].
  exists (tvalues e3 ++ ss). split.
  - rewrite Hc. apply Permutation_app_tail. apply Permutation_sym. apply sort_by_perm.
  - destruct (singles_go_info _ _ _ _ Hsg Hnd) as [A B].
    apply FOP_app; [exact (table_FOP e3 T1 T2)|exact A|].
    intros a b Ha Hb [Hloc Hmem].
    destruct (B b Hb) as [p [Pl [Pm Pskip]]].
    pose proof (proj1 (singles_go_good protos None e3 l ss Hsg Hincl b Hb)) as Gb.
    pose proof (good_ckey protos b Hs Gb) as Kb. rewrite Pm in Kb.
    destruct (Hs p (Hincl p Pl)) as [q [Hq _]].
    rewrite <- (pkey_single p q Hq) in Kb.
    assert (Kab : ckey a = ckey b) by (unfold ckey; rewrite Hloc; reflexivity).
    apply In_tvalues in Ha. destruct Ha as [k Hk].
    pose proof (T2 k a Hk) as Ka.
    pose proof (tget_of_entry e3 k a T1 Hk) as Hget.
    assert (Kk : k = (fstart (ploc p), fend (ploc p))) by (rewrite <- Ka, Kab; exact Kb).
    rewrite <- Kk in Pskip. rewrite Hget in Pskip.
    assert (Hi : inS (pid p) (cmem a)).
    { apply Hmem. rewrite Pm. unfold inS. cbn [map In]. left. reflexivity. }
    apply pmem_inS in Hi. rewrite Hi in Pskip. discriminate Pskip.
Qed.

Theorem unique_linear : forall protos out, create_candidates protos None = Ok out ->
  (forall p, In p protos -> exists q, ploc p = [q] /\ ps q < pe q) ->
  forall c1 c2 l1 l2 l3, out = l1 ++ c1 :: l2 ++ c2 :: l3 ->
    ~ (cloc c1 = cloc c2 /\ (forall i, inS i (cmem c1) <-> inS i (cmem c2))).
Proof.
  intros protos out H Hs c1 c2 l1 l2 l3 Hout.
  change (~ same_cand c1 c2).
  assert (HF : ForallOrdPairs (fun a b => ~ same_cand a b) out).
  { unfold create_candidates in H. destruct protos as [|p0 ps0]; [inversion H; constructor|].
    destruct (formation_body (p0 :: ps0) None) as [cands|k] eqn:E; cbn [bind] in H; [|discriminate H].
    destruct (negb (assigned_count cands =? zlen (p0 :: ps0))); [discriminate H|].
    inversion H as [Ho]; clear H.
    destruct (formation_unique_linear (p0 :: ps0) cands Hs E) as [pre [Hp HFp]].
    apply (FOP_perm cand _ pre); [exact same_cand_sym| |exact HFp].
    apply Permutation_trans with cands; [exact Hp|]. apply Permutation_sym. apply sort_by_perm. }
  rewrite Hout in HF. exact (FOP_split cand _ l1 c1 l2 c2 l3 HF).
Qed.

(* ================================================================== audit *)
End Order.

(* ---------- regression witnesses of the repaired findings about the meaning of the kinds (linear records) ---------- *)
Definition kw_p (i s e cs ce : Z) (defs : list Z) : proto := mkProto i [mkPart s e 1] [mkPart cs ce 1] i defs.
(* both members of a pair are members of one candidate of the list whose kind is in `kinds` *)
Definition together (kinds : list Z) (x y : proto) (out : list cand) : bool :=
  existsb (fun c => zmem (ckind c) kinds && pmem x (cmem c) && pmem y (cmem c)) out.
Definition all_kinds : list Z := [K_SINGLE; K_INTERLEAVED; K_NEIGHBOURING; K_HYBRID].
Definition kinds_ok (protos : list proto) (out : list cand) : bool :=
  forallb (fun b => b) (kind_clauses protos None (map to_ocand out)).
Definition view (out : list cand) : list (Z * list Z) := map (fun c => (ckind c, map pid (cmem c))) out.

(* candidate_index_window, interleaved: hybrid {0,1} [0,1000) with joint core [100,900) sorts first, the short
   hybrids {2,3} and {4,5} follow; protocluster 6 (core [890,950), overlapping the core of 0) has insertion
   point 3, so before the repair only candidates[2:] = [{4,5}] was looked at and 6 was not interleaved with 0.
   Now: one INTERLEAVED candidate holds 0 and 6 (it has the coordinates of the neighbouring group of all seven, which
   is therefore merged into it), every kind clause holds.  `old` = the historical variant with the window *)
Definition wi_protos : list proto :=
  [kw_p 0 0 1000 100 900 [0]; kw_p 1 0 1000 100 120 [0]; kw_p 2 10 20 12 14 [1]; kw_p 3 10 20 11 15 [1];
   kw_p 4 30 40 32 34 [2]; kw_p 5 30 40 31 35 [2]; kw_p 6 880 1100 890 950 []].
Lemma window_interleaved_witness :
  exists out old,
    create_candidates wi_protos None = Ok out /\ create_candidates_v false true wi_protos None = Ok old /\
    rel_I (kw_p 0 0 1000 100 900 [0]) (kw_p 6 880 1100 890 950 []) = true /\
    view out = [(K_INTERLEAVED, [0; 1; 2; 3; 4; 5; 6]); (K_HYBRID, [0; 1]); (K_HYBRID, [2; 3]); (K_HYBRID, [4; 5])] /\
    together [K_INTERLEAVED] (kw_p 0 0 1000 100 900 [0]) (kw_p 6 880 1100 890 950 []) out = true /\
    kinds_ok wi_protos out = true /\
    together [K_INTERLEAVED; K_HYBRID] (kw_p 0 0 1000 100 900 [0]) (kw_p 6 880 1100 890 950 []) old = false /\
    kinds_ok wi_protos old = false.
Proof.
  destruct (create_candidates wi_protos None) as [out|k] eqn:E; vm_compute in E; [|discriminate E].
  destruct (create_candidates_v false true wi_protos None) as [old|k] eqn:R; vm_compute in R; [|discriminate R].
  inversion E as [E']. inversion R as [R']. eexists. eexists.
  split; [reflexivity|]. split; [reflexivity|]. repeat split; vm_compute; reflexivity.
Qed.

(* candidate_index_window, neighbouring: protocluster 6 [50,60) lies inside hybrid {2,3} [6,100); its insertion
   point is 3, so before the repair only candidates[2:] = [{4,5}] and candidates[0] = {0,1} were looked at and no
   candidate held 6 together with 2.  Now the group {2,3,4,5,6} is found (it has the coordinates of hybrid {2,3} and
   is merged into it, 6 keeps its single) *)
Definition wn_protos : list proto :=
  [kw_p 0 0 5 1 3 [0]; kw_p 1 0 5 1 4 [0]; kw_p 2 6 100 30 32 [1]; kw_p 3 6 100 29 33 [1];
   kw_p 4 10 20 12 14 [2]; kw_p 5 10 20 11 15 [2]; kw_p 6 50 60 52 55 []].
Lemma window_neighbouring_witness :
  exists out old,
    create_candidates wn_protos None = Ok out /\ create_candidates_v false true wn_protos None = Ok old /\
    rel_N (kw_p 2 6 100 30 32 [1]) (kw_p 6 50 60 52 55 []) = true /\
    view out = [(K_HYBRID, [0; 1]); (K_HYBRID, [2; 3; 4; 5; 6]); (K_HYBRID, [4; 5]); (K_SINGLE, [6])] /\
    together all_kinds (kw_p 2 6 100 30 32 [1]) (kw_p 6 50 60 52 55 []) out = true /\
    kinds_ok wn_protos out = true /\
    together all_kinds (kw_p 2 6 100 30 32 [1]) (kw_p 6 50 60 52 55 []) old = false /\
    kinds_ok wn_protos old = false.
Proof.
  destruct (create_candidates wn_protos None) as [out|k] eqn:E; vm_compute in E; [|discriminate E].
  destruct (create_candidates_v false true wn_protos None) as [old|k] eqn:R; vm_compute in R; [|discriminate R].
  inversion E as [E']. inversion R as [R']. eexists. eexists.
  split; [reflexivity|]. split; [reflexivity|]. repeat split; vm_compute; reflexivity.
Qed.

(* neighbouring_singles_not_linked: 4 [5,30) and 5 [25,50) overlap each other; 4 also overlaps hybrid {0,1}
   [0,10) and 5 overlaps hybrid {2,3} [45,60).  Before the repair both were dropped from `unassigned` and never
   compared: two neighbouring candidates {0,1,4} [0,30) and {5,2,3} [25,60) that overlap each other.  Now all singles
   are compared: one NEIGHBOURING candidate with all six *)
Definition ws_protos : list proto :=
  [kw_p 0 0 10 2 4 [0]; kw_p 1 0 10 1 5 [0]; kw_p 2 45 60 50 52 [1]; kw_p 3 45 60 49 53 [1];
   kw_p 4 5 30 12 14 []; kw_p 5 25 50 31 35 []].
Lemma singles_linked_witness :
  exists out old,
    create_candidates ws_protos None = Ok out /\ create_candidates_v true false ws_protos None = Ok old /\
    rel_N (kw_p 4 5 30 12 14 []) (kw_p 5 25 50 31 35 []) = true /\
    view out = [(K_NEIGHBOURING, [0; 1; 4; 5; 2; 3]); (K_HYBRID, [0; 1]); (K_SINGLE, [4]); (K_SINGLE, [5]); (K_HYBRID, [2; 3])] /\
    together [K_NEIGHBOURING] (kw_p 4 5 30 12 14 []) (kw_p 5 25 50 31 35 []) out = true /\
    kinds_ok ws_protos out = true /\
    view (filter (fun c => ckind c =? K_NEIGHBOURING) old) = [(K_NEIGHBOURING, [0; 1; 4]); (K_NEIGHBOURING, [5; 2; 3])] /\
    kinds_ok ws_protos old = false.
Proof.
  destruct (create_candidates ws_protos None) as [out|k] eqn:E; vm_compute in E; [|discriminate E].
  destruct (create_candidates_v true false ws_protos None) as [old|k] eqn:R; vm_compute in R; [|discriminate R].
  inversion E as [E']. inversion R as [R']. eexists. eexists.
  split; [reflexivity|]. split; [reflexivity|]. repeat split; vm_compute; reflexivity.
Qed.

(* ---------- regression witness of the repaired finding supply_order_same_key_groups ---------- *)
(* 2 and 3 have the same location [5,165) and the same core [20,160) (different products, different defining
   genes): the hybrid groups {0,2} (gene 1) and {1,3} (gene 0) both span [5,165), build_candidates unites them and
   only the members of the LATER group get an extra single.  Before the repair, which group is later followed the
   supply order of 2, 3 (sorted() is stable): SINGLE 1 for the order 2, 3 and SINGLE 0 for 3, 2.  Now
   `_ordered(protoclusters)` puts 3 (product 3) before 2 (product 7) whatever the supply order: SINGLE 0 in both
   (instance of create_candidates_order_independent_keys_linear: the (coordinates, product, core) triples differ) *)
Definition od_p (i s e cs ce prod : Z) (defs : list Z) : proto := mkProto i [mkPart s e 1] [mkPart cs ce 1] prod defs.
Definition od_0 := od_p 0 105 165 105 160 2 [1].
Definition od_1 := od_p 1 25 150 25 110 4 [0].
Definition od_2 := od_p 2 5 165 20 160 7 [1].
Definition od_3 := od_p 3 5 165 20 160 3 [0].
Lemma order_witness_repaired :
  Permutation [od_0; od_1; od_2; od_3] [od_0; od_1; od_3; od_2] /\
  sort_by lt_pp [od_0; od_1; od_2; od_3] <> sort_by lt_pp [od_0; od_1; od_3; od_2] /\
  create_candidates [od_0; od_1; od_2; od_3] None = create_candidates [od_0; od_1; od_3; od_2] None /\
  exists o, create_candidates [od_0; od_1; od_2; od_3] None = Ok o /\
            view o = [(K_HYBRID, [3; 2; 1; 0]); (K_SINGLE, [0])].
Proof.
  split; [apply perm_skip; apply perm_skip; apply perm_swap|].
  split; [vm_compute; intros H; discriminate H|].
  split; [vm_compute; reflexivity|].
  destruct (create_candidates [od_0; od_1; od_2; od_3] None) as [o1|k] eqn:E1; vm_compute in E1; [|discriminate E1].
  inversion E1. eexists. split; [reflexivity|]. vm_compute. reflexivity.
Qed.

(* ====================================================================================================== *)
(* fourth pass: the candidate pair loop on circular records, interleaved completeness for any wrap point,    *)
(* classes of protocluster (a protocluster without defining genes)                                          *)
(* ====================================================================================================== *)
Module Ring.
Import Kinds.

(* ---------- the candidate / candidate pair loop of _find_interleaved_candidates ---------- *)
Definition cc_rel (a b : cand * loc) : bool := overlap (snd a) (snd b).
Definition cc_group (xy : (cand * loc) * (cand * loc)) : list proto := cmem (fst (fst xy)) ++ cmem (fst (snd xy)).

(* the pair loop compares every pair of positions: whatever the order of the candidates, whatever their coordinates *)
Lemma cand_pair_scan_complete : forall cc l1 a l2 b l3, cc = l1 ++ a :: l2 ++ b :: l3 ->
  overlap (snd a) (snd b) = true -> In (cmem (fst a) ++ cmem (fst b)) (find_interleaved_candidates cc).
Proof.
  intros cc l1 a l2 b l3 E Ho. subst cc. unfold find_interleaved_candidates. cbv zeta. apply in_map_iff.
  exists (a, b). split; [reflexivity|]. apply in_or_app. left. apply pairs_rel_complete. exact Ho.
Qed.

Lemma last_opt_cons2 : forall A (x y : A) r, last_opt (x :: y :: r) = last_opt (y :: r).
Proof.
  intros A x y r. unfold last_opt. cbn [rev]. destruct (rev r ++ [y]) as [|z zs] eqn:E.
  - destruct (rev r); discriminate E.
  - reflexivity.
Qed.

(* the "origin-crossing pairs" block (first against last) adds no group that the pair loop has not produced *)
Lemma origin_block_redundant : forall cc g,
  In g (find_interleaved_candidates cc) <-> In g (map cc_group (pairs_rel cc_rel cc)).
Proof.
  intros cc g. unfold find_interleaved_candidates. cbv zeta. fold cc_rel. split; intro H.
  - apply in_map_iff in H. destruct H as [[a b] [He Hab]]. apply in_map_iff. exists (a, b). split; [exact He|].
    apply in_app_or in Hab. destruct Hab as [Hab|Hab]; [exact Hab|].
    destruct cc as [|c1 [|c2 r]]; [destruct Hab|destruct Hab|].
    destruct (first_last (c1 :: c2 :: r)) as [[f l]|] eqn:Efl; [|destruct Hab].
    destruct (overlap (snd f) (snd l)) eqn:Ec; [|destruct Hab]. destruct Hab as [Hab|[]]. inversion Hab; subst f l. clear Hab.
    unfold first_last in Efl. rewrite last_opt_cons2 in Efl.
    destruct (last_opt (c2 :: r)) as [z|] eqn:El; [|discriminate Efl]. inversion Efl; subst a b. clear Efl.
    apply last_opt_In in El. cbn [pairs_rel]. apply in_or_app. left. apply in_map. apply filter_In.
    split; [exact El|exact Ec].
  - apply in_map_iff in H. destruct H as [[a b] [He Hab]]. apply in_map_iff. exists (a, b). split; [exact He|].
    apply in_or_app. left. exact Hab.
Qed.

(* ---------- interleaved, completeness for ANY wrap point (linear and circular records) ---------- *)
Lemma find_interleaved_v_groups : forall nw clusters cands w groups un,
  find_interleaved_v nw clusters cands w = Ok (groups, un) ->
  exists cc G, with_cores w cands = Ok cc /\ (forall g, In g (il_groups nw clusters cc) -> In g G) /\
               groups = merge_sets G.
Proof.
  intros nw clusters cands w groups un H. unfold find_interleaved_v in H. cbv zeta in H.
  destruct (with_cores w cands) as [cc|k] eqn:Ecc; cbn [bind] in H; [|discriminate H].
  match type of H with bind ?e _ = _ => destruct e as [[f3 g3]|k] eqn:EF end; cbn [bind] in H; [|discriminate H].
  inversion H; subst. exists cc, g3. split; [reflexivity|]. split; [|reflexivity].
  intros g Hg. destruct (Cover.find_cross_covers _ _ _ _ _ _ EF) as [A _]. apply A.
  unfold il_groups, il_hits in Hg. exact Hg.
Qed.

Theorem interleaved_complete_cc_any : forall nw clusters cands w groups un a b ka kb,
  find_interleaved_v nw clusters cands w = Ok (groups, un) ->
  In a cands -> In b cands -> a <> b -> ccore w a = Ok ka -> ccore w b = Ok kb -> overlap ka kb = true ->
  exists g, In g groups /\ subsetP (cmem a) g /\ subsetP (cmem b) g.
Proof.
  intros nw clusters cands w groups un a b ka kb H Ha Hb Hne Hka Hkb Ho.
  destruct (find_interleaved_v_groups _ _ _ _ _ _ H) as [cc [G [Ecc [Hin Egr]]]]. subst groups.
  pose proof (with_cores_fwd _ _ _ Ecc a ka Ha Hka) as Ia. pose proof (with_cores_fwd _ _ _ Ecc b kb Hb Hkb) as Ib.
  assert (Hne' : (a, ka) <> (b, kb)) by (intro He; inversion He; apply Hne; assumption).
  assert (Hg0 : exists g0, In g0 G /\ subsetP (cmem a) g0 /\ subsetP (cmem b) g0).
  { destruct (In_two_split _ _ _ _ Hne' Ia Ib) as [[l1 [l2 [l3 E]]]|[l1 [l2 [l3 E]]]].
    - exists (cmem a ++ cmem b).
      split; [|split; intros i Hi; apply inS_app; [left|right]; exact Hi].
      apply Hin. unfold il_groups. apply in_or_app. left. apply in_or_app. left.
      exact (cand_pair_scan_complete cc l1 (a, ka) l2 (b, kb) l3 E Ho).
    - exists (cmem b ++ cmem a).
      split; [|split; intros i Hi; apply inS_app; [right|left]; exact Hi].
      apply Hin. unfold il_groups. apply in_or_app. left. apply in_or_app. left.
      apply (cand_pair_scan_complete cc l1 (b, kb) l2 (a, ka) l3 E). cbn [snd]. apply overlap_true_sym. exact Ho. }
  destruct Hg0 as [g0 [Hg0 [Sa Sb]]].
  destruct (merge_sets_holds _ g0 Hg0 (subsetP_nonempty _ _ (ccore_nonempty _ _ _ Hka) Sa)) as [h [Hh Hsub]].
  exists h. split; [exact Hh|]. split; intros i Hi; apply Hsub; [apply Sa|apply Sb]; exact Hi.
Qed.

Theorem interleaved_complete_cp_any : forall clusters cands w groups un c k cl,
  find_interleaved_v true clusters cands w = Ok (groups, un) ->
  In c cands -> ccore w c = Ok k -> In cl clusters -> overlap k (pcore cl) = true ->
  exists g, In g groups /\ subsetP (cmem c) g /\ inS (pid cl) g.
Proof.
  intros clusters cands w groups un c k cl H Hc Hk Hcl Ho.
  destruct (find_interleaved_v_groups _ _ _ _ _ _ H) as [cc [G [Ecc [Hin Egr]]]]. subst groups.
  pose proof (with_cores_fwd _ _ _ Ecc c k Hc Hk) as Ic.
  assert (Hg0 : In (cmem c ++ [cl]) G).
  { apply Hin. unfold il_groups. apply in_or_app. right. apply in_map_iff. exists ((c, k), cl). split; [reflexivity|].
    apply il_hits_complete; [exact Ic|exact Hcl|exact Ho]. }
  assert (Hs0 : inS (pid cl) (cmem c ++ [cl])) by (apply inS_app; right; apply inS_single).
  assert (Hne : cmem c ++ [cl] <> []).
  { intro He. rewrite He in Hs0. apply inS_nil in Hs0. exact Hs0. }
  destruct (merge_sets_holds _ _ Hg0 Hne) as [h [Hh Hsub]].
  exists h. split; [exact Hh|]. split; [|apply Hsub; exact Hs0].
  intros i Hi. apply Hsub. apply inS_app. left. exact Hi.
Qed.

Theorem interleaved_complete_pp_any : forall nw clusters cands w groups un x y,
  find_interleaved_v nw clusters cands w = Ok (groups, un) ->
  In x clusters -> In y clusters -> x <> y ->
  (forall p, In p (pcore x) -> ps p < pe p) -> (forall p, In p (pcore y) -> ps p < pe p) ->
  overlap (pcore x) (pcore y) = true ->
  exists g, In g groups /\ inS (pid x) g /\ inS (pid y) g.
Proof.
  intros nw clusters cands w groups un x y H Hx Hy Hne Wx Wy Ho.
  destruct (find_interleaved_v_groups _ _ _ _ _ _ H) as [cc [G [Ecc [Hin Egr]]]]. subst groups.
  pose proof (sort_by_ssorted _ (fun p => lstart (pcore p)) clusters) as Hs.
  change (ssorted (fun p => lstart (pcore p)) (sort_by core_start_lt clusters)) in Hs.
  apply (sort_by_in _ core_start_lt) in Hx. apply (sort_by_in _ core_start_lt) in Hy.
  assert (Hg0 : exists g0, In g0 G /\ inS (pid x) g0 /\ inS (pid y) g0).
  { destruct (In_two_split _ _ x y Hne Hx Hy) as [[l1 [l2 [l3 E]]]|[l1 [l2 [l3 E]]]].
    - exists [x; y]. split; [|split; [left; reflexivity|right; left; reflexivity]].
      apply Hin. unfold il_groups. apply in_or_app. left. apply in_or_app. right.
      apply in_map_iff. exists (x, y). split; [reflexivity|]. rewrite E in Hs |- *.
      apply core_pairs_complete; [exact Hs|exact (overlap_hull_lt _ _ Wx Wy Ho)|exact Ho].
    - exists [y; x]. split; [|split; [right; left; reflexivity|left; reflexivity]].
      apply Hin. unfold il_groups. apply in_or_app. left. apply in_or_app. right.
      apply in_map_iff. exists (y, x). split; [reflexivity|]. rewrite E in Hs |- *.
      apply overlap_true_sym in Ho.
      apply core_pairs_complete; [exact Hs|exact (overlap_hull_lt _ _ Wy Wx Ho)|exact Ho]. }
  destruct Hg0 as [g0 [Hg0 [Sa Sb]]].
  assert (Hne0 : g0 <> []). { intro He. rewrite He in Sa. apply inS_nil in Sa. exact Sa. }
  destruct (merge_sets_holds _ g0 Hg0 Hne0) as [h [Hh Hsub]].
  exists h. split; [exact Hh|]. split; apply Hsub; assumption.
Qed.

(* ---------- classes of protocluster: a protocluster without defining genes ---------- *)
Lemma sideloaded_no_defs : forall genes p, pdefs (with_defs_k genes (p, false)) = [].
Proof. intros genes p. reflexivity. Qed.

Lemma rule_based_defs : forall genes p, pdefs (with_defs_k genes (p, true)) = private_defs genes p.
Proof. intros genes p. reflexivity. Qed.

Lemma defs_intersect_nonempty : forall a b, defs_intersect a b = true -> pdefs a <> [] /\ pdefs b <> [].
Proof.
  intros a b H. unfold defs_intersect in H. apply existsb_exists in H. destruct H as [g [Hg Hz]].
  split; intro He; rewrite He in *; [destruct Hg|]. unfold zmem in Hz. cbn [existsb] in Hz. discriminate Hz.
Qed.

(* never one of the two members of a pair handed to _merge_sets by _find_hybrids *)
Lemma no_defs_in_no_pair : forall clusters g x, In g (hybrid_pair_groups clusters) -> In x g -> pdefs x <> [].
Proof.
  intros clusters g x Hg Hx. destruct (pair_group_spec _ _ Hg) as [a [b [E [_ [_ D]]]]]. subst g.
  destruct (defs_intersect_nonempty _ _ D) as [A B].
  destruct Hx as [Hx|[Hx|[]]]; subst x; assumption.
Qed.

(* a protocluster without defining genes (sideloaded) is in a hybrid group only because its core lies inside the
   joint core of a transitive group of protoclusters sharing defining genes, none of which lacks defining genes *)
Theorem no_defs_only_by_containment : forall clusters w groups un, find_hybrids clusters w = Ok (groups, un) ->
  forall g x, In g groups -> In x g -> pdefs x = [] ->
  exists m core, In m (merge_sets (hybrid_pair_groups clusters)) /\
    connect_locations (map pcore m) w = Ok core /\ (forall y, In y m -> In y g /\ pdefs y <> []) /\
    ~ In x m /\ contains core (pcore x) = true.
Proof.
  intros clusters w groups un H g x Hg Hx Hd.
  destruct (hybrids_sound _ _ _ _ H g Hg) as [m [core [Hm [Hc [Hsub Hall]]]]].
  assert (Hmd : forall y, In y m -> pdefs y <> []).
  { intros y Hy.
    assert (Hal : allin (concat (hybrid_pair_groups clusters)) (hybrid_pair_groups clusters)).
    { intros g0 z Hg0 Hz. apply in_concat. exists g0. split; assumption. }
    pose proof (merge_sets_allin _ _ Hal m y Hm Hy) as Hin. apply in_concat in Hin. destruct Hin as [g0 [Hg0 Hz]].
    exact (no_defs_in_no_pair _ _ _ Hg0 Hz). }
  exists m, core. split; [exact Hm|]. split; [exact Hc|]. split; [intros y Hy; split; [exact (Hsub y Hy)|exact (Hmd y Hy)]|].
  destruct (Hall x Hx) as [A|[_ [B _]]].
  - exfalso. exact (Hmd x A Hd).
  - split; [intro A; exact (Hmd x A Hd)|exact B].
Qed.

(* and it is never the reason for a hybrid: two protoclusters one of which has no defining genes do not share one *)
Lemma no_defs_no_sharing : forall a b, pdefs a = [] -> defs_intersect a b = false /\ defs_intersect b a = false.
Proof.
  intros a b Hd. split.
  - destruct (defs_intersect a b) eqn:E; [|reflexivity]. destruct (defs_intersect_nonempty _ _ E) as [A _]. contradiction.
  - destruct (defs_intersect b a) eqn:E; [|reflexivity]. destruct (defs_intersect_nonempty _ _ E) as [_ A]. contradiction.
Qed.
End Ring.

(* ---------- witnesses for the statements of module Ring ---------- *)
(* a circular record of 20000 bases with three chemical hybrids: X = {0,1} crosses the origin, the core of Y = {2,3}
   overlaps the pre-origin part of the core of X, Z = {4,5} is nested in the neighbourhood of Y; 6 and 7 are lone *)
Definition r8_p (i : Z) (ext core : loc) (defs : list Z) : proto := mkProto i ext core i defs.
Definition r8_protos : list proto :=
  [ r8_p 0 [mkPart 19500 20000 1; mkPart 0 400 1] [mkPart 19800 20000 1; mkPart 0 100 1] [2];
    r8_p 1 [mkPart 19600 20000 1; mkPart 0 500 1] [mkPart 19900 20000 1; mkPart 0 200 1] [2];
    r8_p 2 [mkPart 19000 19950 1] [mkPart 19300 19850 1] [1];
    r8_p 3 [mkPart 18900 19600 1] [mkPart 19200 19400 1] [1];
    r8_p 4 [mkPart 19000 19150 1] [mkPart 19050 19100 1] [0];
    r8_p 5 [mkPart 19020 19180 1] [mkPart 19080 19140 1] [0];
    r8_p 6 [mkPart 18000 19000 1] [mkPart 18100 18200 1] [];
    r8_p 7 [mkPart 9000 11000 1] [mkPart 10000 10100 1] [] ].
(* the sorted hybrid candidates with their joint cores, as _find_interleaved_candidates receives them *)
Definition r8_cc : list (cand * loc) :=
  match (do hu <- find_hybrids (ordered_list r8_protos) (Some 20000);
         do b1 <- build_candidates (Some 20000) K_HYBRID (fst hu) [] [];
         with_cores (Some 20000) (fst (fst b1))) with
  | Ok cc => cc
  | Err _ => []
  end.
Definition ids_of (ck : cand * loc) : list Z := map pid (cmem (fst ck)).
(* NOT the code: the candidate pair loop with an early exit `if other_candidate.start > candidate.end: break`
   (the shape of the break in the protocluster/protocluster loop; sound only where .end bounds the location) *)
Fixpoint pairs_until (c : cand * loc) (rest : list (cand * loc)) : list (cand * loc) :=
  match rest with
  | [] => []
  | o :: r => if fend (cloc (fst c)) <? fstart (cloc (fst o)) then []
              else if Ring.cc_rel c o then o :: pairs_until c r else pairs_until c r
  end.
Fixpoint pairs_early_exit (cc : list (cand * loc)) : list ((cand * loc) * (cand * loc)) :=
  match cc with
  | [] => []
  | c :: r => map (fun o => (c, o)) (pairs_until c r) ++ pairs_early_exit r
  end.

Lemma ring_three_hybrids_witness :
  (exists out, create_candidates r8_protos (Some 20000) = Ok out /\
     view out = [(K_NEIGHBOURING, [0; 1; 6; 3; 2; 4; 5]); (K_INTERLEAVED, [0; 1; 3; 2]); (K_HYBRID, [0; 1]);
                 (K_SINGLE, [7]); (K_SINGLE, [6]); (K_HYBRID, [3; 2]); (K_HYBRID, [4; 5])] /\
     forallb (fun b => b) (kind_clauses r8_protos (Some 20000) (map to_ocand out)) = true) /\
  map ids_of r8_cc = [[0; 1]; [3; 2]; [4; 5]] /\
  map (fun ck => (fstart (cloc (fst ck)), fend (cloc (fst ck)))) r8_cc = [(19500, 500); (18900, 19950); (19000, 19180)] /\
  map (fun xy => (ids_of (fst xy), ids_of (snd xy))) (pairs_rel Ring.cc_rel r8_cc) = [([0; 1], [3; 2])] /\
  pairs_early_exit r8_cc = [] /\
  (match first_last r8_cc with Some (f, l) => (ids_of f, ids_of l, Ring.cc_rel f l) | None => ([], [], true) end)
  = ([0; 1], [4; 5], false).
Proof.
  split.
  - destruct (create_candidates r8_protos (Some 20000)) as [out|k] eqn:E; vm_compute in E; [|discriminate E].
    inversion E as [E']. eexists. split; [reflexivity|]. split; vm_compute; reflexivity.
  - repeat split; vm_compute; reflexivity.
Qed.

(* classes of protocluster: gene 0 carries CORE functions for the products of 0 and 1 and lies in both cores; with 1 a
   SideloadedProtocluster (flag false) its public definition_cdses is empty although add_cds recorded the gene in the
   private set: no chemical hybrid, INTERLEAVED {0,1}; were 1 rule-based the two would form a CHEMICAL_HYBRID *)
Definition sl_genes : list gene := [mkGene 0 [mkPart 300 400 1] [0; 1]].
Definition sl_protos (second_defining : bool) : list (proto * bool) :=
  [ (mkProto 0 [mkPart 50 600 1] [mkPart 100 500 1] 0 [], true);
    (mkProto 1 [mkPart 200 800 1] [mkPart 250 700 1] 1 [], second_defining);
    (mkProto 2 [mkPart 2200 2700 1] [mkPart 2250 2600 1] 3 [], false);
    (mkProto 3 [mkPart 2000 2550 1] [mkPart 2100 2500 1] 2 [], true) ].
Lemma sideloaded_witness :
  map (fun pk => private_defs sl_genes (fst pk)) (sl_protos false) = [[0]; [0]; []; []] /\
  map (fun pk => pdefs (with_defs_k sl_genes pk)) (sl_protos false) = [[0]; []; []; []] /\
  (exists out, record_create 4000 false sl_genes (sl_protos false) = Ok out /\
               view out = [(K_INTERLEAVED, [0; 1]); (K_INTERLEAVED, [3; 2])]) /\
  (exists out, record_create 4000 false sl_genes (sl_protos true) = Ok out /\
               view out = [(K_HYBRID, [0; 1]); (K_INTERLEAVED, [3; 2])]).
Proof.
  split; [vm_compute; reflexivity|]. split; [vm_compute; reflexivity|]. split.
  - destruct (record_create 4000 false sl_genes (sl_protos false)) as [out|k] eqn:E; vm_compute in E; [|discriminate E].
    inversion E. eexists. split; [reflexivity|vm_compute; reflexivity].
  - destruct (record_create 4000 false sl_genes (sl_protos true)) as [out|k] eqn:E; vm_compute in E; [|discriminate E].
    inversion E. eexists. split; [reflexivity|vm_compute; reflexivity].
Qed.

Lemma sideloaded_summary :
  (forall genes p, pdefs (with_defs_k genes (p, false)) = []) /\
  (forall genes p, pdefs (with_defs_k genes (p, true)) = private_defs genes p) /\
  (forall a b, pdefs a = [] -> defs_intersect a b = false /\ defs_intersect b a = false) /\
  (forall clusters g x, In g (hybrid_pair_groups clusters) -> In x g -> pdefs x <> []).
Proof.
  split; [exact Ring.sideloaded_no_defs|]. split; [exact Ring.rule_based_defs|].
  split; [exact Ring.no_defs_no_sharing|exact Ring.no_defs_in_no_pair].
Qed.
