(* C05 - lemmas and proofs. *)
From ASV Require Import Base Loc.
From ASV.C05 Require Import Model.
From ASV.C04 Require Proofs.
From Coq Require Import Lia ZifyBool Permutation Setoid.

(* ---------- sets of protoclusters as lists: membership by id ---------- *)
Definition inS (i : Z) (g : list proto) : Prop := In i (map pid g).
Definition disjointP (a b : list proto) : Prop := forall i, inS i a -> inS i b -> False.
Definition subsetP (a b : list proto) : Prop := forall i, inS i a -> inS i b.
Definition inAny (i : Z) (L : list (list proto)) : Prop := exists s, In s L /\ inS i s.
Definition subAny (g : list proto) (L : list (list proto)) : Prop := exists s, In s L /\ subsetP g s.

(* an output group is built from input groups by uniting sets that share a protocluster *)
Inductive built (G : list (list proto)) : list proto -> Prop :=
| built_in : forall g, In g G -> built G g
| built_union : forall a b, built G a -> built G b -> disjoint a b = false -> built G (union a b).
Definition bE (G : list (list proto)) (s : list proto) : Prop := s = [] \/ built G s.

Lemma pmem_inS : forall p g, pmem p g = true <-> inS (pid p) g.
Proof.
  intros p g. unfold pmem, inS. rewrite existsb_exists. split.
  - intros [q [Hq He]]. apply Z.eqb_eq in He. rewrite <- He. apply in_map. exact Hq.
  - intro H. apply in_map_iff in H. destruct H as [q [He Hq]]. exists q. split; [exact Hq|].
    apply Z.eqb_eq. exact He.
Qed.

Lemma disjoint_spec : forall a b, disjoint a b = true <-> disjointP a b.
Proof.
  intros a b. unfold disjoint, disjointP. split.
  - intros H i Ha Hb. apply negb_true_iff in H.
    apply in_map_iff in Ha. destruct Ha as [x [Hx Hin]].
    assert (Hex : existsb (fun x0 => pmem x0 b) a = true).
    { apply existsb_exists. exists x. split; [exact Hin|]. apply pmem_inS. rewrite Hx. exact Hb. }
    rewrite Hex in H. discriminate H.
  - intro H. destruct (existsb (fun x => pmem x b) a) eqn:E; [|reflexivity].
    apply existsb_exists in E. destruct E as [x [Hin Hm]]. apply pmem_inS in Hm.
    exfalso. apply (H (pid x)); [|exact Hm]. unfold inS. apply in_map. exact Hin.
Qed.

Lemma inS_nil : forall i, inS i [] <-> False.
Proof. intro i. unfold inS. cbn. tauto. Qed.

Lemma inS_union : forall i a b, inS i (union a b) <-> inS i a \/ inS i b.
Proof.
  intros i a b. unfold union, inS. rewrite map_app, in_app_iff. split.
  - intros [H|H]; [left; exact H|]. right. apply in_map_iff in H. destruct H as [x [Hx Hin]].
    apply filter_In in Hin. destruct Hin as [Hin _]. apply in_map_iff. exists x. split; assumption.
  - intros [H|H]; [left; exact H|]. apply in_map_iff in H. destruct H as [x [Hx Hin]].
    destruct (pmem x a) eqn:E.
    + left. apply pmem_inS in E. rewrite Hx in E. exact E.
    + right. apply in_map_iff. exists x. split; [exact Hx|]. apply filter_In. split; [exact Hin|].
      rewrite E. reflexivity.
Qed.

Lemma inAny_nil : forall i, inAny i [] <-> False.
Proof. intro i. unfold inAny. split; [intros [s [H _]]; exact H|tauto]. Qed.
Lemma inAny_cons : forall i s L, inAny i (s :: L) <-> inS i s \/ inAny i L.
Proof.
  intros i s L. unfold inAny. split.
  - intros [t [[Ht|Ht] Hi]]; [left; rewrite Ht; exact Hi|right; exists t; split; assumption].
  - intros [H|[t [Ht Hi]]]; [exists s; split; [left; reflexivity|exact H]|exists t; split; [right; exact Ht|exact Hi]].
Qed.
Lemma subAny_cons : forall g s L, subAny g (s :: L) <-> subsetP g s \/ subAny g L.
Proof.
  intros g s L. unfold subAny. split.
  - intros [t [[Ht|Ht] Hi]]; [left; rewrite Ht; exact Hi|right; exists t; split; assumption].
  - intros [H|[t [Ht Hi]]]; [exists s; split; [left; reflexivity|exact H]|exists t; split; [right; exact Ht|exact Hi]].
Qed.

Lemma subsetP_union_l : forall g a b, subsetP g a -> subsetP g (union a b).
Proof. intros g a b H i Hi. apply inS_union. left. apply H. exact Hi. Qed.
Lemma subsetP_union_r : forall g a b, subsetP g b -> subsetP g (union a b).
Proof. intros g a b H i Hi. apply inS_union. right. apply H. exact Hi. Qed.

Lemma is_empty_true : forall (s : list proto), is_empty s = true -> s = [].
Proof. intros s H. destruct s; [reflexivity|discriminate H]. Qed.

(* ---------- merge_pass ---------- *)
Fixpoint cnt (l : list (list proto)) : nat :=
  match l with [] => O | s :: r => ((if is_empty s then 0 else 1) + cnt r)%nat end.

Lemma cnt_le_length : forall l, (cnt l <= length l)%nat.
Proof. induction l as [|s r IH]; cbn [cnt length]; [lia|]. destruct (is_empty s); lia. Qed.

Lemma merge_pass_length : forall rest first f r' c,
  merge_pass first rest = (f, r', c) -> length r' = length rest.
Proof.
  induction rest as [|s r IH]; intros first f r' c H; cbn [merge_pass] in H.
  - inversion H. reflexivity.
  - destruct (is_empty s || disjoint first s) eqn:E.
    + destruct (merge_pass first r) as [[f0 r0] c0] eqn:E2. inversion H; subst.
      cbn [length]. f_equal. exact (IH _ _ _ _ E2).
    + destruct (merge_pass (union first s) r) as [[f0 r0] c0] eqn:E2. inversion H; subst.
      cbn [length]. f_equal. exact (IH _ _ _ _ E2).
Qed.

Lemma merge_pass_U : forall rest first f r' c,
  merge_pass first rest = (f, r', c) ->
  forall i, inAny i (f :: r') <-> inAny i (first :: rest).
Proof.
  induction rest as [|s r IH]; intros first f r' c H i; cbn [merge_pass] in H.
  - inversion H. tauto.
  - destruct (is_empty s || disjoint first s) eqn:E.
    + destruct (merge_pass first r) as [[f0 r0] c0] eqn:E2. inversion H; subst.
      specialize (IH _ _ _ _ E2 i). rewrite !inAny_cons in *. tauto.
    + destruct (merge_pass (union first s) r) as [[f0 r0] c0] eqn:E2. inversion H; subst.
      specialize (IH _ _ _ _ E2 i). rewrite !inAny_cons in *. rewrite inS_union in IH.
      rewrite inS_nil. tauto.
Qed.

Lemma merge_pass_S : forall rest first f r' c,
  merge_pass first rest = (f, r', c) ->
  forall g, subAny g (first :: rest) -> subAny g (f :: r').
Proof.
  induction rest as [|s r IH]; intros first f r' c H g; cbn [merge_pass] in H.
  - inversion H. tauto.
  - destruct (is_empty s || disjoint first s) eqn:E.
    + destruct (merge_pass first r) as [[f0 r0] c0] eqn:E2. inversion H; subst.
      specialize (IH _ _ _ _ E2 g). rewrite !subAny_cons in *. tauto.
    + destruct (merge_pass (union first s) r) as [[f0 r0] c0] eqn:E2. inversion H; subst.
      specialize (IH _ _ _ _ E2 g). rewrite !subAny_cons in *.
      intros [Hg|[Hg|Hg]].
      * destruct IH as [IH|IH]; [left; apply subsetP_union_l; exact Hg|left; exact IH|right; right; exact IH].
      * destruct IH as [IH|IH]; [left; apply subsetP_union_r; exact Hg|left; exact IH|right; right; exact IH].
      * destruct IH as [IH|IH]; [right; exact Hg|left; exact IH|right; right; exact IH].
Qed.

Lemma merge_pass_B : forall G rest first f r' c,
  merge_pass first rest = (f, r', c) ->
  Forall (bE G) (first :: rest) -> Forall (bE G) (f :: r').
Proof.
  intros G. induction rest as [|s r IH]; intros first f r' c H HB; cbn [merge_pass] in H.
  - inversion H; subst. exact HB.
  - destruct (is_empty s || disjoint first s) eqn:E.
    + destruct (merge_pass first r) as [[f0 r0] c0] eqn:E2. inversion H; subst.
      inversion HB as [|x1 l1 Hf Hr]; subst. inversion Hr as [|x2 l2 Hs Hr']; subst.
      assert (IH' : Forall (bE G) (f :: r0)) by (apply (IH _ _ _ _ E2); constructor; assumption).
      inversion IH' as [|x3 l3 Hf3 Hr3]; subst. constructor; [exact Hf3|]. constructor; assumption.
    + destruct (merge_pass (union first s) r) as [[f0 r0] c0] eqn:E2. inversion H; subst.
      inversion HB as [|x1 l1 Hf Hr]; subst. inversion Hr as [|x2 l2 Hs Hr']; subst.
      apply orb_false_iff in E. destruct E as [Ee Ed].
      assert (Hu : bE G (union first s)).
      { right. destruct Hf as [Hf|Hf].
        - subst first. unfold disjoint in Ed. cbn in Ed. discriminate Ed.
        - destruct Hs as [Hs|Hs]; [subst s; cbn in Ee; discriminate Ee|].
          apply built_union; assumption. }
      assert (IH' : Forall (bE G) (f :: r0)) by (apply (IH _ _ _ _ E2); constructor; assumption).
      inversion IH' as [|x3 l3 Hf3 Hr3]; subst. constructor; [exact Hf3|].
      constructor; [left; reflexivity|exact Hr3].
Qed.

Lemma merge_pass_C : forall rest first f r' c,
  merge_pass first rest = (f, r', c) ->
  (c = false -> f = first /\ r' = rest /\ Forall (disjointP first) rest) /\
  (c = true -> (cnt r' < cnt rest)%nat) /\ (cnt r' <= cnt rest)%nat.
Proof.
  induction rest as [|s r IH]; intros first f r' c H; cbn [merge_pass] in H.
  - inversion H; subst. split; [intros _; repeat split; constructor|]. split; [discriminate|cbn; lia].
  - destruct (is_empty s || disjoint first s) eqn:E.
    + destruct (merge_pass first r) as [[f0 r0] c0] eqn:E2. inversion H; subst.
      destruct (IH _ _ _ _ E2) as [Hc [Ht Hle]]. cbn [cnt]. split; [|split].
      * intro Hf. destruct (Hc Hf) as [A [B C]]. subst. split; [reflexivity|]. split; [reflexivity|].
        constructor; [|exact C].
        apply orb_true_iff in E. destruct E as [E|E].
        -- apply is_empty_true in E. subst s. intros i _ Hi. apply inS_nil in Hi. exact Hi.
        -- apply disjoint_spec. exact E.
      * intro Hf. specialize (Ht Hf). lia.
      * lia.
    + destruct (merge_pass (union first s) r) as [[f0 r0] c0] eqn:E2. inversion H; subst.
      destruct (IH _ _ _ _ E2) as [Hc [Ht Hle]]. cbn [cnt].
      apply orb_false_iff in E. destruct E as [Ee Ed]. rewrite Ee. cbn [is_empty].
      split; [discriminate|]. split; [intros _; lia|lia].
Qed.

(* ---------- merge_stable ---------- *)
Lemma merge_stable_length : forall n first rest f r',
  merge_stable n first rest = (f, r') -> length r' = length rest.
Proof.
  induction n as [|n IH]; intros first rest f r' H; cbn [merge_stable] in H.
  - inversion H. reflexivity.
  - destruct (merge_pass first rest) as [[f1 r1] c] eqn:E. destruct c.
    + rewrite (IH _ _ _ _ H). exact (merge_pass_length _ _ _ _ _ E).
    + inversion H; subst. exact (merge_pass_length _ _ _ _ _ E).
Qed.

Lemma merge_stable_U : forall n first rest f r',
  merge_stable n first rest = (f, r') -> forall i, inAny i (f :: r') <-> inAny i (first :: rest).
Proof.
  induction n as [|n IH]; intros first rest f r' H i; cbn [merge_stable] in H.
  - inversion H. tauto.
  - destruct (merge_pass first rest) as [[f1 r1] c] eqn:E. destruct c.
    + rewrite (IH _ _ _ _ H i). exact (merge_pass_U _ _ _ _ _ E i).
    + inversion H; subst. exact (merge_pass_U _ _ _ _ _ E i).
Qed.

Lemma merge_stable_S : forall n first rest f r',
  merge_stable n first rest = (f, r') -> forall g, subAny g (first :: rest) -> subAny g (f :: r').
Proof.
  induction n as [|n IH]; intros first rest f r' H g Hg; cbn [merge_stable] in H.
  - inversion H; subst. exact Hg.
  - destruct (merge_pass first rest) as [[f1 r1] c] eqn:E. destruct c.
    + apply (IH _ _ _ _ H g). exact (merge_pass_S _ _ _ _ _ E g Hg).
    + inversion H; subst. exact (merge_pass_S _ _ _ _ _ E g Hg).
Qed.

Lemma merge_stable_B : forall G n first rest f r',
  merge_stable n first rest = (f, r') -> Forall (bE G) (first :: rest) -> Forall (bE G) (f :: r').
Proof.
  intros G. induction n as [|n IH]; intros first rest f r' H HB; cbn [merge_stable] in H.
  - inversion H; subst. exact HB.
  - destruct (merge_pass first rest) as [[f1 r1] c] eqn:E. destruct c.
    + apply (IH _ _ _ _ H). exact (merge_pass_B _ _ _ _ _ _ E HB).
    + inversion H; subst. exact (merge_pass_B _ _ _ _ _ _ E HB).
Qed.

(* the `while changed` loop always ends in a stable state: the fuel S (length rest) suffices *)
Lemma merge_stable_stable : forall n first rest f r',
  (cnt rest < n)%nat -> merge_stable n first rest = (f, r') -> Forall (disjointP f) r'.
Proof.
  induction n as [|n IH]; intros first rest f r' Hn H; [lia|]. cbn [merge_stable] in H.
  destruct (merge_pass first rest) as [[f1 r1] c] eqn:E.
  destruct (merge_pass_C _ _ _ _ _ E) as [Hc [Ht Hle]]. destruct c.
  - specialize (Ht eq_refl). apply (IH f1 r1 f r'); [lia|exact H].
  - inversion H; subst. destruct (Hc eq_refl) as [A [B C]]. subst. exact C.
Qed.

(* ---------- merge_outer ---------- *)
Lemma merge_outer_U : forall n L, (length L <= n)%nat ->
  forall i, inAny i (merge_outer n L) <-> inAny i L.
Proof.
  induction n as [|n IH]; intros L Hn i.
  - cbn [merge_outer]. tauto.
  - destruct L as [|first rest]; [cbn [merge_outer]; tauto|].
    destruct rest as [|s r]; [cbn [merge_outer]; tauto|].
    cbn [merge_outer]. cbn [length] in Hn.
    destruct (is_empty first) eqn:Ee.
    + rewrite !inAny_cons. rewrite (IH (s :: r) ltac:(cbn [length]; lia) i). rewrite inAny_cons. tauto.
    + destruct (merge_stable (S (length (s :: r))) first (s :: r)) as [f1 r1] eqn:E.
      pose proof (merge_stable_length _ _ _ _ _ E) as HL. cbn [length] in HL.
      rewrite inAny_cons. rewrite (IH r1 ltac:(lia) i). rewrite <- inAny_cons.
      exact (merge_stable_U _ _ _ _ _ E i).
Qed.

Lemma merge_outer_S : forall n L, (length L <= n)%nat ->
  forall g, subAny g L -> subAny g (merge_outer n L).
Proof.
  induction n as [|n IH]; intros L Hn g Hg.
  - cbn [merge_outer]. exact Hg.
  - destruct L as [|first rest]; [cbn [merge_outer]; exact Hg|].
    destruct rest as [|s r]; [cbn [merge_outer]; exact Hg|].
    cbn [merge_outer]. cbn [length] in Hn.
    destruct (is_empty first) eqn:Ee.
    + apply subAny_cons in Hg. apply subAny_cons. destruct Hg as [Hg|Hg]; [left; exact Hg|right].
      apply IH; [cbn [length]; lia|exact Hg].
    + destruct (merge_stable (S (length (s :: r))) first (s :: r)) as [f1 r1] eqn:E.
      pose proof (merge_stable_length _ _ _ _ _ E) as HL. cbn [length] in HL.
      pose proof (merge_stable_S _ _ _ _ _ E g Hg) as H1.
      apply subAny_cons in H1. apply subAny_cons. destruct H1 as [H1|H1]; [left; exact H1|right].
      apply IH; [lia|exact H1].
Qed.

Lemma merge_outer_B : forall G n L, Forall (bE G) L -> Forall (bE G) (merge_outer n L).
Proof.
  intros G. induction n as [|n IH]; intros L HB.
  - cbn [merge_outer]. exact HB.
  - destruct L as [|first rest]; [cbn [merge_outer]; exact HB|].
    destruct rest as [|s r]; [cbn [merge_outer]; exact HB|].
    cbn [merge_outer].
    destruct (is_empty first) eqn:Ee.
    + inversion HB as [|x l Hf Hr]; subst. constructor; [exact Hf|]. apply IH. exact Hr.
    + destruct (merge_stable (S (length (s :: r))) first (s :: r)) as [f1 r1] eqn:E.
      pose proof (merge_stable_B G _ _ _ _ _ E HB) as H1.
      inversion H1 as [|x l Hf Hr]; subst. constructor; [exact Hf|]. apply IH. exact Hr.
Qed.

Lemma merge_outer_D : forall n L, (length L <= n)%nat -> ForallOrdPairs disjointP (merge_outer n L).
Proof.
  induction n as [|n IH]; intros L Hn.
  - destruct L; [cbn [merge_outer]; constructor|cbn [length] in Hn; lia].
  - destruct L as [|first rest]; [cbn [merge_outer]; constructor|].
    destruct rest as [|s r]; [cbn [merge_outer]; constructor; constructor|].
    cbn [merge_outer]. cbn [length] in Hn.
    destruct (is_empty first) eqn:Ee.
    + constructor; [|apply IH; cbn [length]; lia].
      apply is_empty_true in Ee. subst first. apply Forall_forall. intros x _ i Hi _.
      apply inS_nil in Hi. exact Hi.
    + destruct (merge_stable (S (length (s :: r))) first (s :: r)) as [f1 r1] eqn:E.
      pose proof (merge_stable_length _ _ _ _ _ E) as HL. cbn [length] in HL.
      assert (Hst : Forall (disjointP f1) r1).
      { apply (merge_stable_stable (S (length (s :: r))) first (s :: r) f1 r1); [|exact E].
        pose proof (cnt_le_length (s :: r)). lia. }
      constructor; [|apply IH; lia].
      apply Forall_forall. intros x Hx i Hi1 Hix.
      assert (Hany : inAny i (merge_outer n r1)) by (exists x; split; assumption).
      apply (proj1 (merge_outer_U n r1 ltac:(lia) i)) in Hany. destruct Hany as [t [Ht Hit]].
      rewrite Forall_forall in Hst. exact (Hst t Ht i Hi1 Hit).
Qed.

(* ---------- sort_by is a permutation ---------- *)
Lemma insert_by_perm : forall A (lt : A -> A -> bool) x l, Permutation (insert_by lt x l) (x :: l).
Proof.
  intros A lt x. induction l as [|y ys IH]; cbn [insert_by]; [apply Permutation_refl|].
  destruct (lt x y); [apply Permutation_refl|].
  apply Permutation_trans with (y :: x :: ys); [apply perm_skip; exact IH|apply perm_swap].
Qed.

Lemma sort_by_perm : forall A (lt : A -> A -> bool) l, Permutation (sort_by lt l) l.
Proof.
  intros A lt l. unfold sort_by.
  assert (G : forall l acc, Permutation (fold_left (fun acc x => insert_by lt x acc) l acc) (l ++ acc)).
  { induction l0 as [|x xs IH]; intro acc; cbn [fold_left app]; [apply Permutation_refl|].
    apply Permutation_trans with (xs ++ insert_by lt x acc); [apply IH|].
    apply Permutation_trans with (xs ++ x :: acc); [apply Permutation_app_head; apply insert_by_perm|].
    apply Permutation_sym. apply Permutation_middle. }
  specialize (G l []). rewrite app_nil_r in G. exact G.
Qed.

Lemma sort_by_in : forall A (lt : A -> A -> bool) l x, In x (sort_by lt l) <-> In x l.
Proof.
  intros A lt l x. split; apply Permutation_in; [apply sort_by_perm|apply Permutation_sym; apply sort_by_perm].
Qed.

(* ---------- merge_core: the statement about _merge_sets ---------- *)
Lemma FOP_filter : forall A (R : A -> A -> Prop) (f : A -> bool) l,
  ForallOrdPairs R l -> ForallOrdPairs R (filter f l).
Proof.
  intros A R f l H. induction H as [|a l Ha Hl IH]; cbn [filter]; [constructor|].
  destruct (f a); [|exact IH]. constructor; [|exact IH].
  apply Forall_forall. intros x Hx. apply filter_In in Hx. destruct Hx as [Hx _].
  rewrite Forall_forall in Ha. exact (Ha x Hx).
Qed.

Lemma inAny_filter_nonempty : forall i L,
  inAny i (filter (fun g : list proto => negb (is_empty g)) L) <-> inAny i L.
Proof.
  intros i L. unfold inAny. split.
  - intros [s [Hs Hi]]. apply filter_In in Hs. exists s. split; [exact (proj1 Hs)|exact Hi].
  - intros [s [Hs Hi]]. exists s. split; [|exact Hi]. apply filter_In. split; [exact Hs|].
    destruct s; [apply inS_nil in Hi; contradiction|reflexivity].
Qed.

Lemma inAny_perm : forall i L L', (forall s, In s L <-> In s L') -> inAny i L <-> inAny i L'.
Proof.
  intros i L L' H. unfold inAny. split; intros [s [Hs Hi]]; exists s; split; try exact Hi; apply H; exact Hs.
Qed.

Lemma built_weaken : forall G G' s, (forall g, In g G -> In g G') -> built G s -> built G' s.
Proof.
  intros G G' s HG H. induction H as [g Hg|a b Ha IHa Hb IHb Hd].
  - apply built_in. apply HG. exact Hg.
  - apply built_union; assumption.
Qed.

Theorem merge_core_components : forall groups,
  let out := merge_core groups in
  (forall i, inAny i out <-> inAny i groups) /\
  ForallOrdPairs disjointP out /\
  (forall g, In g groups -> g <> [] -> exists h, In h out /\ subsetP g h) /\
  Forall (built groups) out /\
  Forall (fun h => h <> []) out.
Proof.
  intros groups out. unfold out, merge_core.
  set (ordered := sort_by (fun a b => group_key a <? group_key b) groups).
  assert (Hin : forall s, In s ordered <-> In s groups) by (intro s; apply sort_by_in).
  repeat split.
  - intro H. apply (proj1 (inAny_filter_nonempty _ _)) in H.
    apply (proj1 (merge_outer_U _ ordered (le_n _) i)) in H.
    apply (proj1 (inAny_perm i ordered groups Hin)). exact H.
  - intro H. apply (proj2 (inAny_filter_nonempty _ _)).
    apply (proj2 (merge_outer_U _ ordered (le_n _) i)).
    apply (proj2 (inAny_perm i ordered groups Hin)). exact H.
  - apply FOP_filter. apply merge_outer_D. apply le_n.
  - intros g Hg Hne.
    assert (H0 : subAny g ordered).
    { exists g. split; [apply Hin; exact Hg|]. intros i Hi. exact Hi. }
    apply (merge_outer_S _ ordered (le_n _)) in H0. destruct H0 as [h [Hh Hsub]].
    exists h. split; [|exact Hsub]. apply filter_In. split; [exact Hh|].
    destruct h as [|x h']; [|reflexivity]. exfalso.
    destruct g as [|y g']; [apply Hne; reflexivity|].
    specialize (Hsub (pid y)). apply (proj1 (inS_nil (pid y))). apply Hsub. left. reflexivity.
  - apply Forall_forall. intros h Hh. apply filter_In in Hh. destruct Hh as [Hh Hne].
    assert (HB : Forall (bE ordered) (merge_outer (length ordered) ordered)).
    { apply merge_outer_B. apply Forall_forall. intros s Hs. right. apply built_in. exact Hs. }
    rewrite Forall_forall in HB. destruct (HB h Hh) as [He|Hb].
    + subst h. discriminate Hne.
    + apply (built_weaken ordered groups h); [intros g Hg; apply Hin; exact Hg|exact Hb].
  - apply Forall_forall. intros h Hh. apply filter_In in Hh. destruct Hh as [_ Hne].
    intro He. subst h. discriminate Hne.
Qed.

(* ---------- from merge_core to merge_sets (= _merge_sets: each group through _ordered) ---------- *)
Lemma inS_sort_by : forall lt i g, inS i (sort_by lt g) <-> inS i g.
Proof.
  intros lt i g. unfold inS. split; apply Permutation_in; apply Permutation_map;
  [apply sort_by_perm|apply Permutation_sym; apply sort_by_perm].
Qed.

Lemma inS_set_insert : forall i x l, inS i (set_insert x l) <-> i = pid x \/ inS i l.
Proof.
  intros i x. unfold inS. induction l as [|y ys IH]; cbn [set_insert map In].
  - split; [intros [H|H]; [left; symmetry; exact H|contradiction]|intros [H|H]; [left; symmetry; exact H|contradiction]].
  - destruct (pid x <? pid y) eqn:E1.
    + cbn [map In]. split; [intros [H|H]; [left; symmetry; exact H|right; exact H]
                            |intros [H|H]; [left; symmetry; exact H|right; exact H]].
    + destruct (pid x =? pid y) eqn:E2.
      * apply Z.eqb_eq in E2. cbn [map In]. split; [intro H; right; exact H|].
        intros [H|H]; [left; rewrite H, E2; reflexivity|exact H].
      * cbn [map In]. rewrite IH. tauto.
Qed.

Lemma inS_iter : forall i g, inS i (iter g) <-> inS i g.
Proof.
  intros i. unfold iter. induction g as [|x xs IH]; cbn [fold_right]; [tauto|].
  rewrite inS_set_insert, IH. unfold inS. cbn [map In]. split; intros [H|H]; auto.
Qed.

Lemma inS_ordered_set : forall i g, inS i (ordered_set g) <-> inS i g.
Proof.
  intros i g. unfold ordered_set, ordered_list. rewrite !inS_sort_by. apply inS_iter.
Qed.

Lemma FOP_map_ordered : forall L, ForallOrdPairs disjointP L -> ForallOrdPairs disjointP (map ordered_set L).
Proof.
  intros L H. induction H as [|a l Ha Hl IH]; cbn [map]; [constructor|].
  constructor; [|exact IH]. apply Forall_forall. intros x Hx. apply in_map_iff in Hx.
  destruct Hx as [b [Hb Hin]]. subst x. rewrite Forall_forall in Ha.
  intros i Hi1 Hi2. apply (proj1 (inS_ordered_set _ _)) in Hi1. apply (proj1 (inS_ordered_set _ _)) in Hi2.
  exact (Ha b Hin i Hi1 Hi2).
Qed.

Theorem merge_sets_components : forall groups,
  let out := merge_sets groups in
  (forall i, inAny i out <-> inAny i groups) /\
  ForallOrdPairs disjointP out /\
  (forall g, In g groups -> g <> [] -> exists h, In h out /\ subsetP g h) /\
  Forall (fun h => exists h0, built groups h0 /\ forall i, inS i h <-> inS i h0) out /\
  Forall (fun h => h <> []) out.
Proof.
  intros groups out. unfold out, merge_sets.
  destruct (merge_core_components groups) as [HU [HD [HS [HB HN]]]].
  split; [|split; [|split; [|split]]].
  - intro i. rewrite <- (HU i). unfold inAny. split.
    + intros [s [Hs Hi]]. apply in_map_iff in Hs. destruct Hs as [s0 [He Hs0]]. subst s.
      exists s0. split; [exact Hs0|]. apply (proj1 (inS_ordered_set _ _)). exact Hi.
    + intros [s [Hs Hi]]. exists (ordered_set s). split; [apply in_map; exact Hs|].
      apply (proj2 (inS_ordered_set _ _)). exact Hi.
  - apply FOP_map_ordered. exact HD.
  - intros g Hg Hne. destruct (HS g Hg Hne) as [h [Hh Hsub]]. exists (ordered_set h).
    split; [apply in_map; exact Hh|]. intros i Hi. apply (proj2 (inS_ordered_set _ _)). apply Hsub. exact Hi.
  - apply Forall_forall. intros h Hh. apply in_map_iff in Hh. destruct Hh as [h0 [He Hh0]]. subst h.
    exists h0. rewrite Forall_forall in HB. split; [exact (HB h0 Hh0)|]. intro i. apply inS_ordered_set.
  - apply Forall_forall. intros h Hh. apply in_map_iff in Hh. destruct Hh as [h0 [He Hh0]]. subst h.
    rewrite Forall_forall in HN. specialize (HN h0 Hh0). destruct h0 as [|x h0']; [exfalso; apply HN; reflexivity|].
    intro He. assert (Hi : inS (pid x) (ordered_set (x :: h0'))).
    { apply (proj2 (inS_ordered_set _ _)). left. reflexivity. }
    rewrite He in Hi. apply (proj1 (inS_nil _)) in Hi. exact Hi.
Qed.

(* ---------- the final singles pass never drops a protocluster ---------- *)
Lemma tget_in : forall k t c, tget k t = Some c -> In c (tvalues t).
Proof.
  intros k. induction t as [|[k' c'] r IH]; intros c H; cbn [tget] in H; [discriminate H|].
  unfold tvalues. cbn [map snd In]. destruct (key_eqb k k').
  - inversion H. left. reflexivity.
  - right. exact (IH c H).
Qed.

Lemma mk_cand_members : forall w kind ms c, mk_cand w kind ms = Ok c -> cmem c = ms /\ ckind c = kind.
Proof.
  intros w kind ms c H. unfold mk_cand in H. destruct ms as [|m ms']; [discriminate H|].
  destruct (connect_locations (map ploc (m :: ms')) w) as [l|k]; cbn [bind] in H; [|discriminate H].
  destruct (check_collection_loc l) as [u|k]; cbn [bind] in H; [|discriminate H].
  inversion H. split; reflexivity.
Qed.

Lemma singles_go_covers : forall w existing l ss,
  singles_go w existing l = Ok ss ->
  forall p, In p l ->
    (exists c, In c ss /\ cmem c = [p] /\ ckind c = K_SINGLE) \/
    (exists c, In c (tvalues existing) /\ inS (pid p) (cmem c)).
Proof.
  intros w existing. induction l as [|q r IH]; intros ss H p Hp; [destruct Hp|].
  cbn [singles_go] in H.
  destruct (match tget (fstart (ploc q), fend (ploc q)) existing with
            | Some ex => pmem q (cmem ex) | None => false end) eqn:Eskip.
  - destruct Hp as [Hp|Hp].
    + subst q. right. destruct (tget (fstart (ploc p), fend (ploc p)) existing) as [ex|] eqn:Et; [|discriminate Eskip].
      exists ex. split; [exact (tget_in _ _ _ Et)|apply pmem_inS; exact Eskip].
    + exact (IH ss H p Hp).
  - destruct (mk_cand w K_SINGLE [q]) as [c|k] eqn:Ec; cbn [bind] in H; [|discriminate H].
    destruct (singles_go w existing r) as [cs|k] eqn:Er; cbn [bind] in H; [|discriminate H].
    inversion H; subst ss. destruct Hp as [Hp|Hp].
    + subst q. left. exists c. destruct (mk_cand_members _ _ _ _ Ec) as [A B].
      split; [left; reflexivity|split; assumption].
    + destruct (IH cs eq_refl p Hp) as [[c' [Hc' Hm]]|Hex].
      * left. exists c'. split; [right; exact Hc'|exact Hm].
      * right. exact Hex.
Qed.

(* the fuel given to the `while changed` loop in merge_outer is always enough *)
Lemma merge_stable_fuel_enough : forall first rest f r',
  merge_stable (S (length rest)) first rest = (f, r') -> Forall (disjointP f) r'.
Proof.
  intros first rest f r' H. apply (merge_stable_stable (S (length rest)) first rest f r'); [|exact H].
  pose proof (cnt_le_length rest). lia.
Qed.

(* regression witness of the repaired finding hybrid_member_repeated (circular record of length 12): before the
   repair the hybrid listed protocluster 1 twice (members 1, 1, 0, 2); the general statement is no_repeated_member below *)
Definition w_wrapped : loc := [mkPart 5 12 1; mkPart 0 4 1].
Definition w_protos : list proto :=
  [mkProto 0 w_wrapped w_wrapped 2 [1]; mkProto 1 w_wrapped w_wrapped 0 []; mkProto 2 [mkPart 5 12 1] [mkPart 5 12 1] 1 [1]].
Lemma repeated_member_witness_repaired :
  exists out, create_candidates w_protos (Some 12) = Ok out /\
              map (fun c => (ckind c, map pid (cmem c))) out = [(K_HYBRID, [1; 0; 2])].
Proof.
  destruct (create_candidates w_protos (Some 12)) as [out|k] eqn:E; vm_compute in E; [|discriminate E].
  inversion E as [E']. eexists. split; [reflexivity|]. vm_compute. reflexivity.
Qed.

(* ====================================================================================== *)
(* members of every candidate are protoclusters that were supplied; every candidate's      *)
(* location is connect_locations of its members' locations                                 *)
(* ====================================================================================== *)
Definition allin (P : list proto) (G : list (list proto)) : Prop := forall g x, In g G -> In x g -> In x P.

Lemma allin_app : forall P A B, allin P A -> allin P B -> allin P (A ++ B).
Proof. intros P A B HA HB g x Hg Hx. apply in_app_or in Hg. destruct Hg as [Hg|Hg]; [exact (HA g x Hg Hx)|exact (HB g x Hg Hx)]. Qed.

Lemma In_set_insert : forall (x y : proto) l, In y (set_insert x l) -> y = x \/ In y l.
Proof.
  intros x y. induction l as [|z zs IH]; cbn [set_insert]; intro H.
  - destruct H as [H|[]]. left. symmetry. exact H.
  - destruct (pid x <? pid z).
    + destruct H as [H|H]; [left; symmetry; exact H|right; exact H].
    + destruct (pid x =? pid z).
      * right. exact H.
      * destruct H as [H|H]; [right; left; exact H|]. destruct (IH H) as [A|A]; [left; exact A|right; right; exact A].
Qed.

Lemma In_iter : forall l y, In y (iter l) -> In y l.
Proof.
  unfold iter. induction l as [|x xs IH]; cbn [fold_right]; intros y H; [destruct H|].
  apply In_set_insert in H. destruct H as [H|H]; [left; symmetry; exact H|right; apply IH; exact H].
Qed.

Lemma In_union : forall a b x, In x (union a b) -> In x a \/ In x b.
Proof.
  intros a b x H. unfold union in H. apply in_app_or in H. destruct H as [H|H]; [left; exact H|right].
  apply filter_In in H. exact (proj1 H).
Qed.

Lemma In_diff : forall a b x, In x (diff a b) -> In x a.
Proof. intros a b x H. unfold diff in H. apply filter_In in H. exact (proj1 H). Qed.

Lemma In_set_add : forall x l y, In y (set_add x l) -> y = x \/ In y l.
Proof.
  intros x l y H. unfold set_add in H. destruct (pmem x l); [right; exact H|].
  apply in_app_or in H. destruct H as [H|[H|[]]]; [right; exact H|left; symmetry; exact H].
Qed.

Lemma In_fold_set_add : forall l acc y, In y (fold_left (fun a p => set_add p a) l acc) -> In y acc \/ In y l.
Proof.
  induction l as [|x xs IH]; intros acc y H; cbn [fold_left] in H; [left; exact H|].
  destruct (IH _ _ H) as [A|A]; [|right; right; exact A].
  apply In_set_add in A. destruct A as [A|A]; [right; left; symmetry; exact A|left; exact A].
Qed.

Lemma In_fold_set_add' : forall l acc y, In y (fold_left (fun s x => set_add x s) l acc) -> In y acc \/ In y l.
Proof. exact In_fold_set_add. Qed.

Lemma In_ordered_list : forall g x, In x (ordered_list g) <-> In x g.
Proof. intros g x. unfold ordered_list. rewrite !sort_by_in. tauto. Qed.

Lemma In_ordered_set : forall g x, In x (ordered_set g) -> In x g.
Proof. intros g x H. unfold ordered_set in H. apply (proj1 (In_ordered_list _ _)) in H. apply In_iter. exact H. Qed.

Lemma In_skipn' : forall A n (l : list A) x, In x (skipn n l) -> In x l.
Proof. intros A n l x H. rewrite <- (firstn_skipn n l). apply in_or_app. right. exact H. Qed.
Lemma In_firstn' : forall A n (l : list A) x, In x (firstn n l) -> In x l.
Proof. intros A n l x H. rewrite <- (firstn_skipn n l). apply in_or_app. left. exact H. Qed.

Lemma last_opt_In : forall A (l : list A) y, last_opt l = Some y -> In y l.
Proof.
  intros A l y H. unfold last_opt in H. destruct (rev l) as [|z zs] eqn:E; [discriminate H|].
  inversion H; subst. apply in_rev. rewrite E. left. reflexivity.
Qed.

Lemma first_last_In : forall A (l : list A) x y, first_last l = Some (x, y) -> In x l /\ In y l.
Proof.
  intros A l x y H. unfold first_last in H. destruct l as [|a r]; [discriminate H|].
  destruct (last_opt (a :: r)) as [z|] eqn:E; [|discriminate H]. inversion H; subst.
  split; [left; reflexivity|apply last_opt_In; exact E].
Qed.

Lemma built_In : forall G h, built G h -> forall x, In x h -> exists g, In g G /\ In x g.
Proof.
  intros G h Hb. induction Hb as [g Hg|a b Ha IHa Hb IHb Hd]; intros x Hx.
  - exists g. split; assumption.
  - apply In_union in Hx. destruct Hx as [Hx|Hx]; [apply IHa|apply IHb]; exact Hx.
Qed.

Lemma merge_sets_allin : forall P G, allin P G -> allin P (merge_sets G).
Proof.
  intros P G H g x Hg Hx. unfold merge_sets in Hg. apply in_map_iff in Hg. destruct Hg as [h [He Hh]]. subst g.
  apply In_ordered_set in Hx.
  pose proof (merge_core_components G) as HC. cbv zeta in HC. destruct HC as [_ [_ [_ [HB _]]]].
  rewrite Forall_forall in HB.
  destruct (built_In G h (HB h Hh) x Hx) as [g0 [Hg0 Hx0]]. exact (H g0 x Hg0 Hx0).
Qed.

Lemma pairs_rel_In : forall A (rel : A -> A -> bool) l x y,
  In (x, y) (pairs_rel rel l) -> In x l /\ In y l /\ rel x y = true.
Proof.
  intros A rel. induction l as [|z r IH]; intros x y H; cbn [pairs_rel] in H; [destruct H|].
  apply in_app_or in H. destruct H as [H|H].
  - apply in_map_iff in H. destruct H as [y0 [He Hy]]. inversion He; subst. apply filter_In in Hy.
    destruct Hy as [Hy Hr]. split; [left; reflexivity|]. split; [right; exact Hy|exact Hr].
  - destruct (IH x y H) as [A1 [A2 A3]]. split; [right; exact A1|]. split; [right; exact A2|exact A3].
Qed.

Lemma mapM_In : forall A B (f : A -> res B) l r, mapM f l = Ok r ->
  forall y, In y r -> exists x, In x l /\ f x = Ok y.
Proof.
  intros A B f. induction l as [|a l IH]; intros r H y Hy; cbn [mapM] in H.
  - inversion H; subst. destruct Hy.
  - destruct (f a) as [b|k] eqn:Ea; cbn [bind] in H; [|discriminate H].
    destruct (mapM f l) as [bs|k] eqn:El; cbn [bind] in H; [|discriminate H].
    inversion H; subst. destruct Hy as [Hy|Hy].
    + subst. exists a. split; [left; reflexivity|exact Ea].
    + destruct (IH bs eq_refl y Hy) as [x [Hx Hf]]. exists x. split; [right; exact Hx|exact Hf].
Qed.

Lemma pair_groups_allin : forall (P : list proto) (prs : list (proto * proto)),
  (forall x y, In (x, y) prs -> In x P /\ In y P) -> allin P (map (fun xy => [fst xy; snd xy]) prs).
Proof.
  intros P prs H g x Hg Hx. apply in_map_iff in Hg. destruct Hg as [[a b] [He Hab]]. subst g. cbn [fst snd] in Hx.
  destruct (H a b Hab) as [Ha Hb]. destruct Hx as [Hx|[Hx|[]]]; subst; assumption.
Qed.

Lemma contained_until_In : forall core limit cl x, In x (contained_until core limit cl) -> In x cl.
Proof.
  intros core limit. induction cl as [|c r IH]; intros x H; cbn [contained_until] in H; [destruct H|].
  destruct (limit <? lstart (ploc c)); [destruct H|].
  destruct (contains core (pcore c)).
  - destruct H as [H|H]; [left; exact H|right; exact (IH x H)].
  - right. exact (IH x H).
Qed.

Lemma first_occ_In : forall l seen x, In x (first_occ seen l) -> In x l.
Proof.
  induction l as [|c r IH]; intros seen x H; cbn [first_occ] in H; [destruct H|].
  destruct (pmem c seen).
  - right. exact (IH _ _ H).
  - destruct H as [H|H]; [left; exact H|right; exact (IH _ _ H)].
Qed.

Lemma hybrid_extend_In : forall w clusters group r, hybrid_extend w clusters group = Ok r ->
  forall x, In x r -> In x group \/ In x clusters.
Proof.
  intros w clusters group r H x Hx. unfold hybrid_extend in H.
  destruct (connect_locations (map pcore group) w) as [core|k]; cbn [bind] in H; [|discriminate H].
  inversion H; subst; clear H. apply in_app_or in Hx. destruct Hx as [Hx|Hx]; [left; exact Hx|right].
  apply first_occ_In in Hx. apply in_app_or in Hx. destruct Hx as [Hx|Hx].
  - apply contained_until_In in Hx. apply In_skipn' in Hx. exact Hx.
  - destruct (is_compound core); [apply contained_until_In in Hx; exact Hx|destruct Hx].
Qed.

Lemma find_hybrids_allin : forall clusters w groups un,
  find_hybrids clusters w = Ok (groups, un) -> allin clusters groups /\ incl un clusters.
Proof.
  intros clusters w groups un H. unfold find_hybrids in H. cbv zeta in H.
  match type of H with bind ?e _ = _ => destruct e as [extended|k] eqn:EM end; cbn [bind] in H; [|discriminate H].
  inversion H; subst; clear H. split.
  - intros g x Hg Hx. apply in_map_iff in Hg. destruct Hg as [g0 [He Hg0]]. subst g. apply (proj1 (In_ordered_list _ _)) in Hx.
    destruct (mapM_In _ _ _ _ _ EM g0 Hg0) as [m [Hm Hext]].
    destruct (hybrid_extend_In _ _ _ _ Hext x Hx) as [A|A].
    + refine (merge_sets_allin clusters _ _ m x Hm A). apply pair_groups_allin.
      intros a b Hab. apply in_app_or in Hab. destruct Hab as [Hab|Hab].
      * apply pairs_rel_In in Hab. destruct Hab as [Ha [Hb _]]. apply sort_by_in in Ha. apply sort_by_in in Hb.
        split; assumption.
      * destruct (first_last (sort_by core_key_lt clusters)) as [[f l]|] eqn:Efl; [|destruct Hab].
        destruct (negb (pid f =? pid l) && defs_intersect f l); [|destruct Hab].
        destruct Hab as [Hab|[]]. inversion Hab; subst. apply first_last_In in Efl. destruct Efl as [Ha Hb].
        apply sort_by_in in Ha. apply sort_by_in in Hb. split; assumption.
    + apply sort_by_in in A. apply In_iter in A. apply In_diff in A. exact A.
  - intros x Hx. apply In_ordered_set in Hx. apply In_diff in Hx. apply In_diff in Hx. exact Hx.
Qed.

(* ---------- candidates ---------- *)
Definition wfc (w : option Z) (c : cand) : Prop :=
  cmem c <> [] /\ connect_locations (map ploc (cmem c)) w = Ok (cloc c).
Definition good (P : list proto) (w : option Z) (c : cand) : Prop := wfc w c /\ incl (cmem c) P.

Lemma mk_cand_wfc : forall w kind ms c, mk_cand w kind ms = Ok c -> wfc w c /\ cmem c = ms /\ ckind c = kind.
Proof.
  intros w kind ms c H. unfold mk_cand in H. destruct ms as [|m ms']; [discriminate H|].
  destruct (connect_locations (map ploc (m :: ms')) w) as [l|k] eqn:El; cbn [bind] in H; [|discriminate H].
  destruct (check_collection_loc l) as [u|k]; cbn [bind] in H; [|discriminate H].
  inversion H; subst; clear H. cbn [cmem cloc ckind]. split; [split; [discriminate|exact El]|split; reflexivity].
Qed.

Lemma tset_values : forall k c t x, In x (tvalues (tset k c t)) -> x = c \/ In x (tvalues t).
Proof.
  intros k c. unfold tvalues. induction t as [|[k' c'] r IH]; intros x H; cbn [tset map snd In] in *.
  - destruct H as [H|[]]. left. symmetry. exact H.
  - destruct (key_eqb k k'); cbn [map snd In] in H.
    + destruct H as [H|H]; [left; symmetry; exact H|right; right; exact H].
    + destruct H as [H|H]; [right; left; exact H|]. destruct (IH x H) as [A|A]; [left; exact A|right; right; exact A].
Qed.

Lemma build_go_good : forall P w kind groups existing singles e s,
  build_go w kind groups existing singles = Ok (e, s) ->
  allin P groups -> (forall c, In c (tvalues existing) -> good P w c) -> incl singles P ->
  (forall c, In c (tvalues e) -> good P w c) /\ incl s P.
Proof.
  intros P w kind. induction groups as [|group rest IH]; intros existing singles e s H HG HE HS; cbn [build_go] in H.
  - inversion H; subst. split; assumption.
  - destruct (negb ((kind =? K_SINGLE) || (1 <? zlen group))); [discriminate H|].
    destruct (mk_cand w kind (ordered_list group)) as [candidate|k] eqn:Ec; cbn [bind] in H; [|discriminate H].
    assert (HGr : allin P rest) by (intros g x Hg Hx; exact (HG g x (or_intror Hg) Hx)).
    assert (Hgroup : incl group P) by (intros x Hx; exact (HG group x (or_introl eq_refl) Hx)).
    assert (Hcand : good P w candidate).
    { destruct (mk_cand_wfc _ _ _ _ Ec) as [A [B _]]. split; [exact A|]. rewrite B. intros x Hx.
      apply Hgroup. apply In_ordered_list. exact Hx. }
    destruct (tget (ckey candidate) existing) as [ex|] eqn:Et.
    + pose proof (HE ex (tget_in _ _ _ Et)) as Hex.
      destruct (is_empty (iter (diff group (iter (cmem ex))))) eqn:Eex.
      * exact (IH _ _ _ _ H HGr HE HS).
      * destruct (mk_cand w (ckind ex) (ordered_list (iter (cmem ex) ++ iter (diff group (iter (cmem ex))))))
          as [replacement|k] eqn:Er; cbn [bind] in H; [|discriminate H].
        apply (IH _ _ _ _ H HGr).
        -- intros c Hc. apply tset_values in Hc. destruct Hc as [Hc|Hc]; [|exact (HE c Hc)]. subst c.
           destruct (mk_cand_wfc _ _ _ _ Er) as [A [B _]]. split; [exact A|]. rewrite B. intros x Hx.
           apply (proj1 (In_ordered_list _ _)) in Hx. apply in_app_or in Hx. destruct Hx as [Hx|Hx].
           ++ apply In_iter in Hx. exact (proj2 Hex x Hx).
           ++ apply In_iter in Hx. apply In_diff in Hx. exact (Hgroup x Hx).
        -- intros x Hx. apply In_fold_set_add' in Hx. destruct Hx as [Hx|Hx]; [exact (HS x Hx)|].
           apply In_iter in Hx. apply In_diff in Hx. exact (Hgroup x Hx).
    + apply (IH _ _ _ _ H HGr); [|exact HS].
      intros c Hc. apply tset_values in Hc. destruct Hc as [Hc|Hc]; [subst c; exact Hcand|exact (HE c Hc)].
Qed.

Lemma build_candidates_good : forall P w kind groups existing singles cs e s,
  build_candidates w kind groups existing singles = Ok (cs, e, s) ->
  allin P groups -> (forall c, In c (tvalues existing) -> good P w c) -> incl singles P ->
  (forall c, In c cs -> good P w c) /\ (forall c, In c (tvalues e) -> good P w c) /\ incl s P.
Proof.
  intros P w kind groups existing singles cs e s H HG HE HS. unfold build_candidates in H.
  destruct (build_go w kind groups existing singles) as [[e0 s0]|k] eqn:Eb; cbn [bind] in H; [|discriminate H].
  inversion H; subst; clear H. destruct (build_go_good _ _ _ _ _ _ _ _ Eb HG HE HS) as [A B].
  split; [|split; assumption]. intros c Hc. apply sort_by_in in Hc. exact (A c Hc).
Qed.

(* ---------- _find_interleaved ---------- *)
Lemma with_cores_In : forall w cands cc, with_cores w cands = Ok cc -> forall ck, In ck cc -> In (fst ck) cands.
Proof.
  intros w cands cc H ck Hck. unfold with_cores in H. destruct (mapM_In _ _ _ _ _ H ck Hck) as [c [Hc Hf]].
  destruct (ccore w c) as [k|e]; cbn [bind] in Hf; [|discriminate Hf]. inversion Hf; subst. exact Hc.
Qed.

Lemma core_pairs_from_In : forall c rest o, In o (core_pairs_from c rest) -> In o rest.
Proof.
  intros c. induction rest as [|a r IH]; intros o H; cbn [core_pairs_from] in H; [destruct H|].
  destruct (lend (pcore c) <=? lstart (pcore a)); [destruct H|].
  destruct (overlap (pcore c) (pcore a)).
  - destruct H as [H|H]; [left; exact H|right; exact (IH o H)].
  - right. exact (IH o H).
Qed.

Lemma core_pairs_In : forall l x y, In (x, y) (core_pairs l) -> In x l /\ In y l.
Proof.
  induction l as [|c r IH]; intros x y H; cbn [core_pairs] in H; [destruct H|].
  apply in_app_or in H. destruct H as [H|H].
  - apply in_map_iff in H. destruct H as [o [He Ho]]. inversion He; subst. apply core_pairs_from_In in Ho.
    split; [left; reflexivity|right; exact Ho].
  - destruct (IH x y H) as [A B]. split; right; assumption.
Qed.

Lemma cand_scan_In : forall rel limit cc ck, In ck (cand_scan rel limit cc) -> In ck cc.
Proof.
  intros rel limit. induction cc as [|a r IH]; intros ck H; cbn [cand_scan] in H; [destruct H|].
  destruct (limit <? lstart (cloc (fst a))); [destruct H|].
  destruct (rel a).
  - destruct H as [H|H]; [left; exact H|right; exact (IH ck H)].
  - right. exact (IH ck H).
Qed.

Lemma cand_scan_plain_In : forall rel limit cs c, In c (cand_scan_plain rel limit cs) -> In c cs.
Proof.
  intros rel limit. induction cs as [|a r IH]; intros c H; cbn [cand_scan_plain] in H; [destruct H|].
  destruct (limit <? lstart (cloc a)); [destruct H|].
  destruct (rel a).
  - destruct H as [H|H]; [left; exact H|right; exact (IH c H)].
  - right. exact (IH c H).
Qed.

Lemma cross_walk_In : forall core n l st cg found, cross_walk core n l st = (cg, found) ->
  forall x, In x cg -> In x (fst st) \/ In x l.
Proof.
  intros core n. induction l as [|c r IH]; intros st cg found H x Hx; cbn [cross_walk] in H.
  - subst st. left. exact Hx.
  - destruct st as [cg0 found0]. destruct (negb (set_size found0 <? n)); [inversion H; subst; left; exact Hx|].
    destruct (negb (overlap (pcore c) core)); [inversion H; subst; left; exact Hx|].
    destruct (IH _ _ _ H x Hx) as [A|A]; [|right; right; exact A]. cbn [fst] in A.
    apply In_set_add in A. destruct A as [A|A]; [right; left; symmetry; exact A|left; exact A].
Qed.

Lemma cross_core_group_In : forall crossing x, In x (cross_core_group crossing) ->
  exists ck, In ck crossing /\ In x (cmem (fst ck)).
Proof.
  intros crossing x. unfold cross_core_group.
  assert (G : forall l acc, In x (fold_left (fun acc ck => fold_left (fun a p => set_add p a)
                      (filter (fun p => bridges (pcore p)) (cmem (fst ck))) acc) l acc) ->
              In x acc \/ exists ck : cand * loc, In ck l /\ In x (cmem (fst ck))).
  { induction l as [|ck r IH]; intros acc H; cbn [fold_left] in H; [left; exact H|].
    destruct (IH _ H) as [A|[ck' [A B]]].
    - apply In_fold_set_add in A. destruct A as [A|A]; [left; exact A|right]. apply filter_In in A.
      exists ck. split; [left; reflexivity|exact (proj1 A)].
    - right. exists ck'. split; [right; exact A|exact B]. }
  intro H. destruct (G crossing [] H) as [[]|A]. exact A.
Qed.

Lemma cross_all_group_In : forall crossing x, In x (cross_all_group crossing) ->
  exists ck, In ck crossing /\ In x (cmem (fst ck)).
Proof.
  intros crossing x. unfold cross_all_group.
  assert (G : forall l acc, In x (fold_left (fun acc ck => fold_left (fun a p => set_add p a)
                      (cmem (fst ck)) acc) l acc) ->
              In x acc \/ exists ck : cand * loc, In ck l /\ In x (cmem (fst ck))).
  { induction l as [|ck r IH]; intros acc H; cbn [fold_left] in H; [left; exact H|].
    destruct (IH _ H) as [A|[ck' [A B]]].
    - apply In_fold_set_add in A. destruct A as [A|A]; [left; exact A|right].
      exists ck. split; [left; reflexivity|exact A].
    - right. exists ck'. split; [right; exact A|exact B]. }
  intro H. destruct (G crossing [] H) as [[]|A]. exact A.
Qed.

Lemma find_cross_allin : forall P w cc unassigned groups found groups',
  find_cross_origin_interleaved w cc unassigned groups = Ok (found, groups') ->
  allin P groups -> incl unassigned P -> (forall ck, In ck cc -> incl (cmem (fst ck)) P) -> allin P groups'.
Proof.
  intros P w cc unassigned groups found groups' H HG HU HC. unfold find_cross_origin_interleaved in H.
  destruct (is_empty unassigned || is_empty cc); [inversion H; subst; exact HG|].
  destruct (is_empty (filter (fun ck : cand * loc => cand_core_crosses (snd ck)) cc)); [inversion H; subst; exact HG|].
  destruct (connect_locations (map snd (filter (fun ck : cand * loc => cand_core_crosses (snd ck)) cc)) w) as [core|k];
    cbn [bind] in H; [|discriminate H].
  cbv zeta in H.
  set (crossing := filter (fun ck : cand * loc => cand_core_crosses (snd ck)) cc) in *.
  set (cg0 := if is_empty (cross_core_group crossing) then cross_all_group crossing else cross_core_group crossing) in *.
  assert (Hcg0 : forall x, In x cg0 -> exists ck, In ck crossing /\ In x (cmem (fst ck))).
  { intros x Hx. unfold cg0 in Hx. destruct (is_empty (cross_core_group crossing));
      [exact (cross_all_group_In _ _ Hx)|exact (cross_core_group_In _ _ Hx)]. }
  destruct (is_empty cg0); [discriminate H|].
  destruct (cross_walk core (zlen unassigned) (rev (tl unassigned)) (cg0, [])) as [cg1 f1] eqn:E1.
  destruct (cross_walk core (zlen unassigned) unassigned (cg1, f1)) as [cg found2] eqn:E2.
  assert (Hcg : incl cg P).
  { intros x Hx. destruct (cross_walk_In _ _ _ _ _ _ E2 x Hx) as [A|A]; [|exact (HU x A)]. cbn [fst] in A.
    destruct (cross_walk_In _ _ _ _ _ _ E1 x A) as [B|B].
    - cbn [fst] in B. apply Hcg0 in B. destruct B as [ck [B1 B2]]. apply filter_In in B1.
      exact (HC ck (proj1 B1) x B2).
    - apply in_rev in B. apply HU. destruct unassigned; [destruct B|right; exact B]. }
  destruct (existsb (fun ck : cand * loc => set_eqb cg (cmem (fst ck))) cc); [inversion H; subst; exact HG|].
  destruct (1 <? set_size cg); inversion H; subst; [|exact HG].
  apply allin_app; [exact HG|]. intros g x Hg Hx. destruct Hg as [Hg|[]]. subst g. exact (Hcg x Hx).
Qed.

Lemma find_interleaved_allin : forall P clusters cands w groups un,
  find_interleaved clusters cands w = Ok (groups, un) ->
  incl clusters P -> (forall c, In c cands -> incl (cmem c) P) -> allin P groups /\ incl un clusters.
Proof.
  intros P clusters cands w groups un H HCl HCa. unfold find_interleaved in H. cbv zeta in H.
  destruct (with_cores w cands) as [cc|k] eqn:Ecc; cbn [bind] in H; [|discriminate H].
  assert (Hcc : forall ck, In ck cc -> incl (cmem (fst ck)) P).
  { intros ck Hck. apply HCa. exact (with_cores_In _ _ _ Ecc ck Hck). }
  match type of H with bind ?e _ = _ => destruct e as [[found3 groups3]|k] eqn:EF end; cbn [bind] in H; [|discriminate H].
  inversion H; subst; clear H. split.
  - apply merge_sets_allin. refine (find_cross_allin P _ _ _ _ _ _ EF _ _ Hcc).
    + apply allin_app; [apply allin_app|].
      * intros g x Hg Hx. unfold find_interleaved_candidates in Hg. apply in_map_iff in Hg.
        destruct Hg as [[a b] [He Hab]]. subst g. cbn [fst snd] in Hx.
        assert (Hin : In a cc /\ In b cc).
        { apply in_app_or in Hab. destruct Hab as [Hab|Hab].
          - apply pairs_rel_In in Hab. destruct Hab as [A [B _]]. split; assumption.
          - destruct cc as [|c1 [|c2 r]]; [destruct Hab|destruct Hab|].
            destruct (first_last (c1 :: c2 :: r)) as [[f l]|] eqn:Efl; [|destruct Hab].
            destruct (overlap (snd f) (snd l)); [|destruct Hab]. destruct Hab as [Hab|[]]. inversion Hab; subst.
            exact (first_last_In _ _ _ _ Efl). }
        apply in_app_or in Hx. destruct Hx as [Hx|Hx]; [exact (Hcc a (proj1 Hin) x Hx)|exact (Hcc b (proj2 Hin) x Hx)].
      * apply pair_groups_allin. intros a b Hab. apply core_pairs_In in Hab. destruct Hab as [A B].
        apply sort_by_in in A. apply sort_by_in in B. split; apply HCl; assumption.
      * intros g x Hg Hx. apply in_map_iff in Hg. destruct Hg as [[ck cl] [He Hh]]. subst g. cbn [fst snd] in Hx.
        apply in_flat_map in Hh. destruct Hh as [cl0 [Hcl0 Hh]]. apply in_map_iff in Hh.
        destruct Hh as [ck0 [He Hck0]]. inversion He; subst. apply cand_scan_In in Hck0. apply In_skipn' in Hck0.
        apply sort_by_in in Hcl0.
        apply in_app_or in Hx. destruct Hx as [Hx|[Hx|[]]]; [exact (Hcc ck Hck0 x Hx)|subst x; exact (HCl cl Hcl0)].
    + intros x Hx. apply sort_by_in in Hx. exact (HCl x Hx).
  - intros x Hx. apply sort_by_in in Hx. apply In_iter in Hx. apply In_diff in Hx. exact Hx.
Qed.

(* ---------- _find_neighbouring ---------- *)
Lemma find_neighbouring_allin : forall P singles cands,
  incl singles P -> (forall c, In c cands -> incl (cmem c) P) -> allin P (find_neighbouring singles cands).
Proof.
  intros P singles cands HS HC. unfold find_neighbouring. cbv zeta. apply merge_sets_allin.
  assert (HU : forall x, In x (iter (diff singles (map snd
             (flat_map (fun s => map (fun c => (c, s))
                (cand_scan_plain (fun c => overlap (ploc s) (cloc c)) (lend (ploc s))
                   (skipn (window_index_plain cands s) cands ++ firstn 1 cands))) singles)))) -> In x P).
  { intros x Hx. apply In_iter in Hx. apply In_diff in Hx. exact (HS x Hx). }
  apply allin_app; [apply allin_app; [apply allin_app|]|].
  - intros g x Hg Hx. unfold find_neighbouring_candidates in Hg. apply in_map_iff in Hg.
    destruct Hg as [[a b] [He Hab]]. subst g. cbn [fst snd] in Hx. apply pairs_rel_In in Hab. destruct Hab as [A [B _]].
    apply In_union in Hx. destruct Hx as [Hx|Hx]; [exact (HC a A x Hx)|exact (HC b B x Hx)].
  - intros g x Hg Hx. apply in_map_iff in Hg. destruct Hg as [[c s] [He Hh]]. subst g. cbn [fst snd] in Hx.
    apply in_flat_map in Hh. destruct Hh as [s0 [Hs0 Hh]]. apply in_map_iff in Hh. destruct Hh as [c0 [He Hc0]].
    inversion He; subst. apply cand_scan_plain_In in Hc0.
    assert (Hc : In c cands).
    { apply in_app_or in Hc0. destruct Hc0 as [A|A]; [exact (In_skipn' _ _ _ _ A)|exact (In_firstn' _ _ _ _ A)]. }
    apply In_union in Hx. destruct Hx as [Hx|[Hx|[]]]; [exact (HC c Hc x Hx)|subst x; exact (HS s Hs0)].
  - intros g x Hg Hx. apply in_flat_map in Hg. destruct Hg as [c [Hc Hg]].
    match type of Hg with In g (match ?f with _ => _ end) => destruct f as [|s r] eqn:Ef end; [destruct Hg|].
    destruct Hg as [Hg|[]]. subst g.
    assert (Hcc : In c cands).
    { match type of Hc with In c (if ?b then _ else _) => destruct b end; [destruct Hc|].
      apply in_app_or in Hc. destruct Hc as [Hc|Hc].
      - destruct cands as [|c0 r0]; [destruct Hc|]. destruct (bridges (cloc c0)); [|destruct Hc].
        destruct Hc as [Hc|[]]. subst. left. reflexivity.
      - destruct cands as [|c0 [|c1 r1]]; [destruct Hc|destruct Hc|].
        destruct (last_opt (c0 :: c1 :: r1)) as [cl|] eqn:El; [|destruct Hc].
        destruct (bridges (cloc cl)); [|destruct Hc]. destruct Hc as [Hc|[]]. subst. exact (last_opt_In _ _ _ El). }
    apply in_app_or in Hx. destruct Hx as [Hx|[Hx|[]]]; [exact (HC c Hcc x Hx)|]. subst x.
    assert (Hs : In s (s :: r)) by (left; reflexivity). rewrite <- Ef in Hs. apply filter_In in Hs.
    exact (HU s (proj1 Hs)).
  - unfold find_neighbouring_protoclusters. apply pair_groups_allin. intros a b Hab.
    assert (Hin : forall y, In y (sort_by lt_pp (iter (diff singles (map snd
             (flat_map (fun s => map (fun c => (c, s))
                (cand_scan_plain (fun c => overlap (ploc s) (cloc c)) (lend (ploc s))
                   (skipn (window_index_plain cands s) cands ++ firstn 1 cands))) singles))))) -> In y P).
    { intros y Hy. apply sort_by_in in Hy. exact (HU y Hy). }
    apply in_app_or in Hab. destruct Hab as [Hab|Hab].
    + apply pairs_rel_In in Hab. destruct Hab as [A [B _]]. split; apply Hin; assumption.
    + match type of Hab with In _ (match ?l with _ => _ end) => destruct l as [|p1 [|p2 r]] eqn:El end;
        [destruct Hab|destruct Hab|].
      destruct (first_last (p1 :: p2 :: r)) as [[f l]|] eqn:Efl; [|destruct Hab].
      destruct (negb (pid f =? pid l) && overlap (ploc f) (ploc l)); [|destruct Hab].
      destruct Hab as [Hab|[]]. inversion Hab; subst. apply first_last_In in Efl.
      split; apply Hin; tauto.
Qed.

(* ---------- the final singles and the whole formation ---------- *)
Lemma singles_go_good : forall P w existing l ss, singles_go w existing l = Ok ss -> incl l P ->
  forall c, In c ss -> good P w c /\ ckind c = K_SINGLE /\ exists p, cmem c = [p] /\ In p l.
Proof.
  intros P w existing. induction l as [|q r IH]; intros ss H HL c Hc; cbn [singles_go] in H.
  - inversion H; subst. destruct Hc.
  - assert (HR : incl r P) by (intros x Hx; apply HL; right; exact Hx).
    destruct (match tget (fstart (ploc q), fend (ploc q)) existing with
              | Some ex => pmem q (cmem ex) | None => false end).
    + destruct (IH ss H HR c Hc) as [A [B [p [C D]]]]. split; [exact A|]. split; [exact B|]. exists p. split; [exact C|right; exact D].
    + destruct (mk_cand w K_SINGLE [q]) as [c0|k] eqn:Ec; cbn [bind] in H; [|discriminate H].
      destruct (singles_go w existing r) as [cs|k] eqn:Er; cbn [bind] in H; [|discriminate H].
      inversion H; subst ss. destruct Hc as [Hc|Hc].
      * subst c0. destruct (mk_cand_wfc _ _ _ _ Ec) as [A [B C]]. split; [split; [exact A|]|].
        -- rewrite B. intros x [Hx|[]]. subst x. apply HL. left. reflexivity.
        -- split; [exact C|]. exists q. split; [exact B|left; reflexivity].
      * destruct (IH cs eq_refl HR c Hc) as [A [B [p [C D]]]]. split; [exact A|]. split; [exact B|].
        exists p. split; [exact C|right; exact D].
Qed.

Lemma formation_body_good : forall protos w cands, formation_body protos w = Ok cands ->
  forall c, In c cands -> good protos w c.
Proof.
  intros protos w cands H. unfold formation_body in H. cbv zeta in H.
  destruct (find_hybrids (sort_by lt_pp protos) w) as [[hg un1]|k] eqn:E1; cbn [bind] in H; [|discriminate H].
  destruct (find_hybrids_allin _ _ _ _ E1) as [A1 B1].
  assert (HP : incl (sort_by lt_pp protos) protos) by (intros x Hx; apply sort_by_in in Hx; exact Hx).
  assert (A1' : allin protos hg) by (intros g x Hg Hx; exact (HP x (A1 g x Hg Hx))).
  assert (B1' : incl un1 protos) by (intros x Hx; exact (HP x (B1 x Hx))).
  destruct (build_candidates w K_HYBRID hg [] []) as [[[c1 e1] s1]|k] eqn:E2; cbn [bind] in H; [|discriminate H].
  destruct (build_candidates_good protos _ _ _ _ _ _ _ _ E2 A1') as [G1 [T1 S1]];
    [intros c []|intros x []|].
  destruct (find_interleaved un1 c1 w) as [[ig un2]|k] eqn:E3; cbn [bind] in H; [|discriminate H].
  destruct (find_interleaved_allin protos _ _ _ _ _ E3 B1') as [A3 B3]; [intros c Hc; exact (proj2 (G1 c Hc))|].
  assert (B3' : incl un2 protos) by (intros x Hx; exact (B1' x (B3 x Hx))).
  destruct (build_candidates w K_INTERLEAVED ig e1 s1) as [[[c2 e2] s2]|k] eqn:E4; cbn [bind] in H; [|discriminate H].
  destruct (build_candidates_good protos _ _ _ _ _ _ _ _ E4 A3 T1 S1) as [G2 [T2 S2]].
  destruct (build_candidates w K_NEIGHBOURING (find_neighbouring un2 c2) e2 s2) as [[[c3 e3] s3]|k] eqn:E5;
    cbn [bind] in H; [|discriminate H].
  assert (A5 : allin protos (find_neighbouring un2 c2)).
  { apply find_neighbouring_allin; [exact B3'|intros c Hc; exact (proj2 (G2 c Hc))]. }
  destruct (build_candidates_good protos _ _ _ _ _ _ _ _ E5 A5 T2 S2) as [G3 [T3 S3]].
  destruct (singles_go w e3 (ordered_set (un2 ++ s3))) as [ss|k] eqn:E6; cbn [bind] in H; [|discriminate H].
  inversion H; subst; clear H. intros c Hc. apply in_app_or in Hc. destruct Hc as [Hc|Hc]; [exact (G3 c Hc)|].
  refine (proj1 (singles_go_good protos _ _ _ _ E6 _ c Hc)).
  intros x Hx. apply In_ordered_set in Hx. apply in_app_or in Hx. destruct Hx as [Hx|Hx]; [exact (B3' x Hx)|exact (S3 x Hx)].
Qed.

Lemma create_candidates_good : forall protos w out, create_candidates protos w = Ok out ->
  forall c, In c out -> good protos w c.
Proof.
  intros protos w out H c Hc. unfold create_candidates in H. destruct protos as [|p ps]; [inversion H; subst; destruct Hc|].
  destruct (formation_body (p :: ps) w) as [cands|k] eqn:E; cbn [bind] in H; [|discriminate H].
  destruct (negb (assigned_count cands =? zlen (p :: ps))); [discriminate H|]. inversion H; subst.
  apply sort_by_in in Hc. exact (formation_body_good _ _ _ E c Hc).
Qed.

(* ---------- the three clauses for create_candidates ---------- *)
Lemma members_from_input : forall protos w out, create_candidates protos w = Ok out ->
  forall c, In c out -> cmem c <> [] /\ forall p, In p (cmem c) -> In p protos.
Proof.
  intros protos w out H c Hc. destruct (create_candidates_good _ _ _ H c Hc) as [[A _] B]. split; [exact A|exact B].
Qed.

Lemma location_is_connect : forall protos w out, create_candidates protos w = Ok out ->
  forall c, In c out -> connect_locations (map ploc (cmem c)) w = Ok (cloc c).
Proof. intros protos w out H c Hc. exact (proj2 (proj1 (create_candidates_good _ _ _ H c Hc))). Qed.

(* iteration of a set: strictly ascending ids *)
Fixpoint asc (l : list Z) : Prop :=
  match l with [] => True | x :: r => (forall y, In y r -> x < y) /\ asc r end.

Lemma asc_set_insert : forall x l, asc (map pid l) -> asc (map pid (set_insert x l)).
Proof.
  intros x. induction l as [|y ys IH]; intro H; cbn [set_insert].
  - cbn. split; [intros z []|exact I].
  - cbn [map asc] in H. destruct H as [H1 H2]. destruct (pid x <? pid y) eqn:E1.
    + cbn [map asc]. split; [|split; assumption]. intros z [Hz|Hz]; [subst z; lia|]. specialize (H1 z Hz). lia.
    + destruct (pid x =? pid y) eqn:E2; [cbn [map asc]; split; assumption|].
      cbn [map asc]. split; [|exact (IH H2)]. intros z Hz.
      apply (proj1 (inS_set_insert z x ys)) in Hz. destruct Hz as [Hz|Hz]; [subst z; lia|exact (H1 z Hz)].
Qed.

Lemma asc_iter : forall l, asc (map pid (iter l)).
Proof. unfold iter. induction l as [|x xs IH]; cbn [fold_right]; [exact I|]. apply asc_set_insert. exact IH. Qed.

Lemma asc_NoDup : forall l, asc l -> NoDup l.
Proof.
  induction l as [|x r IH]; intro H; [constructor|]. destruct H as [H1 H2]. constructor; [|exact (IH H2)].
  intro Hx. specialize (H1 x Hx). lia.
Qed.

Lemma inS_concat : forall i (cands : list cand), inS i (concat (map cmem cands)) -> exists c, In c cands /\ inS i (cmem c).
Proof.
  intros i. induction cands as [|c r IH]; cbn [map concat]; intro H; [destruct H|].
  unfold inS in H. rewrite map_app in H. apply in_app_or in H. destruct H as [H|H].
  - exists c. split; [left; reflexivity|exact H].
  - destruct (IH H) as [c' [A B]]. exists c'. split; [right; exact A|exact B].
Qed.

(* every protocluster is a member of a candidate: the code's final assertion (as many distinct members as
   protoclusters) together with "every member was supplied" leaves no protocluster out *)
Lemma every_proto_covered : forall protos w out, create_candidates protos w = Ok out ->
  forall p, In p protos -> exists c, In c out /\ inS (pid p) (cmem c).
Proof.
  intros protos w out H p Hp. unfold create_candidates in H. destruct protos as [|p0 ps0]; [destruct Hp|].
  set (protos := p0 :: ps0) in *.
  destruct (formation_body protos w) as [cands|k] eqn:E; cbn [bind] in H; [|discriminate H].
  destruct (negb (assigned_count cands =? zlen protos)) eqn:Ea; [discriminate H|]. inversion H; subst out; clear H.
  apply negb_false_iff in Ea. apply Z.eqb_eq in Ea. unfold assigned_count, set_size, zlen in Ea.
  apply Nat2Z.inj in Ea.
  set (M := concat (map cmem cands)) in *.
  assert (Hincl : incl (map pid (iter M)) (map pid protos)).
  { intros i Hi. apply in_map_iff in Hi. destruct Hi as [x [Hx Hin]]. subst i. apply In_iter in Hin.
    unfold M in Hin. apply in_concat in Hin. destruct Hin as [g [Hg Hxg]]. apply in_map_iff in Hg.
    destruct Hg as [c [Hc Hcc]]. subst g. apply in_map. exact (proj2 (formation_body_good _ _ _ E c Hcc) x Hxg). }
  assert (Hrev : incl (map pid protos) (map pid (iter M))).
  { apply NoDup_length_incl; [apply asc_NoDup; apply asc_iter| |exact Hincl]. rewrite !map_length. lia. }
  assert (Hi : inS (pid p) M).
  { apply inS_iter. apply Hrev. apply in_map. exact Hp. }
  apply inS_concat in Hi. destruct Hi as [c [Hc Hic]]. exists c. split; [apply sort_by_in; exact Hc|exact Hic].
Qed.

Lemma NoDup_map_inj : forall (l : list proto) x y, NoDup (map pid l) -> In x l -> In y l -> pid x = pid y -> x = y.
Proof.
  induction l as [|a r IH]; intros x y Hnd Hx Hy He; [destruct Hx|]. cbn [map] in Hnd. inversion Hnd as [|? ? Hn Hr]; subst.
  destruct Hx as [Hx|Hx]; destruct Hy as [Hy|Hy].
  - subst. reflexivity.
  - subst a. exfalso. apply Hn. rewrite He. apply in_map. exact Hy.
  - subst a. exfalso. apply Hn. rewrite <- He. apply in_map. exact Hx.
  - exact (IH x y Hr Hx Hy He).
Qed.

Lemma every_proto_covered_strong : forall protos w out, create_candidates protos w = Ok out ->
  NoDup (map pid protos) -> forall p, In p protos -> exists c, In c out /\ In p (cmem c).
Proof.
  intros protos w out H Hnd p Hp. destruct (every_proto_covered _ _ _ H p Hp) as [c [Hc Hi]].
  exists c. split; [exact Hc|]. unfold inS in Hi. apply in_map_iff in Hi. destruct Hi as [x [Hx Hin]].
  pose proof (proj2 (members_from_input _ _ _ H c Hc) x Hin) as Hxp.
  rewrite <- (NoDup_map_inj protos x p Hnd Hxp Hp Hx). exact Hin.
Qed.

(* ---------- linear records: the location is the exact span of the members ---------- *)
Lemma location_linear : forall protos out, create_candidates protos None = Ok out ->
  (forall p, In p protos -> exists q, ploc p = [q] /\ ps q < pe q) ->
  forall c, In c out -> exists h, cloc c = [h] /\
    (forall p x, In p (cmem c) -> ASV.C04.Proofs.base_of (ploc p) x -> ps h <= x < pe h) /\
    (exists p q, In p (cmem c) /\ ploc p = [q] /\ ps q = ps h) /\
    (exists p q, In p (cmem c) /\ ploc p = [q] /\ pe q = pe h).
Proof.
  intros protos out H Hs c Hc. destruct (create_candidates_good _ _ _ H c Hc) as [[Hne Hcon] Hin].
  set (locs := map ploc (cmem c)) in *.
  assert (Hsimple : ASV.C04.Proofs.simple_locs locs).
  { unfold ASV.C04.Proofs.simple_locs. apply Forall_forall. intros l Hl. unfold locs in Hl. apply in_map_iff in Hl.
    destruct Hl as [p [He Hp]]. subst l. destruct (Hs p (Hin p Hp)) as [q [Hq _]]. exists q. exact Hq. }
  assert (Hwf : Forall ASV.C04.Proofs.wf_loc locs).
  { apply Forall_forall. intros l Hl. unfold locs in Hl. apply in_map_iff in Hl.
    destruct Hl as [p [He Hp]]. subst l. destruct (Hs p (Hin p Hp)) as [q [Hq Hlt]]. rewrite Hq.
    split; [discriminate|]. constructor; [exact Hlt|constructor]. }
  assert (Hlne : locs <> []).
  { unfold locs. destruct (cmem c); [exfalso; apply Hne; reflexivity|discriminate]. }
  destruct (ASV.C04.Proofs.connect_line_simple locs Hlne Hsimple Hwf) as [h [Hh [Hps [Hpe _]]]].
  rewrite Hcon in Hh. inversion Hh as [Hcl]. exists h. split; [exact Hcl|]. split; [|split].
  - intros p x Hp Hb. apply (ASV.C04.Proofs.hull_covers locs h Hsimple Hps Hpe (ploc p) x); [|exact Hb].
    unfold locs. apply in_map. exact Hp.
  - destruct (ASV.C04.Proofs.hull_tight locs h Hlne Hsimple Hps Hpe) as [[l [q [Hl [Hlq Hq]]]] _].
    unfold locs in Hl. apply in_map_iff in Hl. destruct Hl as [p [He Hp]]. exists p, q. subst l.
    split; [exact Hp|split; [exact Hlq|exact Hq]].
  - destruct (ASV.C04.Proofs.hull_tight locs h Hlne Hsimple Hps Hpe) as [_ [l [q [Hl [Hlq Hq]]]]].
    unfold locs in Hl. apply in_map_iff in Hl. destruct Hl as [p [He Hp]]. exists p, q. subst l.
    split; [exact Hp|split; [exact Hlq|exact Hq]].
Qed.

(* ---------- _merge_sets does not depend on the order (or multiplicity) of the supplied sets ---------- *)
Lemma FOP_In_cases : forall A (R : A -> A -> Prop) l a b,
  ForallOrdPairs R l -> In a l -> In b l -> a = b \/ R a b \/ R b a.
Proof.
  intros A R l a b H. induction H as [|x l Hx Hl IH]; intros Ha Hb; [destruct Ha|].
  rewrite Forall_forall in Hx. destruct Ha as [Ha|Ha]; destruct Hb as [Hb|Hb].
  - left. congruence.
  - subst a. right. left. exact (Hx b Hb).
  - subst b. right. right. exact (Hx a Ha).
  - exact (IH Ha Hb).
Qed.

Lemma disjoint_false_witness : forall a b, disjoint a b = false -> exists i, inS i a /\ inS i b.
Proof.
  intros a b H. unfold disjoint in H. apply negb_false_iff in H. apply existsb_exists in H.
  destruct H as [x [Hx Hm]]. exists (pid x). split; [apply in_map; exact Hx|apply pmem_inS; exact Hm].
Qed.

Lemma built_in_component : forall G out,
  (forall g, In g G -> g <> [] -> exists h, In h out /\ subsetP g h) ->
  ForallOrdPairs disjointP out ->
  forall s, built G s -> s = [] \/ exists h, In h out /\ subsetP s h.
Proof.
  intros G out HS HD s Hb. induction Hb as [g Hg|a b Ha IHa Hb IHb Hd].
  - destruct g as [|x g']; [left; reflexivity|right]. apply HS; [exact Hg|discriminate].
  - right. destruct (disjoint_false_witness _ _ Hd) as [i [Hia Hib]].
    destruct IHa as [Ea|[ha [Hha Hsa]]]; [subst a; apply inS_nil in Hia; contradiction|].
    destruct IHb as [Eb|[hb [Hhb Hsb]]]; [subst b; apply inS_nil in Hib; contradiction|].
    destruct (FOP_In_cases _ _ _ ha hb HD Hha Hhb) as [E|[E|E]].
    + subst hb. exists ha. split; [exact Hha|]. intros j Hj. apply inS_union in Hj. destruct Hj; [apply Hsa|apply Hsb]; assumption.
    + exfalso. exact (E i (Hsa i Hia) (Hsb i Hib)).
    + exfalso. exact (E i (Hsb i Hib) (Hsa i Hia)).
Qed.

Lemma merge_sets_order_independent : forall G G', (forall g, In g G <-> In g G') ->
  forall h, In h (merge_sets G) -> exists h', In h' (merge_sets G') /\ forall i, inS i h <-> inS i h'.
Proof.
  intros G G' HGG h Hh.
  pose proof (merge_sets_components G) as C. cbv zeta in C. destruct C as [_ [HD [HS [HB HN]]]].
  pose proof (merge_sets_components G') as C'. cbv zeta in C'. destruct C' as [_ [HD' [HS' [HB' _]]]].
  rewrite Forall_forall in HB, HB', HN.
  destruct (HB h Hh) as [h0 [Hb0 He0]].
  assert (Hx : exists x, inS x h).
  { destruct h as [|x h']; [exfalso; exact (HN [] Hh eq_refl)|]. exists (pid x). left. reflexivity. }
  destruct Hx as [x Hx].
  assert (Hb0' : built G' h0) by (apply (built_weaken G G'); [intros g Hg; apply HGG; exact Hg|exact Hb0]).
  destruct (built_in_component G' _ HS' HD' h0 Hb0') as [E|[h' [Hh' Hsub]]].
  { subst h0. apply He0 in Hx. apply inS_nil in Hx. contradiction. }
  exists h'. split; [exact Hh'|].
  destruct (HB' h' Hh') as [h0' [HbA He0']].
  assert (Hb0'' : built G h0') by (apply (built_weaken G' G); [intros g Hg; apply HGG; exact Hg|exact HbA]).
  destruct (built_in_component G _ HS HD h0' Hb0'') as [E|[h2 [Hh2 Hsub2]]].
  { subst h0'. assert (Hx' : inS x h') by (apply Hsub; apply He0; exact Hx). apply He0' in Hx'. apply inS_nil in Hx'. contradiction. }
  assert (Hx2 : inS x h2) by (apply Hsub2; apply He0'; apply Hsub; apply He0; exact Hx).
  destruct (FOP_In_cases _ _ _ h h2 HD Hh Hh2) as [E|[E|E]].
  - subst h2. intro i. split; [intro Hi; apply Hsub; apply He0; exact Hi|intro Hi; apply Hsub2; apply He0'; exact Hi].
  - exfalso. exact (E x Hx Hx2).
  - exfalso. exact (E x Hx2 Hx).
Qed.

Lemma merge_sets_perm : forall G G', Permutation G G' ->
  forall h, In h (merge_sets G) -> exists h', In h' (merge_sets G') /\ forall i, inS i h <-> inS i h'.
Proof.
  intros G G' HP. apply merge_sets_order_independent. intro g. split; apply Permutation_in; [exact HP|apply Permutation_sym; exact HP].
Qed.

(* ---------- chemical hybrids: the sets handed to _merge_sets are exactly the pairs sharing a defining gene ---------- *)
Definition hybrid_pair_groups (clusters : list proto) : list (list proto) :=
  let sorted_c := sort_by core_key_lt clusters in
  map (fun xy => [fst xy; snd xy])
      (pairs_rel defs_intersect sorted_c ++
       match first_last sorted_c with
       | Some (f, l) => if negb (pid f =? pid l) && defs_intersect f l then [(f, l)] else []
       | None => []
       end).

Lemma find_hybrids_shape : forall clusters w groups un, find_hybrids clusters w = Ok (groups, un) ->
  exists extended,
    mapM (hybrid_extend w (sort_by core_start_lt (iter (diff clusters (concat (hybrid_pair_groups clusters))))))
         (merge_sets (hybrid_pair_groups clusters)) = Ok extended /\ groups = map ordered_list extended.
Proof.
  intros clusters w groups un H. unfold find_hybrids in H. cbv zeta in H.
  match type of H with bind ?e _ = _ => destruct e as [extended|k] eqn:EM end; cbn [bind] in H; [|discriminate H].
  inversion H; subst; clear H. exists extended. split; [exact EM|reflexivity].
Qed.

Lemma pair_group_spec : forall clusters g, In g (hybrid_pair_groups clusters) ->
  exists x y, g = [x; y] /\ In x clusters /\ In y clusters /\ defs_intersect x y = true.
Proof.
  intros clusters g Hg. unfold hybrid_pair_groups in Hg. cbv zeta in Hg. apply in_map_iff in Hg.
  destruct Hg as [[x y] [He Hxy]]. subst g. exists x, y. split; [reflexivity|].
  apply in_app_or in Hxy. destruct Hxy as [Hxy|Hxy].
  - apply pairs_rel_In in Hxy. destruct Hxy as [A [B C]]. apply sort_by_in in A. apply sort_by_in in B. tauto.
  - destruct (first_last (sort_by core_key_lt clusters)) as [[f l]|] eqn:Efl; [|destruct Hxy].
    destruct (negb (pid f =? pid l) && defs_intersect f l) eqn:Ec; [|destruct Hxy].
    destruct Hxy as [Hxy|[]]. inversion Hxy; subst. apply first_last_In in Efl. destruct Efl as [A B].
    apply sort_by_in in A. apply sort_by_in in B. apply andb_true_iff in Ec. tauto.
Qed.

Lemma pairs_rel_complete : forall A (rel : A -> A -> bool) l1 x l2 y l3,
  rel x y = true -> In (x, y) (pairs_rel rel (l1 ++ x :: l2 ++ y :: l3)).
Proof.
  intros A rel. induction l1 as [|a r IH]; intros x l2 y l3 H; cbn [app pairs_rel]; apply in_or_app.
  - left. apply in_map. apply filter_In. split; [apply in_or_app; right; left; reflexivity|exact H].
  - right. exact (IH x l2 y l3 H).
Qed.

Lemma In_two_split : forall A (l : list A) a b, a <> b -> In a l -> In b l ->
  (exists l1 l2 l3, l = l1 ++ a :: l2 ++ b :: l3) \/ (exists l1 l2 l3, l = l1 ++ b :: l2 ++ a :: l3).
Proof.
  intros A l a b Hne Ha Hb. apply in_split in Ha. destruct Ha as [l1 [r He]]. subst l.
  apply in_app_or in Hb. destruct Hb as [Hb|[Hb|Hb]].
  - right. apply in_split in Hb. destruct Hb as [m1 [m2 He]]. subst l1. exists m1, m2, r.
    rewrite <- app_assoc. reflexivity.
  - exfalso. exact (Hne Hb).
  - left. apply in_split in Hb. destruct Hb as [m1 [m2 He]]. subst r. exists l1, m1, m2. reflexivity.
Qed.

Lemma zmem_In : forall x l, zmem x l = true <-> In x l.
Proof.
  intros x l. unfold zmem. rewrite existsb_exists. split.
  - intros [y [Hy He]]. apply Z.eqb_eq in He. subst y. exact Hy.
  - intro H. exists x. split; [exact H|apply Z.eqb_refl].
Qed.

Lemma defs_intersect_sym : forall a b, defs_intersect a b = true -> defs_intersect b a = true.
Proof.
  intros a b H. unfold defs_intersect in *. apply existsb_exists in H. destruct H as [g [Hg Hm]].
  apply zmem_In in Hm. apply existsb_exists. exists g. split; [exact Hm|apply zmem_In; exact Hg].
Qed.

Lemma mapM_In_fwd : forall A B (f : A -> res B) l r, mapM f l = Ok r ->
  forall x, In x l -> exists y, In y r /\ f x = Ok y.
Proof.
  intros A B f. induction l as [|a l IH]; intros r H x Hx; cbn [mapM] in H; [destruct Hx|].
  destruct (f a) as [b|k] eqn:Ea; cbn [bind] in H; [|discriminate H].
  destruct (mapM f l) as [bs|k] eqn:El; cbn [bind] in H; [|discriminate H].
  inversion H; subst. destruct Hx as [Hx|Hx].
  - subst. exists b. split; [left; reflexivity|exact Ea].
  - destruct (IH bs eq_refl x Hx) as [y [Hy Hf]]. exists y. split; [right; exact Hy|exact Hf].
Qed.

Lemma contained_until_spec : forall core limit cl x, In x (contained_until core limit cl) -> contains core (pcore x) = true.
Proof.
  intros core limit. induction cl as [|c r IH]; intros x H; cbn [contained_until] in H; [destruct H|].
  destruct (limit <? lstart (ploc c)); [destruct H|].
  destruct (contains core (pcore c)) eqn:E.
  - destruct H as [H|H]; [subst; exact E|exact (IH x H)].
  - exact (IH x H).
Qed.

Lemma hybrid_extend_spec : forall w clusters group r, hybrid_extend w clusters group = Ok r ->
  exists core extra, connect_locations (map pcore group) w = Ok core /\ r = group ++ extra /\
    forall x, In x extra -> In x clusters /\ contains core (pcore x) = true.
Proof.
  intros w clusters group r H. unfold hybrid_extend in H.
  destruct (connect_locations (map pcore group) w) as [core|k]; cbn [bind] in H; [|discriminate H].
  inversion H; subst; clear H. eexists. eexists. split; [reflexivity|]. split; [reflexivity|].
  intros x Hx. apply first_occ_In in Hx. apply in_app_or in Hx. destruct Hx as [Hx|Hx].
  - split; [apply contained_until_In in Hx; apply In_skipn' in Hx; exact Hx|exact (contained_until_spec _ _ _ _ Hx)].
  - destruct (is_compound core); [|destruct Hx].
    split; [apply contained_until_In in Hx; exact Hx|exact (contained_until_spec _ _ _ _ Hx)].
Qed.

(* completeness: two supplied protoclusters that share a defining gene are in the same hybrid group *)
Lemma hybrids_complete : forall clusters w groups un, find_hybrids clusters w = Ok (groups, un) ->
  forall a b, In a clusters -> In b clusters -> a <> b -> defs_intersect a b = true ->
  exists g, In g groups /\ inS (pid a) g /\ inS (pid b) g.
Proof.
  intros clusters w groups un H a b Ha Hb Hne Hd. destruct (find_hybrids_shape _ _ _ _ H) as [extended [EM Hg]].
  assert (Hpair : exists pr, In pr (hybrid_pair_groups clusters) /\ inS (pid a) pr /\ inS (pid b) pr /\ pr <> []).
  { apply (sort_by_in _ core_key_lt) in Ha. apply (sort_by_in _ core_key_lt) in Hb.
    unfold hybrid_pair_groups. cbv zeta.
    destruct (In_two_split _ _ a b Hne Ha Hb) as [[l1 [l2 [l3 E]]]|[l1 [l2 [l3 E]]]].
    - exists [a; b]. split; [|split; [left; reflexivity|split; [right; left; reflexivity|discriminate]]].
      apply in_map_iff. exists (a, b). split; [reflexivity|]. apply in_or_app. left. rewrite E.
      apply pairs_rel_complete. exact Hd.
    - exists [b; a]. split; [|split; [right; left; reflexivity|split; [left; reflexivity|discriminate]]].
      apply in_map_iff. exists (b, a). split; [reflexivity|]. apply in_or_app. left. rewrite E.
      apply pairs_rel_complete. apply defs_intersect_sym. exact Hd. }
  destruct Hpair as [pr [Hpr [Hia [Hib Hprne]]]].
  pose proof (merge_sets_components (hybrid_pair_groups clusters)) as C. cbv zeta in C. destruct C as [_ [_ [HS _]]].
  destruct (HS pr Hpr Hprne) as [h [Hh Hsub]].
  destruct (mapM_In_fwd _ _ _ _ _ EM h Hh) as [e [He Hext]].
  destruct (hybrid_extend_spec _ _ _ _ Hext) as [core [extra [_ [Er _]]]].
  exists (ordered_list e). split; [subst groups; apply in_map; exact He|].
  assert (Hin : forall i, inS i h -> inS i (ordered_list e)).
  { intros i Hi. unfold ordered_list. rewrite !inS_sort_by. subst e. unfold inS. rewrite map_app. apply in_or_app. left. exact Hi. }
  split; apply Hin; apply Hsub; assumption.
Qed.

(* soundness: every member of a hybrid group belongs to one component of the sharing relation, or its core
   lies inside that component's joint core and it shares a defining gene with nobody *)
Lemma hybrids_sound : forall clusters w groups un, find_hybrids clusters w = Ok (groups, un) ->
  forall g, In g groups -> exists m core, In m (merge_sets (hybrid_pair_groups clusters)) /\
    connect_locations (map pcore m) w = Ok core /\
    (forall x, In x m -> In x g) /\
    forall x, In x g -> In x m \/
      (In x clusters /\ contains core (pcore x) = true /\ pmem x (concat (hybrid_pair_groups clusters)) = false).
Proof.
  intros clusters w groups un H g Hg. destruct (find_hybrids_shape _ _ _ _ H) as [extended [EM Hgs]]. subst groups.
  apply in_map_iff in Hg. destruct Hg as [e [He Hin]]. subst g.
  destruct (mapM_In _ _ _ _ _ EM e Hin) as [m [Hm Hext]].
  destruct (hybrid_extend_spec _ _ _ _ Hext) as [core [extra [Hc [Er Hx]]]].
  exists m, core. split; [exact Hm|]. split; [exact Hc|]. split.
  - intros x Hxm. apply In_ordered_list. subst e. apply in_or_app. left. exact Hxm.
  - intros x Hxe. apply (proj1 (In_ordered_list _ _)) in Hxe. subst e. apply in_app_or in Hxe.
    destruct Hxe as [Hxe|Hxe]; [left; exact Hxe|right]. destruct (Hx x Hxe) as [A B].
    apply sort_by_in in A. apply In_iter in A. unfold diff in A. apply filter_In in A. destruct A as [A1 A2].
    split; [exact A1|]. split; [exact B|]. apply negb_true_iff in A2. exact A2.
Qed.

(* ---------- the table never holds two candidates under the same (start, end) ---------- *)
Fixpoint keys_distinct (t : table) : Prop :=
  match t with
  | [] => True
  | (k, _) :: r => (forall k' c', In (k', c') r -> key_eqb k k' = false) /\ keys_distinct r
  end.

Lemma key_eqb_sym : forall a b, key_eqb a b = key_eqb b a.
Proof. intros a b. unfold key_eqb. rewrite (Z.eqb_sym (fst a)), (Z.eqb_sym (snd a)). reflexivity. Qed.

Lemma tset_In_key : forall k c t k' c', In (k', c') (tset k c t) -> (exists c0, In (k', c0) t) \/ k' = k.
Proof.
  intros k c. induction t as [|[k0 c0] r IH]; intros k' c' H; cbn [tset] in H.
  - destruct H as [H|[]]. inversion H. right. reflexivity.
  - destruct (key_eqb k k0).
    + destruct H as [H|H]; [inversion H; subst; left; exists c0; left; reflexivity|left; exists c'; right; exact H].
    + destruct H as [H|H]; [inversion H; subst; left; exists c'; left; reflexivity|].
      destruct (IH k' c' H) as [[c1 A]|A]; [left; exists c1; right; exact A|right; exact A].
Qed.

Lemma tset_keys_distinct : forall k c t, keys_distinct t -> keys_distinct (tset k c t).
Proof.
  intros k c. induction t as [|[k0 c0] r IH]; intro H; cbn [tset].
  - cbn. split; [intros k' c' []|exact I].
  - cbn [keys_distinct] in H. destruct H as [H1 H2]. destruct (key_eqb k k0) eqn:E.
    + cbn [keys_distinct]. split; assumption.
    + cbn [keys_distinct]. split; [|exact (IH H2)]. intros k' c' Hin.
      destruct (tset_In_key _ _ _ _ _ Hin) as [[c1 A]|A]; [exact (H1 k' c1 A)|]. subst k'. rewrite key_eqb_sym. exact E.
Qed.

Lemma build_go_keys_distinct : forall w kind groups existing singles e s,
  build_go w kind groups existing singles = Ok (e, s) -> keys_distinct existing -> keys_distinct e.
Proof.
  intros w kind. induction groups as [|group rest IH]; intros existing singles e s H HK; cbn [build_go] in H.
  - inversion H; subst. exact HK.
  - destruct (negb ((kind =? K_SINGLE) || (1 <? zlen group))); [discriminate H|].
    destruct (mk_cand w kind (ordered_list group)) as [candidate|k]; cbn [bind] in H; [|discriminate H].
    destruct (tget (ckey candidate) existing) as [ex|].
    + destruct (is_empty (iter (diff group (iter (cmem ex))))); [exact (IH _ _ _ _ H HK)|].
      destruct (mk_cand w (ckind ex) (ordered_list (iter (cmem ex) ++ iter (diff group (iter (cmem ex))))))
        as [replacement|k]; cbn [bind] in H; [|discriminate H].
      apply (IH _ _ _ _ H). apply tset_keys_distinct. exact HK.
    + apply (IH _ _ _ _ H). apply tset_keys_distinct. exact HK.
Qed.

(* build_candidates is NOT independent of the order of the groups: when two groups of one call have the same
   coordinates, the later one is united into the earlier one and only ITS members get an extra single *)
Definition oi_p (i s e : Z) : proto := mkProto i [mkPart s e 1] [mkPart s e 1] i [].
Definition oi_g1 : list proto := [oi_p 1 0 50; oi_p 2 10 20].
Definition oi_g2 : list proto := [oi_p 3 0 50; oi_p 4 30 40].
Lemma build_candidates_order_dependent :
  exists c1 e1 s1 c2 e2 s2,
    build_candidates None K_HYBRID [oi_g1; oi_g2] [] [] = Ok (c1, e1, s1) /\
    build_candidates None K_HYBRID [oi_g2; oi_g1] [] [] = Ok (c2, e2, s2) /\
    map pid s1 = [3; 4] /\ map pid s2 = [1; 2].
Proof.
  destruct (build_candidates None K_HYBRID [oi_g1; oi_g2] [] []) as [[[c1 e1] s1]|k] eqn:E1; vm_compute in E1; [|discriminate E1].
  destruct (build_candidates None K_HYBRID [oi_g2; oi_g1] [] []) as [[[c2 e2] s2]|k] eqn:E2; vm_compute in E2; [|discriminate E2].
  inversion E1; inversion E2; subst. do 6 eexists. split; [reflexivity|]. split; [reflexivity|]. split; vm_compute; reflexivity.
Qed.

(* ====================================================================================== *)
(* no protocluster is listed twice in a candidate (positive statement after the repair of  *)
(* hybrid_member_repeated), and the regression witness of joint_core_wraps_assert          *)
(* ====================================================================================== *)
Definition ndg (g : list proto) : Prop := NoDup (map pid g).

Lemma ndg_perm : forall g g', Permutation g g' -> ndg g -> ndg g'.
Proof. intros g g' Hp H. unfold ndg in *. exact (Permutation_NoDup (Permutation_map pid Hp) H). Qed.

Lemma ndg_sort_by : forall lt g, ndg g -> ndg (sort_by lt g).
Proof. intros lt g H. exact (ndg_perm _ _ (Permutation_sym (sort_by_perm _ lt g)) H). Qed.

Lemma ndg_ordered_list : forall g, ndg g -> ndg (ordered_list g).
Proof. intros g H. unfold ordered_list. apply ndg_sort_by. apply ndg_sort_by. exact H. Qed.

Lemma ndg_iter : forall g, ndg (iter g).
Proof. intro g. unfold ndg. apply asc_NoDup. apply asc_iter. Qed.

Lemma ndg_ordered_set : forall g, ndg (ordered_set g).
Proof. intro g. unfold ordered_set. apply ndg_ordered_list. apply ndg_iter. Qed.

Lemma ndg_merge_sets : forall G h, In h (merge_sets G) -> ndg h.
Proof. intros G h H. unfold merge_sets in H. apply in_map_iff in H. destruct H as [g [E _]]. subst h. apply ndg_ordered_set. Qed.

Lemma NoDup_app_disj : forall (a b : list Z), NoDup a -> NoDup b -> (forall x, In x a -> In x b -> False) -> NoDup (a ++ b).
Proof.
  induction a as [|x a IH]; intros b Ha Hb Hd; cbn [app]; [exact Hb|].
  inversion Ha as [|? ? Hx Ha']; subst. constructor.
  - intro Hin. apply in_app_or in Hin. destruct Hin as [Hin|Hin]; [exact (Hx Hin)|exact (Hd x (or_introl eq_refl) Hin)].
  - apply IH; [exact Ha'|exact Hb|]. intros y Hy1 Hy2. exact (Hd y (or_intror Hy1) Hy2).
Qed.

(* `if cluster not in group`: what is appended is new and appended once *)
Lemma first_occ_fresh : forall l seen,
  ndg (first_occ seen l) /\ forall x, In x (first_occ seen l) -> ~ inS (pid x) seen.
Proof.
  induction l as [|c r IH]; intro seen; cbn [first_occ].
  - split; [constructor|intros x []].
  - destruct (pmem c seen) eqn:Ec; [exact (IH seen)|].
    destruct (IH (c :: seen)) as [A B]. split.
    + unfold ndg. cbn [map]. constructor; [|exact A]. intro Hin. apply in_map_iff in Hin.
      destruct Hin as [y [Ey Hy]]. apply (B y Hy). unfold inS. cbn [map]. left. symmetry. exact Ey.
    + intros x [Hx|Hx].
      * subst x. intro Hs. apply pmem_inS in Hs. rewrite Hs in Ec. discriminate Ec.
      * intro Hs. apply (B x Hx). unfold inS in *. cbn [map]. right. exact Hs.
Qed.

Lemma hybrid_extend_ndg : forall w clusters group r, hybrid_extend w clusters group = Ok r -> ndg group -> ndg r.
Proof.
  intros w clusters group r H Hg. unfold hybrid_extend in H.
  destruct (connect_locations (map pcore group) w) as [core|k]; cbn [bind] in H; [|discriminate H].
  inversion H; subst; clear H. unfold ndg. rewrite map_app.
  match goal with |- NoDup (_ ++ map pid (first_occ group ?l)) => destruct (first_occ_fresh l group) as [A B] end.
  apply NoDup_app_disj; [exact Hg|exact A|].
  intros i Hi1 Hi2. apply in_map_iff in Hi2. destruct Hi2 as [y [Ey Hy]]. subst i. exact (B y Hy Hi1).
Qed.

Lemma find_hybrids_ndg : forall clusters w groups un, find_hybrids clusters w = Ok (groups, un) ->
  forall g, In g groups -> ndg g.
Proof.
  intros clusters w groups un H. unfold find_hybrids in H. cbv zeta in H.
  match type of H with bind ?e _ = _ => destruct e as [extended|k] eqn:EM end; cbn [bind] in H; [|discriminate H].
  inversion H; subst; clear H. intros g Hg. apply in_map_iff in Hg. destruct Hg as [g0 [He Hg0]]. subst g.
  apply ndg_ordered_list. destruct (mapM_In _ _ _ _ _ EM g0 Hg0) as [m [Hm Hext]].
  exact (hybrid_extend_ndg _ _ _ _ Hext (ndg_merge_sets _ _ Hm)).
Qed.

Lemma build_go_ndg : forall w kind groups existing singles e s,
  build_go w kind groups existing singles = Ok (e, s) ->
  (forall g, In g groups -> ndg g) -> (forall c, In c (tvalues existing) -> ndg (cmem c)) ->
  forall c, In c (tvalues e) -> ndg (cmem c).
Proof.
  intros w kind. induction groups as [|group rest IH]; intros existing singles e s H HG HE; cbn [build_go] in H.
  - inversion H; subst. exact HE.
  - destruct (negb ((kind =? K_SINGLE) || (1 <? zlen group))); [discriminate H|].
    destruct (mk_cand w kind (ordered_list group)) as [candidate|k] eqn:Ec; cbn [bind] in H; [|discriminate H].
    assert (HGr : forall g, In g rest -> ndg g) by (intros g Hg; exact (HG g (or_intror Hg))).
    assert (Hcand : ndg (cmem candidate)).
    { destruct (mk_cand_members _ _ _ _ Ec) as [B _]. rewrite B. apply ndg_ordered_list. exact (HG group (or_introl eq_refl)). }
    destruct (tget (ckey candidate) existing) as [ex|] eqn:Et.
    + destruct (is_empty (iter (diff group (iter (cmem ex))))) eqn:Eex.
      * exact (IH _ _ _ _ H HGr HE).
      * destruct (mk_cand w (ckind ex) (ordered_list (iter (cmem ex) ++ iter (diff group (iter (cmem ex))))))
          as [replacement|k] eqn:Er; cbn [bind] in H; [|discriminate H].
        apply (IH _ _ _ _ H HGr).
        intros c Hc. apply tset_values in Hc. destruct Hc as [Hc|Hc]; [|exact (HE c Hc)]. subst c.
        destruct (mk_cand_members _ _ _ _ Er) as [B _]. rewrite B. apply ndg_ordered_list.
        unfold ndg. rewrite map_app. apply NoDup_app_disj; [apply ndg_iter|apply ndg_iter|].
        intros i Hi1 Hi2. apply in_map_iff in Hi2. destruct Hi2 as [y [Ey Hy]]. subst i.
        apply In_iter in Hy. unfold diff in Hy. apply filter_In in Hy. destruct Hy as [_ Hy].
        apply negb_true_iff in Hy. assert (Hm : pmem y (iter (cmem ex)) = true) by (apply pmem_inS; exact Hi1).
        rewrite Hm in Hy. discriminate Hy.
    + apply (IH _ _ _ _ H HGr).
      intros c Hc. apply tset_values in Hc. destruct Hc as [Hc|Hc]; [subst c; exact Hcand|exact (HE c Hc)].
Qed.

Lemma build_candidates_ndg : forall w kind groups existing singles cs e s,
  build_candidates w kind groups existing singles = Ok (cs, e, s) ->
  (forall g, In g groups -> ndg g) -> (forall c, In c (tvalues existing) -> ndg (cmem c)) ->
  (forall c, In c cs -> ndg (cmem c)) /\ (forall c, In c (tvalues e) -> ndg (cmem c)).
Proof.
  intros w kind groups existing singles cs e s H HG HE. unfold build_candidates in H.
  destruct (build_go w kind groups existing singles) as [[e0 s0]|k] eqn:Eb; cbn [bind] in H; [|discriminate H].
  inversion H; subst; clear H. pose proof (build_go_ndg _ _ _ _ _ _ _ Eb HG HE) as A.
  split; [|exact A]. intros c Hc. apply sort_by_in in Hc. exact (A c Hc).
Qed.

Lemma find_interleaved_ndg : forall clusters cands w groups un,
  find_interleaved clusters cands w = Ok (groups, un) -> forall g, In g groups -> ndg g.
Proof.
  intros clusters cands w groups un H. unfold find_interleaved in H. cbv zeta in H.
  destruct (with_cores w cands) as [cc|k] eqn:Ecc; cbn [bind] in H; [|discriminate H].
  match type of H with bind ?e _ = _ => destruct e as [[found3 groups3]|k] eqn:EF end; cbn [bind] in H; [|discriminate H].
  inversion H; subst; clear H. intros g Hg. exact (ndg_merge_sets _ _ Hg).
Qed.

Lemma formation_body_ndg : forall protos w cands, formation_body protos w = Ok cands ->
  forall c, In c cands -> ndg (cmem c).
Proof.
  intros protos w cands H. unfold formation_body in H. cbv zeta in H.
  destruct (find_hybrids (sort_by lt_pp protos) w) as [[hg un1]|k] eqn:E1; cbn [bind] in H; [|discriminate H].
  pose proof (find_hybrids_ndg _ _ _ _ E1) as A1.
  destruct (build_candidates w K_HYBRID hg [] []) as [[[c1 e1] s1]|k] eqn:E2; cbn [bind] in H; [|discriminate H].
  destruct (build_candidates_ndg _ _ _ _ _ _ _ _ E2 A1) as [G1 T1]; [intros c []|].
  destruct (find_interleaved un1 c1 w) as [[ig un2]|k] eqn:E3; cbn [bind] in H; [|discriminate H].
  pose proof (find_interleaved_ndg _ _ _ _ _ E3) as A3.
  destruct (build_candidates w K_INTERLEAVED ig e1 s1) as [[[c2 e2] s2]|k] eqn:E4; cbn [bind] in H; [|discriminate H].
  destruct (build_candidates_ndg _ _ _ _ _ _ _ _ E4 A3 T1) as [G2 T2].
  destruct (build_candidates w K_NEIGHBOURING (find_neighbouring un2 c2) e2 s2) as [[[c3 e3] s3]|k] eqn:E5;
    cbn [bind] in H; [|discriminate H].
  assert (A5 : forall g, In g (find_neighbouring un2 c2) -> ndg g).
  { intros g Hg. unfold find_neighbouring in Hg. cbv zeta in Hg. exact (ndg_merge_sets _ _ Hg). }
  destruct (build_candidates_ndg _ _ _ _ _ _ _ _ E5 A5 T2) as [G3 T3].
  destruct (singles_go w e3 (ordered_set (un2 ++ s3))) as [ss|k] eqn:E6; cbn [bind] in H; [|discriminate H].
  inversion H; subst; clear H. intros c Hc. apply in_app_or in Hc. destruct Hc as [Hc|Hc]; [exact (G3 c Hc)|].
  destruct (singles_go_good (ordered_set (un2 ++ s3)) _ _ _ _ E6 (fun x Hx => Hx) c Hc) as [_ [_ [p [Ep _]]]].
  rewrite Ep. unfold ndg. cbn [map]. constructor; [intros []|constructor].
Qed.

(* every candidate lists each protocluster at most once (by id) - no hypothesis on the input *)
Lemma no_repeated_member : forall protos w out, create_candidates protos w = Ok out ->
  forall c, In c out -> NoDup (map pid (cmem c)).
Proof.
  intros protos w out H c Hc. unfold create_candidates in H. destruct protos as [|p ps]; [inversion H; subst; destruct Hc|].
  destruct (formation_body (p :: ps) w) as [cands|k] eqn:E; cbn [bind] in H; [|discriminate H].
  destruct (negb (assigned_count cands =? zlen (p :: ps))); [discriminate H|]. inversion H; subst.
  apply sort_by_in in Hc. exact (formation_body_ndg _ _ _ E c Hc).
Qed.

(* regression witness of the repaired finding joint_core_wraps_assert (circular record of length 72): hybrids {1,2}
   and {0,5} both span [0:71] and are united; the united core is connected across the origin although no member core
   crosses it; 3 and 4 are still unassigned.  Before the repair: Err E_Assert (`assert core_group`). *)
Definition jc_p (i s e cs ce prod : Z) (defs : list Z) : proto := mkProto i [mkPart s e 1] [mkPart cs ce 1] prod defs.
Definition jc_protos : list proto :=
  [jc_p 0 0 71 51 52 5 [0]; jc_p 1 0 71 11 16 3 [1]; jc_p 2 4 12 7 12 4 [1];
   jc_p 3 0 68 50 53 0 []; jc_p 4 30 58 50 53 2 []; jc_p 5 0 68 51 56 1 [0]].
Lemma joint_core_wraps_witness_repaired :
  class_joint_core_wraps jc_protos (Some 72) = true /\
  exists out, create_candidates jc_protos (Some 72) = Ok out /\
              map (fun c => (ckind c, map pid (cmem c))) out
              = [(K_HYBRID, [1; 0; 3; 5; 2; 4]); (K_SINGLE, [3]); (K_SINGLE, [5]); (K_SINGLE, [4])].
Proof.
  split; [vm_compute; reflexivity|].
  destruct (create_candidates jc_protos (Some 72)) as [out|k] eqn:E; vm_compute in E; [|discriminate E].
  inversion E as [E']. eexists. split; [reflexivity|]. vm_compute. reflexivity.
Qed.
