(* C05 - lemmas and proofs. *)
From ASV Require Import Base Loc.
From ASV.C05 Require Import Model.
From Coq Require Import Lia ZifyBool Permutation Setoid.

(* ---------- sets of protoclusters as lists: membership by id ---------- *)
Definition inS (i : Z) (g : list proto) : Prop := In i (map pid g).
Definition disjointP (a b : list proto) : Prop := forall i, inS i a -> inS i b -> False.
Definition subsetP (a b : list proto) : Prop := forall i, inS i a -> inS i b.
Definition inAny (i : Z) (L : list (list proto)) : Prop := exists s, In s L /\ inS i s.
Definition subAny (g : list proto) (L : list (list proto)) : Prop := exists s, In s L /\ subsetP g s.

(* an output group is built from input groups by uniting sets that share a protocluster *)
Inductive built (G : list (list proto)) : list proto -> Prop :=
| built_in : forall g, In g G -> built G g
| built_union : forall a b, built G a -> built G b -> disjoint a b = false -> built G (union a b).
Definition bE (G : list (list proto)) (s : list proto) : Prop := s = [] \/ built G s.

Lemma pmem_inS : forall p g, pmem p g = true <-> inS (pid p) g.
Proof.
  intros p g. unfold pmem, inS. rewrite existsb_exists. split.
  - intros [q [Hq He]]. apply Z.eqb_eq in He. rewrite <- He. apply in_map. exact Hq.
  - intro H. apply in_map_iff in H. destruct H as [q [He Hq]]. exists q. split; [exact Hq|].
    apply Z.eqb_eq. exact He.
Qed.

Lemma disjoint_spec : forall a b, disjoint a b = true <-> disjointP a b.
Proof.
  intros a b. unfold disjoint, disjointP. split.
  - intros H i Ha Hb. apply negb_true_iff in H.
    apply in_map_iff in Ha. destruct Ha as [x [Hx Hin]].
    assert (Hex : existsb (fun x0 => pmem x0 b) a = true).
    { apply existsb_exists. exists x. split; [exact Hin|]. apply pmem_inS. rewrite Hx. exact Hb. }
    rewrite Hex in H. discriminate H.
  - intro H. destruct (existsb (fun x => pmem x b) a) eqn:E; [|reflexivity].
    apply existsb_exists in E. destruct E as [x [Hin Hm]]. apply pmem_inS in Hm.
    exfalso. apply (H (pid x)); [|exact Hm]. unfold inS. apply in_map. exact Hin.
Qed.

Lemma inS_nil : forall i, inS i [] <-> False.
Proof. intro i. unfold inS. cbn. tauto. Qed.

Lemma inS_union : forall i a b, inS i (union a b) <-> inS i a \/ inS i b.
Proof.
  intros i a b. unfold union, inS. rewrite map_app, in_app_iff. split.
  - intros [H|H]; [left; exact H|]. right. apply in_map_iff in H. destruct H as [x [Hx Hin]].
    apply filter_In in Hin. destruct Hin as [Hin _]. apply in_map_iff. exists x. split; assumption.
  - intros [H|H]; [left; exact H|]. apply in_map_iff in H. destruct H as [x [Hx Hin]].
    destruct (pmem x a) eqn:E.
    + left. apply pmem_inS in E. rewrite Hx in E. exact E.
    + right. apply in_map_iff. exists x. split; [exact Hx|]. apply filter_In. split; [exact Hin|].
      rewrite E. reflexivity.
Qed.

Lemma inAny_nil : forall i, inAny i [] <-> False.
Proof. intro i. unfold inAny. split; [intros [s [H _]]; exact H|tauto]. Qed.
Lemma inAny_cons : forall i s L, inAny i (s :: L) <-> inS i s \/ inAny i L.
Proof.
  intros i s L. unfold inAny. split.
  - intros [t [[Ht|Ht] Hi]]; [left; rewrite Ht; exact Hi|right; exists t; split; assumption].
  - intros [H|[t [Ht Hi]]]; [exists s; split; [left; reflexivity|exact H]|exists t; split; [right; exact Ht|exact Hi]].
Qed.
Lemma subAny_cons : forall g s L, subAny g (s :: L) <-> subsetP g s \/ subAny g L.
Proof.
  intros g s L. unfold subAny. split.
  - intros [t [[Ht|Ht] Hi]]; [left; rewrite Ht; exact Hi|right; exists t; split; assumption].
  - intros [H|[t [Ht Hi]]]; [exists s; split; [left; reflexivity|exact H]|exists t; split; [right; exact Ht|exact Hi]].
Qed.

Lemma subsetP_union_l : forall g a b, subsetP g a -> subsetP g (union a b).
Proof. intros g a b H i Hi. apply inS_union. left. apply H. exact Hi. Qed.
Lemma subsetP_union_r : forall g a b, subsetP g b -> subsetP g (union a b).
Proof. intros g a b H i Hi. apply inS_union. right. apply H. exact Hi. Qed.

Lemma is_empty_true : forall (s : list proto), is_empty s = true -> s = [].
Proof. intros s H. destruct s; [reflexivity|discriminate H]. Qed.

(* ---------- merge_pass ---------- *)
Fixpoint cnt (l : list (list proto)) : nat :=
  match l with [] => O | s :: r => ((if is_empty s then 0 else 1) + cnt r)%nat end.

Lemma cnt_le_length : forall l, (cnt l <= length l)%nat.
Proof. induction l as [|s r IH]; cbn [cnt length]; [lia|]. destruct (is_empty s); lia. Qed.

Lemma merge_pass_length : forall rest first f r' c,
  merge_pass first rest = (f, r', c) -> length r' = length rest.
Proof.
  induction rest as [|s r IH]; intros first f r' c H; cbn [merge_pass] in H.
  - inversion H. reflexivity.
  - destruct (is_empty s || disjoint first s) eqn:E.
    + destruct (merge_pass first r) as [[f0 r0] c0] eqn:E2. inversion H; subst.
      cbn [length]. f_equal. exact (IH _ _ _ _ E2).
    + destruct (merge_pass (union first s) r) as [[f0 r0] c0] eqn:E2. inversion H; subst.
      cbn [length]. f_equal. exact (IH _ _ _ _ E2).
Qed.

Lemma merge_pass_U : forall rest first f r' c,
  merge_pass first rest = (f, r', c) ->
  forall i, inAny i (f :: r') <-> inAny i (first :: rest).
Proof.
  induction rest as [|s r IH]; intros first f r' c H i; cbn [merge_pass] in H.
  - inversion H. tauto.
  - destruct (is_empty s || disjoint first s) eqn:E.
    + destruct (merge_pass first r) as [[f0 r0] c0] eqn:E2. inversion H; subst.
      specialize (IH _ _ _ _ E2 i). rewrite !inAny_cons in *. tauto.
    + destruct (merge_pass (union first s) r) as [[f0 r0] c0] eqn:E2. inversion H; subst.
      specialize (IH _ _ _ _ E2 i). rewrite !inAny_cons in *. rewrite inS_union in IH.
      rewrite inS_nil. tauto.
Qed.

Lemma merge_pass_S : forall rest first f r' c,
  merge_pass first rest = (f, r', c) ->
  forall g, subAny g (first :: rest) -> subAny g (f :: r').
Proof.
  induction rest as [|s r IH]; intros first f r' c H g; cbn [merge_pass] in H.
  - inversion H. tauto.
  - destruct (is_empty s || disjoint first s) eqn:E.
    + destruct (merge_pass first r) as [[f0 r0] c0] eqn:E2. inversion H; subst.
      specialize (IH _ _ _ _ E2 g). rewrite !subAny_cons in *. tauto.
    + destruct (merge_pass (union first s) r) as [[f0 r0] c0] eqn:E2. inversion H; subst.
      specialize (IH _ _ _ _ E2 g). rewrite !subAny_cons in *.
      intros [Hg|[Hg|Hg]].
      * destruct IH as [IH|IH]; [left; apply subsetP_union_l; exact Hg|left; exact IH|right; right; exact IH].
      * destruct IH as [IH|IH]; [left; apply subsetP_union_r; exact Hg|left; exact IH|right; right; exact IH].
      * destruct IH as [IH|IH]; [right; exact Hg|left; exact IH|right; right; exact IH].
Qed.

Lemma merge_pass_B : forall G rest first f r' c,
  merge_pass first rest = (f, r', c) ->
  Forall (bE G) (first :: rest) -> Forall (bE G) (f :: r').
Proof.
  intros G. induction rest as [|s r IH]; intros first f r' c H HB; cbn [merge_pass] in H.
  - inversion H; subst. exact HB.
  - destruct (is_empty s || disjoint first s) eqn:E.
    + destruct (merge_pass first r) as [[f0 r0] c0] eqn:E2. inversion H; subst.
      inversion HB as [|x1 l1 Hf Hr]; subst. inversion Hr as [|x2 l2 Hs Hr']; subst.
      assert (IH' : Forall (bE G) (f :: r0)) by (apply (IH _ _ _ _ E2); constructor; assumption).
      inversion IH' as [|x3 l3 Hf3 Hr3]; subst. constructor; [exact Hf3|]. constructor; assumption.
    + destruct (merge_pass (union first s) r) as [[f0 r0] c0] eqn:E2. inversion H; subst.
      inversion HB as [|x1 l1 Hf Hr]; subst. inversion Hr as [|x2 l2 Hs Hr']; subst.
      apply orb_false_iff in E. destruct E as [Ee Ed].
      assert (Hu : bE G (union first s)).
      { right. destruct Hf as [Hf|Hf].
        - subst first. unfold disjoint in Ed. cbn in Ed. discriminate Ed.
        - destruct Hs as [Hs|Hs]; [subst s; cbn in Ee; discriminate Ee|].
          apply built_union; assumption. }
      assert (IH' : Forall (bE G) (f :: r0)) by (apply (IH _ _ _ _ E2); constructor; assumption).
      inversion IH' as [|x3 l3 Hf3 Hr3]; subst. constructor; [exact Hf3|].
      constructor; [left; reflexivity|exact Hr3].
Qed.

Lemma merge_pass_C : forall rest first f r' c,
  merge_pass first rest = (f, r', c) ->
  (c = false -> f = first /\ r' = rest /\ Forall (disjointP first) rest) /\
  (c = true -> (cnt r' < cnt rest)%nat) /\ (cnt r' <= cnt rest)%nat.
Proof.
  induction rest as [|s r IH]; intros first f r' c H; cbn [merge_pass] in H.
  - inversion H; subst. split; [intros _; repeat split; constructor|]. split; [discriminate|cbn; lia].
  - destruct (is_empty s || disjoint first s) eqn:E.
    + destruct (merge_pass first r) as [[f0 r0] c0] eqn:E2. inversion H; subst.
      destruct (IH _ _ _ _ E2) as [Hc [Ht Hle]]. cbn [cnt]. split; [|split].
      * intro Hf. destruct (Hc Hf) as [A [B C]]. subst. split; [reflexivity|]. split; [reflexivity|].
        constructor; [|exact C].
        apply orb_true_iff in E. destruct E as [E|E].
        -- apply is_empty_true in E. subst s. intros i _ Hi. apply inS_nil in Hi. exact Hi.
        -- apply disjoint_spec. exact E.
      * intro Hf. specialize (Ht Hf). lia.
      * lia.
    + destruct (merge_pass (union first s) r) as [[f0 r0] c0] eqn:E2. inversion H; subst.
      destruct (IH _ _ _ _ E2) as [Hc [Ht Hle]]. cbn [cnt].
      apply orb_false_iff in E. destruct E as [Ee Ed]. rewrite Ee. cbn [is_empty].
      split; [discriminate|]. split; [intros _; lia|lia].
Qed.

(* ---------- merge_stable ---------- *)
Lemma merge_stable_length : forall n first rest f r',
  merge_stable n first rest = (f, r') -> length r' = length rest.
Proof.
  induction n as [|n IH]; intros first rest f r' H; cbn [merge_stable] in H.
  - inversion H. reflexivity.
  - destruct (merge_pass first rest) as [[f1 r1] c] eqn:E. destruct c.
    + rewrite (IH _ _ _ _ H). exact (merge_pass_length _ _ _ _ _ E).
    + inversion H; subst. exact (merge_pass_length _ _ _ _ _ E).
Qed.

Lemma merge_stable_U : forall n first rest f r',
  merge_stable n first rest = (f, r') -> forall i, inAny i (f :: r') <-> inAny i (first :: rest).
Proof.
  induction n as [|n IH]; intros first rest f r' H i; cbn [merge_stable] in H.
  - inversion H. tauto.
  - destruct (merge_pass first rest) as [[f1 r1] c] eqn:E. destruct c.
    + rewrite (IH _ _ _ _ H i). exact (merge_pass_U _ _ _ _ _ E i).
    + inversion H; subst. exact (merge_pass_U _ _ _ _ _ E i).
Qed.

Lemma merge_stable_S : forall n first rest f r',
  merge_stable n first rest = (f, r') -> forall g, subAny g (first :: rest) -> subAny g (f :: r').
Proof.
  induction n as [|n IH]; intros first rest f r' H g Hg; cbn [merge_stable] in H.
  - inversion H; subst. exact Hg.
  - destruct (merge_pass first rest) as [[f1 r1] c] eqn:E. destruct c.
    + apply (IH _ _ _ _ H g). exact (merge_pass_S _ _ _ _ _ E g Hg).
    + inversion H; subst. exact (merge_pass_S _ _ _ _ _ E g Hg).
Qed.

Lemma merge_stable_B : forall G n first rest f r',
  merge_stable n first rest = (f, r') -> Forall (bE G) (first :: rest) -> Forall (bE G) (f :: r').
Proof.
  intros G. induction n as [|n IH]; intros first rest f r' H HB; cbn [merge_stable] in H.
  - inversion H; subst. exact HB.
  - destruct (merge_pass first rest) as [[f1 r1] c] eqn:E. destruct c.
    + apply (IH _ _ _ _ H). exact (merge_pass_B _ _ _ _ _ _ E HB).
    + inversion H; subst. exact (merge_pass_B _ _ _ _ _ _ E HB).
Qed.

(* the `while changed` loop always ends in a stable state: the fuel S (length rest) suffices *)
Lemma merge_stable_stable : forall n first rest f r',
  (cnt rest < n)%nat -> merge_stable n first rest = (f, r') -> Forall (disjointP f) r'.
Proof.
  induction n as [|n IH]; intros first rest f r' Hn H; [lia|]. cbn [merge_stable] in H.
  destruct (merge_pass first rest) as [[f1 r1] c] eqn:E.
  destruct (merge_pass_C _ _ _ _ _ E) as [Hc [Ht Hle]]. destruct c.
  - specialize (Ht eq_refl). apply (IH f1 r1 f r'); [lia|exact H].
  - inversion H; subst. destruct (Hc eq_refl) as [A [B C]]. subst. exact C.
Qed.

(* ---------- merge_outer ---------- *)
Lemma merge_outer_U : forall n L, (length L <= n)%nat ->
  forall i, inAny i (merge_outer n L) <-> inAny i L.
Proof.
  induction n as [|n IH]; intros L Hn i.
  - cbn [merge_outer]. tauto.
  - destruct L as [|first rest]; [cbn [merge_outer]; tauto|].
    destruct rest as [|s r]; [cbn [merge_outer]; tauto|].
    cbn [merge_outer]. cbn [length] in Hn.
    destruct (is_empty first) eqn:Ee.
    + rewrite !inAny_cons. rewrite (IH (s :: r) ltac:(cbn [length]; lia) i). rewrite inAny_cons. tauto.
    + destruct (merge_stable (S (length (s :: r))) first (s :: r)) as [f1 r1] eqn:E.
      pose proof (merge_stable_length _ _ _ _ _ E) as HL. cbn [length] in HL.
      rewrite inAny_cons. rewrite (IH r1 ltac:(lia) i). rewrite <- inAny_cons.
      exact (merge_stable_U _ _ _ _ _ E i).
Qed.

Lemma merge_outer_S : forall n L, (length L <= n)%nat ->
  forall g, subAny g L -> subAny g (merge_outer n L).
Proof.
  induction n as [|n IH]; intros L Hn g Hg.
  - cbn [merge_outer]. exact Hg.
  - destruct L as [|first rest]; [cbn [merge_outer]; exact Hg|].
    destruct rest as [|s r]; [cbn [merge_outer]; exact Hg|].
    cbn [merge_outer]. cbn [length] in Hn.
    destruct (is_empty first) eqn:Ee.
    + apply subAny_cons in Hg. apply subAny_cons. destruct Hg as [Hg|Hg]; [left; exact Hg|right].
      apply IH; [cbn [length]; lia|exact Hg].
    + destruct (merge_stable (S (length (s :: r))) first (s :: r)) as [f1 r1] eqn:E.
      pose proof (merge_stable_length _ _ _ _ _ E) as HL. cbn [length] in HL.
      pose proof (merge_stable_S _ _ _ _ _ E g Hg) as H1.
      apply subAny_cons in H1. apply subAny_cons. destruct H1 as [H1|H1]; [left; exact H1|right].
      apply IH; [lia|exact H1].
Qed.

Lemma merge_outer_B : forall G n L, Forall (bE G) L -> Forall (bE G) (merge_outer n L).
Proof.
  intros G. induction n as [|n IH]; intros L HB.
  - cbn [merge_outer]. exact HB.
  - destruct L as [|first rest]; [cbn [merge_outer]; exact HB|].
    destruct rest as [|s r]; [cbn [merge_outer]; exact HB|].
    cbn [merge_outer].
    destruct (is_empty first) eqn:Ee.
    + inversion HB as [|x l Hf Hr]; subst. constructor; [exact Hf|]. apply IH. exact Hr.
    + destruct (merge_stable (S (length (s :: r))) first (s :: r)) as [f1 r1] eqn:E.
      pose proof (merge_stable_B G _ _ _ _ _ E HB) as H1.
      inversion H1 as [|x l Hf Hr]; subst. constructor; [exact Hf|]. apply IH. exact Hr.
Qed.

Lemma merge_outer_D : forall n L, (length L <= n)%nat -> ForallOrdPairs disjointP (merge_outer n L).
Proof.
  induction n as [|n IH]; intros L Hn.
  - destruct L; [cbn [merge_outer]; constructor|cbn [length] in Hn; lia].
  - destruct L as [|first rest]; [cbn [merge_outer]; constructor|].
    destruct rest as [|s r]; [cbn [merge_outer]; constructor; constructor|].
    cbn [merge_outer]. cbn [length] in Hn.
    destruct (is_empty first) eqn:Ee.
    + constructor; [|apply IH; cbn [length]; lia].
      apply is_empty_true in Ee. subst first. apply Forall_forall. intros x _ i Hi _.
      apply inS_nil in Hi. exact Hi.
    + destruct (merge_stable (S (length (s :: r))) first (s :: r)) as [f1 r1] eqn:E.
      pose proof (merge_stable_length _ _ _ _ _ E) as HL. cbn [length] in HL.
      assert (Hst : Forall (disjointP f1) r1).
      { apply (merge_stable_stable (S (length (s :: r))) first (s :: r) f1 r1); [|exact E].
        pose proof (cnt_le_length (s :: r)). lia. }
      constructor; [|apply IH; lia].
      apply Forall_forall. intros x Hx i Hi1 Hix.
      assert (Hany : inAny i (merge_outer n r1)) by (exists x; split; assumption).
      apply (proj1 (merge_outer_U n r1 ltac:(lia) i)) in Hany. destruct Hany as [t [Ht Hit]].
      rewrite Forall_forall in Hst. exact (Hst t Ht i Hi1 Hit).
Qed.

(* ---------- sort_by is a permutation ---------- *)
Lemma insert_by_perm : forall A (lt : A -> A -> bool) x l, Permutation (insert_by lt x l) (x :: l).
Proof.
  intros A lt x. induction l as [|y ys IH]; cbn [insert_by]; [apply Permutation_refl|].
  destruct (lt x y); [apply Permutation_refl|].
  apply Permutation_trans with (y :: x :: ys); [apply perm_skip; exact IH|apply perm_swap].
Qed.

Lemma sort_by_perm : forall A (lt : A -> A -> bool) l, Permutation (sort_by lt l) l.
Proof.
  intros A lt l. unfold sort_by.
  assert (G : forall l acc, Permutation (fold_left (fun acc x => insert_by lt x acc) l acc) (l ++ acc)).
  { induction l0 as [|x xs IH]; intro acc; cbn [fold_left app]; [apply Permutation_refl|].
    apply Permutation_trans with (xs ++ insert_by lt x acc); [apply IH|].
    apply Permutation_trans with (xs ++ x :: acc); [apply Permutation_app_head; apply insert_by_perm|].
    apply Permutation_sym. apply Permutation_middle. }
  specialize (G l []). rewrite app_nil_r in G. exact G.
Qed.

Lemma sort_by_in : forall A (lt : A -> A -> bool) l x, In x (sort_by lt l) <-> In x l.
Proof.
  intros A lt l x. split; apply Permutation_in; [apply sort_by_perm|apply Permutation_sym; apply sort_by_perm].
Qed.

(* ---------- merge_core: the statement about _merge_sets ---------- *)
Lemma FOP_filter : forall A (R : A -> A -> Prop) (f : A -> bool) l,
  ForallOrdPairs R l -> ForallOrdPairs R (filter f l).
Proof.
  intros A R f l H. induction H as [|a l Ha Hl IH]; cbn [filter]; [constructor|].
  destruct (f a); [|exact IH]. constructor; [|exact IH].
  apply Forall_forall. intros x Hx. apply filter_In in Hx. destruct Hx as [Hx _].
  rewrite Forall_forall in Ha. exact (Ha x Hx).
Qed.

Lemma inAny_filter_nonempty : forall i L,
  inAny i (filter (fun g : list proto => negb (is_empty g)) L) <-> inAny i L.
Proof.
  intros i L. unfold inAny. split.
  - intros [s [Hs Hi]]. apply filter_In in Hs. exists s. split; [exact (proj1 Hs)|exact Hi].
  - intros [s [Hs Hi]]. exists s. split; [|exact Hi]. apply filter_In. split; [exact Hs|].
    destruct s; [apply inS_nil in Hi; contradiction|reflexivity].
Qed.

Lemma inAny_perm : forall i L L', (forall s, In s L <-> In s L') -> inAny i L <-> inAny i L'.
Proof.
  intros i L L' H. unfold inAny. split; intros [s [Hs Hi]]; exists s; split; try exact Hi; apply H; exact Hs.
Qed.

Lemma built_weaken : forall G G' s, (forall g, In g G -> In g G') -> built G s -> built G' s.
Proof.
  intros G G' s HG H. induction H as [g Hg|a b Ha IHa Hb IHb Hd].
  - apply built_in. apply HG. exact Hg.
  - apply built_union; assumption.
Qed.

Theorem merge_core_components : forall groups,
  let out := merge_core groups in
  (forall i, inAny i out <-> inAny i groups) /\
  ForallOrdPairs disjointP out /\
  (forall g, In g groups -> g <> [] -> exists h, In h out /\ subsetP g h) /\
  Forall (built groups) out /\
  Forall (fun h => h <> []) out.
Proof.
  intros groups out. unfold out, merge_core.
  set (ordered := sort_by (fun a b => group_key a <? group_key b) groups).
  assert (Hin : forall s, In s ordered <-> In s groups) by (intro s; apply sort_by_in).
  repeat split.
  - intro H. apply (proj1 (inAny_filter_nonempty _ _)) in H.
    apply (proj1 (merge_outer_U _ ordered (le_n _) i)) in H.
    apply (proj1 (inAny_perm i ordered groups Hin)). exact H.
  - intro H. apply (proj2 (inAny_filter_nonempty _ _)).
    apply (proj2 (merge_outer_U _ ordered (le_n _) i)).
    apply (proj2 (inAny_perm i ordered groups Hin)). exact H.
  - apply FOP_filter. apply merge_outer_D. apply le_n.
  - intros g Hg Hne.
    assert (H0 : subAny g ordered).
    { exists g. split; [apply Hin; exact Hg|]. intros i Hi. exact Hi. }
    apply (merge_outer_S _ ordered (le_n _)) in H0. destruct H0 as [h [Hh Hsub]].
    exists h. split; [|exact Hsub]. apply filter_In. split; [exact Hh|].
    destruct h as [|x h']; [|reflexivity]. exfalso.
    destruct g as [|y g']; [apply Hne; reflexivity|].
    specialize (Hsub (pid y)). apply (proj1 (inS_nil (pid y))). apply Hsub. left. reflexivity.
  - apply Forall_forall. intros h Hh. apply filter_In in Hh. destruct Hh as [Hh Hne].
    assert (HB : Forall (bE ordered) (merge_outer (length ordered) ordered)).
    { apply merge_outer_B. apply Forall_forall. intros s Hs. right. apply built_in. exact Hs. }
    rewrite Forall_forall in HB. destruct (HB h Hh) as [He|Hb].
    + subst h. discriminate Hne.
    + apply (built_weaken ordered groups h); [intros g Hg; apply Hin; exact Hg|exact Hb].
  - apply Forall_forall. intros h Hh. apply filter_In in Hh. destruct Hh as [_ Hne].
    intro He. subst h. discriminate Hne.
Qed.

(* ---------- from merge_core to merge_sets (= _merge_sets: each group through _ordered) ---------- *)
Lemma inS_sort_by : forall lt i g, inS i (sort_by lt g) <-> inS i g.
Proof.
  intros lt i g. unfold inS. split; apply Permutation_in; apply Permutation_map;
  [apply sort_by_perm|apply Permutation_sym; apply sort_by_perm].
Qed.

Lemma inS_set_insert : forall i x l, inS i (set_insert x l) <-> i = pid x \/ inS i l.
Proof.
  intros i x. unfold inS. induction l as [|y ys IH]; cbn [set_insert map In].
  - split; [intros [H|H]; [left; symmetry; exact H|contradiction]|intros [H|H]; [left; symmetry; exact H|contradiction]].
  - destruct (pid x <? pid y) eqn:E1.
    + cbn [map In]. split; [intros [H|H]; [left; symmetry; exact H|right; exact H]
                            |intros [H|H]; [left; symmetry; exact H|right; exact H]].
    + destruct (pid x =? pid y) eqn:E2.
      * apply Z.eqb_eq in E2. cbn [map In]. split; [intro H; right; exact H|].
        intros [H|H]; [left; rewrite H, E2; reflexivity|exact H].
      * cbn [map In]. rewrite IH. tauto.
Qed.

Lemma inS_iter : forall i g, inS i (iter g) <-> inS i g.
Proof.
  intros i. unfold iter. induction g as [|x xs IH]; cbn [fold_right]; [tauto|].
  rewrite inS_set_insert, IH. unfold inS. cbn [map In]. split; intros [H|H]; auto.
Qed.

Lemma inS_ordered_set : forall i g, inS i (ordered_set g) <-> inS i g.
Proof.
  intros i g. unfold ordered_set, ordered_list. rewrite !inS_sort_by. apply inS_iter.
Qed.

Lemma FOP_map_ordered : forall L, ForallOrdPairs disjointP L -> ForallOrdPairs disjointP (map ordered_set L).
Proof.
  intros L H. induction H as [|a l Ha Hl IH]; cbn [map]; [constructor|].
  constructor; [|exact IH]. apply Forall_forall. intros x Hx. apply in_map_iff in Hx.
  destruct Hx as [b [Hb Hin]]. subst x. rewrite Forall_forall in Ha.
  intros i Hi1 Hi2. apply (proj1 (inS_ordered_set _ _)) in Hi1. apply (proj1 (inS_ordered_set _ _)) in Hi2.
  exact (Ha b Hin i Hi1 Hi2).
Qed.

Theorem merge_sets_components : forall groups,
  let out := merge_sets groups in
  (forall i, inAny i out <-> inAny i groups) /\
  ForallOrdPairs disjointP out /\
  (forall g, In g groups -> g <> [] -> exists h, In h out /\ subsetP g h) /\
  Forall (fun h => exists h0, built groups h0 /\ forall i, inS i h <-> inS i h0) out /\
  Forall (fun h => h <> []) out.
Proof.
  intros groups out. unfold out, merge_sets.
  destruct (merge_core_components groups) as [HU [HD [HS [HB HN]]]].
  split; [|split; [|split; [|split]]].
  - intro i. rewrite <- (HU i). unfold inAny. split.
    + intros [s [Hs Hi]]. apply in_map_iff in Hs. destruct Hs as [s0 [He Hs0]]. subst s.
      exists s0. split; [exact Hs0|]. apply (proj1 (inS_ordered_set _ _)). exact Hi.
    + intros [s [Hs Hi]]. exists (ordered_set s). split; [apply in_map; exact Hs|].
      apply (proj2 (inS_ordered_set _ _)). exact Hi.
  - apply FOP_map_ordered. exact HD.
  - intros g Hg Hne. destruct (HS g Hg Hne) as [h [Hh Hsub]]. exists (ordered_set h).
    split; [apply in_map; exact Hh|]. intros i Hi. apply (proj2 (inS_ordered_set _ _)). apply Hsub. exact Hi.
  - apply Forall_forall. intros h Hh. apply in_map_iff in Hh. destruct Hh as [h0 [He Hh0]]. subst h.
    exists h0. rewrite Forall_forall in HB. split; [exact (HB h0 Hh0)|]. intro i. apply inS_ordered_set.
  - apply Forall_forall. intros h Hh. apply in_map_iff in Hh. destruct Hh as [h0 [He Hh0]]. subst h.
    rewrite Forall_forall in HN. specialize (HN h0 Hh0). destruct h0 as [|x h0']; [exfalso; apply HN; reflexivity|].
    intro He. assert (Hi : inS (pid x) (ordered_set (x :: h0'))).
    { apply (proj2 (inS_ordered_set _ _)). left. reflexivity. }
    rewrite He in Hi. apply (proj1 (inS_nil _)) in Hi. exact Hi.
Qed.

(* ---------- the final singles pass never drops a protocluster ---------- *)
Lemma tget_in : forall k t c, tget k t = Some c -> In c (tvalues t).
Proof.
  intros k. induction t as [|[k' c'] r IH]; intros c H; cbn [tget] in H; [discriminate H|].
  unfold tvalues. cbn [map snd In]. destruct (key_eqb k k').
  - inversion H. left. reflexivity.
  - right. exact (IH c H).
Qed.

Lemma mk_cand_members : forall w kind ms c, mk_cand w kind ms = Ok c -> cmem c = ms /\ ckind c = kind.
Proof.
  intros w kind ms c H. unfold mk_cand in H. destruct ms as [|m ms']; [discriminate H|].
  destruct (connect_locations (map ploc (m :: ms')) w) as [l|k]; cbn [bind] in H; [|discriminate H].
  destruct (check_collection_loc l) as [u|k]; cbn [bind] in H; [|discriminate H].
  inversion H. split; reflexivity.
Qed.

Lemma singles_go_covers : forall w existing l ss,
  singles_go w existing l = Ok ss ->
  forall p, In p l ->
    (exists c, In c ss /\ cmem c = [p] /\ ckind c = K_SINGLE) \/
    (exists c, In c (tvalues existing) /\ inS (pid p) (cmem c)).
Proof.
  intros w existing. induction l as [|q r IH]; intros ss H p Hp; [destruct Hp|].
  cbn [singles_go] in H.
  destruct (match tget (fstart (ploc q), fend (ploc q)) existing with
            | Some ex => pmem q (cmem ex) | None => false end) eqn:Eskip.
  - destruct Hp as [Hp|Hp].
    + subst q. right. destruct (tget (fstart (ploc p), fend (ploc p)) existing) as [ex|] eqn:Et; [|discriminate Eskip].
      exists ex. split; [exact (tget_in _ _ _ Et)|apply pmem_inS; exact Eskip].
    + exact (IH ss H p Hp).
  - destruct (mk_cand w K_SINGLE [q]) as [c|k] eqn:Ec; cbn [bind] in H; [|discriminate H].
    destruct (singles_go w existing r) as [cs|k] eqn:Er; cbn [bind] in H; [|discriminate H].
    inversion H; subst ss. destruct Hp as [Hp|Hp].
    + subst q. left. exists c. destruct (mk_cand_members _ _ _ _ Ec) as [A B].
      split; [left; reflexivity|split; assumption].
    + destruct (IH cs eq_refl p Hp) as [[c' [Hc' Hm]]|Hex].
      * left. exists c'. split; [right; exact Hc'|exact Hm].
      * right. exact Hex.
Qed.

(* the fuel given to the `while changed` loop in merge_outer is always enough *)
Lemma merge_stable_fuel_enough : forall first rest f r',
  merge_stable (S (length rest)) first rest = (f, r') -> Forall (disjointP f) r'.
Proof.
  intros first rest f r' H. apply (merge_stable_stable (S (length rest)) first rest f r'); [|exact H].
  pose proof (cnt_le_length rest). lia.
Qed.

(* witness of the recorded finding hybrid_member_repeated (circular record of length 12) *)
Definition w_wrapped : loc := [mkPart 5 12 1; mkPart 0 4 1].
Definition w_protos : list proto :=
  [mkProto 0 w_wrapped w_wrapped 2 [1]; mkProto 1 w_wrapped w_wrapped 0 []; mkProto 2 [mkPart 5 12 1] [mkPart 5 12 1] 1 [1]].
Lemma repeated_member_witness :
  exists out c, create_candidates w_protos (Some 12) = Ok out /\ In c out /\
                ckind c = K_HYBRID /\ nodupb (map pid (cmem c)) = false.
Proof.
  destruct (create_candidates w_protos (Some 12)) as [out|k] eqn:E; vm_compute in E; [|discriminate E].
  inversion E as [E']. eexists. eexists. split; [reflexivity|]. split; [left; reflexivity|].
  split; vm_compute; reflexivity.
Qed.
