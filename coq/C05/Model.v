(* C05 - faithful executable model of candidate cluster formation (the code after the repairs of the findings
   candidate_index_window, neighbouring_singles_not_linked and supply_order_same_key_groups):
   antismash/common/secmet/features/candidate_cluster/formation.py (create_candidates_from_protoclusters,
   build_candidates, _ordered, _merge_sets, _find_hybrids, _find_interleaved(_candidates,
   _cross_origin_), _find_neighbouring(_candidates, _protoclusters)), structures.py
   (CandidateCluster.__init__, core_location, core_crosses_origin), cdscollection.py
   (CDSCollection.__init__ location checks, __lt__, __contains__), protocluster.py (add_cds ->
   definition_cdses), record.py (add_protocluster / create_candidate_clusters / add_candidate_cluster:
   bisect_left insertion).

   Python sets of protoclusters are lists here; wherever the code ITERATES a set the model iterates
   in ascending protocluster id (`iter`), which is the order CPython uses when the objects hash to
   their (small) id - the harness gives the real Protocluster objects exactly that hash.
   Products are numbered so that the numeric order is the string order of the product names.
   No proofs in this file. *)
From ASV Require Import Base Loc.

Record gene := mkGene { gid : Z; gloc : loc; gprods : list Z }.
Record proto := mkProto { pid : Z; ploc : loc; pcore : loc; pprod : Z; pdefs : list Z }.
Record cand := mkCand { ckind : Z; cmem : list proto; cloc : loc }.

(* CandidateClusterKind, by name (the harness maps the enum names to these codes) *)
Definition K_SINGLE := 0.
Definition K_INTERLEAVED := 1.
Definition K_NEIGHBOURING := 2.
Definition K_HYBRID := 3.

(* ---------- small helpers ---------- *)
Definition zmem (x : Z) (l : list Z) : bool := existsb (Z.eqb x) l.
Definition pmem (p : proto) (l : list proto) : bool := existsb (fun q => pid q =? pid p) l.
Definition is_empty {A} (l : list A) : bool := match l with [] => true | _ => false end.
Definition first_opt {A} (l : list A) : option A := match l with x :: _ => Some x | [] => None end.

(* Feature.start / Feature.end: first part's start / last part's end unless the strand is -1 *)
Definition fstart (l : loc) : Z :=
  if lstrand l =? -1 then match last_opt l with Some p => ps p | None => 0 end
  else match l with p :: _ => ps p | [] => 0 end.
Definition fend (l : loc) : Z :=
  if lstrand l =? -1 then match l with p :: _ => pe p | [] => 0 end
  else match last_opt l with Some p => pe p | None => 0 end.

(* ---------- sets as lists ---------- *)
(* iteration order of a set: ascending id, each id once *)
Fixpoint set_insert (x : proto) (l : list proto) : list proto :=
  match l with
  | [] => [x]
  | y :: ys => if pid x <? pid y then x :: l
               else if pid x =? pid y then l
               else y :: set_insert x ys
  end.
Definition iter (l : list proto) : list proto := fold_right set_insert [] l.
Definition set_size (l : list proto) : Z := zlen (iter l).
Definition disjoint (a b : list proto) : bool := negb (existsb (fun x => pmem x b) a).
Definition subset (a b : list proto) : bool := forallb (fun x => pmem x b) a.
Definition set_eqb (a b : list proto) : bool := subset a b && subset b a.
Definition union (a b : list proto) : list proto := a ++ filter (fun x => negb (pmem x a)) b.
Definition diff (a b : list proto) : list proto := filter (fun x => negb (pmem x b)) a.
Definition discard (x : proto) (l : list proto) : list proto := filter (fun y => negb (pid y =? pid x)) l.
Definition set_add (x : proto) (l : list proto) : list proto := if pmem x l then l else l ++ [x].

(* ---------- CDSCollection.__lt__ ---------- *)
(* get_comparator: (start, -len), the start of an origin-bridging location being
   min(head starts) - max(head ends) of the part before the origin (a negative number) *)
Definition comparator (l : loc) : Z * Z :=
  let st := if bridges l then
              match split_bridging l with
              | Ok (_, upper) => lmin (map ps upper) - lmax (map pe upper)
              | Err _ => lstart l   (* split raises only for ill-formed collections (never built) *)
              end
            else lstart l in
  (st, - llen l).
Definition pair_lt (a b : Z * Z) : bool :=
  (fst a <? fst b) || ((fst a =? fst b) && (snd a <? snd b)).
(* self < other; `children` = the child collections of self, `oid` = the id of other when other is
   a protocluster (the `other in self` shortcut) *)
Definition coll_lt (sl : loc) (children : list proto) (ol : loc) (oid : option Z) : bool :=
  if match oid with Some i => existsb (fun c => pid c =? i) children | None => false end then true
  else if contains sl ol && negb (contains ol sl) then true
  else if contains ol sl && negb (contains sl ol) then false  (* mirrored shortcut: repair of finding F53 / C10-F46 *)
  else pair_lt (comparator sl) (comparator ol).
Definition lt_pp (a b : proto) : bool := coll_lt (ploc a) [] (ploc b) (Some (pid b)).
Definition lt_cc (a b : cand) : bool := coll_lt (cloc a) (cmem a) (cloc b) None.
Definition lt_cp (a : cand) (b : proto) : bool := coll_lt (cloc a) (cmem a) (ploc b) (Some (pid b)).

(* bisect.bisect_left(a, x): `lt e` stands for a[mid] < x; the exact binary search *)
Fixpoint bisect_go {A} (lt : A -> bool) (l : list A) (fuel : nat) (lo hi : nat) : nat :=
  match fuel with
  | O => lo
  | S f =>
    if Nat.ltb lo hi then
      let mid := Nat.div2 (lo + hi) in
      match nth_error l mid with
      | Some e => if lt e then bisect_go lt l f (S mid) hi else bisect_go lt l f lo mid
      | None => lo
      end
    else lo
  end.
Definition bisect_left {A} (lt : A -> bool) (l : list A) : nat :=
  bisect_go lt l (S (length l)) 0 (length l).
Definition insert_at {A} (i : nat) (x : A) (l : list A) : list A := firstn i l ++ x :: skipn i l.

(* ---------- _ordered ---------- *)
(* sorted(sorted(group, key=(product, core_start, core_end))); `group` already in iteration order.
   core_start / core_end are Feature-style: first part's start / last part's end of the core (fstart / fend) *)
Definition pre_lt (a b : proto) : bool :=
  (pprod a <? pprod b) ||
  ((pprod a =? pprod b) && pair_lt (fstart (pcore a), fend (pcore a)) (fstart (pcore b), fend (pcore b))).
Definition ordered_list (group : list proto) : list proto :=
  sort_by lt_pp (sort_by pre_lt group).
Definition ordered_set (group : list proto) : list proto := ordered_list (iter group).

(* ---------- _merge_sets ---------- *)
(* one `for second in ordered[i+1:]` pass: (first', rest', changed) *)
Fixpoint merge_pass (first : list proto) (rest : list (list proto))
  : list proto * list (list proto) * bool :=
  match rest with
  | [] => (first, [], false)
  | s :: r =>
    if is_empty s || disjoint first s then
      let '(f, r', c) := merge_pass first r in (f, s :: r', c)
    else
      let '(f, r', _) := merge_pass (union first s) r in (f, [] :: r', true)
  end.
(* `while changed` *)
Fixpoint merge_stable (fuel : nat) (first : list proto) (rest : list (list proto))
  : list proto * list (list proto) :=
  match fuel with
  | O => (first, rest)
  | S f => let '(f1, r1, c) := merge_pass first rest in
           if c then merge_stable f f1 r1 else (f1, r1)
  end.
(* `for i, first in enumerate(ordered[:-1])` *)
Fixpoint merge_outer (fuel : nat) (l : list (list proto)) : list (list proto) :=
  match fuel with
  | O => l
  | S f =>
    match l with
    | [] => []
    | [last] => [last]
    | first :: rest =>
      if is_empty first then first :: merge_outer f rest
      else let '(f1, r1) := merge_stable (S (length rest)) first rest in f1 :: merge_outer f r1
    end
  end.
Definition group_key (g : list proto) : Z := lmin (map (fun p => lstart (ploc p)) g).
(* groups are never empty when _merge_sets is called (min() of an empty set would raise) *)
Definition merge_core (groups : list (list proto)) : list (list proto) :=
  let ordered := sort_by (fun a b => group_key a <? group_key b) groups in
  filter (fun g => negb (is_empty g)) (merge_outer (length ordered) ordered).
Definition merge_sets (groups : list (list proto)) : list (list proto) :=
  map ordered_set (merge_core groups).

(* ---------- CandidateCluster.__init__ ---------- *)
Definition check_collection_loc (l : loc) : res unit :=
  match l with
  | [] => Err E_Value
  | [p] => if ps p <? 0 then Err E_Value else Ok tt
  | [a; b] =>
    if negb (ps b =? 0) then Err E_Value else
    if negb (pst a =? pst b) then Err E_Assert else
    if lstart l <? 0 then Err E_Value else
    if negb (lstrand l =? 1) then Err E_Value else Ok tt
  | _ => Err E_Assert
  end.
Definition mk_cand (w : option Z) (kind : Z) (ms : list proto) : res cand :=
  match ms with
  | [] => Err E_Value
  | _ => do l <- connect_locations (map ploc ms) w;
         do _ <- check_collection_loc l;
         Ok (mkCand kind ms l)
  end.
Definition ccore (w : option Z) (c : cand) : res loc := connect_locations (map pcore (cmem c)) w.
Definition ckey (c : cand) : Z * Z := (fstart (cloc c), fend (cloc c)).
Definition key_eqb (a b : Z * Z) : bool := (fst a =? fst b) && (snd a =? snd b).

(* ---------- build_candidates ---------- *)
(* `existing`: insertion-ordered dict (key -> candidate); `singles`: set *)
Definition table := list ((Z * Z) * cand).
Fixpoint tget (k : Z * Z) (t : table) : option cand :=
  match t with
  | [] => None
  | (k', c) :: r => if key_eqb k k' then Some c else tget k r
  end.
Fixpoint tset (k : Z * Z) (c : cand) (t : table) : table :=
  match t with
  | [] => [(k, c)]
  | (k', c') :: r => if key_eqb k k' then (k', c) :: r else (k', c') :: tset k c r
  end.
Definition tvalues (t : table) : list cand := map snd t.

Fixpoint build_go (w : option Z) (kind : Z) (groups : list (list proto))
                  (existing : table) (singles : list proto) : res (table * list proto) :=
  match groups with
  | [] => Ok (existing, singles)
  | group :: rest =>
    if negb ((kind =? K_SINGLE) || (1 <? zlen group)) then Err E_Assert else
    do candidate <- mk_cand w kind (ordered_list group);
    let key := ckey candidate in
    match tget key existing with
    | None => build_go w kind rest (tset key candidate existing) singles
    | Some ex =>
      let existing_clusters := iter (cmem ex) in
      let extras := iter (diff group existing_clusters) in
      if is_empty extras then build_go w kind rest existing singles else
      do replacement <- mk_cand w (ckind ex) (ordered_list (existing_clusters ++ extras));
      build_go w kind rest (tset key replacement existing) (fold_left (fun s x => set_add x s) extras singles)
    end
  end.
Definition build_candidates (w : option Z) (kind : Z) (groups : list (list proto))
                            (existing : table) (singles : list proto)
  : res (list cand * table * list proto) :=
  do es <- build_go w kind groups existing singles;
  let '(e, s) := es in
  Ok (sort_by lt_cc (tvalues e), e, s).

(* ---------- _find_hybrids ---------- *)
Definition defs_intersect (a b : proto) : bool := existsb (fun g => zmem g (pdefs b)) (pdefs a).
(* all pairs i < j of a list for which `rel` holds, in the order of the double loop *)
Fixpoint pairs_rel {A} (rel : A -> A -> bool) (l : list A) : list (A * A) :=
  match l with
  | [] => []
  | x :: r => map (fun y => (x, y)) (filter (rel x) r) ++ pairs_rel rel r
  end.
Definition first_last {A} (l : list A) : option (A * A) :=
  match l, last_opt l with
  | x :: _, Some y => Some (x, y)
  | _, _ => None
  end.

(* the loop `for cluster in clusters[...]: if cluster.location.start > limit: break; update_if_contained` *)
Fixpoint contained_until (core : loc) (limit : Z) (clusters : list proto) : list proto :=
  match clusters with
  | [] => []
  | c :: r => if limit <? lstart (ploc c) then []
              else if contains core (pcore c) then c :: contained_until core limit r
              else contained_until core limit r
  end.
(* `if cluster not in group`: a cluster reached by both scans is appended once; `seen` = the group so far *)
Fixpoint first_occ (seen : list proto) (l : list proto) : list proto :=
  match l with
  | [] => []
  | c :: r => if pmem c seen then first_occ seen r else c :: first_occ (c :: seen) r
  end.
(* the group with the protoclusters appended to it (in order of the scans, each once) *)
Definition hybrid_extend (w : option Z) (clusters : list proto) (group : list proto)
  : res (list proto) :=
  do core <- connect_locations (map pcore group) w;
  let start := (Z.of_nat (bisect_left (fun x => x <? lstart core) (map (fun c => fstart (pcore c)) clusters)) - 1) in
  let index := Z.to_nat (Z.max 0 start) in
  let a := contained_until core (lend core) (skipn index clusters) in
  let b := if is_compound core
           then contained_until core (match last_opt core with Some p => pe p | None => 0 end) clusters
           else [] in
  Ok (group ++ first_occ group (a ++ b)).

Definition core_key_lt (a b : proto) : bool :=
  pair_lt (lstart (pcore a), lend (pcore a)) (lstart (pcore b), lend (pcore b)).
Definition core_start_lt (a b : proto) : bool := lstart (pcore a) <? lstart (pcore b).

Definition find_hybrids (clusters : list proto) (w : option Z)
  : res (list (list proto) * list proto) :=
  let sorted_c := sort_by core_key_lt clusters in
  let pairs := pairs_rel defs_intersect sorted_c in
  let extra := match first_last sorted_c with
               | Some (f, l) => if negb (pid f =? pid l) && defs_intersect f l then [(f, l)] else []
               | None => []
               end in
  let groups := map (fun xy => [fst xy; snd xy]) (pairs ++ extra) in
  let unassigned := diff clusters (concat groups) in
  let merged := merge_sets groups in
  let by_core := sort_by core_start_lt (iter unassigned) in
  do extended <- mapM (hybrid_extend w by_core) merged;
  let unassigned' := diff unassigned (concat extended) in
  Ok (map ordered_list extended, ordered_set unassigned').

(* ---------- _find_interleaved ---------- *)
Definition cand_core_crosses (core : loc) : bool := is_compound core.

(* candidates paired with their (lazily computed, cached) core locations *)
Definition with_cores (w : option Z) (cands : list cand) : res (list (cand * loc)) :=
  mapM (fun c => do k <- ccore w c; Ok (c, k)) cands.

Definition find_interleaved_candidates (cc : list (cand * loc)) : list (list proto) :=
  let rel := fun a b : cand * loc => overlap (snd a) (snd b) in
  let pairs := pairs_rel rel cc in
  let extra := match cc with
               | _ :: _ :: _ =>
                 match first_last cc with
                 | Some (f, l) => if rel f l then [(f, l)] else []
                 | None => []
                 end
               | _ => []
               end in
  map (fun xy => cmem (fst (fst xy)) ++ cmem (fst (snd xy))) (pairs ++ extra).

(* the while loops of _find_cross_origin_interleaved; state = (core_group, found) *)
Fixpoint cross_walk (core : loc) (n : Z) (l : list proto) (st : list proto * list proto)
  : list proto * list proto :=
  match l with
  | [] => st
  | c :: r =>
    let '(cg, found) := st in
    if negb (set_size found <? n) then st else
    if negb (overlap (pcore c) core) then st else
    cross_walk core n r (set_add c cg, set_add c found)
  end.

(* `core_group`: the members with an origin-crossing core of the candidates whose joint core crosses *)
Definition cross_core_group (crossing : list (cand * loc)) : list proto :=
  fold_left (fun acc ck => fold_left (fun a p => set_add p a)
                                     (filter (fun p => bridges (pcore p)) (cmem (fst ck))) acc)
            crossing [].
(* `if not core_group`: no single core crosses the origin (the joint core does so only by connection):
   all members of the candidates whose joint core crosses *)
Definition cross_all_group (crossing : list (cand * loc)) : list proto :=
  fold_left (fun acc ck => fold_left (fun a p => set_add p a) (cmem (fst ck)) acc) crossing [].

(* returns (found, groups') *)
Definition find_cross_origin_interleaved (w : option Z) (cc : list (cand * loc)) (unassigned : list proto)
                                         (groups : list (list proto))
  : res (list proto * list (list proto)) :=
  if is_empty unassigned || is_empty cc then Ok ([], groups) else
  let crossing := filter (fun ck => cand_core_crosses (snd ck)) cc in
  if is_empty crossing then Ok ([], groups) else
  do core <- connect_locations (map snd crossing) w;
  let core_group0 := cross_core_group crossing in
  let core_group := if is_empty core_group0 then cross_all_group crossing else core_group0 in
  if is_empty core_group then Err E_Assert else
  let n := zlen unassigned in
  (* direction -1: indices -1, -2, ... while abs(index) < n *)
  let st1 := cross_walk core n (rev (tl unassigned)) (core_group, []) in
  (* direction 1: indices 0, 1, ... while index < n *)
  let '(cg, found) := cross_walk core n unassigned st1 in
  if existsb (fun ck => set_eqb cg (cmem (fst ck))) cc then Ok ([], groups) else
  if 1 <? set_size cg then Ok (found, groups ++ [cg]) else Ok (found, groups).

(* inner loop over later clusters sorted by core start, with the early break *)
Fixpoint core_pairs_from (c : proto) (rest : list proto) : list proto :=
  match rest with
  | [] => []
  | o :: r => if lend (pcore c) <=? lstart (pcore o) then []
              else if overlap (pcore c) (pcore o) then o :: core_pairs_from c r
              else core_pairs_from c r
  end.
Fixpoint core_pairs (l : list proto) : list (proto * proto) :=
  match l with
  | [] => []
  | c :: r => map (fun o => (c, o)) (core_pairs_from c r) ++ core_pairs r
  end.

(* BEFORE the repair of finding candidate_index_window the loop "unassigned overlapping with candidates" was
   `for candidate in candidates[index:]: if candidate.location.start > cluster.location.end: break` with
   index = max(0, bisect_left(candidates, cluster) - 1); kept for the historical variant find_interleaved_v false
   (class predicate of the finding); the code now looks at every candidate *)
Fixpoint cand_scan (rel : cand * loc -> bool) (limit : Z) (cc : list (cand * loc)) : list (cand * loc) :=
  match cc with
  | [] => []
  | ck :: r => if limit <? lstart (cloc (fst ck)) then []
               else if rel ck then ck :: cand_scan rel limit r else cand_scan rel limit r
  end.
Definition window_index (cc : list (cand * loc)) (p : proto) : nat :=
  Z.to_nat (Z.max 0 (Z.of_nat (bisect_left (fun ck : cand * loc => lt_cp (fst ck) p) cc) - 1)).

Definition find_interleaved (clusters : list proto) (cands : list cand) (w : option Z)
  : res (list (list proto) * list proto) :=
  (* candidate core locations are computed on first use; with no candidates nothing is computed *)
  do cc <- with_cores w cands;
  let groups0 := find_interleaved_candidates cc in
  let by_core := sort_by core_start_lt clusters in
  let pp := core_pairs by_core in
  let groups1 := groups0 ++ map (fun xy => [fst xy; snd xy]) pp in
  let found1 := concat (map (fun xy => [fst xy; snd xy]) pp) in
  (* `for cluster in unassigned_by_core: for candidate in candidates: if locations_overlap(cores)` *)
  let hits := flat_map (fun cl =>
                  map (fun ck => (ck, cl))
                      (filter (fun ck : cand * loc => overlap (snd ck) (pcore cl)) cc)) by_core in
  let groups2 := groups1 ++ map (fun h => cmem (fst (fst h)) ++ [snd h]) hits in
  let found2 := found1 ++ map snd hits in
  do fg <- find_cross_origin_interleaved w cc by_core groups2;
  let '(found3, groups3) := fg in
  Ok (merge_sets groups3, sort_by lt_pp (iter (diff clusters (found2 ++ found3)))).

(* ---------- _find_neighbouring ---------- *)
Definition find_neighbouring_candidates (cands : list cand) : list (list proto) :=
  map (fun xy => union (cmem (fst xy)) (cmem (snd xy)))
      (pairs_rel (fun a b => overlap (cloc a) (cloc b)) cands).
  (* the "origin-crossing pairs" loop starts with i = -1 and `while 0 < i` never runs *)

Definition find_neighbouring_protoclusters (pcs : list proto) : list (list proto) :=
  let rel := fun a b => overlap (ploc a) (ploc b) in
  let extra := match pcs with
               | _ :: _ :: _ =>
                 match first_last pcs with
                 | Some (f, l) => if negb (pid f =? pid l) && rel f l then [(f, l)] else []
                 | None => []
                 end
               | _ => []
               end in
  map (fun xy => [fst xy; snd xy]) (pairs_rel rel pcs ++ extra).

(* the windowed loop of _find_neighbouring BEFORE the repair of candidate_index_window
   (`for candidate in candidates[index:] + candidates[:1]` with the early break); only for find_neighbouring_v false _ *)
Fixpoint cand_scan_plain (rel : cand -> bool) (limit : Z) (cs : list cand) : list cand :=
  match cs with
  | [] => []
  | c :: r => if limit <? lstart (cloc c) then []
              else if rel c then c :: cand_scan_plain rel limit r else cand_scan_plain rel limit r
  end.
Definition window_index_plain (cs : list cand) (p : proto) : nat :=
  Z.to_nat (Z.max 0 (Z.of_nat (bisect_left (fun c => lt_cp c p) cs) - 1)).

Definition find_neighbouring (singles : list proto) (cands : list cand) : list (list proto) :=
  let groups0 := find_neighbouring_candidates cands in
  (* `for single in singles: for candidate in candidates: if single.overlaps_with(candidate)` *)
  let hits := flat_map (fun s =>
                 map (fun c => (c, s))
                     (filter (fun c => overlap (ploc s) (cloc c)) cands)) singles in
  let groups1 := groups0 ++ map (fun h => union (cmem (fst h)) [snd h]) hits in
  let unassigned := diff singles (map snd hits) in
  let edges :=
    if is_empty unassigned || is_empty cands then [] else
    (match cands with c0 :: _ => if bridges (cloc c0) then [c0] else [] | [] => [] end)
    ++ (match cands with
        | _ :: _ :: _ => match last_opt cands with
                         | Some cl => if bridges (cloc cl) then [cl] else []
                         | None => []
                         end
        | _ => []
        end) in
  let edge_groups := flat_map (fun c =>
                        match filter (fun s => overlap (ploc s) (cloc c)) (iter unassigned) with
                        | s :: _ => [cmem c ++ [s]]
                        | [] => []
                        end) edges in
  let groups2 := groups1 ++ edge_groups in
  (* `_find_neighbouring_protoclusters(singles)`: all singles, also those that overlap a candidate (repair of
     finding neighbouring_singles_not_linked; before it: `sorted(unassigned)`) *)
  merge_sets (groups2 ++ find_neighbouring_protoclusters singles).

(* ---------- create_candidates_from_protoclusters ---------- *)
Fixpoint singles_go (w : option Z) (existing : table) (l : list proto) : res (list cand) :=
  match l with
  | [] => Ok []
  | p :: r =>
    let skip := match tget (fstart (ploc p), fend (ploc p)) existing with
                | Some ex => pmem p (cmem ex)
                | None => false
                end in
    if skip then singles_go w existing r else
    do c <- mk_cand w K_SINGLE [p];
    do cs <- singles_go w existing r;
    Ok (c :: cs)
  end.

(* everything up to (not including) the final sanity assertion and the final sort *)
Definition formation_body (protos : list proto) (w : option Z) : res (list cand) :=
  (* `unassigned = _ordered(protoclusters)` (repair of finding supply_order_same_key_groups; before it
     `sorted(protoclusters)`, which keeps protoclusters with identical coordinates in supply order) *)
  let unassigned0 := ordered_list protos in
  do hu <- find_hybrids unassigned0 w;
  let '(hybrid_groups, unassigned1) := hu in
  do b1 <- build_candidates w K_HYBRID hybrid_groups [] [];
  let '(cands1, ex1, singles1) := b1 in
  do iu <- find_interleaved unassigned1 cands1 w;
  let '(inter_groups, unassigned2) := iu in
  do b2 <- build_candidates w K_INTERLEAVED inter_groups ex1 singles1;
  let '(cands2, ex2, singles2) := b2 in
  let neigh_groups := find_neighbouring unassigned2 cands2 in
  do b3 <- build_candidates w K_NEIGHBOURING neigh_groups ex2 singles2;
  let '(cands3, ex3, singles3) := b3 in
  do ss <- singles_go w ex3 (ordered_set (unassigned2 ++ singles3));
  Ok (cands3 ++ ss).

Definition assigned_count (cands : list cand) : Z := set_size (concat (map cmem cands)).

Definition create_candidates (protos : list proto) (w : option Z) : res (list cand) :=
  match protos with
  | [] => Ok []
  | _ =>
    do cands <- formation_body protos w;
    if negb (assigned_count cands =? zlen protos) then Err E_Assert else
    Ok (sort_by lt_cc cands)
  end.

(* ---------- class of the repaired finding `joint_core_wraps_assert` ---------- *)
(* the hybrid pass ends with a candidate whose joint core was connected the short way across the origin
   although no member's core crosses it (only possible after two hybrid groups with the same coordinates
   were united by build_candidates), and there is still an unassigned protocluster: before the repair
   `assert core_group` in _find_cross_origin_interleaved failed here; the repaired code takes all members of
   those candidates as the core group.  Kept to recognise the class (regression statistics, fn 11 / 12). *)
Definition class_joint_core_wraps (protos : list proto) (w : option Z) : bool :=
  match protos with
  | [] => false
  | _ =>
    match find_hybrids (ordered_list protos) w with
    | Ok (hybrid_groups, unassigned1) =>
      match build_candidates w K_HYBRID hybrid_groups [] [] with
      | Ok (cands1, _, _) =>
        match with_cores w cands1 with
        | Ok cc =>
          let crossing := filter (fun ck => cand_core_crosses (snd ck)) cc in
          negb (is_empty unassigned1) && negb (is_empty crossing) && is_empty (cross_core_group crossing)
        | Err _ => false
        end
      | Err _ => false
      end
    | Err _ => false
    end
  end.

(* ---------- Protocluster.add_cds: the defining genes ---------- *)
(* genes handed to add_cds are those wholly inside the protocluster's location; add_cds records a gene in the
   PRIVATE set `_definition_cdses` iff it also lies inside the core location and has a CORE function with the
   protocluster's product - for every class of protocluster, SideloadedProtocluster inherits add_cds *)
Definition private_defs (genes : list gene) (p : proto) : list Z :=
  map gid (filter (fun g => contains (ploc p) (gloc g) && contains (pcore p) (gloc g)
                            && zmem (pprod p) (gprods g)) genes).
(* the PUBLIC property `definition_cdses`, which is what candidate formation reads: Protocluster returns (a copy of)
   the private set, SideloadedProtocluster overrides the property and always returns the empty set ("a sideloaded
   protocluster cannot have definition cdses").  `defining` = the protocluster contributes defining genes: true for a
   rule-based Protocluster, false for a SideloadedProtocluster (the only subclass in the code base).  `pdefs` of a
   model protocluster always is the value of the public property *)
Definition public_defs (genes : list gene) (defining : bool) (p : proto) : list Z :=
  if defining then private_defs genes p else [].
Definition with_defs_k (genes : list gene) (pk : proto * bool) : proto :=
  let p := fst pk in mkProto (pid p) (ploc p) (pcore p) (pprod p) (public_defs genes (snd pk) p).
Definition with_defs (genes : list gene) (p : proto) : proto := with_defs_k genes (p, true).

(* ---------- Record: add_protocluster*, create_candidate_clusters ---------- *)
Definition record_insert_proto (l : list proto) (p : proto) : list proto :=
  insert_at (bisect_left (fun e => lt_pp e p) l) p l.
Definition record_insert_cand (n : Z) (acc : res (list cand)) (c : cand) : res (list cand) :=
  do l <- acc;
  if lstart (cloc c) <? 0 then Err E_Assert else
  if n <? lend (cloc c) then Err E_Assert else
  Ok (insert_at (bisect_left (fun e => lt_cc e c) l) c l).

(* the protoclusters come with their class flag (`defining`, see public_defs) *)
Definition record_create (n : Z) (circular : bool) (genes : list gene) (protos : list (proto * bool))
  : res (list cand) :=
  let stored := fold_left record_insert_proto (map (with_defs_k genes) protos) [] in
  match stored with
  | [] => Ok []
  | _ =>
    let w := if circular then Some n else None in
    do cands <- create_candidates stored w;
    fold_left (record_insert_cand n) (sort_by lt_cc cands) (Ok [])
  end.

(* ---------- decidable specification, evaluated on an implementation output ---------- *)
(* out : list of (kind, member ids, location).  Clauses: every protocluster is a member of a
   candidate; members are known protoclusters, without repetition inside a candidate; the location
   of each candidate is connect_locations of its members' locations; no two candidates share
   coordinates and membership; SINGLE candidates have one member, the others at least two. *)
Definition ocand := (Z * list Z * loc)%type.
Definition find_proto (protos : list proto) (i : Z) : option proto :=
  find (fun p => pid p =? i) protos.
Fixpoint nodupb (l : list Z) : bool :=
  match l with [] => true | x :: r => negb (zmem x r) && nodupb r end.
Definition zsubset (a b : list Z) : bool := forallb (fun x => zmem x b) a.
Definition known_ids (protos : list proto) (c : ocand) : bool :=
  forallb (fun i => match find_proto protos i with Some _ => true | None => false end) (snd (fst c)).
Definition size_ok (c : ocand) : bool :=
  let '(kind, ids, _) := c in if kind =? K_SINGLE then zlen ids =? 1 else 1 <? zlen ids.
Definition loc_ok (protos : list proto) (w : option Z) (c : ocand) : bool :=
  let '(_, ids, l) := c in
  match connect_locations (flat_map (fun i => match find_proto protos i with
                                                | Some p => [ploc p] | None => [] end) ids) w with
  | Ok l' => loc_eqb l l'
  | Err _ => false
  end.
Definition ocand_same (a b : ocand) : bool :=
  let '(_, ia, la) := a in let '(_, ib, lb) := b in
  loc_eqb la lb && zsubset ia ib && zsubset ib ia.
Fixpoint no_same (l : list ocand) : bool :=
  match l with [] => true | x :: r => negb (existsb (ocand_same x) r) && no_same r end.
(* the clauses one by one: covered, members known, no repeated member, group sizes, location, unique *)
Definition spec_clauses (protos : list proto) (w : option Z) (out : list ocand) : list bool :=
  [ forallb (fun p => existsb (fun c : ocand => zmem (pid p) (snd (fst c))) out) protos;
    forallb (known_ids protos) out;
    forallb (fun c : ocand => nodupb (snd (fst c))) out;
    forallb size_ok out;
    forallb (loc_ok protos w) out;
    no_same out ].
Definition spec_ok (protos : list proto) (w : option Z) (out : list ocand) : bool :=
  forallb (fun b => b) (spec_clauses protos w out).
Definition eSpec (protos : list proto) (w : option Z) (out : list ocand) : list Z :=
  eBool (spec_ok protos w out) ++ flat_map eBool (spec_clauses protos w out).

(* ---------- the formation with two repairs switched on or off (history; class predicates) ---------- *)
(* `nw` = true: the "unassigned / singles overlapping with candidates" loops look at all candidates (the code since
   the repair of finding candidate_index_window); false: the bisect window with the early break that the code had
   before.  `allp` = true: _find_neighbouring compares ALL singles with each other (the code since the repair of
   finding neighbouring_singles_not_linked); false: only those that overlap no candidate.  With both flags TRUE these
   are the functions above (find_interleaved, find_neighbouring, formation_body, create_candidates), definition by
   definition (C05_variants_are_the_model).  The variants with a flag off are NOT the code any more; they tell, for an
   input on which the implementation fails a clause about the meaning of the kinds, which of the two repaired defects
   would explain it (class_info, fn 21 / 22: label of a violation if a defect returns), and the soundness theorems are
   stated for every setting of the flags.  Both use `_ordered(protoclusters)` (repair of supply_order_same_key_groups). *)
Definition find_interleaved_v (nw : bool) (clusters : list proto) (cands : list cand) (w : option Z)
  : res (list (list proto) * list proto) :=
  do cc <- with_cores w cands;
  let groups0 := find_interleaved_candidates cc in
  let by_core := sort_by core_start_lt clusters in
  let pp := core_pairs by_core in
  let groups1 := groups0 ++ map (fun xy => [fst xy; snd xy]) pp in
  let found1 := concat (map (fun xy => [fst xy; snd xy]) pp) in
  let hits := flat_map (fun cl =>
                  map (fun ck => (ck, cl))
                      (if nw then filter (fun ck : cand * loc => overlap (snd ck) (pcore cl)) cc
                       else cand_scan (fun ck => overlap (snd ck) (pcore cl)) (lend (ploc cl))
                                      (skipn (window_index cc cl) cc))) by_core in
  let groups2 := groups1 ++ map (fun h => cmem (fst (fst h)) ++ [snd h]) hits in
  let found2 := found1 ++ map snd hits in
  do fg <- find_cross_origin_interleaved w cc by_core groups2;
  let '(found3, groups3) := fg in
  Ok (merge_sets groups3, sort_by lt_pp (iter (diff clusters (found2 ++ found3)))).

Definition find_neighbouring_v (nw allp : bool) (singles : list proto) (cands : list cand) : list (list proto) :=
  let groups0 := find_neighbouring_candidates cands in
  let hits := flat_map (fun s =>
                 map (fun c => (c, s))
                     (if nw then filter (fun c => overlap (ploc s) (cloc c)) cands
                      else cand_scan_plain (fun c => overlap (ploc s) (cloc c)) (lend (ploc s))
                                           (skipn (window_index_plain cands s) cands ++ firstn 1 cands))) singles in
  let groups1 := groups0 ++ map (fun h => union (cmem (fst h)) [snd h]) hits in
  let unassigned := diff singles (map snd hits) in
  let edges :=
    if is_empty unassigned || is_empty cands then [] else
    (match cands with c0 :: _ => if bridges (cloc c0) then [c0] else [] | [] => [] end)
    ++ (match cands with
        | _ :: _ :: _ => match last_opt cands with
                         | Some cl => if bridges (cloc cl) then [cl] else []
                         | None => []
                         end
        | _ => []
        end) in
  let edge_groups := flat_map (fun c =>
                        match filter (fun s => overlap (ploc s) (cloc c)) (iter unassigned) with
                        | s :: _ => [cmem c ++ [s]]
                        | [] => []
                        end) edges in
  let groups2 := groups1 ++ edge_groups in
  merge_sets (groups2 ++ find_neighbouring_protoclusters
                           (if allp then singles else sort_by lt_pp (iter unassigned))).

Definition formation_body_v (nw allp : bool) (protos : list proto) (w : option Z) : res (list cand) :=
  let unassigned0 := ordered_list protos in
  do hu <- find_hybrids unassigned0 w;
  let '(hybrid_groups, unassigned1) := hu in
  do b1 <- build_candidates w K_HYBRID hybrid_groups [] [];
  let '(cands1, ex1, singles1) := b1 in
  do iu <- find_interleaved_v nw unassigned1 cands1 w;
  let '(inter_groups, unassigned2) := iu in
  do b2 <- build_candidates w K_INTERLEAVED inter_groups ex1 singles1;
  let '(cands2, ex2, singles2) := b2 in
  let neigh_groups := find_neighbouring_v nw allp unassigned2 cands2 in
  do b3 <- build_candidates w K_NEIGHBOURING neigh_groups ex2 singles2;
  let '(cands3, ex3, singles3) := b3 in
  do ss <- singles_go w ex3 (ordered_set (unassigned2 ++ singles3));
  Ok (cands3 ++ ss).

Definition create_candidates_v (nw allp : bool) (protos : list proto) (w : option Z) : res (list cand) :=
  match protos with
  | [] => Ok []
  | _ =>
    do cands <- formation_body_v nw allp protos w;
    if negb (assigned_count cands =? zlen protos) then Err E_Assert else
    Ok (sort_by lt_cc cands)
  end.

(* ---------- the meaning of the kinds, as decidable clauses on an output ---------- *)
(* the transitive group of `p` under a relation on the supplied protoclusters (breadth first; one round per
   protocluster is enough) *)
Fixpoint grow (fuel : nat) (rel : proto -> proto -> bool) (all comp : list proto) : list proto :=
  match fuel with
  | O => comp
  | S f =>
    let add := filter (fun q => negb (pmem q comp) && existsb (fun p => rel p q) comp) (iter all) in
    if is_empty add then comp else grow f rel all (comp ++ add)
  end.
Definition component (rel : proto -> proto -> bool) (all : list proto) (p : proto) : list proto :=
  grow (length all) rel all [p].
Definition rel_H (p q : proto) : bool := negb (pid p =? pid q) && defs_intersect p q.   (* share a defining gene *)
Definition rel_I (p q : proto) : bool := overlap (pcore p) (pcore q).                   (* cores overlap *)
Definition rel_N (p q : proto) : bool := overlap (ploc p) (ploc q).                     (* full extents overlap *)
Definition okind (c : ocand) : Z := fst (fst c).
Definition oids (c : ocand) : list Z := snd (fst c).
Definition oloc (c : ocand) : loc := snd c.
Definition omembers (protos : list proto) (c : ocand) : list proto :=
  flat_map (fun i => match find_proto protos i with Some p => [p] | None => [] end) (oids c).
(* every transitive group (of at least two protoclusters) lies inside one candidate of an allowed kind *)
Definition groups_inside (rel : proto -> proto -> bool) (kinds : list Z) (protos : list proto) (out : list ocand) : bool :=
  forallb (fun p => let k := component rel protos p in
                    negb (1 <? zlen k) ||
                    existsb (fun c : ocand => zmem (okind c) kinds && zsubset (map pid k) (oids c)) out) protos.
(* a NEIGHBOURING candidate is exactly one transitive group of overlapping extents *)
Definition neighbouring_exact (protos : list proto) (out : list ocand) : bool :=
  forallb (fun c : ocand =>
             negb (okind c =? K_NEIGHBOURING) ||
             match omembers protos c with
             | [] => false
             | p :: _ => let k := map pid (component rel_N protos p) in zsubset k (oids c) && zsubset (oids c) k
             end) out.
(* an INTERLEAVED candidate is connected by overlapping cores, the units being its protoclusters and the
   chemical hybrids it contains (a hybrid's core is the joint core of its members).  Members that have a SINGLE
   of their own are left out: they are the extras of a promotion (a weaker group with the coordinates of this
   candidate was merged into it, documented behaviour of build_candidates), not interleaved members; likewise
   members whose single is suppressed because a candidate with their coordinates contains them.  Such members
   may still serve as links *)
Definition interleaved_connected (protos : list proto) (w : option Z) (out : list ocand) : bool :=
  forallb (fun c : ocand =>
             negb (okind c =? K_INTERLEAVED) ||
             let all := omembers protos c in
             (* members that must be linked: those that would not have got a single anyway *)
             let req := filter (fun p => negb (existsb (fun d : ocand =>
                                                   ((okind d =? K_SINGLE) && list_eqb Z.eqb (oids d) [pid p])
                                                   || (zmem (pid p) (oids d) && (fstart (oloc d) =? fstart (ploc p))
                                                       && (fend (oloc d) =? fend (ploc p)))) out)) all in
             let units := map (fun p => [p]) all
                          ++ map (omembers protos)
                                 (filter (fun h : ocand => (okind h =? K_HYBRID) && zsubset (oids h) (oids c)) out) in
             let hulls := flat_map (fun u => match connect_locations (map pcore u) w with
                                             | Ok l => [(u, l)] | Err _ => [] end) units in
             let rel := fun p q : proto =>
               existsb (fun ul : list proto * loc =>
                          pmem p (fst ul) &&
                          existsb (fun vl : list proto * loc => pmem q (fst vl) && overlap (snd ul) (snd vl)) hulls) hulls in
             match req with
             | [] => true
             | p :: _ => zsubset (map pid req) (map pid (component rel all p))
             end) out.
(* a protocluster in no chemical hybrid and no interleaved candidate has a SINGLE of its own, unless a
   candidate with its coordinates contains it *)
Definition singles_present (protos : list proto) (out : list ocand) : bool :=
  forallb (fun p =>
             existsb (fun c : ocand => ((okind c =? K_HYBRID) || (okind c =? K_INTERLEAVED)) && zmem (pid p) (oids c)) out
             || existsb (fun c : ocand => (okind c =? K_SINGLE) && list_eqb Z.eqb (oids c) [pid p]) out
             || existsb (fun c : ocand => zmem (pid p) (oids c) && (fstart (oloc c) =? fstart (ploc p))
                                          && (fend (oloc c) =? fend (ploc p))) out) protos.
(* a protocluster that is in a candidate only as the extra of a promotion (it has a SINGLE of its own) or whose
   single is suppressed because a candidate with its coordinates contains it *)
Definition promoted_extra (out : list ocand) (p : proto) : bool :=
  existsb (fun d : ocand =>
             ((okind d =? K_SINGLE) && list_eqb Z.eqb (oids d) [pid p])
             || (zmem (pid p) (oids d) && (fstart (oloc d) =? fstart (ploc p))
                 && (fend (oloc d) =? fend (ploc p)))) out.
(* every CHEMICAL_HYBRID candidate has two (different) members that share a defining gene, the defining genes being
   what the public `definition_cdses` reports (pdefs): a protocluster without defining genes (sideloaded) is never
   the reason for a hybrid *)
Definition hybrids_share (protos : list proto) (out : list ocand) : bool :=
  forallb (fun c : ocand =>
             negb (okind c =? K_HYBRID) ||
             let ms := omembers protos c in
             existsb (fun p => existsb (fun q => rel_H p q) ms) ms) out.
(* ... and every other member of a hybrid is there because its core lies inside the joint core of one of the
   transitive groups of sharing members (promotion extras aside) *)
Definition hybrid_members_explained (protos : list proto) (w : option Z) (out : list ocand) : bool :=
  forallb (fun c : ocand =>
             negb (okind c =? K_HYBRID) ||
             let ms := omembers protos c in
             let sharing := filter (fun p => existsb (fun q => rel_H p q) ms) ms in
             forallb (fun p => pmem p sharing || promoted_extra out p
                               || existsb (fun q => match connect_locations
                                                             (map pcore (ordered_set (component rel_H protos q))) w with
                                                    | Ok core => contains core (pcore p)
                                                    | Err _ => false
                                                    end) sharing) ms) out.
(* ... and conversely "plus protoclusters whose core lies inside the group's core span": a protocluster that shares a
   defining gene with nobody and whose core lies inside the joint core (connect_locations with the wrap point) of a
   transitive sharing group is a member of a CHEMICAL_HYBRID candidate that holds the whole group - of every such
   group, a protocluster can be taken into several hybrids *)
Definition hybrid_extension_complete (protos : list proto) (w : option Z) (out : list ocand) : bool :=
  forallb (fun q =>
             let k := component rel_H protos q in
             negb (1 <? zlen k) ||
             match connect_locations (map pcore (ordered_set k)) w with
             | Err _ => true
             | Ok core =>
               forallb (fun p => existsb (fun r => rel_H p r) protos
                                 || negb (contains core (pcore p))
                                 || existsb (fun c : ocand => (okind c =? K_HYBRID) && zmem (pid p) (oids c)
                                                              && zsubset (map pid k) (oids c)) out) protos
             end) protos.
(* interleaved, completeness at the level the code works on (linear AND circular records, overlap of locations on
   the ring).  The units are taken from the property, not from the output: the transitive groups of protoclusters
   sharing a defining gene (core = connect_locations of the members' cores with the wrap point; the protoclusters a
   hybrid holds only because their core lies inside that joint core overlap it anyway, so they need not be counted
   into the unit) and every other protocluster on its own; every transitive group of units with overlapping cores
   lies inside one INTERLEAVED (or, after a promotion, CHEMICAL_HYBRID) candidate *)
Definition unit_hulls (protos : list proto) (w : option Z) : list (list proto * loc) :=
  let units := map (fun p => let k := component rel_H protos p in
                             if 1 <? zlen k then ordered_set k else [p]) protos in
  flat_map (fun u => match connect_locations (map pcore u) w with Ok l => [(u, l)] | Err _ => [] end) units.
Definition rel_U (hulls : list (list proto * loc)) (p q : proto) : bool :=
  existsb (fun ul : list proto * loc =>
             pmem p (fst ul) &&
             existsb (fun vl : list proto * loc => pmem q (fst vl) && overlap (snd ul) (snd vl)) hulls) hulls.
Definition kind_clauses (protos : list proto) (w : option Z) (out : list ocand) : list bool :=
  [ groups_inside rel_H [K_HYBRID] protos out;
    groups_inside rel_I [K_HYBRID; K_INTERLEAVED] protos out;
    groups_inside rel_N [K_HYBRID; K_INTERLEAVED; K_NEIGHBOURING] protos out;
    neighbouring_exact protos out;
    interleaved_connected protos w out;
    singles_present protos out;
    hybrids_share protos out;
    hybrid_members_explained protos w out;
    hybrid_extension_complete protos w out;
    groups_inside (rel_U (unit_hulls protos w)) [K_HYBRID; K_INTERLEAVED] protos out ].
Definition spec_clauses_all (protos : list proto) (w : option Z) (out : list ocand) : list bool :=
  spec_clauses protos w out ++ kind_clauses protos w out.
Definition eSpecAll (protos : list proto) (w : option Z) (out : list ocand) : list Z :=
  eBool (forallb (fun b => b) (spec_clauses_all protos w out)) ++ flat_map eBool (spec_clauses_all protos w out).

(* class information for the two repaired findings: would the window / early break change the model's result (the
   model against the variant with the window), would the restriction to hit-less singles change it, and does the
   model (= both repairs) meet every clause; then the flags of all clauses on the model's output and the output *)
Definition to_ocand (c : cand) : ocand := (ckind c, map pid (cmem c), cloc c).
Definition res_cands_eqb (a b : res (list cand)) : bool :=
  match a, b with
  | Ok x, Ok y => list_eqb (fun c d : cand => (ckind c =? ckind d) && list_eqb Z.eqb (map pid (cmem c)) (map pid (cmem d))
                                              && loc_eqb (cloc c) (cloc d)) x y
  | Err j, Err k => j =? k
  | _, _ => false
  end.
Definition eCand0 (c : cand) : list Z :=
  ckind c :: eList (fun p => [pid p]) (cmem c) ++ eList (fun q : part => [ps q; pe q; pst q]) (cloc c).
Definition class_info (protos : list proto) (w : option Z) : list Z :=
  let base := create_candidates protos w in
  eBool (negb (res_cands_eqb base (create_candidates_v false true protos w)))
  ++ eBool (negb (res_cands_eqb base (create_candidates_v true false protos w)))
  ++ match create_candidates_v true true protos w with
     | Ok out => eBool (forallb (fun b => b) (spec_clauses_all protos w (map to_ocand out)))
                 ++ flat_map eBool (spec_clauses_all protos w (map to_ocand out)) ++ eList eCand0 out
     | Err k => [0; k]
     end.

(* ---------- decidable specification of _merge_sets, evaluated on an implementation output ---------- *)
(* the returned groups are exactly the transitive groups of the supplied sets under "share a protocluster":
   every returned group is non-empty and equals the transitive group of its first member, the groups are
   pairwise disjoint, and the same protoclusters occur in the output as in the input *)
Definition zdisjoint (a b : list Z) : bool := negb (existsb (fun x => zmem x b) a).
Fixpoint pairwise_zdisjoint (l : list (list Z)) : bool :=
  match l with [] => true | x :: r => forallb (zdisjoint x) r && pairwise_zdisjoint r end.
Definition spec_merge (groups : list (list proto)) (out : list (list Z)) : bool :=
  let all := concat groups in
  let rel := fun p q : proto => existsb (fun g => pmem p g && pmem q g) groups in
  forallb (fun h => match h with
                    | [] => false
                    | i :: _ => match find_proto all i with
                                | Some p => let k := map pid (component rel all p) in zsubset k h && zsubset h k
                                | None => false
                                end
                    end) out
  && pairwise_zdisjoint out
  && zsubset (map pid all) (concat out) && zsubset (concat out) (map pid all).

(* ---------- encoding ---------- *)
Definition dGene : dec gene := fun l =>
  match dPair (dPair dZ dLoc) (dList dZ) l with
  | Some ((i, g, prods), r) => Some (mkGene i g prods, r)
  | None => None
  end.
Definition dProto : dec proto := fun l =>
  match dPair (dPair (dPair dZ dLoc) dLoc) dZ l with
  | Some ((i, e, c, pr), r) => Some (mkProto i e c pr [], r)
  | None => None
  end.
(* protocluster with explicit defining genes (direct call of the formation function) *)
Definition dProtoD : dec proto := fun l =>
  match dPair dProto (dList dZ) l with
  | Some ((p, ds), r) => Some (mkProto (pid p) (ploc p) (pcore p) (pprod p) ds, r)
  | None => None
  end.
(* protocluster with its class flag (1 = rule-based Protocluster, 0 = SideloadedProtocluster) *)
Definition dProtoK : dec (proto * bool) := dPair dProto dBool.
Definition dOCand : dec ocand := dPair (dPair dZ (dList dZ)) dLoc.
Definition eCand (c : cand) : list Z :=
  ckind c :: eList (fun p => [pid p]) (cmem c) ++ eLoc (cloc c).

Definition run_C05 (fn : Z) (l : list Z) : list Z :=
  match fn with
  | 1 => (* Record: add protoclusters in the given order, create_candidate_clusters, get_candidate_clusters *)
    match dPair (dPair (dPair dZ dBool) (dList dGene)) (dList dProtoK) l with
    | Some ((n, circ, genes, protos), []) => eRes (eList eCand) (record_create n circ genes protos)
    | _ => bad_input
    end
  | 2 => (* create_candidates_from_protoclusters on the list as given *)
    match dPair (dOpt dZ) (dList dProtoD) l with
    | Some ((w, protos), []) => eRes (eList eCand) (create_candidates protos w)
    | _ => bad_input
    end
  | 3 => (* _merge_sets on groups of protoclusters (ids refer to the protocluster table) *)
    match dPair (dList dProtoD) (dList (dList dZ)) l with
    | Some ((protos, groups), []) =>
      let gs := map (fun g => flat_map (fun i => match find_proto protos i with
                                                 | Some p => [p] | None => [] end) g) groups in
      eList (eList (fun p => [pid p])) (merge_sets gs)
    | _ => bad_input
    end
  | 103 => (* spec on the implementation's output of fn 3 *)
    match dPair (dPair (dList dProtoD) (dList (dList dZ))) (dList (dList dZ)) l with
    | Some ((protos, groups, out), []) =>
      let gs := map (fun g => flat_map (fun i => match find_proto protos i with
                                                 | Some p => [p] | None => [] end) g) groups in
      eBool (spec_merge gs out)
    | _ => bad_input
    end
  | 11 => (* finding class joint_core_wraps_assert for an input of fn 1 *)
    match dPair (dPair (dPair dZ dBool) (dList dGene)) (dList dProtoK) l with
    | Some ((n, circ, genes, protos), []) =>
      eBool (class_joint_core_wraps (fold_left record_insert_proto (map (with_defs_k genes) protos) [])
                                    (if circ then Some n else None))
    | _ => bad_input
    end
  | 12 => (* ... for an input of fn 2 *)
    match dPair (dOpt dZ) (dList dProtoD) l with
    | Some ((w, protos), []) => eBool (class_joint_core_wraps protos w)
    | _ => bad_input
    end
  | 21 => (* class information of the repaired findings candidate_index_window / neighbouring_singles_not_linked, input of fn 1 *)
    match dPair (dPair (dPair dZ dBool) (dList dGene)) (dList dProtoK) l with
    | Some ((n, circ, genes, protos), []) =>
      class_info (fold_left record_insert_proto (map (with_defs_k genes) protos) []) (if circ then Some n else None)
    | _ => bad_input
    end
  | 22 => (* ... input of fn 2 *)
    match dPair (dOpt dZ) (dList dProtoD) l with
    | Some ((w, protos), []) => class_info protos w
    | _ => bad_input
    end
  | 101 => (* spec on the implementation's output of fn 1 *)
    match dPair (dPair (dPair dZ dBool) (dList dGene)) (dList dProtoK) l with
    | Some ((n, circ, genes, protos), r) =>
      match r with
      | 0 :: r' => match dList dOCand r' with
                   | Some (out, []) => eSpecAll (map (with_defs_k genes) protos) (if circ then Some n else None) out
                   | _ => bad_input
                   end
      | [1; _] => [2]   (* the implementation raised: no output to judge *)
      | _ => bad_input
      end
    | _ => bad_input
    end
  | 102 =>
    match dPair (dOpt dZ) (dList dProtoD) l with
    | Some ((w, protos), r) =>
      match r with
      | 0 :: r' => match dList dOCand r' with
                   | Some (out, []) => eSpecAll protos w out
                   | _ => bad_input
                   end
      | [1; _] => [2]
      | _ => bad_input
      end
    | _ => bad_input
    end
  | _ => bad_input
  end.
