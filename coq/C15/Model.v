(* C15: model of antismash/common/all_orfs.py: scan_orfs, find_intergenic_areas,
   _find_cross_origin_intergenic, find_all_orfs (chunk extraction incl. windows starting before the
   origin, both strands with reverse complement), create_feature_from_location (label, translation
   with the first residue forced to M), Record.get_aa_translation_from_location,
   _overlapping_cds_features (every CDS of the record tested with Feature.overlaps_with), _overlap_size and the
   max_overlap test on the ORFs of an origin-crossing area (repair of FC15b), Feature.__lt__, and
   Biopython's location.extract / reverse_complement / translate (standard table, DNA with IUPAC ambiguity codes);
   followed by the decidable specification evaluated on the implementation's outputs.
   DNA is a list of character codes; the codon tables come from Gen/Tables_gen.v. *)
From ASV Require Export Base Loc.
From ASV.Gen Require Import Tables_gen.

Inductive kind := KStart | KStop | KOther.

Definition upper (c : Z) : Z := if (97 <=? c) && (c <=? 122) then c - 32 else c.

Fixpoint zl_eqb (a b : list Z) : bool :=
  match a, b with
  | [], [] => true
  | x :: xs, y :: ys => (x =? y) && zl_eqb xs ys
  | _, _ => false
  end.
Definition codon_in (codon : list Z) (table : list (list Z)) : bool := existsb (zl_eqb codon) table.

(* the order of the tests in the loop: a codon is first tried as a start (only relevant when no
   start is pending), then as a stop; the tables are disjoint (checked on the generated tables) *)
Definition classify (a b c : Z) : kind :=
  if codon_in [a; b; c] c15_start_codons then KStart
  else if codon_in [a; b; c] c15_stop_codons then KStop else KOther.

(* the codons of one frame, classified *)
Fixpoint kinds (l : list Z) : list kind :=
  match l with
  | a :: b :: c :: rest => classify a b c :: kinds rest
  | _ => []
  end.

(* the scanning loop on codon kinds; [k] is the index of the head codon; emits (start, stop) codon
   indexes in the order found *)
Fixpoint scan_kinds (ks : list kind) (k : nat) (start : option nat) : list (nat * nat) :=
  match ks with
  | [] => []
  | KStart :: rest =>
    match start with
    | None => scan_kinds rest (S k) (Some k)
    | Some _ => scan_kinds rest (S k) start
    end
  | KStop :: rest =>
    match start with
    | None => scan_kinds rest (S k) None
    | Some s => (s, k) :: scan_kinds rest (S k) None
    end
  | KOther :: rest => scan_kinds rest (S k) start
  end.

(* one ORF in window coordinates: start = first base of the start codon, end_ = last base of the stop *)
Definition orf_coords (frame : Z) (se : nat * nat) : Z * Z :=
  (frame + 3 * Z.of_nat (fst se), frame + 3 * Z.of_nat (snd se) + 2).

Definition orf_location (direction offset seq_len : Z) (record_length : option Z) (c : Z * Z) : loc :=
  let '(start, end_) := c in
  let loc_start := if direction =? 1 then start + offset else seq_len + offset - end_ - 1 in
  let loc_end := if direction =? 1 then end_ + offset + 1 else seq_len + offset - start in
  match record_length with
  | None => [mkPart loc_start loc_end direction]
  | Some n =>
    let ls := (loc_start + n) mod n in
    let le := ((loc_end - 1 + n) mod n) + 1 in
    if le <=? ls then
      (if direction =? -1 then [mkPart 0 le direction; mkPart ls n direction]
       else [mkPart ls n direction; mkPart 0 le direction])
    else [mkPart ls le direction]
  end.

Definition frame_orfs (sequ : list Z) (frame : nat) (minimum : Z) : list (Z * Z) :=
  filter (fun c => negb (snd c - fst c <? minimum))
         (map (orf_coords (Z.of_nat frame)) (scan_kinds (kinds (skipn frame sequ)) 0 None)).

Definition loc_key (l : loc) : Z := Z.min (lstart l) (lend l).

Definition scan_orfs (sequ : list Z) (direction offset minimum : Z) (record_length : option Z) : list loc :=
  let sequ := map upper sequ in
  let n := zlen sequ in
  let matches := flat_map (fun frame =>
                   map (orf_location direction offset n record_length) (frame_orfs sequ frame minimum))
                 [0%nat; 1%nat; 2%nat] in
  sort_by (fun a b => loc_key a <? loc_key b) matches.

(* ---------- find_intergenic_areas ---------- *)
(* genes as (start, end) *)
Fixpoint intergenic_go (start end_ padding : Z) (genes : list (Z * Z)) (last : Z) (acc : list (Z * Z))
  : list (Z * Z) * Z :=
  match genes with
  | [] => (acc, last)
  | (gs, ge) :: rest =>
    if last <? gs + padding then
      intergenic_go start end_ padding rest (Z.max last (ge - padding))
                    (acc ++ [(Z.max start last, Z.min end_ (gs + padding))])
    else if (gs <=? last) && (last <=? ge) then
      intergenic_go start end_ padding rest (Z.max last (ge - padding)) acc
    else intergenic_go start end_ padding rest last acc
  end.

Definition find_intergenic_areas (start end_ : Z) (genes : list (Z * Z)) (min_length padding : Z)
  : list (Z * Z) :=
  let '(areas, last) := intergenic_go start end_ padding genes start [] in
  let areas := if last <? end_ then areas ++ [(Z.max start last, end_)] else areas in
  filter (fun a => min_length <=? snd a - fst a) areas.

(* ---------- sequences: slices, reverse complement, extraction (Biopython location.extract) ---------- *)
(* Python seq[a:b] for 0 <= a *)
Definition slice {A} (l : list A) (a b : Z) : list A := firstn (Z.to_nat (b - a)) (skipn (Z.to_nat a) l).

(* Bio.Seq complement of one IUPAC letter, case preserved; other characters unchanged *)
Definition comp_upper (c : Z) : Z :=
  match c with
  | 65 => 84 | 84 => 65 | 67 => 71 | 71 => 67      (* A T C G *)
  | 77 => 75 | 75 => 77 | 82 => 89 | 89 => 82      (* M K R Y *)
  | 86 => 66 | 66 => 86 | 72 => 68 | 68 => 72      (* V B H D *)
  | _ => c                                          (* W S N X and everything else *)
  end.
Definition comp (c : Z) : Z :=
  if (97 <=? c) && (c <=? 122) then comp_upper (c - 32) + 32 else comp_upper c.
Definition revcomp (l : list Z) : list Z := rev (map comp l).

(* location.extract(genome): the parts in the order given, each part reverse-complemented on its own
   when its strand is -1, concatenated *)
Definition extract_part (g : list Z) (p : part) : list Z :=
  let t := slice g (ps p) (pe p) in if pst p =? -1 then revcomp t else t.
Definition extract (g : list Z) (l : loc) : list Z := flat_map (extract_part g) l.

(* the chunk of find_all_orfs: seq[start:end], or for a window starting before the origin
   seq[len + start:] + seq[:end] *)
Definition chunk (g : list Z) (start end_ : Z) : list Z :=
  if 0 <=? start then slice g start end_
  else skipn (Z.to_nat (zlen g + start)) g ++ firstn (Z.to_nat end_) g.
(* the text handed to scan_orfs for a strand *)
Definition window (g : list Z) (start end_ direction : Z) : list Z :=
  if direction =? -1 then revcomp (chunk g start end_) else chunk g start end_.

(* ---------- translation (Bio.Seq.translate, standard/bacterial table, IUPAC DNA letters of both cases) ---------- *)
(* the bases an IUPAC letter stands for (Bio.Data.IUPACData.ambiguous_dna_values), as indexes into TCAG; the text is
   upper-cased by Biopython first; no base for any other character (Biopython raises TranslationError there, the model
   says X: outside the alphabet of every statement) *)
Definition base_set (c : Z) : list Z :=
  match upper c with
  | 84 => [0] | 67 => [1] | 65 => [2] | 71 => [3]                       (* T C A G *)
  | 77 => [2; 1] | 82 => [2; 3] | 87 => [2; 0]                           (* M = AC, R = AG, W = AT *)
  | 83 => [1; 3] | 89 => [1; 0] | 75 => [3; 0]                           (* S = CG, Y = CT, K = GT *)
  | 86 => [2; 1; 3] | 72 => [2; 1; 0] | 68 => [2; 3; 0] | 66 => [1; 3; 0] (* V = ACG, H = ACT, D = AGT, B = CGT *)
  | 78 => [0; 1; 2; 3]                                                   (* N *)
  | _ => []
  end.
(* FFLLSSSSYY**CC*WLLLLPPPPHHQQRRRRIIIMTTTTNNKKSSRRVVVVAAAADDEEGGGG over TCAG *)
Definition aa_table : list Z :=
  [70;70;76;76;83;83;83;83;89;89;42;42;67;67;42;87;76;76;76;76;80;80;80;80;72;72;81;81;82;82;82;82;
   73;73;73;77;84;84;84;84;78;78;75;75;83;83;82;82;86;86;86;86;65;65;65;65;68;68;69;69;71;71;71;71].
(* a codon translates to the residue (or '*') that ALL the codons it stands for translate to; when they differ the
   result is X: Biopython answers B, Z, J or X for a mix of residues (Record.get_aa_translation_from_location turns B, Z
   and J into X) and X for a mix of residues and stops.  TAR and TRA are the ambiguous codons that are stops whatever
   the base is: translation ends there - scan_orfs has them in STOP_CODONS since the repair of FC15c *)
Definition translate_codon (a b c : Z) : Z :=
  let poss := flat_map (fun i => flat_map (fun j => map (fun k => nth (Z.to_nat (16 * i + 4 * j + k)) aa_table 88)
                                                        (base_set c)) (base_set b)) (base_set a) in
  match poss with
  | [] => 88
  | p :: r => if forallb (Z.eqb p) r then p else 88
  end.
Fixpoint translate (to_stop : bool) (l : list Z) : list Z :=
  match l with
  | a :: b :: c :: rest =>
    let aa := translate_codon a b c in
    if to_stop && (aa =? 42) then [] else aa :: translate to_stop rest
  | _ => []
  end.
(* Record.get_aa_translation_from_location *)
Definition aa_translation (g : list Z) (l : loc) : res (list Z) :=
  if zlen g <? lend l then Err E_Value else
  let extracted := filter (fun c => negb (c =? 45)) (extract g l) in
  let t := translate true extracted in
  let t := match t with [] => translate false extracted | _ => t end in
  Ok (map (fun c => if existsb (Z.eqb c) [42; 66; 74; 79; 85; 90] then 88 else c) t).

(* ---------- create_feature_from_location: label, translation with a forced first M ---------- *)
Fixpoint dec_digits (fuel : nat) (n : Z) : list Z :=
  match fuel with
  | O => [48 + n]
  | S f => if n <? 10 then [48 + n] else dec_digits f (n / 10) ++ [48 + n mod 10]
  end.
(* str(n) for n >= 0; log2 n steps always suffice *)
Definition str_of_Z (n : Z) : list Z := dec_digits (Z.to_nat (Z.log2 n)) n.
(* format(n, "0{width}") *)
Definition pad0 (width n : Z) : list Z :=
  let s := str_of_Z n in repeat 48 (Z.to_nat (width - zlen s)) ++ s.
Definition allorf_prefix : list Z := [97; 108; 108; 111; 114; 102; 95].   (* "allorf_" *)
Definition orf_label (record_len : Z) (l : loc) : list Z :=
  let digits := zlen (str_of_Z record_len) in
  match l with
  | p0 :: p1 :: _ => allorf_prefix ++ pad0 digits (ps p0 + 1) ++ [95] ++ pad0 digits (pe p1)
  | _ => allorf_prefix ++ pad0 digits (lstart l + 1) ++ [95] ++ pad0 digits (lend l)
  end.

Record feature := mkFeature { floc : loc; flabel : list Z; ftrans : list Z }.

Definition create_feature (g : list Z) (l : loc) : res feature :=
  let label := orf_label (zlen g) l in
  do t <- aa_translation g l;
  match t with
  | [] => Err E_Index                       (* translation[0] *)
  | c :: r => Ok (mkFeature l label (if c =? 77 then t else 77 :: r))
  end.

(* ---------- get_trimmed_orf ---------- *)
(* the location without its first [remaining] bases in the order of translation: the parts are visited in the order
   given (Biopython keeps them in the order of translation), a part not longer than what is left to remove is dropped,
   the next one loses the rest at its start (strand 1) or at its end (otherwise), the others are kept.  (Until the repair
   of FC15d trimmed_orf_over_origin this was FeatureLocation(location.start + k, location.end) resp.
   (location.start, location.end - k) on the envelope of the location: wrong for an ORF in two parts over the origin.) *)
Fixpoint trim_parts (l : list part) (remaining : Z) : list part :=
  match l with
  | [] => []
  | p :: r =>
    let n := pe p - ps p in
    if n <=? remaining then trim_parts r (remaining - n)
    else (if pst p =? 1 then mkPart (ps p + remaining) (pe p) (pst p)
          else mkPart (ps p) (pe p - remaining) (pst p)) :: trim_parts r 0
  end.

(* get_trimmed_orf(orf, record, include, min_length, max_length) with label=None; the text is NOT upper-cased before the
   comparison with START_CODONS *)
Definition get_trimmed_orf (g : list Z) (l : loc) (include max_length : option Z) (min_length : Z)
  : res (option feature) :=
  let sq := extract g l in
  let n := zlen sq in
  let max_length := match max_length with Some m => m | None => n end in
  let include := match include with Some i => i | None => n end in
  if max_length <? min_length then Err E_Value else
  if n <? min_length then Ok None else
  if max_length <? n - include then Ok None else
  let start := Z.max 0 (n - (max_length - max_length mod 3)) in
  let end_ := Z.min (n - min_length) include in
  let cands := filter (fun i => codon_in (slice sq i (i + 3)) c15_start_codons)
                      (map (fun j => start + 3 * Z.of_nat j) (seq 0 (Z.to_nat ((end_ - start + 2) / 3)))) in
  if existsb (fun i => negb ((min_length <=? n - i) && (n - i <=? max_length))) cands then Err E_Assert else
  match rev cands with
  | [] => Ok None
  | k :: _ => do f <- create_feature g (trim_parts l k); Ok (Some f)
  end.

(* ---------- Feature.__lt__ ---------- *)
Definition comparator_start (l : loc) : Z :=
  if bridges l then
    match split_bridging l with
    | Ok (_, head) => lmin (map ps head) - lmax (map pe head)
    | Err _ => lstart l   (* raises ValueError in Python; never for the locations built here *)
    end
  else lstart l.
Definition feature_lt (a b : loc) : bool :=
  let sa := comparator_start a in
  let sb := comparator_start b in
  (sa <? sb) || ((sa =? sb) && (llen a <? llen b)).

(* ---------- all_orfs._overlapping_cds_features(record, location) ---------- *)
(* `[cds for cds in record.get_cds_features() if cds.overlaps_with(location)]`: EVERY CDS feature of the record is
   tested for overlap with the area part (Feature.overlaps_with = locations_overlap = Loc.overlap), the record's own
   order is kept.  (Until the repair of FC15a area_misses_enclosing_gene this was the positional look-up
   Record.get_cds_features_within_location(part, with_overlapping=True): bisect_left, two walk-back loops, a forward
   loop with a `break` rule - which left out a gene reaching into the part when a later gene ended before it.)
   cds: the record's CDS features in the record's own order *)
Definition cds_within (cds : list loc) (p : part) : list loc := filter (fun c => overlap c [p]) cds.

(* ---------- _find_cross_origin_intergenic ---------- *)
Definition gene_span (l : loc) : Z * Z := (lstart l, lend l).

(* the loop that looks for the areas touching the origin; `assert not x` passes for None and for 0 *)
Fixpoint origin_scan (n : Z) (areas : list (Z * Z)) (i : Z) (pre post : option Z) : res (option Z * option Z) :=
  match areas with
  | [] => Ok (pre, post)
  | a :: rest =>
    do post' <- (if fst a =? 0 then
                   match post with
                   | Some k => if k =? 0 then Ok (Some i) else Err E_Assert
                   | None => Ok (Some i)
                   end
                 else Ok post);
    do pre' <- (if snd a =? n then
                  match pre with
                  | Some k => if k =? 0 then Ok (Some i) else Err E_Assert
                  | None => Ok (Some i)
                  end
                else Ok pre);
    origin_scan n rest (i + 1) pre' post'
  end.

Definition list_pop {A} (l : list A) (i : Z) : list A :=
  firstn (Z.to_nat i) l ++ skipn (S (Z.to_nat i)) l.
Definition list_set {A} (l : list A) (i : Z) (x : A) : res (list A) :=
  if i <? zlen l then Ok (firstn (Z.to_nat i) l ++ x :: skipn (S (Z.to_nat i)) l) else Err E_Index.

Definition cross_origin_intergenic (n : Z) (cds : list loc) (area : loc) (min_length max_overlap : Z)
  : res (list (Z * Z)) :=
  let areas := flat_map (fun p => find_intergenic_areas (ps p) (pe p) (map gene_span (cds_within cds p))
                                                        min_length max_overlap) area in
  do pp <- origin_scan n areas 0 None None;
  match pp with
  | (Some pre_i, Some post_i) =>
    let pre := nth (Z.to_nat pre_i) areas (0, 0) in
    let post := nth (Z.to_nat post_i) areas (0, 0) in
    let areas' := list_pop areas post_i in
    let start := fst pre - n in
    if negb (start <? 0) then Err E_Assert else
    list_set areas' pre_i (start, snd post)
  | _ => Ok areas
  end.

(* ---------- find_all_orfs ---------- *)
(* `if area:` - a CDSCollection defines neither __bool__ nor __len__, so every area is true *)
Definition intergenic_for (n : Z) (cds : list loc) (area : option loc) (min_length max_overlap : Z)
  : res (list (Z * Z)) :=
  match area with
  | Some aloc =>
    if is_compound aloc then cross_origin_intergenic n cds aloc min_length max_overlap
    else match aloc with
         | [p] => Ok (find_intergenic_areas (lstart aloc) (lend aloc) (map gene_span (cds_within cds p))
                                            min_length max_overlap)
         | _ => Err E_Attribute
         end
  | None => Ok (find_intergenic_areas 0 n (map gene_span cds) min_length max_overlap)
  end.

(* all_orfs._overlap_size(first, second): sum over the pairs of parts of max(0, min(ends) - max(starts)) *)
Definition part_shared (a b : part) : Z := Z.max 0 (Z.min (pe a) (pe b) - Z.max (ps a) (ps b)).
Definition overlap_size (o c : loc) : Z :=
  fold_right Z.add 0 (flat_map (fun a => map (part_shared a) c) o).
(* `if area and area.crosses_origin(): existing = _overlapping_cds_features(record, area.location); locations =
   [location for location in locations if all(_overlap_size(location, cds.location) <= max_overlap for cds in existing)]`
   (repair of FC15b origin_gene_padding_window: the window joined over the origin carries the allowance of max_overlap
   bases before the record end AND after the record start, so a gene reaching into both parts of the area could be
   overlapped by up to twice max_overlap; every ORF found for an origin-crossing area is now tested against every gene
   overlapping the area) *)
Definition within_overlap (cds : list loc) (area : option loc) (max_overlap : Z) (locs : list loc) : list loc :=
  match area with
  | Some aloc =>
    if is_compound aloc then
      let existing := filter (fun c => overlap c aloc) cds in
      filter (fun l => forallb (fun c => overlap_size l c <=? max_overlap) existing) locs
    else locs
  | None => locs
  end.

Definition area_orfs (g : list Z) (min_length : Z) (a : Z * Z) : list loc :=
  let '(start, end_) := a in
  scan_orfs (window g start end_ 1) 1 start min_length (Some (zlen g)) ++
  scan_orfs (window g start end_ (-1)) (-1) start min_length (Some (zlen g)).

Definition find_all_orfs (g : list Z) (cds : list loc) (area : option loc) (min_length max_overlap : Z)
  : res (list feature) :=
  do areas <- intergenic_for (zlen g) cds area min_length max_overlap;
  if existsb (fun a => zlen g <? snd a) areas then Err E_Assert else
  do feats <- mapM (create_feature g) (within_overlap cds area max_overlap (flat_map (area_orfs g min_length) areas));
  Ok (sort_by (fun a b => feature_lt (floc a) (floc b)) feats).

(* ---------- decidable specification, evaluated on the implementation's output ---------- *)
Definition kind_eqb (a b : kind) : bool :=
  match a, b with KStart, KStart | KStop, KStop | KOther, KOther => true | _, _ => false end.
Definition kind_is (ks : list kind) (j : nat) (k : kind) : bool :=
  match nth_error ks j with Some x => kind_eqb x k | None => false end.
(* (s, e) is an ORF of the frame: the bounded-quantifier form of Proofs.is_orf *)
Definition is_orf_b (ks : list kind) (s e : nat) : bool :=
  if (s <? e)%nat then
  if kind_is ks s KStart then
  if kind_is ks e KStop then
  if forallb (fun j => negb (kind_is ks j KStop)) (seq (S s) (e - S s)) then
    forallb (fun j => if kind_is ks j KStart
                      then existsb (fun m => kind_is ks m KStop) (seq (S j) (s - S j)) else true) (seq 0 s)
  else false else false else false else false.
Definition orfs_spec (ks : list kind) : list (nat * nat) :=
  filter (fun se => is_orf_b ks (fst se) (snd se)) (list_prod (seq 0 (length ks)) (seq 0 (length ks))).

(* record positions of a location in transcription order *)
Definition zrange (a len : Z) : list Z := map (fun i => a + Z.of_nat i) (seq 0 (Z.to_nat len)).
Definition part_positions (p : part) : list Z :=
  let r := zrange (ps p) (pe p - ps p) in if pst p =? -1 then rev r else r.
Definition positions (l : loc) : list Z := flat_map part_positions l.
(* where the ORF with window coordinates [a, b] (b inclusive) lies on the record *)
Definition expected_positions (direction offset n : Z) (rl : option Z) (c : Z * Z) : list Z :=
  let '(a, b) := c in
  let raw := if direction =? 1 then zrange (offset + a) (b - a + 1)
             else rev (zrange (offset + n - 1 - b) (b - a + 1)) in
  match rl with Some m => map (fun x => x mod m) raw | None => raw end.
Definition loc_is_orf (direction offset n : Z) (rl : option Z) (c : Z * Z) (l : loc) : bool :=
  forallb (fun p => pst p =? direction) l && zl_eqb (positions l) (expected_positions direction offset n rl c).

Definition b2z (b : bool) : Z := if b then 1 else 0.
(* every ORF of the three frames of the upper-cased text, in window coordinates (first base, last base), by the
   position-only specification orfs_spec - no length filter *)
Definition text_orfs (useq : list Z) : list (Z * Z) :=
  flat_map (fun frame => map (orf_coords (Z.of_nat frame)) (orfs_spec (kinds (skipn frame useq))))
           [0%nat; 1%nat; 2%nat].
(* [spec_ok (minimum as in the property text: length >= minimum); guard (no ORF of exactly the
   minimum length in the window); spec_ok with length > minimum (what the code does)] *)
Definition spec_scan_on (all : list (Z * Z)) (n direction offset minimum : Z) (rl : option Z) (out : list loc) : list Z :=
  let want_ge := filter (fun c => minimum <=? snd c - fst c + 1) all in
  let want_gt := filter (fun c => minimum <? snd c - fst c + 1) all in
  let matches (want : list (Z * Z)) :=
    (length out =? length want)%nat &&
    forallb (fun c => existsb (loc_is_orf direction offset n rl c) out) want &&
    forallb (fun l => existsb (fun c => loc_is_orf direction offset n rl c l) want) out in
  let sorted := sorted_le (map loc_key out) in
  [b2z (sorted && matches want_ge); b2z (length want_ge =? length want_gt)%nat; b2z (sorted && matches want_gt)].
Definition spec_scan (sequ : list Z) (direction offset minimum : Z) (rl : option Z) (out : list loc) : list Z :=
  let useq := map upper sequ in
  spec_scan_on (text_orfs useq) (zlen useq) direction offset minimum rl out.

(* ---------- scan_orfs on a window of a circular record, whatever way the window's position is told ---------- *)
(* the text of the window of [len] bases of the ring [g] that begins at position [off]: ANY integer offset - negative
   (the window starts |off| bases before the origin, the way find_all_orfs tells it), zero, positive with the window
   running past the record end (the window told by its real start coordinate), beyond the record length *)
Definition ring_text (g : list Z) (off len : Z) : list Z :=
  map (fun i => nth (Z.to_nat ((off + i) mod zlen g)) g 0) (zrange 0 len).
(* the text handed to scan_orfs for a strand *)
Definition ring_window (g : list Z) (off len direction : Z) : list Z :=
  if direction =? -1 then revcomp (ring_text g off len) else ring_text g off len.

(* "every reported location lies inside [0, record_length) and has at most two parts, split at the origin": one
   non-empty part inside the record, or the two parts [a, n) [0, b) with b <= a, in the order of transcription
   (reverse strand: [0, b) first), all on the scanned strand *)
Definition ring_shape_ok (n direction : Z) (l : loc) : bool :=
  match l with
  | [p] => (0 <=? ps p) && (ps p <? pe p) && (pe p <=? n) && (pst p =? direction)
  | [p; q] =>
    (pst p =? direction) && (pst q =? direction) &&
    (if direction =? -1
     then (ps p =? 0) && (0 <? pe p) && (pe p <=? ps q) && (ps q <? n) && (pe q =? n)
     else (ps q =? 0) && (0 <? pe q) && (pe q <=? ps p) && (ps p <? n) && (pe p =? n))
  | _ => false
  end.
(* "extracting it from the record gives an ORF": whole codons, the first a start codon, the last a stop codon, no stop
   codon before it (is_orf_b on the codons of the text itself) *)
Definition orf_text_b (t : list Z) : bool :=
  let ks := kinds (map upper t) in
  (Z.of_nat (length t) mod 3 =? 0) && is_orf_b ks 0 (length ks - 1).

(* the specification of scan_orfs on a window of a circular record, evaluated on the implementation's output:
   the three verdicts of spec_scan followed by
   [every location has the ring shape; every location extracts from the record to an ORF text; every location extracts
    to the text of one of the ORFs of the window; the text handed to scan_orfs is the window of the record at this offset
    (a check of the generator, not of the implementation)] *)
Definition spec_scan_ring (g sequ : list Z) (direction offset minimum : Z) (out : list loc) : list Z :=
  let useq := map upper sequ in
  let all := text_orfs useq in
  spec_scan_on all (zlen useq) direction offset minimum (Some (zlen g)) out ++
  [b2z (forallb (ring_shape_ok (zlen g) direction) out);
   b2z (forallb (fun l => orf_text_b (extract g l)) out);
   b2z (forallb (fun l => existsb (fun c => zl_eqb (extract g l) (slice sequ (fst c) (snd c + 1))) all) out);
   b2z (zl_eqb sequ (ring_window g offset (zlen sequ) direction))].

(* ---------- decidable specification of the gap clause (C15_gaps), evaluated on find_all_orfs outputs ---------- *)
(* number of record positions of the location [o] that lie inside the gene [c] *)
Definition shared (o c : loc) : Z := zlen (filter (fun x => in_loc x c) (positions o)).
(* the record positions of an intergenic area (start may be negative: window over the origin) *)
Definition area_positions (n : Z) (a : Z * Z) : list Z := map (fun y => y mod n) (zrange (fst a) (snd a - fst a)).
(* inside the searched part of the record *)
Definition in_searched (n : Z) (area : option loc) (x : Z) : bool :=
  match area with None => (0 <=? x) && (x <? n) | Some l => in_loc x l end.

Fixpoint starts_sortedb (genes : list (Z * Z)) : bool :=
  match genes with
  | [] => true
  | g :: r => forallb (fun h => fst g <=? fst h) r && starts_sortedb r
  end.

(* the gene reaches into both parts of an origin-spanning area: the genes for which the areas of the gap search do not
   bound the overlap (the window joined over the origin has the allowance of both sides) and the test on the ORFs
   (within_overlap) does; until the repair of FC15b origin_gene_padding_window these inputs were outside the guard *)
Definition in_both (area : option loc) (c : loc) : bool :=
  match area with
  | Some [p1; p2] => overlap c [p1] && overlap c [p2]
  | _ => false
  end.
Definition no_gene_in_both (cds : list loc) (p1 p2 : part) : bool :=
  forallb (fun c => negb (overlap c [p1] && overlap c [p2])) cds.

(* well-formed input: a record with its genes ordered by start; the area is absent, one part inside the record,
   or the two parts [s, n) [0, e) with 0 < e <= s < n *)
Definition gaps_wf (n : Z) (cds : list loc) (area : option loc) (min_length max_overlap : Z) : bool :=
  (0 <? n) && (0 <=? min_length) && (0 <=? max_overlap) && starts_sortedb (map gene_span cds) &&
  match area with
  | None => true
  | Some [p] => (0 <=? ps p) && (ps p <=? pe p) && (pe p <=? n)
  | Some [p1; p2] => (pe p1 =? n) && (ps p2 =? 0) && (0 <? pe p2) && (pe p2 <=? ps p1) && (ps p1 <? n)
  | Some _ => false
  end.
(* gaps_wf is the only hypothesis of C15_gaps.  (The former guard gaps_guard had two more conjuncts: the look-up helper
   misses no gene overlapping an area part - class FC15a area_misses_enclosing_gene, repaired: cds_within tests every
   gene, Proofs.cds_within_complete - and no gene reaches into both parts of an origin-spanning area - class FC15b
   origin_gene_padding_window, repaired: within_overlap tests every ORF of such an area against every gene overlapping
   the area.)
   gaps_class is kept as a COVERAGE class only (never a reason to suppress anything): 2 = some gene reaches into both
   parts of an origin-spanning area (the inputs of the former class FC15b), 0 otherwise *)
Definition gaps_class (cds : list loc) (area : option loc) : Z :=
  match area with
  | Some [p1; p2] => if no_gene_in_both cds p1 p2 then 0 else 2
  | _ => 0
  end.

(* the IUPAC DNA letters, both cases: A C G T and the ambiguity codes M R W S Y K V H D B N *)
Definition iupacb (c : Z) : bool :=
  existsb (Z.eqb c) [65; 67; 71; 84; 77; 82; 87; 83; 89; 75; 86; 72; 68; 66; 78;
                     97; 99; 103; 116; 109; 114; 119; 115; 121; 107; 118; 104; 100; 98; 110].
(* the protein of an ORF text: its codons without the final stop codon translated one by one, first residue M *)
Definition orf_protein (text : list Z) : list Z :=
  match translate false (firstn (length text - 3) text) with [] => [] | _ :: r => 77 :: r end.

Definition feature_ok (g : list Z) (cds : list loc) (area : option loc) (max_overlap : Z) (f : feature) : bool :=
  forallb (fun c => shared (floc f) c <=? max_overlap) cds &&
  forallb (in_searched (zlen g) area) (positions (floc f)) &&
  zl_eqb (ftrans f) (orf_protein (extract g (floc f))).
(* [spec_ok; hypotheses of C15_gaps / C15_translation (well-formed, genome of IUPAC letters); coverage class; well-formed] *)
Definition spec_gaps (g : list Z) (cds : list loc) (area : option loc) (min_length max_overlap : Z)
                     (out : list feature) : list Z :=
  [b2z (forallb (feature_ok g cds area max_overlap) out);
   b2z (gaps_wf (zlen g) cds area min_length max_overlap && forallb iupacb g);
   gaps_class cds area; b2z (gaps_wf (zlen g) cds area min_length max_overlap)].

(* ---------- encoding ---------- *)
Definition dGene : dec (Z * Z) := dPair dZ dZ.
Definition dScan := dPair (dPair (dList dZ) (dPair dZ dZ)) (dPair dZ (dOpt dZ)).
Definition eFeature (f : feature) : list Z := eLoc (floc f) ++ eList (fun c => [c]) (flabel f) ++ eList (fun c => [c]) (ftrans f).
Definition dFeature : dec feature := fun l =>
  match dPair dLoc (dPair (dList dZ) (dList dZ)) l with
  | Some ((lo, (la, tr)), r) => Some (mkFeature lo la tr, r)
  | None => None
  end.
Definition run_C15 (fn : Z) (l : list Z) : list Z :=
  match fn with
  | 1 => match dScan l with
         | Some ((sequ, (direction, offset), (minimum, rl)), []) =>
           eList eLoc (scan_orfs sequ direction offset minimum rl)
         | _ => bad_input end
  | 2 => match dPair (dPair dZ dZ) (dPair (dList dGene) (dPair dZ dZ)) l with
         | Some ((s, e, (genes, (ml, pad))), []) =>
           eList (fun a => [fst a; snd a]) (find_intergenic_areas s e genes ml pad)
         | _ => bad_input end
  | 3 => match dPair (dPair (dList dZ) (dList dLoc)) (dPair (dOpt dLoc) (dPair dZ dZ)) l with
         | Some ((g, cds, (area, (ml, ov))), []) =>
           eRes (eList eFeature) (find_all_orfs g cds area ml ov)
         | _ => bad_input end
  | 4 => match dPair (dPair (dList dZ) dLoc) (dPair (dPair (dOpt dZ) (dOpt dZ)) dZ) l with
         | Some ((g, lo, ((include, max_length), ml)), []) =>
           eRes (eOpt eFeature) (get_trimmed_orf g lo include max_length ml)
         | _ => bad_input end
  | 12 => match dPair (dPair (dPair (dList dZ) (dList dLoc)) (dPair (dOpt dLoc) (dPair dZ dZ))) (dList dFeature) l with
          | Some (((g, cds, (area, (ml, ov))), out), []) => spec_gaps g cds area ml ov out
          | _ => bad_input end
  | 13 => match dPair (dList dZ) (dPair dScan (dList dLoc)) l with
          | Some ((g, ((sequ, (direction, offset), (minimum, Some n)), out)), []) =>
            if n =? zlen g then spec_scan_ring g sequ direction offset minimum out else bad_input
          | _ => bad_input end
  | 11 => match dPair dScan (dList dLoc) l with
          | Some (((sequ, (direction, offset), (minimum, rl)), out), []) =>
            spec_scan sequ direction offset minimum rl out
          | _ => bad_input end
  | _ => bad_input
  end.
