(* C15: model of antismash/common/all_orfs.py: scan_orfs and find_intergenic_areas.
   DNA is a list of character codes; the codon tables come from Gen/Tables_gen.v. *)
From ASV Require Export Base Loc.
From ASV.Gen Require Import Tables_gen.

Inductive kind := KStart | KStop | KOther.

Definition upper (c : Z) : Z := if (97 <=? c) && (c <=? 122) then c - 32 else c.

Fixpoint zl_eqb (a b : list Z) : bool :=
  match a, b with
  | [], [] => true
  | x :: xs, y :: ys => (x =? y) && zl_eqb xs ys
  | _, _ => false
  end.
Definition codon_in (codon : list Z) (table : list (list Z)) : bool := existsb (zl_eqb codon) table.

(* the order of the tests in the loop: a codon is first tried as a start (only relevant when no
   start is pending), then as a stop; the tables are disjoint (checked on the generated tables) *)
Definition classify (a b c : Z) : kind :=
  if codon_in [a; b; c] c15_start_codons then KStart
  else if codon_in [a; b; c] c15_stop_codons then KStop else KOther.

(* the codons of one frame, classified *)
Fixpoint kinds (l : list Z) : list kind :=
  match l with
  | a :: b :: c :: rest => classify a b c :: kinds rest
  | _ => []
  end.

(* the scanning loop on codon kinds; [k] is the index of the head codon; emits (start, stop) codon
   indexes in the order found *)
Fixpoint scan_kinds (ks : list kind) (k : nat) (start : option nat) : list (nat * nat) :=
  match ks with
  | [] => []
  | KStart :: rest =>
    match start with
    | None => scan_kinds rest (S k) (Some k)
    | Some _ => scan_kinds rest (S k) start
    end
  | KStop :: rest =>
    match start with
    | None => scan_kinds rest (S k) None
    | Some s => (s, k) :: scan_kinds rest (S k) None
    end
  | KOther :: rest => scan_kinds rest (S k) start
  end.

(* one ORF in window coordinates: start = first base of the start codon, end_ = last base of the stop *)
Definition orf_coords (frame : Z) (se : nat * nat) : Z * Z :=
  (frame + 3 * Z.of_nat (fst se), frame + 3 * Z.of_nat (snd se) + 2).

Definition orf_location (direction offset seq_len : Z) (record_length : option Z) (c : Z * Z) : loc :=
  let '(start, end_) := c in
  let loc_start := if direction =? 1 then start + offset else seq_len + offset - end_ - 1 in
  let loc_end := if direction =? 1 then end_ + offset + 1 else seq_len + offset - start in
  match record_length with
  | None => [mkPart loc_start loc_end direction]
  | Some n =>
    let ls := (loc_start + n) mod n in
    let le := ((loc_end - 1 + n) mod n) + 1 in
    if le <=? ls then
      (if direction =? -1 then [mkPart 0 le direction; mkPart ls n direction]
       else [mkPart ls n direction; mkPart 0 le direction])
    else [mkPart ls le direction]
  end.

Definition frame_orfs (sequ : list Z) (frame : nat) (minimum : Z) : list (Z * Z) :=
  filter (fun c => negb (snd c - fst c <? minimum))
         (map (orf_coords (Z.of_nat frame)) (scan_kinds (kinds (skipn frame sequ)) 0 None)).

Definition loc_key (l : loc) : Z := Z.min (lstart l) (lend l).

Definition scan_orfs (sequ : list Z) (direction offset minimum : Z) (record_length : option Z) : list loc :=
  let sequ := map upper sequ in
  let n := zlen sequ in
  let matches := flat_map (fun frame =>
                   map (orf_location direction offset n record_length) (frame_orfs sequ frame minimum))
                 [0%nat; 1%nat; 2%nat] in
  sort_by (fun a b => loc_key a <? loc_key b) matches.

(* ---------- find_intergenic_areas ---------- *)
(* genes as (start, end) *)
Fixpoint intergenic_go (start end_ padding : Z) (genes : list (Z * Z)) (last : Z) (acc : list (Z * Z))
  : list (Z * Z) * Z :=
  match genes with
  | [] => (acc, last)
  | (gs, ge) :: rest =>
    if last <? gs + padding then
      intergenic_go start end_ padding rest (Z.max last (ge - padding))
                    (acc ++ [(Z.max start last, Z.min end_ (gs + padding))])
    else if (gs <=? last) && (last <=? ge) then
      intergenic_go start end_ padding rest (Z.max last (ge - padding)) acc
    else intergenic_go start end_ padding rest last acc
  end.

Definition find_intergenic_areas (start end_ : Z) (genes : list (Z * Z)) (min_length padding : Z)
  : list (Z * Z) :=
  let '(areas, last) := intergenic_go start end_ padding genes start [] in
  let areas := if last <? end_ then areas ++ [(Z.max start last, end_)] else areas in
  filter (fun a => min_length <=? snd a - fst a) areas.

(* ---------- encoding ---------- *)
Definition dGene : dec (Z * Z) := dPair dZ dZ.
Definition run_C15 (fn : Z) (l : list Z) : list Z :=
  match fn with
  | 1 => match dPair (dPair (dList dZ) (dPair dZ dZ)) (dPair dZ (dOpt dZ)) l with
         | Some ((sequ, (direction, offset), (minimum, rl)), []) =>
           eList eLoc (scan_orfs sequ direction offset minimum rl)
         | _ => bad_input end
  | 2 => match dPair (dPair dZ dZ) (dPair (dList dGene) (dPair dZ dZ)) l with
         | Some ((s, e, (genes, (ml, pad))), []) =>
           eList (fun a => [fst a; snd a]) (find_intergenic_areas s e genes ml pad)
         | _ => bad_input end
  | _ => bad_input
  end.
