(* C15 - property theorems only: statement, [exact lemma], Print Assumptions; Examples show the
   hypotheses are satisfiable (non-vacuity). *)
From ASV.C15 Require Import Model Proofs.

(* The scanning loop reports exactly the open reading frames of a frame, for every sequence of
   codons: (s, e) is reported iff s is a start codon, e is a stop codon after it, there is no stop
   codon strictly between them (e is the NEXT stop), and every start codon before s is followed by
   a stop codon before s (s is the FIRST start after the previous stop). *)
Theorem C15_scan_sound_complete_kinds : forall ks s e,
  In (s, e) (scan_kinds ks 0 None) <-> is_orf ks s e.
Proof. exact scan_sound_complete. Qed.
Print Assumptions C15_scan_sound_complete_kinds.

(* no ORF is reported twice *)
Theorem C15_scan_no_duplicates : forall ks, NoDup (scan_kinds ks 0 None).
Proof. intros ks. apply scan_NoDup. exact I. Qed.
Print Assumptions C15_scan_no_duplicates.

(* With the length filter, for every DNA string, frame and minimum: the ORFs of a frame that are
   kept are exactly those with (last base - first base) >= minimum, i.e. length > minimum.  The
   property text says "at least the minimum length"; the code (and so this faithful model) drops an
   ORF of EXACTLY the minimum length: that is the recorded finding orf_exact_minimum, refuted below. *)
Theorem C15_scan_sound_complete_partial : forall sequ frame minimum c,
  In c (frame_orfs sequ frame minimum) <->
  exists s e, is_orf (kinds (skipn frame sequ)) s e /\ c = orf_coords (Z.of_nat frame) (s, e) /\
              minimum <= snd c - fst c.
Proof. exact frame_orfs_spec. Qed.
Print Assumptions C15_scan_sound_complete_partial.

(* the full statement is false of the model (and of the code): ATG GCA TAA is an ORF of 9
   nucleotides, and with minimum 9 nothing is reported *)
Theorem C15_exact_minimum_refuted : exists sequ minimum,
  is_orf (kinds sequ) 0 2 /\ minimum = 9 /\ frame_orfs sequ 0 minimum = [] /\
  frame_orfs sequ 0 (minimum - 1) = [(0, 8)].
Proof.
  exists [65; 84; 71; 71; 67; 65; 84; 65; 65], 9.
  split; [|split; [reflexivity|split; vm_compute; reflexivity]].
  apply scan_sound_complete. vm_compute. left. reflexivity.
Qed.
Print Assumptions C15_exact_minimum_refuted.

(* coordinates on a linear record *)
Theorem C15_coordinates_linear : forall offset n s e,
  orf_location 1 offset n None (s, e) = [mkPart (s + offset) (e + offset + 1) 1] /\
  orf_location (-1) offset n None (s, e) = [mkPart (n + offset - e - 1) (n + offset - s) (-1)].
Proof. intros. split; reflexivity. Qed.
Print Assumptions C15_coordinates_linear.

(* coordinates on a ring, for every offset (also negative), record length and strand: parts inside
   the record, non-empty, same strand, at most two with the break at the origin (reverse strand:
   low part first = transcription order), total length = the ORF's length *)
Theorem C15_coordinates_ring : forall direction offset n N s e,
  (direction = 1 \/ direction = -1) -> 0 < N -> 0 <= s -> s < e -> e - s + 1 <= N ->
  let l := orf_location direction offset n (Some N) (s, e) in
  loc_len l = e - s + 1 /\
  Forall (fun p => 0 <= ps p /\ ps p < pe p /\ pe p <= N /\ pst p = direction) l /\
  (exists a b, l = [mkPart a b direction] \/
     (direction = 1 /\ l = [mkPart a N 1; mkPart 0 b 1]) \/
     (direction = -1 /\ l = [mkPart 0 b (-1); mkPart a N (-1)])).
Proof. exact orf_location_ring. Qed.
Print Assumptions C15_coordinates_ring.

Example C15_coordinates_ring_nonvacuous :
  orf_location (-1) (-3) 9 (Some 9) (0, 8) = [mkPart 0 6 (-1); mkPart 6 9 (-1)].
Proof. vm_compute. reflexivity. Qed.

(* C15_coordinates in its extraction form, on a circular record.  [extract] is location.extract: the
   parts in the order given, each reverse-complemented on its own on strand -1.  For EVERY genome,
   every window of it - also one starting before the origin (off < 0: genome[N+off:] ++ genome[:end]) -
   both strands and every stretch [s, e] of the scanned text not longer than the record, the location
   that scan_orfs computes for (s, e) extracts from the genome to exactly text[s .. e]. *)
Theorem C15_coordinates_extract_ring : forall g off end_ direction s e,
  window_ok (zlen g) off end_ -> (direction = 1 \/ direction = -1) ->
  0 <= s -> s <= e -> e < end_ - off -> e - s + 1 <= zlen g ->
  extract g (orf_location direction off (zlen (window g off end_ direction)) (Some (zlen g)) (s, e)) =
  slice (window g off end_ direction) s (e + 1).
Proof. exact extract_orf_ring. Qed.
Print Assumptions C15_coordinates_extract_ring.

(* the same without a record length (linear record): window = genome[off:end] *)
Theorem C15_coordinates_extract_line : forall g off end_ direction s e,
  0 <= off -> off <= end_ -> end_ <= zlen g -> (direction = 1 \/ direction = -1) ->
  0 <= s -> s <= e -> e < end_ - off ->
  extract g (orf_location direction off (zlen (window g off end_ direction)) None (s, e)) =
  slice (window g off end_ direction) s (e + 1).
Proof. exact extract_orf_line. Qed.
Print Assumptions C15_coordinates_extract_line.

(* tied to scan_orfs itself: every location RETURNED by scan_orfs for a window (not longer than the
   record) of a circular genome comes from an ORF [a, b] of one of the three frames of the
   upper-cased text, and extracts from the genome to the text from a to b: "the reported coordinates
   extract from the record, on the reported strand, to precisely that ORF" *)
Theorem C15_coordinates : forall g off end_ direction minimum l,
  window_ok (zlen g) off end_ -> end_ - off <= zlen g -> (direction = 1 \/ direction = -1) ->
  In l (scan_orfs (window g off end_ direction) direction off minimum (Some (zlen g))) ->
  exists frame a b, (frame <= 2)%nat /\
    In (a, b) (frame_orfs (map upper (window g off end_ direction)) frame minimum) /\
    0 <= a /\ a <= b /\ b < end_ - off /\
    l = orf_location direction off (end_ - off) (Some (zlen g)) (a, b) /\
    extract g l = slice (window g off end_ direction) a (b + 1).
Proof. exact scan_orfs_extract_ring. Qed.
Print Assumptions C15_coordinates.

Theorem C15_coordinates_line : forall g off end_ direction minimum l,
  0 <= off -> off <= end_ -> end_ <= zlen g -> (direction = 1 \/ direction = -1) ->
  In l (scan_orfs (window g off end_ direction) direction off minimum None) ->
  exists frame a b, (frame <= 2)%nat /\
    In (a, b) (frame_orfs (map upper (window g off end_ direction)) frame minimum) /\
    0 <= a /\ a <= b /\ b < end_ - off /\
    extract g l = slice (window g off end_ direction) a (b + 1).
Proof. exact scan_orfs_extract_line. Qed.
Print Assumptions C15_coordinates_line.

(* non-vacuity: genome AGATAAGTG (9 nt), window starting 3 before the origin, reverse strand: the
   window text is the reverse complement of GTG AGA TAA, ... ; forward strand: GTGAGATAA is an ORF as long
   as the record, reported in two parts and extracted back to itself *)
Example C15_coordinates_nonvacuous :
  let g := [65; 71; 65; 84; 65; 65; 71; 84; 71] in
  window_ok (zlen g) (-3) 6 /\
  scan_orfs (window g (-3) 6 1) 1 (-3) 3 (Some (zlen g)) = [[mkPart 6 9 1; mkPart 0 6 1]] /\
  extract g [mkPart 6 9 1; mkPart 0 6 1] = [71; 84; 71; 65; 71; 65; 84; 65; 65].
Proof. cbn zeta. split; [right; cbn; lia|]. split; vm_compute; reflexivity. Qed.

(* the decidable specification that the check evaluates on EVERY implementation output
   (Model.is_orf_b / orfs_spec, bounded quantifiers, no reference to the scanning loop) is the
   position-only statement is_orf, and enumerates the same ORFs as the model's loop *)
Theorem C15_spec_decides_is_orf : forall ks s e, is_orf_b ks s e = true <-> is_orf ks s e.
Proof. exact is_orf_b_spec. Qed.
Print Assumptions C15_spec_decides_is_orf.

Theorem C15_spec_enumerates_orfs : forall ks s e, In (s, e) (orfs_spec ks) <-> In (s, e) (scan_kinds ks 0 None).
Proof. intros. symmetry. apply scan_kinds_orfs_spec. Qed.
Print Assumptions C15_spec_enumerates_orfs.

(* the result of scan_orfs is ordered by position *)
Theorem C15_sorted : forall sequ direction offset minimum rl,
  sorted_key loc_key (scan_orfs sequ direction offset minimum rl).
Proof. exact scan_orfs_sorted. Qed.
Print Assumptions C15_sorted.

(* intergenic areas: for every list of genes ordered by start (nested and staggered genes
   included) every reported area lies inside the searched range, has at least the minimum length
   and overlaps no gene by more than the padding *)
Theorem C15_intergenic_sound : forall start end_ genes min_length padding,
  0 <= padding -> starts_sorted genes ->
  Forall (fun a => start <= fst a /\ snd a <= end_ /\ min_length <= snd a - fst a /\
                   Forall (fun g => overlap_len a g <= padding) genes)
         (find_intergenic_areas start end_ genes min_length padding).
Proof. exact find_intergenic_sound. Qed.
Print Assumptions C15_intergenic_sound.

Example C15_intergenic_nonvacuous :
  starts_sorted [(0, 110); (50, 105); (200, 300)] /\
  find_intergenic_areas 0 400 [(0, 110); (50, 105); (200, 300)] 20 10 = [(100, 210); (290, 400)].
Proof.
  split; [|vm_compute; reflexivity].
  cbn [starts_sorted]. repeat split; repeat (constructor; [cbn [fst]; lia|]); constructor.
Qed.

(* completeness of the gap search.  A position is FREE when it is outside every gene shrunk by the
   padding on both sides.  For EVERY gene list (no order needed): every free position of [start, end)
   lies in one of the areas computed before the length filter, and that area is reported whenever it has
   the minimum length. *)
Theorem C15_intergenic_complete : forall start end_ genes min_length padding x,
  start <= x < end_ -> free padding genes x ->
  exists a, In a (raw_areas start end_ genes padding) /\ fst a <= x < snd a /\
            (min_length <= snd a - fst a -> In a (find_intergenic_areas start end_ genes min_length padding)).
Proof. exact find_intergenic_complete. Qed.
Print Assumptions C15_intergenic_complete.

(* conversely, for genes ordered by start every area consists of free positions of [start, end) only, so
   the areas together are exactly the free positions: the gaps between the (padded) genes *)
Theorem C15_intergenic_areas_are_gaps : forall start end_ genes padding a x,
  0 <= padding -> starts_sorted genes -> In a (raw_areas start end_ genes padding) -> fst a <= x < snd a ->
  start <= x < end_ /\ free padding genes x.
Proof. exact raw_areas_free. Qed.
Print Assumptions C15_intergenic_areas_are_gaps.

Theorem C15_intergenic_filter : forall start end_ genes min_length padding a,
  In a (find_intergenic_areas start end_ genes min_length padding) <->
  In a (raw_areas start end_ genes padding) /\ min_length <= snd a - fst a.
Proof. exact find_intergenic_raw. Qed.
Print Assumptions C15_intergenic_filter.

Example C15_intergenic_complete_nonvacuous :
  free 10 [(0, 110); (50, 105); (200, 300)] 150 /\
  raw_areas 0 400 [(0, 110); (50, 105); (200, 300)] 10 = [(0, 10); (100, 210); (290, 400)].
Proof.
  split; [|vm_compute; reflexivity].
  unfold free. constructor; [cbn; lia|]. constructor; [cbn; lia|]. constructor; [cbn; lia|]. constructor.
Qed.
