(* C15 - property theorems only: statement, [exact lemma], Print Assumptions; Examples show the
   hypotheses are satisfiable (non-vacuity). *)
From ASV.C15 Require Import Model Proofs.

(* The scanning loop reports exactly the open reading frames of a frame, for every sequence of
   codons: (s, e) is reported iff s is a start codon, e is a stop codon after it, there is no stop
   codon strictly between them (e is the NEXT stop), and every start codon before s is followed by
   a stop codon before s (s is the FIRST start after the previous stop). *)
Theorem C15_scan_sound_complete_kinds : forall ks s e,
  In (s, e) (scan_kinds ks 0 None) <-> is_orf ks s e.
Proof. exact scan_sound_complete. Qed.
Print Assumptions C15_scan_sound_complete_kinds.

(* no ORF is reported twice *)
Theorem C15_scan_no_duplicates : forall ks, NoDup (scan_kinds ks 0 None).
Proof. intros ks. apply scan_NoDup. exact I. Qed.
Print Assumptions C15_scan_no_duplicates.

(* With the length filter, for every DNA string, frame and minimum: the ORFs of a frame that are
   kept are exactly those with (last base - first base) >= minimum, i.e. length > minimum.  The
   property text says "at least the minimum length"; the code (and so this faithful model) drops an
   ORF of EXACTLY the minimum length: that is the recorded finding orf_exact_minimum, refuted below. *)
Theorem C15_scan_sound_complete_partial : forall sequ frame minimum c,
  In c (frame_orfs sequ frame minimum) <->
  exists s e, is_orf (kinds (skipn frame sequ)) s e /\ c = orf_coords (Z.of_nat frame) (s, e) /\
              minimum <= snd c - fst c.
Proof. exact frame_orfs_spec. Qed.
Print Assumptions C15_scan_sound_complete_partial.

(* the full statement is false of the model (and of the code): ATG GCA TAA is an ORF of 9
   nucleotides, and with minimum 9 nothing is reported *)
Theorem C15_exact_minimum_refuted : exists sequ minimum,
  is_orf (kinds sequ) 0 2 /\ minimum = 9 /\ frame_orfs sequ 0 minimum = [] /\
  frame_orfs sequ 0 (minimum - 1) = [(0, 8)].
Proof.
  exists [65; 84; 71; 71; 67; 65; 84; 65; 65], 9.
  split; [|split; [reflexivity|split; vm_compute; reflexivity]].
  apply scan_sound_complete. vm_compute. left. reflexivity.
Qed.
Print Assumptions C15_exact_minimum_refuted.

(* coordinates on a linear record *)
Theorem C15_coordinates_linear : forall offset n s e,
  orf_location 1 offset n None (s, e) = [mkPart (s + offset) (e + offset + 1) 1] /\
  orf_location (-1) offset n None (s, e) = [mkPart (n + offset - e - 1) (n + offset - s) (-1)].
Proof. intros. split; reflexivity. Qed.
Print Assumptions C15_coordinates_linear.

(* coordinates on a ring, for every offset (also negative), record length and strand: parts inside
   the record, non-empty, same strand, at most two with the break at the origin (reverse strand:
   low part first = transcription order), total length = the ORF's length *)
Theorem C15_coordinates_ring : forall direction offset n N s e,
  (direction = 1 \/ direction = -1) -> 0 < N -> 0 <= s -> s < e -> e - s + 1 <= N ->
  let l := orf_location direction offset n (Some N) (s, e) in
  loc_len l = e - s + 1 /\
  Forall (fun p => 0 <= ps p /\ ps p < pe p /\ pe p <= N /\ pst p = direction) l /\
  (exists a b, l = [mkPart a b direction] \/
     (direction = 1 /\ l = [mkPart a N 1; mkPart 0 b 1]) \/
     (direction = -1 /\ l = [mkPart 0 b (-1); mkPart a N (-1)])).
Proof. exact orf_location_ring. Qed.
Print Assumptions C15_coordinates_ring.

Example C15_coordinates_ring_nonvacuous :
  orf_location (-1) (-3) 9 (Some 9) (0, 8) = [mkPart 0 6 (-1); mkPart 6 9 (-1)].
Proof. vm_compute. reflexivity. Qed.

(* the result of scan_orfs is ordered by position *)
Theorem C15_sorted : forall sequ direction offset minimum rl,
  sorted_key loc_key (scan_orfs sequ direction offset minimum rl).
Proof. exact scan_orfs_sorted. Qed.
Print Assumptions C15_sorted.

(* intergenic areas: for every list of genes ordered by start (nested and staggered genes
   included) every reported area lies inside the searched range, has at least the minimum length
   and overlaps no gene by more than the padding *)
Theorem C15_intergenic_sound : forall start end_ genes min_length padding,
  0 <= padding -> starts_sorted genes ->
  Forall (fun a => start <= fst a /\ snd a <= end_ /\ min_length <= snd a - fst a /\
                   Forall (fun g => overlap_len a g <= padding) genes)
         (find_intergenic_areas start end_ genes min_length padding).
Proof. exact find_intergenic_sound. Qed.
Print Assumptions C15_intergenic_sound.

Example C15_intergenic_nonvacuous :
  starts_sorted [(0, 110); (50, 105); (200, 300)] /\
  find_intergenic_areas 0 400 [(0, 110); (50, 105); (200, 300)] 20 10 = [(100, 210); (290, 400)].
Proof.
  split; [|vm_compute; reflexivity].
  cbn [starts_sorted]. repeat split; repeat (constructor; [cbn [fst]; lia|]); constructor.
Qed.
