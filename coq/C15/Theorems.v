(* C15 - property theorems only: statement, [exact lemma], Print Assumptions; Examples show the
   hypotheses are satisfiable (non-vacuity). *)
From ASV.C15 Require Import Model Proofs.

(* The scanning loop reports exactly the open reading frames of a frame, for every sequence of
   codons: (s, e) is reported iff s is a start codon, e is a stop codon after it, there is no stop
   codon strictly between them (e is the NEXT stop), and every start codon before s is followed by
   a stop codon before s (s is the FIRST start after the previous stop). *)
Theorem C15_scan_sound_complete_kinds : forall ks s e,
  In (s, e) (scan_kinds ks 0 None) <-> is_orf ks s e.
Proof. exact scan_sound_complete. Qed.
Print Assumptions C15_scan_sound_complete_kinds.

(* no ORF is reported twice *)
Theorem C15_scan_no_duplicates : forall ks, NoDup (scan_kinds ks 0 None).
Proof. intros ks. apply scan_NoDup. exact I. Qed.
Print Assumptions C15_scan_no_duplicates.

(* With the length filter, for every DNA string, frame and minimum: the ORFs of a frame that are
   kept are exactly those with (last base - first base) >= minimum, i.e. length > minimum.  The
   property text says "at least the minimum length"; the code (and so this faithful model) drops an
   ORF of EXACTLY the minimum length: that is the recorded finding orf_exact_minimum, refuted below. *)
Theorem C15_scan_sound_complete_partial : forall sequ frame minimum c,
  In c (frame_orfs sequ frame minimum) <->
  exists s e, is_orf (kinds (skipn frame sequ)) s e /\ c = orf_coords (Z.of_nat frame) (s, e) /\
              minimum <= snd c - fst c.
Proof. exact frame_orfs_spec. Qed.
Print Assumptions C15_scan_sound_complete_partial.

(* the full statement is false of the model (and of the code): ATG GCA TAA is an ORF of 9
   nucleotides, and with minimum 9 nothing is reported *)
Theorem C15_exact_minimum_refuted : exists sequ minimum,
  is_orf (kinds sequ) 0 2 /\ minimum = 9 /\ frame_orfs sequ 0 minimum = [] /\
  frame_orfs sequ 0 (minimum - 1) = [(0, 8)].
Proof.
  exists [65; 84; 71; 71; 67; 65; 84; 65; 65], 9.
  split; [|split; [reflexivity|split; vm_compute; reflexivity]].
  apply scan_sound_complete. vm_compute. left. reflexivity.
Qed.
Print Assumptions C15_exact_minimum_refuted.

(* coordinates on a linear record *)
Theorem C15_coordinates_linear : forall offset n s e,
  orf_location 1 offset n None (s, e) = [mkPart (s + offset) (e + offset + 1) 1] /\
  orf_location (-1) offset n None (s, e) = [mkPart (n + offset - e - 1) (n + offset - s) (-1)].
Proof. intros. split; reflexivity. Qed.
Print Assumptions C15_coordinates_linear.

(* coordinates on a ring, for every offset (also negative), record length and strand: parts inside
   the record, non-empty, same strand, at most two with the break at the origin (reverse strand:
   low part first = transcription order), total length = the ORF's length *)
Theorem C15_coordinates_ring : forall direction offset n N s e,
  (direction = 1 \/ direction = -1) -> 0 < N -> 0 <= s -> s < e -> e - s + 1 <= N ->
  let l := orf_location direction offset n (Some N) (s, e) in
  loc_len l = e - s + 1 /\
  Forall (fun p => 0 <= ps p /\ ps p < pe p /\ pe p <= N /\ pst p = direction) l /\
  (exists a b, l = [mkPart a b direction] \/
     (direction = 1 /\ l = [mkPart a N 1; mkPart 0 b 1]) \/
     (direction = -1 /\ l = [mkPart 0 b (-1); mkPart a N (-1)])).
Proof. exact orf_location_ring. Qed.
Print Assumptions C15_coordinates_ring.

Example C15_coordinates_ring_nonvacuous :
  orf_location (-1) (-3) 9 (Some 9) (0, 8) = [mkPart 0 6 (-1); mkPart 6 9 (-1)].
Proof. vm_compute. reflexivity. Qed.

(* C15_coordinates in its extraction form, on a circular record.  [extract] is location.extract: the
   parts in the order given, each reverse-complemented on its own on strand -1.  For EVERY genome,
   every window of it - also one starting before the origin (off < 0: genome[N+off:] ++ genome[:end]) -
   both strands and every stretch [s, e] of the scanned text not longer than the record, the location
   that scan_orfs computes for (s, e) extracts from the genome to exactly text[s .. e]. *)
Theorem C15_coordinates_extract_ring : forall g off end_ direction s e,
  window_ok (zlen g) off end_ -> (direction = 1 \/ direction = -1) ->
  0 <= s -> s <= e -> e < end_ - off -> e - s + 1 <= zlen g ->
  extract g (orf_location direction off (zlen (window g off end_ direction)) (Some (zlen g)) (s, e)) =
  slice (window g off end_ direction) s (e + 1).
Proof. exact extract_orf_ring. Qed.
Print Assumptions C15_coordinates_extract_ring.

(* the same without a record length (linear record): window = genome[off:end] *)
Theorem C15_coordinates_extract_line : forall g off end_ direction s e,
  0 <= off -> off <= end_ -> end_ <= zlen g -> (direction = 1 \/ direction = -1) ->
  0 <= s -> s <= e -> e < end_ - off ->
  extract g (orf_location direction off (zlen (window g off end_ direction)) None (s, e)) =
  slice (window g off end_ direction) s (e + 1).
Proof. exact extract_orf_line. Qed.
Print Assumptions C15_coordinates_extract_line.

(* tied to scan_orfs itself: every location RETURNED by scan_orfs for a window (not longer than the
   record) of a circular genome comes from an ORF [a, b] of one of the three frames of the
   upper-cased text, and extracts from the genome to the text from a to b: "the reported coordinates
   extract from the record, on the reported strand, to precisely that ORF" *)
Theorem C15_coordinates : forall g off end_ direction minimum l,
  window_ok (zlen g) off end_ -> end_ - off <= zlen g -> (direction = 1 \/ direction = -1) ->
  In l (scan_orfs (window g off end_ direction) direction off minimum (Some (zlen g))) ->
  exists frame a b, (frame <= 2)%nat /\
    In (a, b) (frame_orfs (map upper (window g off end_ direction)) frame minimum) /\
    0 <= a /\ a <= b /\ b < end_ - off /\
    l = orf_location direction off (end_ - off) (Some (zlen g)) (a, b) /\
    extract g l = slice (window g off end_ direction) a (b + 1).
Proof. exact scan_orfs_extract_ring. Qed.
Print Assumptions C15_coordinates.

Theorem C15_coordinates_line : forall g off end_ direction minimum l,
  0 <= off -> off <= end_ -> end_ <= zlen g -> (direction = 1 \/ direction = -1) ->
  In l (scan_orfs (window g off end_ direction) direction off minimum None) ->
  exists frame a b, (frame <= 2)%nat /\
    In (a, b) (frame_orfs (map upper (window g off end_ direction)) frame minimum) /\
    0 <= a /\ a <= b /\ b < end_ - off /\
    extract g l = slice (window g off end_ direction) a (b + 1).
Proof. exact scan_orfs_extract_line. Qed.
Print Assumptions C15_coordinates_line.

(* non-vacuity: genome AGATAAGTG (9 nt), window starting 3 before the origin, reverse strand: the
   window text is the reverse complement of GTG AGA TAA, ... ; forward strand: GTGAGATAA is an ORF as long
   as the record, reported in two parts and extracted back to itself *)
Example C15_coordinates_nonvacuous :
  let g := [65; 71; 65; 84; 65; 65; 71; 84; 71] in
  window_ok (zlen g) (-3) 6 /\
  scan_orfs (window g (-3) 6 1) 1 (-3) 3 (Some (zlen g)) = [[mkPart 6 9 1; mkPart 0 6 1]] /\
  extract g [mkPart 6 9 1; mkPart 0 6 1] = [71; 84; 71; 65; 71; 65; 84; 65; 65].
Proof. cbn zeta. split; [right; cbn; lia|]. split; vm_compute; reflexivity. Qed.

(* the decidable specification that the check evaluates on EVERY implementation output
   (Model.is_orf_b / orfs_spec, bounded quantifiers, no reference to the scanning loop) is the
   position-only statement is_orf, and enumerates the same ORFs as the model's loop *)
Theorem C15_spec_decides_is_orf : forall ks s e, is_orf_b ks s e = true <-> is_orf ks s e.
Proof. exact is_orf_b_spec. Qed.
Print Assumptions C15_spec_decides_is_orf.

Theorem C15_spec_enumerates_orfs : forall ks s e, In (s, e) (orfs_spec ks) <-> In (s, e) (scan_kinds ks 0 None).
Proof. intros. symmetry. apply scan_kinds_orfs_spec. Qed.
Print Assumptions C15_spec_enumerates_orfs.

(* the result of scan_orfs is ordered by position *)
Theorem C15_sorted : forall sequ direction offset minimum rl,
  sorted_key loc_key (scan_orfs sequ direction offset minimum rl).
Proof. exact scan_orfs_sorted. Qed.
Print Assumptions C15_sorted.

(* intergenic areas: for every list of genes ordered by start (nested and staggered genes
   included) every reported area lies inside the searched range, has at least the minimum length
   and overlaps no gene by more than the padding *)
Theorem C15_intergenic_sound : forall start end_ genes min_length padding,
  0 <= padding -> starts_sorted genes ->
  Forall (fun a => start <= fst a /\ snd a <= end_ /\ min_length <= snd a - fst a /\
                   Forall (fun g => overlap_len a g <= padding) genes)
         (find_intergenic_areas start end_ genes min_length padding).
Proof. exact find_intergenic_sound. Qed.
Print Assumptions C15_intergenic_sound.

Example C15_intergenic_nonvacuous :
  starts_sorted [(0, 110); (50, 105); (200, 300)] /\
  find_intergenic_areas 0 400 [(0, 110); (50, 105); (200, 300)] 20 10 = [(100, 210); (290, 400)].
Proof.
  split; [|vm_compute; reflexivity].
  cbn [starts_sorted]. repeat split; repeat (constructor; [cbn [fst]; lia|]); constructor.
Qed.

(* completeness of the gap search.  A position is FREE when it is outside every gene shrunk by the
   padding on both sides.  For EVERY gene list (no order needed): every free position of [start, end)
   lies in one of the areas computed before the length filter, and that area is reported whenever it has
   the minimum length. *)
Theorem C15_intergenic_complete : forall start end_ genes min_length padding x,
  start <= x < end_ -> free padding genes x ->
  exists a, In a (raw_areas start end_ genes padding) /\ fst a <= x < snd a /\
            (min_length <= snd a - fst a -> In a (find_intergenic_areas start end_ genes min_length padding)).
Proof. exact find_intergenic_complete. Qed.
Print Assumptions C15_intergenic_complete.

(* conversely, for genes ordered by start every area consists of free positions of [start, end) only, so
   the areas together are exactly the free positions: the gaps between the (padded) genes *)
Theorem C15_intergenic_areas_are_gaps : forall start end_ genes padding a x,
  0 <= padding -> starts_sorted genes -> In a (raw_areas start end_ genes padding) -> fst a <= x < snd a ->
  start <= x < end_ /\ free padding genes x.
Proof. exact raw_areas_free. Qed.
Print Assumptions C15_intergenic_areas_are_gaps.

Theorem C15_intergenic_filter : forall start end_ genes min_length padding a,
  In a (find_intergenic_areas start end_ genes min_length padding) <->
  In a (raw_areas start end_ genes padding) /\ min_length <= snd a - fst a.
Proof. exact find_intergenic_raw. Qed.
Print Assumptions C15_intergenic_filter.

Example C15_intergenic_complete_nonvacuous :
  free 10 [(0, 110); (50, 105); (200, 300)] 150 /\
  raw_areas 0 400 [(0, 110); (50, 105); (200, 300)] 10 = [(0, 10); (100, 210); (290, 400)].
Proof.
  split; [|vm_compute; reflexivity].
  unfold free. constructor; [cbn; lia|]. constructor; [cbn; lia|]. constructor; [cbn; lia|]. constructor.
Qed.

(* ================================================================== second deepening pass *)

(* per-area maximality.  A position is BLOCKED when it lies inside some gene shrunk by the padding on both sides
   (blocked -> not free, Proofs.blocked_not_free).  For EVERY gene list whose genes are longer than twice the
   padding, every area (before the length filter) begins at the range start or just after a blocked position and
   ends at the range end or on a blocked position: it cannot be extended on either side. *)
Theorem C15_intergenic_maximal : forall start end_ genes padding a,
  long_genes padding genes -> In a (raw_areas start end_ genes padding) ->
  lclosed start padding genes (fst a) /\ rclosed end_ padding genes (snd a).
Proof. exact raw_areas_maximal. Qed.
Print Assumptions C15_intergenic_maximal.

(* C15_intergenic at full strength under that guard: for genes ordered by start and longer than twice the padding,
   the non-empty areas are EXACTLY the maximal free runs of the searched range (all positions free, not
   extendable); with C15_intergenic_filter: the reported areas are those of at least the minimum length *)
Theorem C15_intergenic : forall start end_ genes padding a b,
  0 <= padding -> starts_sorted genes -> long_genes padding genes -> a < b ->
  (In (a, b) (raw_areas start end_ genes padding) <-> free_run start end_ padding genes a b).
Proof. exact raw_areas_exact. Qed.
Print Assumptions C15_intergenic.

(* without the guard maximality is false - already for a gene of EXACTLY twice the padding (so the guard
   "at least 2*padding" is not enough, it must be "longer than"): gene [10,30), padding 10, range [0,100): the area
   (0,20) is reported although position 20 is free and inside the range *)
Theorem C15_intergenic_maximal_refuted : exists start end_ genes padding a,
  0 <= padding /\ starts_sorted genes /\ Forall (fun g => 2 * padding <= snd g - fst g) genes /\
  In a (raw_areas start end_ genes padding) /\ fst a < snd a /\ snd a < end_ /\ free padding genes (snd a).
Proof. exact raw_areas_maximal_refuted. Qed.
Print Assumptions C15_intergenic_maximal_refuted.

Example C15_intergenic_nonvacuous2 :
  long_genes 10 [(0, 110); (50, 105); (200, 300)] /\ free_run 0 400 10 [(0, 110); (50, 105); (200, 300)] 100 210.
Proof.
  split; [repeat (constructor; [cbn; lia|]); constructor|].
  apply raw_areas_exact; try lia.
  - cbn [starts_sorted]. repeat split; repeat (constructor; [cbn [fst]; lia|]); constructor.
  - repeat (constructor; [cbn; lia|]); constructor.
  - vm_compute. right. left. reflexivity.
Qed.

(* the record positions (in transcription order) of the location scan_orfs computes for a window stretch are the
   positions the stretch occupies on the ring: the comparison the run-time specification Model.loc_is_orf makes *)
Theorem C15_coordinates_positions : forall direction offset n N s e,
  (direction = 1 \/ direction = -1) -> 0 < N -> s <= e -> e - s + 1 <= N ->
  positions (orf_location direction offset n (Some N) (s, e)) =
  expected_positions direction offset n (Some N) (s, e).
Proof. exact positions_orf_location. Qed.
Print Assumptions C15_coordinates_positions.

(* every area find_all_orfs scans - whole record, one-part area, origin-spanning area incl. the window joined over
   the origin - is a window of the record not longer than it, lies inside the searched part and shares at most
   max_overlap positions with EVERY gene of the record that does not reach into both parts of an origin-spanning area
   (Model.in_both; for those genes the joined window may hold the allowance of both sides, and the test on the ORFs
   takes over, C15_gaps_overlap_test); for every well-formed input (Model.gaps_wf).  Neither of the two former guard
   conjuncts is left: "the look-up helper misses no gene overlapping an area part" [class FC15a] went with the repair
   _overlapping_cds_features (Proofs.cds_within_complete), "no gene reaches into both parts" [class FC15b] with the
   repair of find_all_orfs (max_overlap test on the ORFs of an origin-crossing area) *)
Theorem C15_gaps_areas : forall N cds area ml ov areas,
  gaps_wf N cds area ml ov = true -> intergenic_for N cds area ml ov = Ok areas ->
  Forall (area_ok N cds area ov) areas.
Proof. exact intergenic_for_ok. Qed.
Print Assumptions C15_gaps_areas.

(* the test added by the repair of FC15b, for ALL inputs: what find_all_orfs keeps of the ORFs found is a subset, and
   for an origin-spanning area every kept ORF shares at most max_overlap positions with every gene reaching into both
   parts of the area (Model.shared = number of positions of the ORF inside the gene; _overlap_size is never smaller,
   shared_le_overlap_size) *)
Theorem C15_gaps_overlap_test : forall cds area ov locs l,
  In l (within_overlap cds area ov locs) ->
  In l locs /\ forall c, In c cds -> in_both area c = true -> shared l c <= ov.
Proof. exact within_overlap_In. Qed.
Print Assumptions C15_gaps_overlap_test.

Theorem C15_gaps_overlap_size : forall o c, shared o c <= overlap_size o c.
Proof. exact shared_le_overlap_size. Qed.
Print Assumptions C15_gaps_overlap_size.

(* C15_gaps: for every well-formed input, every feature returned by find_all_orfs lies inside ONE of the intergenic
   areas, shares at most max_overlap positions with EVERY gene of the record (also a gene reaching into both parts of
   an origin-spanning area: the former class FC15b, no guard left), and lies inside the searched part of the record *)
Theorem C15_gaps : forall g cds area ml ov feats f,
  gaps_wf (zlen g) cds area ml ov = true -> find_all_orfs g cds area ml ov = Ok feats -> In f feats ->
  (exists areas a, intergenic_for (zlen g) cds area ml ov = Ok areas /\ In a areas /\
                   forall x, In x (positions (floc f)) -> In x (area_positions (zlen g) a)) /\
  (forall c, In c cds -> shared (floc f) c <= ov) /\
  (forall x, In x (positions (floc f)) -> in_searched (zlen g) area x = true).
Proof. exact find_all_orfs_gaps. Qed.
Print Assumptions C15_gaps.

(* the translation clause, genomes of IUPAC DNA letters (A C G T and the ambiguity codes, both cases): the stored translation of every new feature is the protein of the
   text its location extracts to (location.extract, C15_coordinates): the codons before the final stop codon
   translated one by one with the standard table, first residue forced to M *)
Theorem C15_translation : forall g cds area ml ov feats f,
  gaps_wf (zlen g) cds area ml ov = true -> iupac g ->
  find_all_orfs g cds area ml ov = Ok feats -> In f feats ->
  ftrans f = orf_protein (extract g (floc f)).
Proof. exact find_all_orfs_translation. Qed.
Print Assumptions C15_translation.

(* hence the boolean specification the check evaluates on EVERY find_all_orfs output of the implementation
   (Model.feature_ok via run id 12) holds for the model's output on every well-formed input with a genome of IUPAC DNA letters (A C G T and the ambiguity codes, both cases) *)
Theorem C15_gaps_spec_ok : forall g cds area ml ov feats,
  gaps_wf (zlen g) cds area ml ov = true -> forallb iupacb g = true ->
  find_all_orfs g cds area ml ov = Ok feats ->
  forallb (feature_ok g cds area ov) feats = true.
Proof. exact find_all_orfs_spec_ok. Qed.
Print Assumptions C15_gaps_spec_ok.

(* FC15a area_misses_enclosing_gene, repaired: the genes handed to the gap search for an area part are EXACTLY the
   genes of the record that overlap the part, in the record's order (positive statement replacing
   C15_gaps_refuted_FC15a) ... *)
Theorem C15_gaps_helper_complete : forall cds p c,
  In c (cds_within cds p) <-> In c cds /\ overlap c [p] = true.
Proof. intros cds p c. unfold cds_within. exact (filter_In (fun d => overlap d [p]) c cds). Qed.
Print Assumptions C15_gaps_helper_complete.

(* ... and on the recorded witness (nested gene hiding the enclosing gene from the old look-up) the
   enclosing gene is found, no ORF inside it is returned *)
Theorem C15_gaps_FC15a_witness_repaired :
  let g := [67; 67; 67; 67; 67; 67; 67; 67; 67; 67; 67; 67; 67; 67; 67; 67; 67; 67; 67; 67; 67; 67; 67; 67; 67; 67; 67; 67; 67; 67; 67; 67; 67; 65; 84; 71; 65; 65; 65; 84; 65; 65; 67; 67; 67; 67; 67; 67; 67; 67; 67; 67; 67; 67; 67; 67; 67; 67; 67; 67] in
  let cds := [[mkPart 5 40 1]; [mkPart 10 20 1]] in
  gaps_wf (zlen g) cds (Some [mkPart 30 60 1]) 5 0 = true /\
  cds_within cds (mkPart 30 60 1) = [[mkPart 5 40 1]] /\
  find_all_orfs g cds (Some [mkPart 30 60 1]) 5 0 = Ok [].
Proof. exact gaps_witness_FC15a_repaired. Qed.
Print Assumptions C15_gaps_FC15a_witness_repaired.

(* FC15b origin_gene_padding_window, repaired (positive statement replacing C15_gaps_refuted_FC15b): on the recorded
   witness - well-formed, a gene reaching into both parts of the origin-spanning area (coverage class 2) - the window
   joined over the origin is still scanned, the ORF join{[38:47](+),[0:3](+)} sharing 12 > 10 positions with the gene is
   still found in it, and find_all_orfs no longer returns it *)
Theorem C15_gaps_FC15b_witness_repaired :
  let g := [84; 65; 71; 84; 67; 71; 84; 71; 84; 71; 67; 84; 71; 65; 67; 84; 84; 71; 65; 65; 84; 84; 84; 67; 67; 71; 84; 67; 71; 71; 84; 71; 67; 67; 65; 84; 71; 84; 65; 84; 71; 67; 65; 84; 67; 71; 84] in
  let cds := [[mkPart 0 9 (-1); mkPart 36 47 (-1)]; [mkPart 38 42 1]] in
  let area := [mkPart 26 47 1; mkPart 0 6 1] in
  gaps_wf (zlen g) cds (Some area) 5 10 = true /\ forallb iupacb g = true /\ gaps_class cds (Some area) = 2 /\
  intergenic_for (zlen g) cds (Some area) 5 10 = Ok [(37, 47); (-10, 6)] /\
  In [mkPart 38 47 1; mkPart 0 3 1] (area_orfs g 5 (-10, 6)) /\
  shared [mkPart 38 47 1; mkPart 0 3 1] [mkPart 0 9 (-1); mkPart 36 47 (-1)] = 12 /\
  find_all_orfs g cds (Some area) 5 10 = Ok [].
Proof. exact gaps_witness_FC15b_repaired. Qed.
Print Assumptions C15_gaps_FC15b_witness_repaired.

(* FC15c ambiguous_stop_translation, repaired: C15_translation above now holds for genomes with ambiguity codes (it rests on
   Proofs.codon_table_facts: over all 27000 codons of IUPAC letters, "translates to '*'" = "scan_orfs classifies it as a stop
   codon" - false for the table without TAR and TRA, so the proof breaks if they are taken out again); the recorded witness *)
Theorem C15_translation_ambiguous_stop_witness_repaired :
  let g := [67; 67; 67; 65; 84; 71; 65; 65; 65; 84; 65; 82; 65; 65; 65; 65; 65; 65; 84; 65; 65; 67; 67; 67] in
  forallb iupacb g = true /\ forallb (fun c => existsb (Z.eqb c) [65; 67; 71; 84]) g = false /\
  translate_codon 84 65 82 = 42 /\ translate_codon 84 82 65 = 42 /\
  classify 84 65 82 = KStop /\ classify 84 82 65 = KStop /\
  scan_orfs g 1 0 3 None = [[mkPart 3 12 1]] /\
  exists f, find_all_orfs g [] None 3 10 = Ok [f] /\ floc f = [mkPart 3 12 1] /\ ftrans f = [77; 75].
Proof. exact ambiguous_stop_witness_repaired. Qed.
Print Assumptions C15_translation_ambiguous_stop_witness_repaired.

(* FC15d trimmed_orf_over_origin, repaired: the location get_trimmed_orf builds for the start codon k bases into the ORF
   (Model.trim_parts) occupies exactly the ORF's record positions without the first k in the order of translation - for any
   number of parts (an ORF over the origin has two), both strands *)
Theorem C15_trimmed_positions : forall l k, 0 <= k ->
  Forall (fun p => ps p <= pe p /\ (pst p = 1 \/ pst p = -1)) l ->
  positions (trim_parts l k) = skipn (Z.to_nat k) (positions l).
Proof. exact trim_parts_positions. Qed.
Print Assumptions C15_trimmed_positions.

Theorem C15_trimmed_witness_repaired :
  let g' := [65; 65; 65; 65; 65; 65; 84; 65; 65] ++ repeat 67 39 ++ [65; 84; 71; 65; 65; 65; 65; 84; 71; 65; 65; 65] in
  trim_parts [mkPart 48 60 1; mkPart 0 9 1] 6 = [mkPart 54 60 1; mkPart 0 9 1] /\
  trim_parts [mkPart 0 12 (-1); mkPart 51 60 (-1)] 6 = [mkPart 0 6 (-1); mkPart 51 60 (-1)] /\
  exists f, get_trimmed_orf g' [mkPart 48 60 1; mkPart 0 9 1] None None 5 = Ok (Some f) /\
            floc f = [mkPart 54 60 1; mkPart 0 9 1] /\ ftrans f = [77; 75; 75; 75].
Proof. exact trimmed_witness_repaired. Qed.
Print Assumptions C15_trimmed_witness_repaired.

(* non-vacuity: the input is well-formed and a feature is returned - inner area; origin-spanning area with the ORF found in
   the window joined over the origin; whole record *)
Example C15_gaps_nonvacuous_inner :
  let g := [67; 67; 67; 67; 67; 67; 67; 67; 67; 67; 67; 67; 67; 67; 67; 67; 67; 67; 67; 67; 67; 67; 67; 67; 67; 67; 67; 67; 67; 67; 67; 67; 67; 65; 84; 71; 65; 65; 65; 84; 65; 65; 67; 67; 67; 67; 67; 67; 67; 67; 67; 67; 67; 67; 67; 67; 67; 67; 67; 67] in
  gaps_wf (zlen g) [[mkPart 5 32 1]] (Some [mkPart 20 60 1]) 5 2 = true /\ forallb iupacb g = true /\
  exists f, find_all_orfs g [[mkPart 5 32 1]] (Some [mkPart 20 60 1]) 5 2 = Ok [f] /\
            floc f = [mkPart 33 42 1] /\ ftrans f = [77; 75].
Proof. cbn zeta. split; [vm_compute; reflexivity|]. split; [vm_compute; reflexivity|]. eexists. vm_compute. repeat split. Qed.

Example C15_gaps_nonvacuous_origin :
  let g := [84; 65; 71; 84; 67; 71; 84; 71; 84; 71; 67; 84; 71; 65; 67; 84; 84; 71; 65; 65; 84; 84; 84; 67; 67; 71; 84; 67; 71; 71; 84; 71; 67; 67; 65; 84; 71; 84; 65; 84; 71; 67; 65; 84; 67; 71; 84] in
  gaps_wf (zlen g) [[mkPart 10 20 1]] (Some [mkPart 26 47 1; mkPart 0 6 1]) 5 10 = true /\ forallb iupacb g = true /\
  exists f, find_all_orfs g [[mkPart 10 20 1]] (Some [mkPart 26 47 1; mkPart 0 6 1]) 5 10 = Ok [f] /\
            floc f = [mkPart 29 47 1; mkPart 0 3 1] /\ ftrans f = [77; 80; 67; 77; 72; 82].
Proof. cbn zeta. split; [vm_compute; reflexivity|]. split; [vm_compute; reflexivity|]. eexists. vm_compute. repeat split. Qed.

Example C15_gaps_nonvacuous_record :
  let g := [84; 65; 71; 84; 67; 71; 84; 71; 84; 71; 67; 84; 71; 65; 67; 84; 84; 71; 65; 65; 84; 84; 84; 67; 67; 71; 84; 67; 71; 71; 84; 71; 67; 67; 65; 84; 71; 84; 65; 84; 71; 67; 65; 84; 67; 71; 84] in
  gaps_wf (zlen g) [[mkPart 10 20 1]] None 5 10 = true /\
  exists f1 f2, find_all_orfs g [[mkPart 10 20 1]] None 5 10 = Ok [f1; f2] /\
                floc f1 = [mkPart 5 14 1] /\ floc f2 = [mkPart 7 19 1].
Proof. cbn zeta. split; [vm_compute; reflexivity|]. eexists. eexists. vm_compute. repeat split. Qed.

(* non-vacuity inside the former class FC15b: gene [3:40) reaches into both parts of the origin-spanning area
   join{[30:47],[0:13]} (coverage class 2); the ORF over the origin join{[35:47](+),[0:6](+)} shares 5 + 3 = 8 <= 10
   positions with it and IS returned - the test on the ORFs removes no ORF the property allows *)
Example C15_gaps_nonvacuous_gene_in_both :
  let g := [65; 65; 65; 84; 65; 65; 67; 67; 67; 67; 67; 67; 67; 67; 67; 67; 67; 67; 67; 67; 67; 67; 67; 67; 67; 67; 67; 67; 67; 67; 67; 67; 67; 67; 67; 65; 84; 71; 65; 65; 65; 65; 65; 65; 65; 65; 65] in
  let cds := [[mkPart 3 40 1]] in
  let area := [mkPart 30 47 1; mkPart 0 13 1] in
  gaps_wf (zlen g) cds (Some area) 5 10 = true /\ forallb iupacb g = true /\ gaps_class cds (Some area) = 2 /\
  shared [mkPart 35 47 1; mkPart 0 6 1] [mkPart 3 40 1] = 8 /\
  exists f, find_all_orfs g cds (Some area) 5 10 = Ok [f] /\
            floc f = [mkPart 35 47 1; mkPart 0 6 1] /\ ftrans f = [77; 75; 75; 75; 75].
Proof. cbn zeta. repeat (split; [vm_compute; reflexivity|]). eexists. vm_compute. repeat split. Qed.

(* ================================================================== third deepening pass: the whole argument space of
   scan_orfs(seq, direction, offset, minimum_length, record_length) on a circular record *)

(* Model.ring_text g off len = the len bases of the ring g from position off on, positions taken modulo the record length,
   for ANY integer off; ring_window = the same or its reverse complement.  The windows of the earlier theorems
   (window_ok: inside the record, or starting before the origin - the only calls find_all_orfs makes) are such windows *)
Theorem C15_window_is_ring_window : forall g off end_ direction, window_ok (zlen g) off end_ ->
  window g off end_ direction = ring_window g off (end_ - off) direction.
Proof. exact window_ring_window. Qed.
Print Assumptions C15_window_is_ring_window.

(* C15_coordinates_extract_ring without any restriction on the offset or on the window length: for EVERY genome, every
   integer offset (negative, zero, positive with the window overshooting the record end by any amount, beyond the record
   length), both strands, every stretch [s, e] of the scanned text that is not longer than the record: the location
   scan_orfs computes for (s, e) extracts from the genome to exactly text[s .. e] *)
Theorem C15_coordinates_extract_any_offset : forall g off len direction s e,
  (direction = 1 \/ direction = -1) -> 0 <= s -> s <= e -> e < len -> e - s + 1 <= zlen g ->
  extract g (orf_location direction off len (Some (zlen g)) (s, e)) =
  slice (ring_window g off len direction) s (e + 1).
Proof. exact extract_orf_ring_any. Qed.
Print Assumptions C15_coordinates_extract_any_offset.

(* tied to scan_orfs itself, any offset, any window length: every location RETURNED comes from an ORF [a, b] of one of the
   three frames of the upper-cased window text; when that ORF is not longer than the record (always so for a window not
   longer than the record) the location extracts to the window text from a to b, that text is an ORF by the run-time test
   (whole codons, start codon first, stop codon last and nowhere else), the location lies inside [0, N) with at most two
   parts split at the origin in transcription order (Model.ring_shape_ok), and it occupies exactly the ORF's positions on
   the ring *)
Theorem C15_coordinates_any_offset : forall g off len direction minimum l,
  0 <= len -> (direction = 1 \/ direction = -1) ->
  In l (scan_orfs (ring_window g off len direction) direction off minimum (Some (zlen g))) ->
  exists frame a b, (frame <= 2)%nat /\
    In (a, b) (frame_orfs (map upper (ring_window g off len direction)) frame minimum) /\
    0 <= a /\ a < b /\ b < len /\
    l = orf_location direction off len (Some (zlen g)) (a, b) /\
    (b - a + 1 <= zlen g ->
       extract g l = slice (ring_window g off len direction) a (b + 1) /\
       orf_text_b (extract g l) = true /\
       ring_shape_ok (zlen g) direction l = true /\
       positions l = expected_positions direction off len (Some (zlen g)) (a, b)).
Proof. exact scan_orfs_ring_any. Qed.
Print Assumptions C15_coordinates_any_offset.

(* the run-time specification of run id 13 (Model.spec_scan_ring: ring shape, extraction gives an ORF text, extraction gives
   the text of an ORF of the window, generator consistency) holds for the model's output on every window not longer than
   the record, wherever the window begins *)
Theorem C15_scan_ring_spec_ok : forall g off len direction minimum,
  0 <= len -> len <= zlen g -> (direction = 1 \/ direction = -1) ->
  let W := ring_window g off len direction in
  skipn 3 (spec_scan_ring g W direction off minimum (scan_orfs W direction off minimum (Some (zlen g)))) = [1; 1; 1; 1].
Proof. exact scan_ring_spec_verdict. Qed.
Print Assumptions C15_scan_ring_spec_ok.

(* non-vacuity, and the inputs a seeded defect of the fourth round needed (wrapping only `if offset < 0`): ring of 30 bases
   CCC TAA CCC .. CCC ATG AAA (ORF ATG AAA CCC TAA over the origin, positions 24..29 + 0..5).  The window of 18 bases told
   by its real start 21 overshoots the record end by 9: the ORF is reported in two parts split at the origin; told as
   starting 9 before the origin (offset -9) or one turn later (offset 51) the answer is the same; on the reverse strand of
   the reverse-complemented ring the two parts come in the opposite order; an ORF lying wholly after the origin in an
   overshooting window ([33:42) in window coordinates) is reported at [3:12) *)
Example C15_coordinates_any_offset_nonvacuous :
  let g := [67; 67; 67; 84; 65; 65] ++ repeat 67 18 ++ [65; 84; 71; 65; 65; 65] in
  let g2 := [67; 67; 67; 65; 84; 71; 65; 65; 65; 84; 65; 65] ++ repeat 67 18 in
  zlen g = 30 /\
  ring_window g 21 18 1 = [67; 67; 67; 65; 84; 71; 65; 65; 65; 67; 67; 67; 84; 65; 65; 67; 67; 67] /\
  scan_orfs (ring_window g 21 18 1) 1 21 6 (Some 30) = [[mkPart 24 30 1; mkPart 0 6 1]] /\
  scan_orfs (ring_window g (-9) 18 1) 1 (-9) 6 (Some 30) = [[mkPart 24 30 1; mkPart 0 6 1]] /\
  scan_orfs (ring_window g 51 18 1) 1 51 6 (Some 30) = [[mkPart 24 30 1; mkPart 0 6 1]] /\
  extract g [mkPart 24 30 1; mkPart 0 6 1] = [65; 84; 71; 65; 65; 65; 67; 67; 67; 84; 65; 65] /\
  scan_orfs (ring_window (revcomp g) 21 18 (-1)) (-1) 21 6 (Some 30) = [[mkPart 0 6 (-1); mkPart 24 30 (-1)]] /\
  extract (revcomp g) [mkPart 0 6 (-1); mkPart 24 30 (-1)] = [65; 84; 71; 65; 65; 65; 67; 67; 67; 84; 65; 65] /\
  scan_orfs (ring_window g2 27 18 1) 1 27 6 (Some 30) = [[mkPart 3 12 1]] /\
  spec_scan_ring g (ring_window g 21 18 1) 1 21 6 [[mkPart 24 30 1; mkPart 0 6 1]] = [1; 1; 1; 1; 1; 1; 1] /\
  (* what the seeded defect returned: outside the record, one part - rejected by the specification *)
  spec_scan_ring g (ring_window g 21 18 1) 1 21 6 [[mkPart 24 36 1]] = [0; 1; 0; 0; 0; 0; 1].
Proof. cbn zeta. repeat split; vm_compute; reflexivity. Qed.
