(* C15 proofs: the scanning loop finds exactly the open reading frames of a frame; sortedness of the
   result; wrapped coordinates; intergenic areas overlap no gene by more than the padding. *)
From Coq Require Import Lia ZifyBool.
From ASV.C15 Require Import Model.

(* ------------------------------------------------------------------ the scanning loop *)
Section Scan.
Local Open Scope nat_scope.

(* An ORF of a frame, stated on the codon kinds by position only (no reference to the loop):
   [s] is a start codon, [e] the first stop codon after it, and every start codon before [s]
   (from position [k] on) is followed by a stop codon before [s] - i.e. [s] is the earliest
   start after the previous stop. *)
Definition orf_none (full : list kind) (k s e : nat) : Prop :=
  k <= s < e /\ nth_error full s = Some KStart /\ nth_error full e = Some KStop /\
  (forall j, s < j < e -> nth_error full j <> Some KStop) /\
  (forall j, k <= j < s -> nth_error full j = Some KStart ->
             exists m, j < m < s /\ nth_error full m = Some KStop).

(* the same with a start codon [s0] already pending when the scan reaches position [k] *)
Definition orf_some (full : list kind) (k s0 s e : nat) : Prop :=
  (s = s0 /\ k <= e /\ nth_error full e = Some KStop /\
   forall j, k <= j < e -> nth_error full j <> Some KStop)
  \/ (orf_none full k s e /\ exists m, k <= m < s /\ nth_error full m = Some KStop).

Definition orf_at full k (st : option nat) s e :=
  match st with None => orf_none full k s e | Some s0 => orf_some full k s0 s e end.

Lemma skipn_cons_inv {A} : forall k (l : list A) x r,
  skipn k l = x :: r -> nth_error l k = Some x /\ r = skipn (S k) l.
Proof.
  induction k as [|k IH]; intros l x r H.
  - destruct l as [|y l]; cbn in H; [discriminate|]. inversion H; subst. split; reflexivity.
  - destruct l as [|y l]; cbn in H; [discriminate|]. apply IH in H. exact H.
Qed.

Lemma skipn_nil_inv {A} : forall k (l : list A), skipn k l = [] -> forall j, k <= j -> nth_error l j = None.
Proof.
  intros k l H j Hj. apply nth_error_None.
  assert (Hl : length (skipn k l) = 0) by (rewrite H; reflexivity).
  rewrite skipn_length in Hl. lia.
Qed.

Lemma orf_none_up full k s e :
  orf_none full (S k) s e -> (exists m, S k <= m < s /\ nth_error full m = Some KStop) -> orf_none full k s e.
Proof.
  intros (Hr & Hs & He & Hmid & Hpre) (m & Hm & Hmk).
  repeat split; try assumption; try lia.
  intros j Hj Hjs. destruct (Nat.eq_dec j k) as [->|Hne].
  - exists m. split; [lia|exact Hmk].
  - apply Hpre; [lia|exact Hjs].
Qed.

Lemma orf_none_up_nostart full k s e :
  orf_none full (S k) s e -> nth_error full k <> Some KStart -> orf_none full k s e.
Proof.
  intros (Hr & Hs & He & Hmid & Hpre) Hk.
  repeat split; try assumption; try lia.
  intros j Hj Hjs. destruct (Nat.eq_dec j k) as [->|Hne]; [contradiction|].
  apply Hpre; [lia|exact Hjs].
Qed.

Lemma orf_none_down full k s e : orf_none full k s e -> s <> k -> orf_none full (S k) s e.
Proof.
  intros (Hr & Hs & He & Hmid & Hpre) Hne.
  repeat split; try assumption; try lia.
  intros j Hj Hjs. apply Hpre; [lia|exact Hjs].
Qed.

Lemma scan_gen full : forall ks k st, ks = skipn k full ->
  forall s e, In (s, e) (scan_kinds ks k st) <-> orf_at full k st s e.
Proof.
  induction ks as [|x ks IH]; intros k st Hks s e.
  - symmetry in Hks. pose proof (skipn_nil_inv _ _ Hks) as Hnone.
    split; [intros []|]. destruct st as [s0|]; cbn [orf_at].
    + intros [(_ & Hke & He & _)|((Hr & Hs & _) & _)].
      * rewrite Hnone in He by lia. discriminate.
      * rewrite Hnone in Hs by lia. discriminate.
    + intros (Hr & Hs & _). rewrite Hnone in Hs by lia. discriminate.
  - symmetry in Hks. destruct (skipn_cons_inv _ _ _ _ Hks) as [Hk Hrest].
    destruct x; destruct st as [s0|]; cbn [scan_kinds orf_at].
    + (* start codon, one already pending *)
      rewrite (IH (S k) (Some s0) Hrest). cbn [orf_at]. split.
      * intros [(-> & Hke & He & Hno)|(Hn & m & Hm & Hmk)].
        -- left. repeat split; try assumption; try lia.
           all: try solve [intros j Hj; destruct (Nat.eq_dec j k) as [->|Hne]; [rewrite Hk; discriminate|apply Hno; lia]].
        -- right. split; [apply orf_none_up; [exact Hn|exists m; split; [lia|exact Hmk]]|exists m; split; [lia|exact Hmk]].
      * intros [(-> & Hke & He & Hno)|(Hn & m & Hm & Hmk)].
        -- left. assert (e <> k) by (intros ->; rewrite Hk in He; discriminate).
           repeat split; try assumption; try lia. all: try solve [intros j Hj; apply Hno; lia].
        -- assert (m <> k) by (intros ->; rewrite Hk in Hmk; discriminate).
           right. split; [apply orf_none_down; [exact Hn|lia]|exists m; split; [lia|exact Hmk]].
    + (* start codon, none pending: it becomes the pending start *)
      rewrite (IH (S k) (Some k) Hrest). cbn [orf_at]. split.
      * intros [(-> & Hke & He & Hno)|(Hn & m & Hm & Hmk)].
        -- repeat split; try assumption; try lia.
           all: intros j Hj; try lia; apply Hno; lia.
        -- apply orf_none_up; [exact Hn|exists m; split; [lia|exact Hmk]].
      * intros Hn. destruct (Nat.eq_dec s k) as [->|Hne].
        -- left. destruct Hn as (Hr & Hs & He & Hmid & _). repeat split; try assumption; try lia.
           all: try solve [intros j Hj; apply Hmid; lia].
        -- right. split; [apply orf_none_down; assumption|].
           destruct Hn as (Hr & _ & _ & _ & Hpre). destruct (Hpre k) as (m & Hm & Hmk); [lia|exact Hk|].
           exists m. split; [lia|exact Hmk].
    + (* stop codon closing the pending start *)
      cbn [In]. rewrite (IH (S k) None Hrest). cbn [orf_at]. split.
      * intros [Heq|Hn].
        -- inversion Heq; subst. left. repeat split; try assumption; try lia. all: try solve [intros j Hj; lia].
        -- right. assert (S k <= s) by (destruct Hn as (Hr & _); lia).
           split; [apply orf_none_up_nostart; [exact Hn|rewrite Hk; discriminate]|exists k; split; [lia|exact Hk]].
      * intros [(-> & Hke & He & Hno)|(Hn & _)].
        -- left. destruct (Nat.eq_dec e k) as [->|Hne]; [reflexivity|].
           exfalso. apply (Hno k); [lia|exact Hk].
        -- right. apply orf_none_down; [exact Hn|].
           intros ->. destruct Hn as (_ & Hs & _). rewrite Hk in Hs. discriminate.
    + (* stop codon without a start *)
      rewrite (IH (S k) None Hrest). cbn [orf_at]. split.
      * intros Hn. apply orf_none_up_nostart; [exact Hn|rewrite Hk; discriminate].
      * intros Hn. apply orf_none_down; [exact Hn|].
        intros ->. destruct Hn as (_ & Hs & _). rewrite Hk in Hs. discriminate.
    + (* other codon, start pending *)
      rewrite (IH (S k) (Some s0) Hrest). cbn [orf_at]. split.
      * intros [(-> & Hke & He & Hno)|(Hn & m & Hm & Hmk)].
        -- left. repeat split; try assumption; try lia.
           all: try solve [intros j Hj; destruct (Nat.eq_dec j k) as [->|Hne]; [rewrite Hk; discriminate|apply Hno; lia]].
        -- right. split; [apply orf_none_up_nostart; [exact Hn|rewrite Hk; discriminate]|exists m; split; [lia|exact Hmk]].
      * intros [(-> & Hke & He & Hno)|(Hn & m & Hm & Hmk)].
        -- left. assert (e <> k) by (intros ->; rewrite Hk in He; discriminate).
           repeat split; try assumption; try lia. all: try solve [intros j Hj; apply Hno; lia].
        -- assert (m <> k) by (intros ->; rewrite Hk in Hmk; discriminate).
           right. split; [apply orf_none_down; [exact Hn|lia]|exists m; split; [lia|exact Hmk]].
    + (* other codon, nothing pending *)
      rewrite (IH (S k) None Hrest). cbn [orf_at]. split.
      * intros Hn. apply orf_none_up_nostart; [exact Hn|rewrite Hk; discriminate].
      * intros Hn. apply orf_none_down; [exact Hn|].
        intros ->. destruct Hn as (_ & Hs & _). rewrite Hk in Hs. discriminate.
Qed.

(* the ORFs of a frame: position-only statement *)
Definition is_orf (ks : list kind) (s e : nat) : Prop :=
  s < e /\ nth_error ks s = Some KStart /\ nth_error ks e = Some KStop /\
  (forall j, s < j < e -> nth_error ks j <> Some KStop) /\
  (forall j, j < s -> nth_error ks j = Some KStart -> exists m, j < m < s /\ nth_error ks m = Some KStop).

Lemma scan_sound_complete ks s e : In (s, e) (scan_kinds ks 0 None) <-> is_orf ks s e.
Proof.
  rewrite (scan_gen ks ks 0 None eq_refl). cbn [orf_at]. unfold orf_none, is_orf. split.
  - intros (Hr & Hs & He & Hmid & Hpre). repeat split; try assumption; try lia.
    intros j Hj. apply Hpre. lia.
  - intros (Hr & Hs & He & Hmid & Hpre). repeat split; try assumption; try lia.
    intros j Hj. apply Hpre. lia.
Qed.

(* no ORF is reported twice *)
Lemma scan_gen_bound : forall ks k st s e, In (s, e) (scan_kinds ks k st) ->
  k <= e /\ match st with Some s0 => s = s0 \/ k <= s | None => k <= s end.
Proof.
  induction ks as [|x ks IH]; intros k st s e Hin; [destruct Hin|].
  destruct x; destruct st as [s0|]; cbn [scan_kinds] in Hin.
  - apply IH in Hin. destruct Hin as [? [?|?]]; split; try lia; auto; right; lia.
  - apply IH in Hin. destruct Hin as [? [?|?]]; split; lia.
  - destruct Hin as [Heq|Hin]; [inversion Heq; subst; split; [lia|left; reflexivity]|].
    apply IH in Hin. split; [lia|right; lia].
  - apply IH in Hin. lia.
  - apply IH in Hin. destruct Hin as [? [?|?]]; split; try lia; auto; right; lia.
  - apply IH in Hin. lia.
Qed.

Lemma scan_NoDup : forall ks k st, (match st with Some s0 => s0 < k | None => True end) ->
  NoDup (scan_kinds ks k st).
Proof.
  induction ks as [|x ks IH]; intros k st Hst; [constructor|].
  destruct x; destruct st as [s0|]; cbn [scan_kinds]; try (apply IH; cbn; lia).
  constructor; [|apply IH; exact I].
  intros Hin. apply scan_gen_bound in Hin. lia.
Qed.

End Scan.

(* ------------------------------------------------------------------ frames and minimum length *)
Lemma frame_orfs_spec sequ frame minimum c :
  In c (frame_orfs sequ frame minimum) <->
  exists s e, is_orf (kinds (skipn frame sequ)) s e /\ c = orf_coords (Z.of_nat frame) (s, e) /\
              minimum <= snd c - fst c.
Proof.
  unfold frame_orfs. rewrite filter_In, in_map_iff. split.
  - intros [((s, e) & <- & Hin) Hlen]. exists s, e. rewrite <- scan_sound_complete.
    split; [exact Hin|]. split; [reflexivity|]. lia.
  - intros (s & e & Horf & -> & Hlen). split.
    + exists (s, e). split; [reflexivity|]. apply scan_sound_complete. exact Horf.
    + lia.
Qed.

(* window coordinates of an ORF: first base of the start codon, last base of the stop codon *)
Lemma orf_coords_frame frame s e :
  fst (orf_coords frame (s, e)) = frame + 3 * Z.of_nat s /\
  snd (orf_coords frame (s, e)) = frame + 3 * Z.of_nat e + 2.
Proof. split; reflexivity. Qed.

(* ------------------------------------------------------------------ coordinates on the record *)
(* forward strand, linear: the window coordinates shifted by the offset, end exclusive *)
Lemma orf_location_forward_linear offset n s e :
  orf_location 1 offset n None (s, e) = [mkPart (s + offset) (e + offset + 1) 1].
Proof. reflexivity. Qed.

(* reverse strand, linear: mirrored in the window of length n *)
Lemma orf_location_reverse_linear offset n s e :
  orf_location (-1) offset n None (s, e) = [mkPart (n + offset - e - 1) (n + offset - s) (-1)].
Proof. reflexivity. Qed.

Definition part_len (p : part) : Z := pe p - ps p.
Definition loc_len (l : loc) : Z := fold_right (fun p acc => part_len p + acc) 0 l.

(* On a ring of length N: whatever the offset (also negative: window starting before the origin),
   the reported parts lie inside the record, are non-empty, number at most two (the second
   starting/ending at the origin), keep the strand, and together have the ORF's length. *)
Lemma orf_location_ring direction offset n N s e :
  (direction = 1 \/ direction = -1) -> 0 < N -> 0 <= s -> s < e -> e - s + 1 <= N ->
  let l := orf_location direction offset n (Some N) (s, e) in
  loc_len l = e - s + 1 /\
  Forall (fun p => 0 <= ps p /\ ps p < pe p /\ pe p <= N /\ pst p = direction) l /\
  (exists a b, l = [mkPart a b direction] \/
     (direction = 1 /\ l = [mkPart a N 1; mkPart 0 b 1]) \/
     (direction = -1 /\ l = [mkPart 0 b (-1); mkPart a N (-1)])).
Proof.
  intros Hdir HN Hs Hse Hlen. cbn zeta. unfold orf_location.
  destruct Hdir as [->| ->]; cbn [Z.eqb Pos.eqb].
  - set (ls0 := s + offset). set (le0 := e + offset + 1).
    assert (Hspan : le0 - ls0 = e - s + 1) by (unfold ls0, le0; lia).
    pose proof (Z.mod_pos_bound (ls0 + N) N HN) as Hb1.
    pose proof (Z.mod_pos_bound (le0 - 1 + N) N HN) as Hb2.
    pose proof (Z.div_mod (ls0 + N) N ltac:(lia)) as Hd1.
    pose proof (Z.div_mod (le0 - 1 + N) N ltac:(lia)) as Hd2.
    set (ls := (ls0 + N) mod N) in *. set (le := (le0 - 1 + N) mod N + 1) in *.
    set (q1 := (ls0 + N) / N) in *. set (q2 := (le0 - 1 + N) / N) in *.
    assert (Hle : le - 1 = le0 - 1 + N - N * q2) by (unfold le; lia).
    assert (Hls : ls = ls0 + N - N * q1) by lia.
    assert (Hb3 : 1 <= le <= N) by (unfold le; lia).
    clearbody ls le q1 q2 ls0 le0. clear Hd1 Hd2 Hb2.
    assert (Hq : q2 = q1 \/ q2 = q1 + 1) by nia.
    destruct (le <=? ls) eqn:Hcmp.
    + assert (q2 = q1 + 1) by (destruct Hq as [Hq|Hq]; [subst q2; lia|assumption]). subst q2.
      unfold loc_len, part_len. cbn [fold_right ps pe]. split; [lia|]. split.
      * repeat constructor; cbn [ps pe pst]; lia.
      * exists ls, le. right. left. split; reflexivity.
    + assert (q2 = q1) by (destruct Hq as [Hq|Hq]; [assumption|subst q2; lia]). subst q2.
      unfold loc_len, part_len. cbn [fold_right ps pe]. split; [lia|]. split.
      * repeat constructor; cbn [ps pe pst]; lia.
      * exists ls, le. left. reflexivity.
  - set (ls0 := n + offset - e - 1). set (le0 := n + offset - s).
    assert (Hspan : le0 - ls0 = e - s + 1) by (unfold ls0, le0; lia).
    pose proof (Z.mod_pos_bound (ls0 + N) N HN) as Hb1.
    pose proof (Z.mod_pos_bound (le0 - 1 + N) N HN) as Hb2.
    pose proof (Z.div_mod (ls0 + N) N ltac:(lia)) as Hd1.
    pose proof (Z.div_mod (le0 - 1 + N) N ltac:(lia)) as Hd2.
    set (ls := (ls0 + N) mod N) in *. set (le := (le0 - 1 + N) mod N + 1) in *.
    set (q1 := (ls0 + N) / N) in *. set (q2 := (le0 - 1 + N) / N) in *.
    assert (Hle : le - 1 = le0 - 1 + N - N * q2) by (unfold le; lia).
    assert (Hls : ls = ls0 + N - N * q1) by lia.
    assert (Hb3 : 1 <= le <= N) by (unfold le; lia).
    clearbody ls le q1 q2 ls0 le0. clear Hd1 Hd2 Hb2.
    assert (Hq : q2 = q1 \/ q2 = q1 + 1) by nia.
    destruct (le <=? ls) eqn:Hcmp.
    + assert (q2 = q1 + 1) by (destruct Hq as [Hq|Hq]; [subst q2; lia|assumption]). subst q2.
      unfold loc_len, part_len. cbn [fold_right ps pe]. split; [lia|]. split.
      * repeat constructor; cbn [ps pe pst]; lia.
      * exists ls, le. right. right. split; reflexivity.
    + assert (q2 = q1) by (destruct Hq as [Hq|Hq]; [assumption|subst q2; lia]). subst q2.
      unfold loc_len, part_len. cbn [fold_right ps pe]. split; [lia|]. split.
      * repeat constructor; cbn [ps pe pst]; lia.
      * exists ls, le. left. reflexivity.
Qed.

(* ------------------------------------------------------------------ sortedness of the result *)
Section Sorted.
Context {A : Type} (key : A -> Z).
Let lt (a b : A) := key a <? key b.

Fixpoint sorted_key (l : list A) : Prop :=
  match l with
  | [] => True
  | x :: r => Forall (fun y => key x <= key y) r /\ sorted_key r
  end.

Lemma insert_by_sorted x : forall l, sorted_key l -> sorted_key (insert_by lt x l).
Proof.
  induction l as [|y l IH]; intros Hs; cbn [insert_by].
  - cbn. split; [constructor|exact I].
  - destruct Hs as [Hy Hs]. unfold lt at 1. destruct (key x <? key y) eqn:Hc.
    + cbn [sorted_key]. split; [|split; assumption].
      constructor; [lia|]. eapply Forall_impl; [|exact Hy]. cbn. intros; lia.
    + cbn [sorted_key]. split; [|apply IH; exact Hs].
      assert (Hall : forall l', Forall (fun z => key y <= key z) l' ->
                Forall (fun z => key y <= key z) (insert_by lt x l')).
      { induction l' as [|z l' IH']; intros Hf; cbn [insert_by].
        - constructor; [lia|constructor].
        - inversion Hf; subst. destruct (lt x z).
          + constructor; [lia|]. constructor; assumption.
          + constructor; [assumption|]. apply IH'; assumption. }
      apply Hall. exact Hy.
Qed.

Lemma sort_by_sorted_acc : forall l acc, sorted_key acc ->
  sorted_key (fold_left (fun acc x => insert_by lt x acc) l acc).
Proof.
  induction l as [|x l IH]; intros acc Hs; cbn [fold_left]; [exact Hs|].
  apply IH. apply insert_by_sorted. exact Hs.
Qed.

Lemma sort_by_sorted l : sorted_key (sort_by lt l).
Proof. unfold sort_by. apply sort_by_sorted_acc. exact I. Qed.
End Sorted.

Lemma scan_orfs_sorted sequ direction offset minimum rl :
  sorted_key loc_key (scan_orfs sequ direction offset minimum rl).
Proof. unfold scan_orfs. apply sort_by_sorted. Qed.

(* ------------------------------------------------------------------ intergenic areas *)
Definition overlap_len (a g : Z * Z) : Z := Z.min (snd a) (snd g) - Z.max (fst a) (fst g).

Fixpoint starts_sorted (genes : list (Z * Z)) : Prop :=
  match genes with
  | [] => True
  | g :: r => Forall (fun h => fst g <= fst h) r /\ starts_sorted r
  end.

(* invariant of the loop: [seen] are the genes already passed, [rest] those to come *)
Lemma intergenic_go_inv start end_ padding : 0 <= padding ->
  forall rest seen last acc,
  start <= last ->
  Forall (fun g => snd g - padding <= last) seen ->
  starts_sorted rest ->
  Forall (fun a => start <= fst a /\ snd a <= end_ /\
                   Forall (fun g => overlap_len a g <= padding) (seen ++ rest)) acc ->
  let '(areas, last') := intergenic_go start end_ padding rest last acc in
  last <= last' /\
  Forall (fun g => snd g - padding <= last') (seen ++ rest) /\
  Forall (fun a => start <= fst a /\ snd a <= end_ /\
                   Forall (fun g => overlap_len a g <= padding) (seen ++ rest)) areas.
Proof.
  intros Hpad. induction rest as [|[gs ge] rest IH]; intros seen last acc Hsl Hseen Hsorted Hacc.
  - cbn [intergenic_go]. rewrite app_nil_r in *. split; [lia|]. split; assumption.
  - cbn [intergenic_go]. destruct Hsorted as [Hfirst Hsorted].
    assert (Happ : seen ++ (gs, ge) :: rest = (seen ++ [(gs, ge)]) ++ rest) by (rewrite <- app_assoc; reflexivity).
    destruct (last <? gs + padding) eqn:Hgap.
    + specialize (IH (seen ++ [(gs, ge)]) (Z.max last (ge - padding))
                     (acc ++ [(Z.max start last, Z.min end_ (gs + padding))])).
      rewrite <- Happ in IH.
      destruct (intergenic_go start end_ padding rest (Z.max last (ge - padding))
                              (acc ++ [(Z.max start last, Z.min end_ (gs + padding))])) as [areas last'].
      destruct IH as (H1 & H2 & H3); try assumption; try lia.
      * apply Forall_app. split; [eapply Forall_impl; [|exact Hseen]; cbn; intros; lia|].
        constructor; [cbn; lia|constructor].
      * apply Forall_app. split; [exact Hacc|]. constructor; [|constructor].
        cbn [fst snd]. split; [lia|]. split; [lia|].
        apply Forall_app. split.
        -- eapply Forall_impl; [|exact Hseen]. intros [hs he]. unfold overlap_len. cbn [fst snd]. lia.
        -- constructor; [unfold overlap_len; cbn [fst snd]; lia|].
           eapply Forall_impl; [|exact Hfirst]. intros [hs he]. unfold overlap_len. cbn [fst snd]. lia.
      * split; [lia|]. split; assumption.
    + destruct ((gs <=? last) && (last <=? ge)) eqn:Hin.
      * specialize (IH (seen ++ [(gs, ge)]) (Z.max last (ge - padding)) acc).
        rewrite <- Happ in IH.
        destruct (intergenic_go start end_ padding rest (Z.max last (ge - padding)) acc) as [areas last'].
        destruct IH as (H1 & H2 & H3); try assumption; try lia.
        -- apply Forall_app. split; [eapply Forall_impl; [|exact Hseen]; cbn; intros; lia|].
           constructor; [cbn; lia|constructor].
        -- split; [lia|]. split; assumption.
      * specialize (IH (seen ++ [(gs, ge)]) last acc).
        rewrite <- Happ in IH.
        destruct (intergenic_go start end_ padding rest last acc) as [areas last'].
        destruct IH as (H1 & H2 & H3); try assumption; try lia.
        -- apply Forall_app. split; [exact Hseen|]. constructor; [cbn; lia|constructor].
        -- split; [lia|]. split; assumption.
Qed.

(* every reported area lies inside [start, end], overlaps no gene by more than the padding, and
   is at least the minimum length - for every list of genes ordered by start *)
Lemma find_intergenic_sound start end_ genes min_length padding :
  0 <= padding -> starts_sorted genes ->
  Forall (fun a => start <= fst a /\ snd a <= end_ /\ min_length <= snd a - fst a /\
                   Forall (fun g => overlap_len a g <= padding) genes)
         (find_intergenic_areas start end_ genes min_length padding).
Proof.
  intros Hpad Hsorted. unfold find_intergenic_areas.
  pose proof (intergenic_go_inv start end_ padding Hpad genes [] start [] (Z.le_refl _)
                                (Forall_nil _) Hsorted (Forall_nil _)) as Hinv.
  destruct (intergenic_go start end_ padding genes start []) as [areas last].
  cbn [app] in Hinv. destruct Hinv as (Hl & Hgenes & Hareas).
  apply Forall_forall. intros a Ha. apply filter_In in Ha. destruct Ha as [Ha Hmin].
  assert (Hall : Forall (fun a => start <= fst a /\ snd a <= end_ /\
                   Forall (fun g => overlap_len a g <= padding) genes)
                 (if last <? end_ then areas ++ [(Z.max start last, end_)] else areas)).
  { destruct (last <? end_) eqn:Hle; [|exact Hareas].
    apply Forall_app. split; [exact Hareas|]. constructor; [|constructor].
    cbn [fst snd]. split; [lia|]. split; [lia|].
    eapply Forall_impl; [|exact Hgenes]. intros [hs he]. unfold overlap_len. cbn [fst snd]. lia. }
  rewrite Forall_forall in Hall. destruct (Hall a Ha) as (H1 & H2 & H3).
  repeat split; try assumption. lia.
Qed.

(* ================================================================== extraction (C15_coordinates) *)

(* ------------------------------------------------------------------ lists by index *)
Definition znth (l : list Z) (i : Z) : Z := nth (Z.to_nat i) l 0.

Lemma list_ext (a b : list Z) :
  zlen a = zlen b -> (forall i, 0 <= i < zlen a -> znth a i = znth b i) -> a = b.
Proof.
  intros Hl H. apply nth_ext with (d := 0) (d' := 0); [unfold zlen in Hl; lia|].
  intros k Hk. specialize (H (Z.of_nat k)). unfold znth in H. rewrite Nat2Z.id in H.
  apply H. unfold zlen. lia.
Qed.

Lemma nth_firstn_lt {A} (d : A) : forall k l n, (n < k)%nat -> nth n (firstn k l) d = nth n l d.
Proof.
  induction k as [|k IH]; intros l n H; [lia|].
  destruct l as [|x l]; [destruct n; reflexivity|].
  destruct n as [|n]; cbn; [reflexivity|apply IH; lia].
Qed.
Lemma nth_skipn_add {A} (d : A) : forall k l n, nth n (skipn k l) d = nth (k + n) l d.
Proof.
  induction k as [|k IH]; intros l n; [reflexivity|].
  destruct l as [|x l]; [destruct n; reflexivity|]. cbn. apply IH.
Qed.

Lemma zlen_app {A} (a b : list A) : zlen (a ++ b) = zlen a + zlen b.
Proof. unfold zlen. rewrite app_length. lia. Qed.
Lemma zlen_rev {A} (a : list A) : zlen (rev a) = zlen a.
Proof. unfold zlen. rewrite rev_length. reflexivity. Qed.
Lemma zlen_map {A B} (f : A -> B) (a : list A) : zlen (map f a) = zlen a.
Proof. unfold zlen. rewrite map_length. reflexivity. Qed.
Lemma zlen_slice {A} (l : list A) a b : 0 <= a -> a <= b -> b <= zlen l -> zlen (slice l a b) = b - a.
Proof. unfold slice, zlen. rewrite firstn_length, skipn_length. lia. Qed.
Lemma zlen_revcomp l : zlen (revcomp l) = zlen l.
Proof. unfold revcomp. rewrite zlen_rev, zlen_map. reflexivity. Qed.

Lemma znth_slice l a b i : 0 <= a -> 0 <= i < b - a -> znth (slice l a b) i = znth l (a + i).
Proof.
  intros Ha Hi. unfold znth, slice. rewrite nth_firstn_lt by lia. rewrite nth_skipn_add. f_equal. lia.
Qed.
Lemma znth_app1 a b i : 0 <= i < zlen a -> znth (a ++ b) i = znth a i.
Proof. intros Hi. unfold znth. apply app_nth1. unfold zlen in Hi. lia. Qed.
Lemma znth_app2 a b i : zlen a <= i -> znth (a ++ b) i = znth b (i - zlen a).
Proof.
  intros Hi. unfold znth, zlen in *. rewrite app_nth2 by lia. f_equal. lia.
Qed.
Lemma znth_rev l i : 0 <= i < zlen l -> znth (rev l) i = znth l (zlen l - 1 - i).
Proof.
  intros Hi. unfold znth, zlen in *. rewrite rev_nth by lia. f_equal. lia.
Qed.
Lemma znth_map f l i : 0 <= i < zlen l -> znth (map f l) i = f (znth l i).
Proof.
  intros Hi. unfold znth, zlen in *. rewrite nth_indep with (d' := f 0) by (rewrite map_length; lia).
  apply map_nth.
Qed.
Lemma znth_revcomp l i : 0 <= i < zlen l -> znth (revcomp l) i = comp (znth l (zlen l - 1 - i)).
Proof.
  intros Hi. unfold revcomp. rewrite znth_rev by (rewrite zlen_map; exact Hi).
  rewrite zlen_map. apply znth_map. lia.
Qed.

(* ------------------------------------------------------------------ the chunk of the genome *)
Definition wrap_pos (N z : Z) : Z := if z <? 0 then z + N else z.

Definition window_ok (N off end_ : Z) : Prop :=
  (0 <= off /\ off <= end_ /\ end_ <= N) \/ (- N <= off /\ off < 0 /\ 0 <= end_ /\ end_ <= N).

Lemma skipn_slice {A} (l : list A) a : 0 <= a <= zlen l -> skipn (Z.to_nat a) l = slice l a (zlen l).
Proof.
  intros Ha. unfold slice. rewrite firstn_all2; [reflexivity|]. rewrite skipn_length. unfold zlen in *. lia.
Qed.
Lemma firstn_slice {A} (l : list A) b : firstn (Z.to_nat b) l = slice l 0 b.
Proof. unfold slice. cbn [Z.to_nat skipn]. rewrite Z.sub_0_r. reflexivity. Qed.

Lemma zlen_chunk g off end_ : window_ok (zlen g) off end_ -> zlen (chunk g off end_) = end_ - off.
Proof.
  intros Hw. unfold chunk. destruct (0 <=? off) eqn:Ho.
  - destruct Hw as [H|H]; [|lia]. apply zlen_slice; lia.
  - destruct Hw as [H|H]; [lia|]. rewrite skipn_slice by lia. rewrite firstn_slice.
    rewrite zlen_app, !zlen_slice by lia. lia.
Qed.

Lemma znth_chunk g off end_ i : window_ok (zlen g) off end_ -> 0 <= i < end_ - off ->
  znth (chunk g off end_) i = znth g (wrap_pos (zlen g) (off + i)).
Proof.
  intros Hw Hi. unfold chunk, wrap_pos. destruct (0 <=? off) eqn:Ho.
  - destruct Hw as [H|H]; [|lia]. rewrite znth_slice by lia.
    destruct (off + i <? 0) eqn:Hn; [lia|reflexivity].
  - destruct Hw as [H|H]; [lia|]. rewrite skipn_slice by lia. rewrite firstn_slice.
    destruct (off + i <? 0) eqn:Hn.
    + rewrite znth_app1 by (rewrite zlen_slice; lia). rewrite znth_slice by lia. f_equal. lia.
    + rewrite znth_app2 by (rewrite zlen_slice; lia). rewrite zlen_slice by lia.
      rewrite znth_slice by lia. f_equal. lia.
Qed.

(* ------------------------------------------------------------------ the shape of a wrapped location *)
Lemma wrap_end x len N : 0 < N -> 1 <= len <= N ->
  (x + len - 1 + N) mod N + 1 =
  if (x + N) mod N + len <=? N then (x + N) mod N + len else (x + N) mod N + len - N.
Proof.
  intros HN Hlen.
  pose proof (Z.div_mod (x + N) N ltac:(lia)) as Hd.
  pose proof (Z.mod_pos_bound (x + N) N HN) as Hb.
  set (r := (x + N) mod N) in *. set (q := (x + N) / N) in *.
  destruct (r + len <=? N) eqn:Hc.
  - assert (H : r + len - 1 = (x + len - 1 + N) mod N); [|lia].
    apply Z.mod_unique with (q := q); lia.
  - assert (H : r + len - 1 - N = (x + len - 1 + N) mod N); [|lia].
    apply Z.mod_unique with (q := q + 1); lia.
Qed.

Definition ring_loc (N x' len direction : Z) : loc :=
  if x' + len <=? N then [mkPart x' (x' + len) direction]
  else if direction =? -1 then [mkPart 0 (x' + len - N) direction; mkPart x' N direction]
  else [mkPart x' N direction; mkPart 0 (x' + len - N) direction].

Lemma orf_location_shape direction offset n N s e :
  (direction = 1 \/ direction = -1) -> 0 < N -> s <= e -> e - s + 1 <= N ->
  let x := if direction =? 1 then s + offset else n + offset - e - 1 in
  orf_location direction offset n (Some N) (s, e) = ring_loc N ((x + N) mod N) (e - s + 1) direction.
Proof.
  intros Hdir HN Hse Hlen. cbn zeta. unfold orf_location, ring_loc.
  destruct Hdir as [-> | ->]; cbn [Z.eqb Pos.eqb].
  - replace (e + offset + 1 - 1 + N) with ((s + offset) + (e - s + 1) - 1 + N) by lia.
    rewrite wrap_end by lia.
    pose proof (Z.mod_pos_bound (s + offset + N) N HN) as Hb.
    destruct ((s + offset + N) mod N + (e - s + 1) <=? N) eqn:Hc.
    + destruct ((s + offset + N) mod N + (e - s + 1) <=? (s + offset + N) mod N) eqn:Hc2; [lia|reflexivity].
    + destruct ((s + offset + N) mod N + (e - s + 1) - N <=? (s + offset + N) mod N) eqn:Hc2; [reflexivity|lia].
  - replace (n + offset - s - 1 + N) with ((n + offset - e - 1) + (e - s + 1) - 1 + N) by lia.
    rewrite wrap_end by lia.
    pose proof (Z.mod_pos_bound (n + offset - e - 1 + N) N HN) as Hb.
    destruct ((n + offset - e - 1 + N) mod N + (e - s + 1) <=? N) eqn:Hc.
    + destruct ((n + offset - e - 1 + N) mod N + (e - s + 1) <=? (n + offset - e - 1 + N) mod N) eqn:Hc2; [lia|reflexivity].
    + destruct ((n + offset - e - 1 + N) mod N + (e - s + 1) - N <=? (n + offset - e - 1 + N) mod N) eqn:Hc2; [reflexivity|lia].
Qed.

(* for -N <= x < N the wrapped start is x or x + N *)
Lemma mod_wrap x N : 0 < N -> - N <= x < N -> (x + N) mod N = wrap_pos N x.
Proof.
  intros HN Hx. unfold wrap_pos. destruct (x <? 0) eqn:Hc.
  - symmetry. apply Z.mod_unique with (q := 0); lia.
  - symmetry. apply Z.mod_unique with (q := 1); lia.
Qed.


Lemma extract_single g p : extract g [p] = extract_part g p.
Proof. unfold extract. cbn [flat_map]. apply app_nil_r. Qed.
Lemma extract_two g p q : extract g [p; q] = extract_part g p ++ extract_part g q.
Proof. unfold extract. cbn [flat_map]. rewrite app_nil_r. reflexivity. Qed.

(* extraction of a (possibly wrapped) forward location: base i is genome base x' + i around the ring *)
Lemma extract_ring_fwd g x' len :
  0 <= x' < zlen g -> 1 <= len <= zlen g ->
  zlen (extract g (ring_loc (zlen g) x' len 1)) = len /\
  forall i, 0 <= i < len ->
    znth (extract g (ring_loc (zlen g) x' len 1)) i =
    znth g (if x' + i <? zlen g then x' + i else x' + i - zlen g).
Proof.
  intros Hx Hlen. unfold ring_loc. destruct (x' + len <=? zlen g) eqn:Hc.
  - rewrite extract_single. unfold extract_part. cbn [ps pe pst Z.eqb]. split; [rewrite zlen_slice by lia; lia|].
    intros i Hi. rewrite znth_slice by lia. destruct (x' + i <? zlen g) eqn:Hn; [reflexivity|lia].
  - cbn [Z.eqb]. rewrite extract_two. unfold extract_part. cbn [ps pe pst Z.eqb].
    split; [rewrite zlen_app, !zlen_slice by lia; lia|].
    intros i Hi. destruct (x' + i <? zlen g) eqn:Hn.
    + rewrite znth_app1 by (rewrite zlen_slice; lia). apply znth_slice; lia.
    + rewrite znth_app2 by (rewrite zlen_slice; lia). rewrite zlen_slice by lia.
      rewrite znth_slice by lia. f_equal. lia.
Qed.

(* the same on the reverse strand: base i is the complement of genome base x' + len - 1 - i *)
Lemma extract_ring_rev g x' len :
  0 <= x' < zlen g -> 1 <= len <= zlen g ->
  zlen (extract g (ring_loc (zlen g) x' len (-1))) = len /\
  forall i, 0 <= i < len ->
    znth (extract g (ring_loc (zlen g) x' len (-1))) i =
    comp (znth g (let z := x' + len - 1 - i in if z <? zlen g then z else z - zlen g)).
Proof.
  intros Hx Hlen. unfold ring_loc. cbn zeta. destruct (x' + len <=? zlen g) eqn:Hc.
  - rewrite extract_single. unfold extract_part. cbn [ps pe pst Z.eqb Pos.eqb].
    split; [rewrite zlen_revcomp, zlen_slice by lia; lia|].
    intros i Hi. rewrite znth_revcomp by (rewrite zlen_slice; lia). rewrite zlen_slice by lia.
    rewrite znth_slice by lia. destruct (x' + len - 1 - i <? zlen g) eqn:Hn; [f_equal; f_equal; lia|lia].
  - cbn [Z.eqb Pos.eqb]. rewrite extract_two. unfold extract_part. cbn [ps pe pst Z.eqb Pos.eqb].
    split; [rewrite zlen_app, !zlen_revcomp, !zlen_slice by lia; lia|].
    intros i Hi. destruct (x' + len - 1 - i <? zlen g) eqn:Hn.
    + rewrite znth_app2 by (rewrite zlen_revcomp, zlen_slice; lia).
      rewrite zlen_revcomp, zlen_slice by lia.
      rewrite znth_revcomp by (rewrite zlen_slice; lia). rewrite zlen_slice by lia.
      rewrite znth_slice by lia. f_equal. f_equal. lia.
    + rewrite znth_app1 by (rewrite zlen_revcomp, zlen_slice; lia).
      rewrite znth_revcomp by (rewrite zlen_slice; lia). rewrite zlen_slice by lia.
      rewrite znth_slice by lia. f_equal. f_equal. lia.
Qed.

(* MAIN: on a ring.  For every genome, every window of it (also one starting before the origin),
   both strands, and every stretch [s, e] of the window text not longer than the record: the location
   computed by scan_orfs for (s, e), extracted from the genome, is exactly that stretch of the text. *)
Lemma extract_orf_ring g off end_ direction s e :
  window_ok (zlen g) off end_ -> (direction = 1 \/ direction = -1) ->
  0 <= s -> s <= e -> e < end_ - off -> e - s + 1 <= zlen g ->
  extract g (orf_location direction off (zlen (window g off end_ direction)) (Some (zlen g)) (s, e)) =
  slice (window g off end_ direction) s (e + 1).
Proof.
  intros Hw Hdir Hs Hse He Hlen.
  assert (HN : 0 < zlen g) by lia.
  pose proof (zlen_chunk g off end_ Hw) as Hcl.
  assert (Hn : zlen (window g off end_ direction) = end_ - off).
  { unfold window. destruct (direction =? -1); [rewrite zlen_revcomp|]; exact Hcl. }
  rewrite Hn. rewrite (orf_location_shape direction off (end_ - off) (zlen g) s e Hdir HN Hse Hlen).
  assert (Hoff : - zlen g <= off /\ end_ <= zlen g) by (destruct Hw; lia).
  destruct Hdir as [-> | ->]; cbn [Z.eqb Pos.eqb]; unfold window; cbn [Z.eqb Pos.eqb].
  - rewrite mod_wrap by lia.
    assert (Hx : 0 <= wrap_pos (zlen g) (s + off) < zlen g) by (unfold wrap_pos; destruct (s + off <? 0) eqn:E; lia).
    destruct (extract_ring_fwd g (wrap_pos (zlen g) (s + off)) (e - s + 1) Hx ltac:(lia)) as [Hl Hnth].
    apply list_ext.
    + rewrite Hl, zlen_slice by lia. lia.
    + rewrite Hl. intros i Hi. rewrite Hnth by exact Hi. rewrite znth_slice by lia.
      rewrite znth_chunk by (try assumption; lia). f_equal.
      unfold wrap_pos. destruct (s + off <? 0) eqn:H1; destruct (off + (s + i) <? 0) eqn:H2;
        match goal with |- (if ?c then _ else _) = _ => destruct c eqn:H3 end; lia.
  - rewrite mod_wrap by lia.
    set (x := end_ - off + off - e - 1) in *.
    assert (Hx : 0 <= wrap_pos (zlen g) x < zlen g) by (unfold wrap_pos, x; destruct (end_ - off + off - e - 1 <? 0) eqn:E; lia).
    destruct (extract_ring_rev g (wrap_pos (zlen g) x) (e - s + 1) Hx ltac:(lia)) as [Hl Hnth].
    apply list_ext.
    + rewrite Hl, zlen_slice by (rewrite ?zlen_revcomp; lia). lia.
    + rewrite Hl. intros i Hi. rewrite Hnth by exact Hi. rewrite znth_slice by lia.
      rewrite znth_revcomp by lia. rewrite Hcl.
      rewrite znth_chunk by (try assumption; lia). f_equal. f_equal. cbn zeta.
      unfold wrap_pos, x. destruct (end_ - off + off - e - 1 <? 0) eqn:H1;
        destruct (off + (end_ - off - 1 - (s + i)) <? 0) eqn:H2;
        match goal with |- (if ?c then _ else _) = _ => destruct c eqn:H3 end; lia.
Qed.

(* on a line (no record length): window = genome[off:end_] *)
Lemma extract_orf_line g off end_ direction s e :
  0 <= off -> off <= end_ -> end_ <= zlen g -> (direction = 1 \/ direction = -1) ->
  0 <= s -> s <= e -> e < end_ - off ->
  extract g (orf_location direction off (zlen (window g off end_ direction)) None (s, e)) =
  slice (window g off end_ direction) s (e + 1).
Proof.
  intros Ho Hoe He Hdir Hs Hse Hen.
  assert (Hw : window_ok (zlen g) off end_) by (left; lia).
  pose proof (zlen_chunk g off end_ Hw) as Hcl.
  assert (Hn : zlen (window g off end_ direction) = end_ - off).
  { unfold window. destruct (direction =? -1); [rewrite zlen_revcomp|]; exact Hcl. }
  rewrite Hn. unfold orf_location, window.
  destruct Hdir as [-> | ->]; cbn [Z.eqb Pos.eqb]; rewrite extract_single; unfold extract_part;
    cbn [ps pe pst Z.eqb Pos.eqb].
  - apply list_ext.
    + rewrite !zlen_slice by lia. lia.
    + rewrite zlen_slice by lia. intros i Hi. rewrite !znth_slice by lia.
      rewrite znth_chunk by (try assumption; lia). f_equal. unfold wrap_pos.
      destruct (off + (s + i) <? 0) eqn:H; lia.
  - apply list_ext.
    + rewrite zlen_revcomp, !zlen_slice by (rewrite ?zlen_revcomp; lia). lia.
    + rewrite zlen_revcomp, zlen_slice by lia. intros i Hi.
      rewrite znth_revcomp by (rewrite zlen_slice; lia). rewrite zlen_slice by lia.
      rewrite !znth_slice by lia. rewrite znth_revcomp by lia. rewrite Hcl.
      rewrite znth_chunk by (try assumption; lia). f_equal. f_equal. unfold wrap_pos.
      destruct (off + (end_ - off - 1 - (s + i)) <? 0) eqn:H; lia.
Qed.


Lemma insert_by_In {A} (lt : A -> A -> bool) x y : forall l, In x (insert_by lt y l) <-> x = y \/ In x l.
Proof.
  induction l as [|z l IH]; cbn [insert_by].
  - cbn. intuition.
  - destruct (lt y z); cbn [In]; [intuition|]. rewrite IH. intuition.
Qed.
Lemma sort_by_In_acc {A} (lt : A -> A -> bool) x : forall l acc,
  In x (fold_left (fun acc y => insert_by lt y acc) l acc) <-> In x l \/ In x acc.
Proof.
  induction l as [|y l IH]; intros acc; cbn [fold_left].
  - cbn. intuition.
  - rewrite IH, insert_by_In. cbn [In]. intuition.
Qed.
Lemma sort_by_In {A} (lt : A -> A -> bool) x l : In x (sort_by lt l) <-> In x l.
Proof. unfold sort_by. rewrite sort_by_In_acc. cbn. intuition. Qed.

Lemma kinds_nth_bound : forall k l x, nth_error (kinds l) k = Some x -> (3 * k + 3 <= length l)%nat.
Proof.
  induction k as [|k IH]; intros l x H.
  - destruct l as [|a [|b [|c r]]]; cbn in H; try discriminate. cbn. lia.
  - destruct l as [|a [|b [|c r]]]; cbn in H; try discriminate. apply IH in H. cbn [length]. lia.
Qed.

(* every ORF of a frame lies inside the text *)
Lemma frame_orfs_bounds sequ frame minimum c : (frame <= 2)%nat ->
  In c (frame_orfs sequ frame minimum) -> 0 <= fst c /\ fst c <= snd c /\ snd c < zlen sequ.
Proof.
  intros Hf Hin. apply frame_orfs_spec in Hin. destruct Hin as (s & e & Horf & -> & _).
  destruct Horf as (Hse & _ & He & _). apply kinds_nth_bound in He. rewrite skipn_length in He.
  unfold orf_coords, zlen. cbn [fst snd]. lia.
Qed.

(* C15_coordinates, extraction form, tied to scan_orfs: every location returned by scan_orfs for a window
   of a circular genome (also a window starting before the origin; window not longer than the record)
   comes from an ORF [a, b] of some frame of the upper-cased window text, and extracting the location
   from the genome gives exactly the window text from a to b - the ORF, on the scanned strand. *)
Lemma scan_orfs_extract_ring g off end_ direction minimum l :
  window_ok (zlen g) off end_ -> end_ - off <= zlen g -> (direction = 1 \/ direction = -1) ->
  In l (scan_orfs (window g off end_ direction) direction off minimum (Some (zlen g))) ->
  exists frame a b, (frame <= 2)%nat /\
    In (a, b) (frame_orfs (map upper (window g off end_ direction)) frame minimum) /\
    0 <= a /\ a <= b /\ b < end_ - off /\
    l = orf_location direction off (end_ - off) (Some (zlen g)) (a, b) /\
    extract g l = slice (window g off end_ direction) a (b + 1).
Proof.
  intros Hw Hwl Hdir Hin. unfold scan_orfs in Hin. apply sort_by_In in Hin.
  assert (Hn : zlen (window g off end_ direction) = end_ - off).
  { pose proof (zlen_chunk g off end_ Hw) as Hcl. unfold window.
    destruct (direction =? -1); [rewrite zlen_revcomp|]; exact Hcl. }
  rewrite zlen_map, Hn in Hin.
  apply in_flat_map in Hin. destruct Hin as (frame & Hframe & Hin).
  apply in_map_iff in Hin. destruct Hin as ([a b] & Hl & Hc).
  assert (Hf : (frame <= 2)%nat) by (cbn in Hframe; lia).
  pose proof (frame_orfs_bounds _ _ _ _ Hf Hc) as Hb. rewrite zlen_map, Hn in Hb. cbn [fst snd] in Hb.
  exists frame, a, b. repeat split; try assumption; try lia; [symmetry; exact Hl|].
  subst l. rewrite <- Hn at 1. apply extract_orf_ring; try assumption; lia.
Qed.

Lemma scan_orfs_extract_line g off end_ direction minimum l :
  0 <= off -> off <= end_ -> end_ <= zlen g -> (direction = 1 \/ direction = -1) ->
  In l (scan_orfs (window g off end_ direction) direction off minimum None) ->
  exists frame a b, (frame <= 2)%nat /\
    In (a, b) (frame_orfs (map upper (window g off end_ direction)) frame minimum) /\
    0 <= a /\ a <= b /\ b < end_ - off /\
    extract g l = slice (window g off end_ direction) a (b + 1).
Proof.
  intros Ho Hoe He Hdir Hin. unfold scan_orfs in Hin. apply sort_by_In in Hin.
  assert (Hw : window_ok (zlen g) off end_) by (left; lia).
  assert (Hn : zlen (window g off end_ direction) = end_ - off).
  { pose proof (zlen_chunk g off end_ Hw) as Hcl. unfold window.
    destruct (direction =? -1); [rewrite zlen_revcomp|]; exact Hcl. }
  rewrite zlen_map in Hin.
  apply in_flat_map in Hin. destruct Hin as (frame & Hframe & Hin).
  apply in_map_iff in Hin. destruct Hin as ([a b] & Hl & Hc).
  assert (Hf : (frame <= 2)%nat) by (cbn in Hframe; lia).
  pose proof (frame_orfs_bounds _ _ _ _ Hf Hc) as Hb. rewrite zlen_map, Hn in Hb. cbn [fst snd] in Hb.
  exists frame, a, b. repeat split; try assumption; try lia.
  subst l. apply extract_orf_line; try assumption; lia.
Qed.

(* the decidable ORF specification evaluated on implementation outputs is the Prop *)
Lemma kind_is_spec ks j k : kind_is ks j k = true <-> nth_error ks j = Some k.
Proof.
  unfold kind_is. destruct (nth_error ks j) as [x|]; [|split; discriminate].
  destruct x, k; cbn; split; intros H; try reflexivity; try discriminate; inversion H.
Qed.

Lemma is_orf_b_spec ks s e : is_orf_b ks s e = true <-> is_orf ks s e.
Proof.
  unfold is_orf_b, is_orf.
  destruct (s <? e)%nat eqn:Hse; [|split; [discriminate|intros (H & _); apply Nat.ltb_ge in Hse; lia]].
  apply Nat.ltb_lt in Hse.
  destruct (kind_is ks s KStart) eqn:Hs;
    [|split; [discriminate|intros (_ & H & _); apply kind_is_spec in H; congruence]].
  destruct (kind_is ks e KStop) eqn:He;
    [|split; [discriminate|intros (_ & _ & H & _); apply kind_is_spec in H; congruence]].
  apply kind_is_spec in Hs. apply kind_is_spec in He.
  destruct (forallb (fun j => negb (kind_is ks j KStop)) (seq (S s) (e - S s))) eqn:Hmid.
  - rewrite forallb_forall in Hmid. rewrite forallb_forall. split.
    + intros Hpre. repeat split; try assumption.
      * intros j Hj Hk. specialize (Hmid j). rewrite in_seq in Hmid. specialize (Hmid ltac:(lia)).
        apply kind_is_spec in Hk. rewrite Hk in Hmid. discriminate.
      * intros j Hj Hk. specialize (Hpre j). rewrite in_seq in Hpre. specialize (Hpre ltac:(lia)).
        apply kind_is_spec in Hk. rewrite Hk in Hpre. apply existsb_exists in Hpre.
        destruct Hpre as (m & Hm & Hmk). rewrite in_seq in Hm. apply kind_is_spec in Hmk.
        exists m. split; [lia|exact Hmk].
    + intros (_ & _ & _ & _ & Hpre) j Hj. rewrite in_seq in Hj.
      destruct (kind_is ks j KStart) eqn:Hk; [|reflexivity]. apply kind_is_spec in Hk.
      destruct (Hpre j ltac:(lia) Hk) as (m & Hm & Hmk). apply existsb_exists.
      exists m. split; [rewrite in_seq; lia|apply kind_is_spec; exact Hmk].
  - split; [discriminate|]. intros (_ & _ & _ & Hno & _). exfalso.
    assert (Hall : forallb (fun j => negb (kind_is ks j KStop)) (seq (S s) (e - S s)) = true); [|congruence].
    apply forallb_forall. intros j Hj. rewrite in_seq in Hj.
    destruct (kind_is ks j KStop) eqn:Hk; [|reflexivity]. apply kind_is_spec in Hk.
    exfalso. apply (Hno j); [lia|exact Hk].
Qed.

Lemma orfs_spec_In ks s e : In (s, e) (orfs_spec ks) <-> is_orf ks s e.
Proof.
  unfold orfs_spec. rewrite filter_In, in_prod_iff, !in_seq. cbn [fst snd]. rewrite is_orf_b_spec.
  split; [intros [_ H]; exact H|]. intros H. split; [|exact H].
  destruct H as (Hse & Hs & He & _).
  assert (e < length ks)%nat by (apply nth_error_Some; congruence). lia.
Qed.

(* hence the model's loop and the specification's enumeration report the same ORFs *)
Lemma scan_kinds_orfs_spec ks s e : In (s, e) (scan_kinds ks 0 None) <-> In (s, e) (orfs_spec ks).
Proof. rewrite scan_sound_complete, orfs_spec_In. reflexivity. Qed.


(* ------------------------------------------------------------------ completeness of the gap search *)
(* x is free: outside every gene shrunk by the padding on both sides *)
Definition free (padding : Z) (genes : list (Z * Z)) (x : Z) : Prop :=
  Forall (fun g => x < fst g + padding \/ snd g - padding <= x) genes.

(* the areas before the minimum-length filter *)
Definition raw_areas (start end_ : Z) (genes : list (Z * Z)) (padding : Z) : list (Z * Z) :=
  let '(areas, last) := intergenic_go start end_ padding genes start [] in
  if last <? end_ then areas ++ [(Z.max start last, end_)] else areas.

Lemma find_intergenic_raw start end_ genes min_length padding a :
  In a (find_intergenic_areas start end_ genes min_length padding) <->
  In a (raw_areas start end_ genes padding) /\ min_length <= snd a - fst a.
Proof.
  unfold find_intergenic_areas, raw_areas.
  destruct (intergenic_go start end_ padding genes start []) as [areas last].
  rewrite filter_In. split; intros [H1 H2]; (split; [exact H1|lia]).
Qed.

Lemma go_cover start end_ padding : forall rest last acc, start <= last ->
  let '(areas, last') := intergenic_go start end_ padding rest last acc in
  (forall a, In a acc -> In a areas) /\ start <= last' /\
  forall x, start <= x < end_ -> last <= x -> free padding rest x ->
            (exists a, In a areas /\ fst a <= x < snd a) \/ last' <= x.
Proof.
  induction rest as [|[gs ge] rest IH]; intros last acc Hsl; cbn [intergenic_go].
  - split; [auto|]. split; [exact Hsl|]. intros x _ Hx _. right. exact Hx.
  - destruct (last <? gs + padding) eqn:Hgap.
    + specialize (IH (Z.max last (ge - padding)) (acc ++ [(Z.max start last, Z.min end_ (gs + padding))]) ltac:(lia)).
      destruct (intergenic_go start end_ padding rest (Z.max last (ge - padding))
                              (acc ++ [(Z.max start last, Z.min end_ (gs + padding))])) as [areas last'].
      destruct IH as (Hacc & Hs & Hcov). split; [intros a Ha; apply Hacc, in_or_app; left; exact Ha|].
      split; [exact Hs|]. intros x Hx Hlx Hfree. inversion Hfree as [|g r Hg Hr]; subst. cbn [fst snd] in Hg.
      destruct (Z_lt_ge_dec x (gs + padding)) as [Hlt|Hge].
      * left. exists (Z.max start last, Z.min end_ (gs + padding)). split.
        -- apply Hacc, in_or_app. right. left. reflexivity.
        -- cbn [fst snd]. lia.
      * apply Hcov; [exact Hx|lia|exact Hr].
    + destruct ((gs <=? last) && (last <=? ge)) eqn:Hin.
      * specialize (IH (Z.max last (ge - padding)) acc ltac:(lia)).
        destruct (intergenic_go start end_ padding rest (Z.max last (ge - padding)) acc) as [areas last'].
        destruct IH as (Hacc & Hs & Hcov). split; [exact Hacc|]. split; [exact Hs|].
        intros x Hx Hlx Hfree. inversion Hfree as [|g r Hg Hr]; subst. cbn [fst snd] in Hg.
        apply Hcov; [exact Hx|lia|exact Hr].
      * specialize (IH last acc Hsl).
        destruct (intergenic_go start end_ padding rest last acc) as [areas last'].
        destruct IH as (Hacc & Hs & Hcov). split; [exact Hacc|]. split; [exact Hs|].
        intros x Hx Hlx Hfree. inversion Hfree as [|g r Hg Hr]; subst.
        apply Hcov; [exact Hx|exact Hlx|exact Hr].
Qed.

(* every free position of [start, end) lies in an area (before the length filter), for every gene list *)
Lemma raw_areas_cover start end_ genes padding x :
  start <= x < end_ -> free padding genes x ->
  exists a, In a (raw_areas start end_ genes padding) /\ fst a <= x < snd a.
Proof.
  intros Hx Hfree. unfold raw_areas.
  pose proof (go_cover start end_ padding genes start [] (Z.le_refl _)) as H.
  destruct (intergenic_go start end_ padding genes start []) as [areas last].
  destruct H as (_ & Hs & Hcov). destruct (Hcov x Hx ltac:(lia) Hfree) as [(a & Ha & Hin)|Hlast].
  - exists a. split; [|exact Hin]. destruct (last <? end_); [apply in_or_app; left|]; exact Ha.
  - destruct (last <? end_) eqn:Hle; [|lia].
    exists (Z.max start last, end_). split; [apply in_or_app; right; left; reflexivity|]. cbn [fst snd]. lia.
Qed.

(* and every area consists of free positions of [start, end) when the genes are ordered by start *)
Lemma go_free start end_ padding : 0 <= padding -> forall rest seen last acc,
  start <= last -> Forall (fun g => snd g - padding <= last) seen -> starts_sorted rest ->
  Forall (fun a => forall x, fst a <= x < snd a -> start <= x < end_ /\ free padding (seen ++ rest) x) acc ->
  let '(areas, last') := intergenic_go start end_ padding rest last acc in
  start <= last' /\ Forall (fun g => snd g - padding <= last') (seen ++ rest) /\
  Forall (fun a => forall x, fst a <= x < snd a -> start <= x < end_ /\ free padding (seen ++ rest) x) areas.
Proof.
  intros Hpad. induction rest as [|[gs ge] rest IH]; intros seen last acc Hsl Hseen Hsorted Hacc.
  - cbn [intergenic_go]. rewrite app_nil_r in *. split; [lia|]. split; assumption.
  - cbn [intergenic_go]. destruct Hsorted as [Hfirst Hsorted].
    assert (Happ : seen ++ (gs, ge) :: rest = (seen ++ [(gs, ge)]) ++ rest) by (rewrite <- app_assoc; reflexivity).
    assert (Hseen' : forall l', last <= l' -> ge - padding <= l' ->
                     Forall (fun g => snd g - padding <= l') (seen ++ [(gs, ge)])).
    { intros l' H1 H2. apply Forall_app. split; [eapply Forall_impl; [|exact Hseen]; cbn; intros; lia|].
      constructor; [cbn; lia|constructor]. }
    destruct (last <? gs + padding) eqn:Hgap.
    + specialize (IH (seen ++ [(gs, ge)]) (Z.max last (ge - padding))
                     (acc ++ [(Z.max start last, Z.min end_ (gs + padding))])).
      rewrite <- Happ in IH.
      destruct (intergenic_go start end_ padding rest (Z.max last (ge - padding))
                              (acc ++ [(Z.max start last, Z.min end_ (gs + padding))])) as [areas last'].
      apply IH; try assumption; try lia; [apply Hseen'; lia|].
      apply Forall_app. split; [exact Hacc|]. constructor; [|constructor].
      cbn [fst snd]. intros x Hx. split; [lia|]. unfold free. apply Forall_app. split.
      * eapply Forall_impl; [|exact Hseen]. cbn. intros g Hg. right. lia.
      * constructor; [cbn [fst snd]; left; lia|].
        eapply Forall_impl; [|exact Hfirst]. cbn [fst]. intros g Hg. left. lia.
    + destruct ((gs <=? last) && (last <=? ge)) eqn:Hin.
      * specialize (IH (seen ++ [(gs, ge)]) (Z.max last (ge - padding)) acc).
        rewrite <- Happ in IH.
        destruct (intergenic_go start end_ padding rest (Z.max last (ge - padding)) acc) as [areas last'].
        apply IH; try assumption; try lia. apply Hseen'; lia.
      * specialize (IH (seen ++ [(gs, ge)]) last acc).
        rewrite <- Happ in IH.
        destruct (intergenic_go start end_ padding rest last acc) as [areas last'].
        apply IH; try assumption; try lia. apply Hseen'; lia.
Qed.

Lemma raw_areas_free start end_ genes padding a x :
  0 <= padding -> starts_sorted genes -> In a (raw_areas start end_ genes padding) -> fst a <= x < snd a ->
  start <= x < end_ /\ free padding genes x.
Proof.
  intros Hpad Hsorted Hin Hx. unfold raw_areas in Hin.
  pose proof (go_free start end_ padding Hpad genes [] start [] (Z.le_refl _) (Forall_nil _) Hsorted (Forall_nil _)) as H.
  destruct (intergenic_go start end_ padding genes start []) as [areas last].
  cbn [app] in H. destruct H as (Hs & Hlast & Hareas). rewrite Forall_forall in Hareas.
  destruct (last <? end_) eqn:Hle; [|exact (Hareas a Hin x Hx)].
  apply in_app_or in Hin. destruct Hin as [Hin|[<-|[]]]; [exact (Hareas a Hin x Hx)|].
  cbn [fst snd] in Hx. split; [lia|]. unfold free. eapply Forall_impl; [|exact Hlast].
  cbn. intros g Hg. right. lia.
Qed.

(* completeness: a free stretch [a, b) of [start, end) that cannot be extended (the position before it and
   the position after it are inside a shrunk gene or outside the range) and has the minimum length is
   reported as it is, provided every area is itself closed in that way - which holds when every gene is longer
   than twice the padding; stated here in the form that needs no such guard: every free position whose
   area is long enough lies in a reported area, and reported areas are free *)
Lemma find_intergenic_complete start end_ genes min_length padding x :
  start <= x < end_ -> free padding genes x ->
  exists a, In a (raw_areas start end_ genes padding) /\ fst a <= x < snd a /\
            (min_length <= snd a - fst a -> In a (find_intergenic_areas start end_ genes min_length padding)).
Proof.
  intros Hx Hfree. destruct (raw_areas_cover start end_ genes padding x Hx Hfree) as (a & Ha & Hin).
  exists a. split; [exact Ha|]. split; [exact Hin|]. intros Hmin. apply find_intergenic_raw. split; assumption.
Qed.
