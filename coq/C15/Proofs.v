(* C15 proofs: the scanning loop finds exactly the open reading frames of a frame; sortedness of the
   result; wrapped coordinates; intergenic areas overlap no gene by more than the padding. *)
From Coq Require Import Lia ZifyBool.
From ASV.C15 Require Import Model.

(* ------------------------------------------------------------------ the scanning loop *)
Section Scan.
Local Open Scope nat_scope.

(* An ORF of a frame, stated on the codon kinds by position only (no reference to the loop):
   [s] is a start codon, [e] the first stop codon after it, and every start codon before [s]
   (from position [k] on) is followed by a stop codon before [s] - i.e. [s] is the earliest
   start after the previous stop. *)
Definition orf_none (full : list kind) (k s e : nat) : Prop :=
  k <= s < e /\ nth_error full s = Some KStart /\ nth_error full e = Some KStop /\
  (forall j, s < j < e -> nth_error full j <> Some KStop) /\
  (forall j, k <= j < s -> nth_error full j = Some KStart ->
             exists m, j < m < s /\ nth_error full m = Some KStop).

(* the same with a start codon [s0] already pending when the scan reaches position [k] *)
Definition orf_some (full : list kind) (k s0 s e : nat) : Prop :=
  (s = s0 /\ k <= e /\ nth_error full e = Some KStop /\
   forall j, k <= j < e -> nth_error full j <> Some KStop)
  \/ (orf_none full k s e /\ exists m, k <= m < s /\ nth_error full m = Some KStop).

Definition orf_at full k (st : option nat) s e :=
  match st with None => orf_none full k s e | Some s0 => orf_some full k s0 s e end.

Lemma skipn_cons_inv {A} : forall k (l : list A) x r,
  skipn k l = x :: r -> nth_error l k = Some x /\ r = skipn (S k) l.
Proof.
  induction k as [|k IH]; intros l x r H.
  - destruct l as [|y l]; cbn in H; [discriminate|]. inversion H; subst. split; reflexivity.
  - destruct l as [|y l]; cbn in H; [discriminate|]. apply IH in H. exact H.
Qed.

Lemma skipn_nil_inv {A} : forall k (l : list A), skipn k l = [] -> forall j, k <= j -> nth_error l j = None.
Proof.
  intros k l H j Hj. apply nth_error_None.
  assert (Hl : length (skipn k l) = 0) by (rewrite H; reflexivity).
  rewrite skipn_length in Hl. lia.
Qed.

Lemma orf_none_up full k s e :
  orf_none full (S k) s e -> (exists m, S k <= m < s /\ nth_error full m = Some KStop) -> orf_none full k s e.
Proof.
  intros (Hr & Hs & He & Hmid & Hpre) (m & Hm & Hmk).
  repeat split; try assumption; try lia.
  intros j Hj Hjs. destruct (Nat.eq_dec j k) as [->|Hne].
  - exists m. split; [lia|exact Hmk].
  - apply Hpre; [lia|exact Hjs].
Qed.

Lemma orf_none_up_nostart full k s e :
  orf_none full (S k) s e -> nth_error full k <> Some KStart -> orf_none full k s e.
Proof.
  intros (Hr & Hs & He & Hmid & Hpre) Hk.
  repeat split; try assumption; try lia.
  intros j Hj Hjs. destruct (Nat.eq_dec j k) as [->|Hne]; [contradiction|].
  apply Hpre; [lia|exact Hjs].
Qed.

Lemma orf_none_down full k s e : orf_none full k s e -> s <> k -> orf_none full (S k) s e.
Proof.
  intros (Hr & Hs & He & Hmid & Hpre) Hne.
  repeat split; try assumption; try lia.
  intros j Hj Hjs. apply Hpre; [lia|exact Hjs].
Qed.

Lemma scan_gen full : forall ks k st, ks = skipn k full ->
  forall s e, In (s, e) (scan_kinds ks k st) <-> orf_at full k st s e.
Proof.
  induction ks as [|x ks IH]; intros k st Hks s e.
  - symmetry in Hks. pose proof (skipn_nil_inv _ _ Hks) as Hnone.
    split; [intros []|]. destruct st as [s0|]; cbn [orf_at].
    + intros [(_ & Hke & He & _)|((Hr & Hs & _) & _)].
      * rewrite Hnone in He by lia. discriminate.
      * rewrite Hnone in Hs by lia. discriminate.
    + intros (Hr & Hs & _). rewrite Hnone in Hs by lia. discriminate.
  - symmetry in Hks. destruct (skipn_cons_inv _ _ _ _ Hks) as [Hk Hrest].
    destruct x; destruct st as [s0|]; cbn [scan_kinds orf_at].
    + (* start codon, one already pending *)
      rewrite (IH (S k) (Some s0) Hrest). cbn [orf_at]. split.
      * intros [(-> & Hke & He & Hno)|(Hn & m & Hm & Hmk)].
        -- left. repeat split; try assumption; try lia.
           all: try solve [intros j Hj; destruct (Nat.eq_dec j k) as [->|Hne]; [rewrite Hk; discriminate|apply Hno; lia]].
        -- right. split; [apply orf_none_up; [exact Hn|exists m; split; [lia|exact Hmk]]|exists m; split; [lia|exact Hmk]].
      * intros [(-> & Hke & He & Hno)|(Hn & m & Hm & Hmk)].
        -- left. assert (e <> k) by (intros ->; rewrite Hk in He; discriminate).
           repeat split; try assumption; try lia. all: try solve [intros j Hj; apply Hno; lia].
        -- assert (m <> k) by (intros ->; rewrite Hk in Hmk; discriminate).
           right. split; [apply orf_none_down; [exact Hn|lia]|exists m; split; [lia|exact Hmk]].
    + (* start codon, none pending: it becomes the pending start *)
      rewrite (IH (S k) (Some k) Hrest). cbn [orf_at]. split.
      * intros [(-> & Hke & He & Hno)|(Hn & m & Hm & Hmk)].
        -- repeat split; try assumption; try lia.
           all: intros j Hj; try lia; apply Hno; lia.
        -- apply orf_none_up; [exact Hn|exists m; split; [lia|exact Hmk]].
      * intros Hn. destruct (Nat.eq_dec s k) as [->|Hne].
        -- left. destruct Hn as (Hr & Hs & He & Hmid & _). repeat split; try assumption; try lia.
           all: try solve [intros j Hj; apply Hmid; lia].
        -- right. split; [apply orf_none_down; assumption|].
           destruct Hn as (Hr & _ & _ & _ & Hpre). destruct (Hpre k) as (m & Hm & Hmk); [lia|exact Hk|].
           exists m. split; [lia|exact Hmk].
    + (* stop codon closing the pending start *)
      cbn [In]. rewrite (IH (S k) None Hrest). cbn [orf_at]. split.
      * intros [Heq|Hn].
        -- inversion Heq; subst. left. repeat split; try assumption; try lia. all: try solve [intros j Hj; lia].
        -- right. assert (S k <= s) by (destruct Hn as (Hr & _); lia).
           split; [apply orf_none_up_nostart; [exact Hn|rewrite Hk; discriminate]|exists k; split; [lia|exact Hk]].
      * intros [(-> & Hke & He & Hno)|(Hn & _)].
        -- left. destruct (Nat.eq_dec e k) as [->|Hne]; [reflexivity|].
           exfalso. apply (Hno k); [lia|exact Hk].
        -- right. apply orf_none_down; [exact Hn|].
           intros ->. destruct Hn as (_ & Hs & _). rewrite Hk in Hs. discriminate.
    + (* stop codon without a start *)
      rewrite (IH (S k) None Hrest). cbn [orf_at]. split.
      * intros Hn. apply orf_none_up_nostart; [exact Hn|rewrite Hk; discriminate].
      * intros Hn. apply orf_none_down; [exact Hn|].
        intros ->. destruct Hn as (_ & Hs & _). rewrite Hk in Hs. discriminate.
    + (* other codon, start pending *)
      rewrite (IH (S k) (Some s0) Hrest). cbn [orf_at]. split.
      * intros [(-> & Hke & He & Hno)|(Hn & m & Hm & Hmk)].
        -- left. repeat split; try assumption; try lia.
           all: try solve [intros j Hj; destruct (Nat.eq_dec j k) as [->|Hne]; [rewrite Hk; discriminate|apply Hno; lia]].
        -- right. split; [apply orf_none_up_nostart; [exact Hn|rewrite Hk; discriminate]|exists m; split; [lia|exact Hmk]].
      * intros [(-> & Hke & He & Hno)|(Hn & m & Hm & Hmk)].
        -- left. assert (e <> k) by (intros ->; rewrite Hk in He; discriminate).
           repeat split; try assumption; try lia. all: try solve [intros j Hj; apply Hno; lia].
        -- assert (m <> k) by (intros ->; rewrite Hk in Hmk; discriminate).
           right. split; [apply orf_none_down; [exact Hn|lia]|exists m; split; [lia|exact Hmk]].
    + (* other codon, nothing pending *)
      rewrite (IH (S k) None Hrest). cbn [orf_at]. split.
      * intros Hn. apply orf_none_up_nostart; [exact Hn|rewrite Hk; discriminate].
      * intros Hn. apply orf_none_down; [exact Hn|].
        intros ->. destruct Hn as (_ & Hs & _). rewrite Hk in Hs. discriminate.
Qed.

(* the ORFs of a frame: position-only statement *)
Definition is_orf (ks : list kind) (s e : nat) : Prop :=
  s < e /\ nth_error ks s = Some KStart /\ nth_error ks e = Some KStop /\
  (forall j, s < j < e -> nth_error ks j <> Some KStop) /\
  (forall j, j < s -> nth_error ks j = Some KStart -> exists m, j < m < s /\ nth_error ks m = Some KStop).

Lemma scan_sound_complete ks s e : In (s, e) (scan_kinds ks 0 None) <-> is_orf ks s e.
Proof.
  rewrite (scan_gen ks ks 0 None eq_refl). cbn [orf_at]. unfold orf_none, is_orf. split.
  - intros (Hr & Hs & He & Hmid & Hpre). repeat split; try assumption; try lia.
    intros j Hj. apply Hpre. lia.
  - intros (Hr & Hs & He & Hmid & Hpre). repeat split; try assumption; try lia.
    intros j Hj. apply Hpre. lia.
Qed.

(* no ORF is reported twice *)
Lemma scan_gen_bound : forall ks k st s e, In (s, e) (scan_kinds ks k st) ->
  k <= e /\ match st with Some s0 => s = s0 \/ k <= s | None => k <= s end.
Proof.
  induction ks as [|x ks IH]; intros k st s e Hin; [destruct Hin|].
  destruct x; destruct st as [s0|]; cbn [scan_kinds] in Hin.
  - apply IH in Hin. destruct Hin as [? [?|?]]; split; try lia; auto; right; lia.
  - apply IH in Hin. destruct Hin as [? [?|?]]; split; lia.
  - destruct Hin as [Heq|Hin]; [inversion Heq; subst; split; [lia|left; reflexivity]|].
    apply IH in Hin. split; [lia|right; lia].
  - apply IH in Hin. lia.
  - apply IH in Hin. destruct Hin as [? [?|?]]; split; try lia; auto; right; lia.
  - apply IH in Hin. lia.
Qed.

Lemma scan_NoDup : forall ks k st, (match st with Some s0 => s0 < k | None => True end) ->
  NoDup (scan_kinds ks k st).
Proof.
  induction ks as [|x ks IH]; intros k st Hst; [constructor|].
  destruct x; destruct st as [s0|]; cbn [scan_kinds]; try (apply IH; cbn; lia).
  constructor; [|apply IH; exact I].
  intros Hin. apply scan_gen_bound in Hin. lia.
Qed.

End Scan.

(* ------------------------------------------------------------------ frames and minimum length *)
Lemma frame_orfs_spec sequ frame minimum c :
  In c (frame_orfs sequ frame minimum) <->
  exists s e, is_orf (kinds (skipn frame sequ)) s e /\ c = orf_coords (Z.of_nat frame) (s, e) /\
              minimum <= snd c - fst c.
Proof.
  unfold frame_orfs. rewrite filter_In, in_map_iff. split.
  - intros [((s, e) & <- & Hin) Hlen]. exists s, e. rewrite <- scan_sound_complete.
    split; [exact Hin|]. split; [reflexivity|]. lia.
  - intros (s & e & Horf & -> & Hlen). split.
    + exists (s, e). split; [reflexivity|]. apply scan_sound_complete. exact Horf.
    + lia.
Qed.

(* window coordinates of an ORF: first base of the start codon, last base of the stop codon *)
Lemma orf_coords_frame frame s e :
  fst (orf_coords frame (s, e)) = frame + 3 * Z.of_nat s /\
  snd (orf_coords frame (s, e)) = frame + 3 * Z.of_nat e + 2.
Proof. split; reflexivity. Qed.

(* ------------------------------------------------------------------ coordinates on the record *)
(* forward strand, linear: the window coordinates shifted by the offset, end exclusive *)
Lemma orf_location_forward_linear offset n s e :
  orf_location 1 offset n None (s, e) = [mkPart (s + offset) (e + offset + 1) 1].
Proof. reflexivity. Qed.

(* reverse strand, linear: mirrored in the window of length n *)
Lemma orf_location_reverse_linear offset n s e :
  orf_location (-1) offset n None (s, e) = [mkPart (n + offset - e - 1) (n + offset - s) (-1)].
Proof. reflexivity. Qed.

Definition part_len (p : part) : Z := pe p - ps p.
Definition loc_len (l : loc) : Z := fold_right (fun p acc => part_len p + acc) 0 l.

(* On a ring of length N: whatever the offset (also negative: window starting before the origin),
   the reported parts lie inside the record, are non-empty, number at most two (the second
   starting/ending at the origin), keep the strand, and together have the ORF's length. *)
Lemma orf_location_ring direction offset n N s e :
  (direction = 1 \/ direction = -1) -> 0 < N -> 0 <= s -> s < e -> e - s + 1 <= N ->
  let l := orf_location direction offset n (Some N) (s, e) in
  loc_len l = e - s + 1 /\
  Forall (fun p => 0 <= ps p /\ ps p < pe p /\ pe p <= N /\ pst p = direction) l /\
  (exists a b, l = [mkPart a b direction] \/
     (direction = 1 /\ l = [mkPart a N 1; mkPart 0 b 1]) \/
     (direction = -1 /\ l = [mkPart 0 b (-1); mkPart a N (-1)])).
Proof.
  intros Hdir HN Hs Hse Hlen. cbn zeta. unfold orf_location.
  destruct Hdir as [->| ->]; cbn [Z.eqb Pos.eqb].
  - set (ls0 := s + offset). set (le0 := e + offset + 1).
    assert (Hspan : le0 - ls0 = e - s + 1) by (unfold ls0, le0; lia).
    pose proof (Z.mod_pos_bound (ls0 + N) N HN) as Hb1.
    pose proof (Z.mod_pos_bound (le0 - 1 + N) N HN) as Hb2.
    pose proof (Z.div_mod (ls0 + N) N ltac:(lia)) as Hd1.
    pose proof (Z.div_mod (le0 - 1 + N) N ltac:(lia)) as Hd2.
    set (ls := (ls0 + N) mod N) in *. set (le := (le0 - 1 + N) mod N + 1) in *.
    set (q1 := (ls0 + N) / N) in *. set (q2 := (le0 - 1 + N) / N) in *.
    assert (Hle : le - 1 = le0 - 1 + N - N * q2) by (unfold le; lia).
    assert (Hls : ls = ls0 + N - N * q1) by lia.
    assert (Hb3 : 1 <= le <= N) by (unfold le; lia).
    clearbody ls le q1 q2 ls0 le0. clear Hd1 Hd2 Hb2.
    assert (Hq : q2 = q1 \/ q2 = q1 + 1) by nia.
    destruct (le <=? ls) eqn:Hcmp.
    + assert (q2 = q1 + 1) by (destruct Hq as [Hq|Hq]; [subst q2; lia|assumption]). subst q2.
      unfold loc_len, part_len. cbn [fold_right ps pe]. split; [lia|]. split.
      * repeat constructor; cbn [ps pe pst]; lia.
      * exists ls, le. right. left. split; reflexivity.
    + assert (q2 = q1) by (destruct Hq as [Hq|Hq]; [assumption|subst q2; lia]). subst q2.
      unfold loc_len, part_len. cbn [fold_right ps pe]. split; [lia|]. split.
      * repeat constructor; cbn [ps pe pst]; lia.
      * exists ls, le. left. reflexivity.
  - set (ls0 := n + offset - e - 1). set (le0 := n + offset - s).
    assert (Hspan : le0 - ls0 = e - s + 1) by (unfold ls0, le0; lia).
    pose proof (Z.mod_pos_bound (ls0 + N) N HN) as Hb1.
    pose proof (Z.mod_pos_bound (le0 - 1 + N) N HN) as Hb2.
    pose proof (Z.div_mod (ls0 + N) N ltac:(lia)) as Hd1.
    pose proof (Z.div_mod (le0 - 1 + N) N ltac:(lia)) as Hd2.
    set (ls := (ls0 + N) mod N) in *. set (le := (le0 - 1 + N) mod N + 1) in *.
    set (q1 := (ls0 + N) / N) in *. set (q2 := (le0 - 1 + N) / N) in *.
    assert (Hle : le - 1 = le0 - 1 + N - N * q2) by (unfold le; lia).
    assert (Hls : ls = ls0 + N - N * q1) by lia.
    assert (Hb3 : 1 <= le <= N) by (unfold le; lia).
    clearbody ls le q1 q2 ls0 le0. clear Hd1 Hd2 Hb2.
    assert (Hq : q2 = q1 \/ q2 = q1 + 1) by nia.
    destruct (le <=? ls) eqn:Hcmp.
    + assert (q2 = q1 + 1) by (destruct Hq as [Hq|Hq]; [subst q2; lia|assumption]). subst q2.
      unfold loc_len, part_len. cbn [fold_right ps pe]. split; [lia|]. split.
      * repeat constructor; cbn [ps pe pst]; lia.
      * exists ls, le. right. right. split; reflexivity.
    + assert (q2 = q1) by (destruct Hq as [Hq|Hq]; [assumption|subst q2; lia]). subst q2.
      unfold loc_len, part_len. cbn [fold_right ps pe]. split; [lia|]. split.
      * repeat constructor; cbn [ps pe pst]; lia.
      * exists ls, le. left. reflexivity.
Qed.

(* ------------------------------------------------------------------ sortedness of the result *)
Section Sorted.
Context {A : Type} (key : A -> Z).
Let lt (a b : A) := key a <? key b.

Fixpoint sorted_key (l : list A) : Prop :=
  match l with
  | [] => True
  | x :: r => Forall (fun y => key x <= key y) r /\ sorted_key r
  end.

Lemma insert_by_sorted x : forall l, sorted_key l -> sorted_key (insert_by lt x l).
Proof.
  induction l as [|y l IH]; intros Hs; cbn [insert_by].
  - cbn. split; [constructor|exact I].
  - destruct Hs as [Hy Hs]. unfold lt at 1. destruct (key x <? key y) eqn:Hc.
    + cbn [sorted_key]. split; [|split; assumption].
      constructor; [lia|]. eapply Forall_impl; [|exact Hy]. cbn. intros; lia.
    + cbn [sorted_key]. split; [|apply IH; exact Hs].
      assert (Hall : forall l', Forall (fun z => key y <= key z) l' ->
                Forall (fun z => key y <= key z) (insert_by lt x l')).
      { induction l' as [|z l' IH']; intros Hf; cbn [insert_by].
        - constructor; [lia|constructor].
        - inversion Hf; subst. destruct (lt x z).
          + constructor; [lia|]. constructor; assumption.
          + constructor; [assumption|]. apply IH'; assumption. }
      apply Hall. exact Hy.
Qed.

Lemma sort_by_sorted_acc : forall l acc, sorted_key acc ->
  sorted_key (fold_left (fun acc x => insert_by lt x acc) l acc).
Proof.
  induction l as [|x l IH]; intros acc Hs; cbn [fold_left]; [exact Hs|].
  apply IH. apply insert_by_sorted. exact Hs.
Qed.

Lemma sort_by_sorted l : sorted_key (sort_by lt l).
Proof. unfold sort_by. apply sort_by_sorted_acc. exact I. Qed.
End Sorted.

Lemma scan_orfs_sorted sequ direction offset minimum rl :
  sorted_key loc_key (scan_orfs sequ direction offset minimum rl).
Proof. unfold scan_orfs. apply sort_by_sorted. Qed.

(* ------------------------------------------------------------------ intergenic areas *)
Definition overlap_len (a g : Z * Z) : Z := Z.min (snd a) (snd g) - Z.max (fst a) (fst g).

Fixpoint starts_sorted (genes : list (Z * Z)) : Prop :=
  match genes with
  | [] => True
  | g :: r => Forall (fun h => fst g <= fst h) r /\ starts_sorted r
  end.

(* invariant of the loop: [seen] are the genes already passed, [rest] those to come *)
Lemma intergenic_go_inv start end_ padding : 0 <= padding ->
  forall rest seen last acc,
  start <= last ->
  Forall (fun g => snd g - padding <= last) seen ->
  starts_sorted rest ->
  Forall (fun a => start <= fst a /\ snd a <= end_ /\
                   Forall (fun g => overlap_len a g <= padding) (seen ++ rest)) acc ->
  let '(areas, last') := intergenic_go start end_ padding rest last acc in
  last <= last' /\
  Forall (fun g => snd g - padding <= last') (seen ++ rest) /\
  Forall (fun a => start <= fst a /\ snd a <= end_ /\
                   Forall (fun g => overlap_len a g <= padding) (seen ++ rest)) areas.
Proof.
  intros Hpad. induction rest as [|[gs ge] rest IH]; intros seen last acc Hsl Hseen Hsorted Hacc.
  - cbn [intergenic_go]. rewrite app_nil_r in *. split; [lia|]. split; assumption.
  - cbn [intergenic_go]. destruct Hsorted as [Hfirst Hsorted].
    assert (Happ : seen ++ (gs, ge) :: rest = (seen ++ [(gs, ge)]) ++ rest) by (rewrite <- app_assoc; reflexivity).
    destruct (last <? gs + padding) eqn:Hgap.
    + specialize (IH (seen ++ [(gs, ge)]) (Z.max last (ge - padding))
                     (acc ++ [(Z.max start last, Z.min end_ (gs + padding))])).
      rewrite <- Happ in IH.
      destruct (intergenic_go start end_ padding rest (Z.max last (ge - padding))
                              (acc ++ [(Z.max start last, Z.min end_ (gs + padding))])) as [areas last'].
      destruct IH as (H1 & H2 & H3); try assumption; try lia.
      * apply Forall_app. split; [eapply Forall_impl; [|exact Hseen]; cbn; intros; lia|].
        constructor; [cbn; lia|constructor].
      * apply Forall_app. split; [exact Hacc|]. constructor; [|constructor].
        cbn [fst snd]. split; [lia|]. split; [lia|].
        apply Forall_app. split.
        -- eapply Forall_impl; [|exact Hseen]. intros [hs he]. unfold overlap_len. cbn [fst snd]. lia.
        -- constructor; [unfold overlap_len; cbn [fst snd]; lia|].
           eapply Forall_impl; [|exact Hfirst]. intros [hs he]. unfold overlap_len. cbn [fst snd]. lia.
      * split; [lia|]. split; assumption.
    + destruct ((gs <=? last) && (last <=? ge)) eqn:Hin.
      * specialize (IH (seen ++ [(gs, ge)]) (Z.max last (ge - padding)) acc).
        rewrite <- Happ in IH.
        destruct (intergenic_go start end_ padding rest (Z.max last (ge - padding)) acc) as [areas last'].
        destruct IH as (H1 & H2 & H3); try assumption; try lia.
        -- apply Forall_app. split; [eapply Forall_impl; [|exact Hseen]; cbn; intros; lia|].
           constructor; [cbn; lia|constructor].
        -- split; [lia|]. split; assumption.
      * specialize (IH (seen ++ [(gs, ge)]) last acc).
        rewrite <- Happ in IH.
        destruct (intergenic_go start end_ padding rest last acc) as [areas last'].
        destruct IH as (H1 & H2 & H3); try assumption; try lia.
        -- apply Forall_app. split; [exact Hseen|]. constructor; [cbn; lia|constructor].
        -- split; [lia|]. split; assumption.
Qed.

(* every reported area lies inside [start, end], overlaps no gene by more than the padding, and
   is at least the minimum length - for every list of genes ordered by start *)
Lemma find_intergenic_sound start end_ genes min_length padding :
  0 <= padding -> starts_sorted genes ->
  Forall (fun a => start <= fst a /\ snd a <= end_ /\ min_length <= snd a - fst a /\
                   Forall (fun g => overlap_len a g <= padding) genes)
         (find_intergenic_areas start end_ genes min_length padding).
Proof.
  intros Hpad Hsorted. unfold find_intergenic_areas.
  pose proof (intergenic_go_inv start end_ padding Hpad genes [] start [] (Z.le_refl _)
                                (Forall_nil _) Hsorted (Forall_nil _)) as Hinv.
  destruct (intergenic_go start end_ padding genes start []) as [areas last].
  cbn [app] in Hinv. destruct Hinv as (Hl & Hgenes & Hareas).
  apply Forall_forall. intros a Ha. apply filter_In in Ha. destruct Ha as [Ha Hmin].
  assert (Hall : Forall (fun a => start <= fst a /\ snd a <= end_ /\
                   Forall (fun g => overlap_len a g <= padding) genes)
                 (if last <? end_ then areas ++ [(Z.max start last, end_)] else areas)).
  { destruct (last <? end_) eqn:Hle; [|exact Hareas].
    apply Forall_app. split; [exact Hareas|]. constructor; [|constructor].
    cbn [fst snd]. split; [lia|]. split; [lia|].
    eapply Forall_impl; [|exact Hgenes]. intros [hs he]. unfold overlap_len. cbn [fst snd]. lia. }
  rewrite Forall_forall in Hall. destruct (Hall a Ha) as (H1 & H2 & H3).
  repeat split; try assumption. lia.
Qed.
