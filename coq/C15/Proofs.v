(* C15 proofs: the scanning loop finds exactly the open reading frames of a frame; sortedness of the
   result; wrapped coordinates; intergenic areas overlap no gene by more than the padding. *)
From Coq Require Import Lia ZifyBool.
From ASV.C15 Require Import Model.

(* ------------------------------------------------------------------ the scanning loop *)
Section Scan.
Local Open Scope nat_scope.

(* An ORF of a frame, stated on the codon kinds by position only (no reference to the loop):
   [s] is a start codon, [e] the first stop codon after it, and every start codon before [s]
   (from position [k] on) is followed by a stop codon before [s] - i.e. [s] is the earliest
   start after the previous stop. *)
Definition orf_none (full : list kind) (k s e : nat) : Prop :=
  k <= s < e /\ nth_error full s = Some KStart /\ nth_error full e = Some KStop /\
  (forall j, s < j < e -> nth_error full j <> Some KStop) /\
  (forall j, k <= j < s -> nth_error full j = Some KStart ->
             exists m, j < m < s /\ nth_error full m = Some KStop).

(* the same with a start codon [s0] already pending when the scan reaches position [k] *)
Definition orf_some (full : list kind) (k s0 s e : nat) : Prop :=
  (s = s0 /\ k <= e /\ nth_error full e = Some KStop /\
   forall j, k <= j < e -> nth_error full j <> Some KStop)
  \/ (orf_none full k s e /\ exists m, k <= m < s /\ nth_error full m = Some KStop).

Definition orf_at full k (st : option nat) s e :=
  match st with None => orf_none full k s e | Some s0 => orf_some full k s0 s e end.

Lemma skipn_cons_inv {A} : forall k (l : list A) x r,
  skipn k l = x :: r -> nth_error l k = Some x /\ r = skipn (S k) l.
Proof.
  induction k as [|k IH]; intros l x r H.
  - destruct l as [|y l]; cbn in H; [discriminate|]. inversion H; subst. split; reflexivity.
  - destruct l as [|y l]; cbn in H; [discriminate|]. apply IH in H. exact H.
Qed.

Lemma skipn_nil_inv {A} : forall k (l : list A), skipn k l = [] -> forall j, k <= j -> nth_error l j = None.
Proof.
  intros k l H j Hj. apply nth_error_None.
  assert (Hl : length (skipn k l) = 0) by (rewrite H; reflexivity).
  rewrite skipn_length in Hl. lia.
Qed.

Lemma orf_none_up full k s e :
  orf_none full (S k) s e -> (exists m, S k <= m < s /\ nth_error full m = Some KStop) -> orf_none full k s e.
Proof.
  intros (Hr & Hs & He & Hmid & Hpre) (m & Hm & Hmk).
  repeat split; try assumption; try lia.
  intros j Hj Hjs. destruct (Nat.eq_dec j k) as [->|Hne].
  - exists m. split; [lia|exact Hmk].
  - apply Hpre; [lia|exact Hjs].
Qed.

Lemma orf_none_up_nostart full k s e :
  orf_none full (S k) s e -> nth_error full k <> Some KStart -> orf_none full k s e.
Proof.
  intros (Hr & Hs & He & Hmid & Hpre) Hk.
  repeat split; try assumption; try lia.
  intros j Hj Hjs. destruct (Nat.eq_dec j k) as [->|Hne]; [contradiction|].
  apply Hpre; [lia|exact Hjs].
Qed.

Lemma orf_none_down full k s e : orf_none full k s e -> s <> k -> orf_none full (S k) s e.
Proof.
  intros (Hr & Hs & He & Hmid & Hpre) Hne.
  repeat split; try assumption; try lia.
  intros j Hj Hjs. apply Hpre; [lia|exact Hjs].
Qed.

Lemma scan_gen full : forall ks k st, ks = skipn k full ->
  forall s e, In (s, e) (scan_kinds ks k st) <-> orf_at full k st s e.
Proof.
  induction ks as [|x ks IH]; intros k st Hks s e.
  - symmetry in Hks. pose proof (skipn_nil_inv _ _ Hks) as Hnone.
    split; [intros []|]. destruct st as [s0|]; cbn [orf_at].
    + intros [(_ & Hke & He & _)|((Hr & Hs & _) & _)].
      * rewrite Hnone in He by lia. discriminate.
      * rewrite Hnone in Hs by lia. discriminate.
    + intros (Hr & Hs & _). rewrite Hnone in Hs by lia. discriminate.
  - symmetry in Hks. destruct (skipn_cons_inv _ _ _ _ Hks) as [Hk Hrest].
    destruct x; destruct st as [s0|]; cbn [scan_kinds orf_at].
    + (* start codon, one already pending *)
      rewrite (IH (S k) (Some s0) Hrest). cbn [orf_at]. split.
      * intros [(-> & Hke & He & Hno)|(Hn & m & Hm & Hmk)].
        -- left. repeat split; try assumption; try lia.
           all: try solve [intros j Hj; destruct (Nat.eq_dec j k) as [->|Hne]; [rewrite Hk; discriminate|apply Hno; lia]].
        -- right. split; [apply orf_none_up; [exact Hn|exists m; split; [lia|exact Hmk]]|exists m; split; [lia|exact Hmk]].
      * intros [(-> & Hke & He & Hno)|(Hn & m & Hm & Hmk)].
        -- left. assert (e <> k) by (intros ->; rewrite Hk in He; discriminate).
           repeat split; try assumption; try lia. all: try solve [intros j Hj; apply Hno; lia].
        -- assert (m <> k) by (intros ->; rewrite Hk in Hmk; discriminate).
           right. split; [apply orf_none_down; [exact Hn|lia]|exists m; split; [lia|exact Hmk]].
    + (* start codon, none pending: it becomes the pending start *)
      rewrite (IH (S k) (Some k) Hrest). cbn [orf_at]. split.
      * intros [(-> & Hke & He & Hno)|(Hn & m & Hm & Hmk)].
        -- repeat split; try assumption; try lia.
           all: intros j Hj; try lia; apply Hno; lia.
        -- apply orf_none_up; [exact Hn|exists m; split; [lia|exact Hmk]].
      * intros Hn. destruct (Nat.eq_dec s k) as [->|Hne].
        -- left. destruct Hn as (Hr & Hs & He & Hmid & _). repeat split; try assumption; try lia.
           all: try solve [intros j Hj; apply Hmid; lia].
        -- right. split; [apply orf_none_down; assumption|].
           destruct Hn as (Hr & _ & _ & _ & Hpre). destruct (Hpre k) as (m & Hm & Hmk); [lia|exact Hk|].
           exists m. split; [lia|exact Hmk].
    + (* stop codon closing the pending start *)
      cbn [In]. rewrite (IH (S k) None Hrest). cbn [orf_at]. split.
      * intros [Heq|Hn].
        -- inversion Heq; subst. left. repeat split; try assumption; try lia. all: try solve [intros j Hj; lia].
        -- right. assert (S k <= s) by (destruct Hn as (Hr & _); lia).
           split; [apply orf_none_up_nostart; [exact Hn|rewrite Hk; discriminate]|exists k; split; [lia|exact Hk]].
      * intros [(-> & Hke & He & Hno)|(Hn & _)].
        -- left. destruct (Nat.eq_dec e k) as [->|Hne]; [reflexivity|].
           exfalso. apply (Hno k); [lia|exact Hk].
        -- right. apply orf_none_down; [exact Hn|].
           intros ->. destruct Hn as (_ & Hs & _). rewrite Hk in Hs. discriminate.
    + (* stop codon without a start *)
      rewrite (IH (S k) None Hrest). cbn [orf_at]. split.
      * intros Hn. apply orf_none_up_nostart; [exact Hn|rewrite Hk; discriminate].
      * intros Hn. apply orf_none_down; [exact Hn|].
        intros ->. destruct Hn as (_ & Hs & _). rewrite Hk in Hs. discriminate.
    + (* other codon, start pending *)
      rewrite (IH (S k) (Some s0) Hrest). cbn [orf_at]. split.
      * intros [(-> & Hke & He & Hno)|(Hn & m & Hm & Hmk)].
        -- left. repeat split; try assumption; try lia.
           all: try solve [intros j Hj; destruct (Nat.eq_dec j k) as [->|Hne]; [rewrite Hk; discriminate|apply Hno; lia]].
        -- right. split; [apply orf_none_up_nostart; [exact Hn|rewrite Hk; discriminate]|exists m; split; [lia|exact Hmk]].
      * intros [(-> & Hke & He & Hno)|(Hn & m & Hm & Hmk)].
        -- left. assert (e <> k) by (intros ->; rewrite Hk in He; discriminate).
           repeat split; try assumption; try lia. all: try solve [intros j Hj; apply Hno; lia].
        -- assert (m <> k) by (intros ->; rewrite Hk in Hmk; discriminate).
           right. split; [apply orf_none_down; [exact Hn|lia]|exists m; split; [lia|exact Hmk]].
    + (* other codon, nothing pending *)
      rewrite (IH (S k) None Hrest). cbn [orf_at]. split.
      * intros Hn. apply orf_none_up_nostart; [exact Hn|rewrite Hk; discriminate].
      * intros Hn. apply orf_none_down; [exact Hn|].
        intros ->. destruct Hn as (_ & Hs & _). rewrite Hk in Hs. discriminate.
Qed.

(* the ORFs of a frame: position-only statement *)
Definition is_orf (ks : list kind) (s e : nat) : Prop :=
  s < e /\ nth_error ks s = Some KStart /\ nth_error ks e = Some KStop /\
  (forall j, s < j < e -> nth_error ks j <> Some KStop) /\
  (forall j, j < s -> nth_error ks j = Some KStart -> exists m, j < m < s /\ nth_error ks m = Some KStop).

Lemma scan_sound_complete ks s e : In (s, e) (scan_kinds ks 0 None) <-> is_orf ks s e.
Proof.
  rewrite (scan_gen ks ks 0 None eq_refl). cbn [orf_at]. unfold orf_none, is_orf. split.
  - intros (Hr & Hs & He & Hmid & Hpre). repeat split; try assumption; try lia.
    intros j Hj. apply Hpre. lia.
  - intros (Hr & Hs & He & Hmid & Hpre). repeat split; try assumption; try lia.
    intros j Hj. apply Hpre. lia.
Qed.

(* no ORF is reported twice *)
Lemma scan_gen_bound : forall ks k st s e, In (s, e) (scan_kinds ks k st) ->
  k <= e /\ match st with Some s0 => s = s0 \/ k <= s | None => k <= s end.
Proof.
  induction ks as [|x ks IH]; intros k st s e Hin; [destruct Hin|].
  destruct x; destruct st as [s0|]; cbn [scan_kinds] in Hin.
  - apply IH in Hin. destruct Hin as [? [?|?]]; split; try lia; auto; right; lia.
  - apply IH in Hin. destruct Hin as [? [?|?]]; split; lia.
  - destruct Hin as [Heq|Hin]; [inversion Heq; subst; split; [lia|left; reflexivity]|].
    apply IH in Hin. split; [lia|right; lia].
  - apply IH in Hin. lia.
  - apply IH in Hin. destruct Hin as [? [?|?]]; split; try lia; auto; right; lia.
  - apply IH in Hin. lia.
Qed.

Lemma scan_NoDup : forall ks k st, (match st with Some s0 => s0 < k | None => True end) ->
  NoDup (scan_kinds ks k st).
Proof.
  induction ks as [|x ks IH]; intros k st Hst; [constructor|].
  destruct x; destruct st as [s0|]; cbn [scan_kinds]; try (apply IH; cbn; lia).
  constructor; [|apply IH; exact I].
  intros Hin. apply scan_gen_bound in Hin. lia.
Qed.

End Scan.

(* ------------------------------------------------------------------ frames and minimum length *)
Lemma frame_orfs_spec sequ frame minimum c :
  In c (frame_orfs sequ frame minimum) <->
  exists s e, is_orf (kinds (skipn frame sequ)) s e /\ c = orf_coords (Z.of_nat frame) (s, e) /\
              minimum <= snd c - fst c.
Proof.
  unfold frame_orfs. rewrite filter_In, in_map_iff. split.
  - intros [((s, e) & <- & Hin) Hlen]. exists s, e. rewrite <- scan_sound_complete.
    split; [exact Hin|]. split; [reflexivity|]. lia.
  - intros (s & e & Horf & -> & Hlen). split.
    + exists (s, e). split; [reflexivity|]. apply scan_sound_complete. exact Horf.
    + lia.
Qed.

(* window coordinates of an ORF: first base of the start codon, last base of the stop codon *)
Lemma orf_coords_frame frame s e :
  fst (orf_coords frame (s, e)) = frame + 3 * Z.of_nat s /\
  snd (orf_coords frame (s, e)) = frame + 3 * Z.of_nat e + 2.
Proof. split; reflexivity. Qed.

(* ------------------------------------------------------------------ coordinates on the record *)
(* forward strand, linear: the window coordinates shifted by the offset, end exclusive *)
Lemma orf_location_forward_linear offset n s e :
  orf_location 1 offset n None (s, e) = [mkPart (s + offset) (e + offset + 1) 1].
Proof. reflexivity. Qed.

(* reverse strand, linear: mirrored in the window of length n *)
Lemma orf_location_reverse_linear offset n s e :
  orf_location (-1) offset n None (s, e) = [mkPart (n + offset - e - 1) (n + offset - s) (-1)].
Proof. reflexivity. Qed.

Definition part_len (p : part) : Z := pe p - ps p.
Definition loc_len (l : loc) : Z := fold_right (fun p acc => part_len p + acc) 0 l.

(* On a ring of length N: whatever the offset (also negative: window starting before the origin),
   the reported parts lie inside the record, are non-empty, number at most two (the second
   starting/ending at the origin), keep the strand, and together have the ORF's length. *)
Lemma orf_location_ring direction offset n N s e :
  (direction = 1 \/ direction = -1) -> 0 < N -> 0 <= s -> s < e -> e - s + 1 <= N ->
  let l := orf_location direction offset n (Some N) (s, e) in
  loc_len l = e - s + 1 /\
  Forall (fun p => 0 <= ps p /\ ps p < pe p /\ pe p <= N /\ pst p = direction) l /\
  (exists a b, l = [mkPart a b direction] \/
     (direction = 1 /\ l = [mkPart a N 1; mkPart 0 b 1]) \/
     (direction = -1 /\ l = [mkPart 0 b (-1); mkPart a N (-1)])).
Proof.
  intros Hdir HN Hs Hse Hlen. cbn zeta. unfold orf_location.
  destruct Hdir as [->| ->]; cbn [Z.eqb Pos.eqb].
  - set (ls0 := s + offset). set (le0 := e + offset + 1).
    assert (Hspan : le0 - ls0 = e - s + 1) by (unfold ls0, le0; lia).
    pose proof (Z.mod_pos_bound (ls0 + N) N HN) as Hb1.
    pose proof (Z.mod_pos_bound (le0 - 1 + N) N HN) as Hb2.
    pose proof (Z.div_mod (ls0 + N) N ltac:(lia)) as Hd1.
    pose proof (Z.div_mod (le0 - 1 + N) N ltac:(lia)) as Hd2.
    set (ls := (ls0 + N) mod N) in *. set (le := (le0 - 1 + N) mod N + 1) in *.
    set (q1 := (ls0 + N) / N) in *. set (q2 := (le0 - 1 + N) / N) in *.
    assert (Hle : le - 1 = le0 - 1 + N - N * q2) by (unfold le; lia).
    assert (Hls : ls = ls0 + N - N * q1) by lia.
    assert (Hb3 : 1 <= le <= N) by (unfold le; lia).
    clearbody ls le q1 q2 ls0 le0. clear Hd1 Hd2 Hb2.
    assert (Hq : q2 = q1 \/ q2 = q1 + 1) by nia.
    destruct (le <=? ls) eqn:Hcmp.
    + assert (q2 = q1 + 1) by (destruct Hq as [Hq|Hq]; [subst q2; lia|assumption]). subst q2.
      unfold loc_len, part_len. cbn [fold_right ps pe]. split; [lia|]. split.
      * repeat constructor; cbn [ps pe pst]; lia.
      * exists ls, le. right. left. split; reflexivity.
    + assert (q2 = q1) by (destruct Hq as [Hq|Hq]; [assumption|subst q2; lia]). subst q2.
      unfold loc_len, part_len. cbn [fold_right ps pe]. split; [lia|]. split.
      * repeat constructor; cbn [ps pe pst]; lia.
      * exists ls, le. left. reflexivity.
  - set (ls0 := n + offset - e - 1). set (le0 := n + offset - s).
    assert (Hspan : le0 - ls0 = e - s + 1) by (unfold ls0, le0; lia).
    pose proof (Z.mod_pos_bound (ls0 + N) N HN) as Hb1.
    pose proof (Z.mod_pos_bound (le0 - 1 + N) N HN) as Hb2.
    pose proof (Z.div_mod (ls0 + N) N ltac:(lia)) as Hd1.
    pose proof (Z.div_mod (le0 - 1 + N) N ltac:(lia)) as Hd2.
    set (ls := (ls0 + N) mod N) in *. set (le := (le0 - 1 + N) mod N + 1) in *.
    set (q1 := (ls0 + N) / N) in *. set (q2 := (le0 - 1 + N) / N) in *.
    assert (Hle : le - 1 = le0 - 1 + N - N * q2) by (unfold le; lia).
    assert (Hls : ls = ls0 + N - N * q1) by lia.
    assert (Hb3 : 1 <= le <= N) by (unfold le; lia).
    clearbody ls le q1 q2 ls0 le0. clear Hd1 Hd2 Hb2.
    assert (Hq : q2 = q1 \/ q2 = q1 + 1) by nia.
    destruct (le <=? ls) eqn:Hcmp.
    + assert (q2 = q1 + 1) by (destruct Hq as [Hq|Hq]; [subst q2; lia|assumption]). subst q2.
      unfold loc_len, part_len. cbn [fold_right ps pe]. split; [lia|]. split.
      * repeat constructor; cbn [ps pe pst]; lia.
      * exists ls, le. right. right. split; reflexivity.
    + assert (q2 = q1) by (destruct Hq as [Hq|Hq]; [assumption|subst q2; lia]). subst q2.
      unfold loc_len, part_len. cbn [fold_right ps pe]. split; [lia|]. split.
      * repeat constructor; cbn [ps pe pst]; lia.
      * exists ls, le. left. reflexivity.
Qed.

(* ------------------------------------------------------------------ sortedness of the result *)
Section Sorted.
Context {A : Type} (key : A -> Z).
Let lt (a b : A) := key a <? key b.

Fixpoint sorted_key (l : list A) : Prop :=
  match l with
  | [] => True
  | x :: r => Forall (fun y => key x <= key y) r /\ sorted_key r
  end.

Lemma insert_by_sorted x : forall l, sorted_key l -> sorted_key (insert_by lt x l).
Proof.
  induction l as [|y l IH]; intros Hs; cbn [insert_by].
  - cbn. split; [constructor|exact I].
  - destruct Hs as [Hy Hs]. unfold lt at 1. destruct (key x <? key y) eqn:Hc.
    + cbn [sorted_key]. split; [|split; assumption].
      constructor; [lia|]. eapply Forall_impl; [|exact Hy]. cbn. intros; lia.
    + cbn [sorted_key]. split; [|apply IH; exact Hs].
      assert (Hall : forall l', Forall (fun z => key y <= key z) l' ->
                Forall (fun z => key y <= key z) (insert_by lt x l')).
      { induction l' as [|z l' IH']; intros Hf; cbn [insert_by].
        - constructor; [lia|constructor].
        - inversion Hf; subst. destruct (lt x z).
          + constructor; [lia|]. constructor; assumption.
          + constructor; [assumption|]. apply IH'; assumption. }
      apply Hall. exact Hy.
Qed.

Lemma sort_by_sorted_acc : forall l acc, sorted_key acc ->
  sorted_key (fold_left (fun acc x => insert_by lt x acc) l acc).
Proof.
  induction l as [|x l IH]; intros acc Hs; cbn [fold_left]; [exact Hs|].
  apply IH. apply insert_by_sorted. exact Hs.
Qed.

Lemma sort_by_sorted l : sorted_key (sort_by lt l).
Proof. unfold sort_by. apply sort_by_sorted_acc. exact I. Qed.
End Sorted.

Lemma scan_orfs_sorted sequ direction offset minimum rl :
  sorted_key loc_key (scan_orfs sequ direction offset minimum rl).
Proof. unfold scan_orfs. apply sort_by_sorted. Qed.

(* ------------------------------------------------------------------ intergenic areas *)
Definition overlap_len (a g : Z * Z) : Z := Z.min (snd a) (snd g) - Z.max (fst a) (fst g).

Fixpoint starts_sorted (genes : list (Z * Z)) : Prop :=
  match genes with
  | [] => True
  | g :: r => Forall (fun h => fst g <= fst h) r /\ starts_sorted r
  end.

(* invariant of the loop: [seen] are the genes already passed, [rest] those to come *)
Lemma intergenic_go_inv start end_ padding : 0 <= padding ->
  forall rest seen last acc,
  start <= last ->
  Forall (fun g => snd g - padding <= last) seen ->
  starts_sorted rest ->
  Forall (fun a => start <= fst a /\ snd a <= end_ /\
                   Forall (fun g => overlap_len a g <= padding) (seen ++ rest)) acc ->
  let '(areas, last') := intergenic_go start end_ padding rest last acc in
  last <= last' /\
  Forall (fun g => snd g - padding <= last') (seen ++ rest) /\
  Forall (fun a => start <= fst a /\ snd a <= end_ /\
                   Forall (fun g => overlap_len a g <= padding) (seen ++ rest)) areas.
Proof.
  intros Hpad. induction rest as [|[gs ge] rest IH]; intros seen last acc Hsl Hseen Hsorted Hacc.
  - cbn [intergenic_go]. rewrite app_nil_r in *. split; [lia|]. split; assumption.
  - cbn [intergenic_go]. destruct Hsorted as [Hfirst Hsorted].
    assert (Happ : seen ++ (gs, ge) :: rest = (seen ++ [(gs, ge)]) ++ rest) by (rewrite <- app_assoc; reflexivity).
    destruct (last <? gs + padding) eqn:Hgap.
    + specialize (IH (seen ++ [(gs, ge)]) (Z.max last (ge - padding))
                     (acc ++ [(Z.max start last, Z.min end_ (gs + padding))])).
      rewrite <- Happ in IH.
      destruct (intergenic_go start end_ padding rest (Z.max last (ge - padding))
                              (acc ++ [(Z.max start last, Z.min end_ (gs + padding))])) as [areas last'].
      destruct IH as (H1 & H2 & H3); try assumption; try lia.
      * apply Forall_app. split; [eapply Forall_impl; [|exact Hseen]; cbn; intros; lia|].
        constructor; [cbn; lia|constructor].
      * apply Forall_app. split; [exact Hacc|]. constructor; [|constructor].
        cbn [fst snd]. split; [lia|]. split; [lia|].
        apply Forall_app. split.
        -- eapply Forall_impl; [|exact Hseen]. intros [hs he]. unfold overlap_len. cbn [fst snd]. lia.
        -- constructor; [unfold overlap_len; cbn [fst snd]; lia|].
           eapply Forall_impl; [|exact Hfirst]. intros [hs he]. unfold overlap_len. cbn [fst snd]. lia.
      * split; [lia|]. split; assumption.
    + destruct ((gs <=? last) && (last <=? ge)) eqn:Hin.
      * specialize (IH (seen ++ [(gs, ge)]) (Z.max last (ge - padding)) acc).
        rewrite <- Happ in IH.
        destruct (intergenic_go start end_ padding rest (Z.max last (ge - padding)) acc) as [areas last'].
        destruct IH as (H1 & H2 & H3); try assumption; try lia.
        -- apply Forall_app. split; [eapply Forall_impl; [|exact Hseen]; cbn; intros; lia|].
           constructor; [cbn; lia|constructor].
        -- split; [lia|]. split; assumption.
      * specialize (IH (seen ++ [(gs, ge)]) last acc).
        rewrite <- Happ in IH.
        destruct (intergenic_go start end_ padding rest last acc) as [areas last'].
        destruct IH as (H1 & H2 & H3); try assumption; try lia.
        -- apply Forall_app. split; [exact Hseen|]. constructor; [cbn; lia|constructor].
        -- split; [lia|]. split; assumption.
Qed.

(* every reported area lies inside [start, end], overlaps no gene by more than the padding, and
   is at least the minimum length - for every list of genes ordered by start *)
Lemma find_intergenic_sound start end_ genes min_length padding :
  0 <= padding -> starts_sorted genes ->
  Forall (fun a => start <= fst a /\ snd a <= end_ /\ min_length <= snd a - fst a /\
                   Forall (fun g => overlap_len a g <= padding) genes)
         (find_intergenic_areas start end_ genes min_length padding).
Proof.
  intros Hpad Hsorted. unfold find_intergenic_areas.
  pose proof (intergenic_go_inv start end_ padding Hpad genes [] start [] (Z.le_refl _)
                                (Forall_nil _) Hsorted (Forall_nil _)) as Hinv.
  destruct (intergenic_go start end_ padding genes start []) as [areas last].
  cbn [app] in Hinv. destruct Hinv as (Hl & Hgenes & Hareas).
  apply Forall_forall. intros a Ha. apply filter_In in Ha. destruct Ha as [Ha Hmin].
  assert (Hall : Forall (fun a => start <= fst a /\ snd a <= end_ /\
                   Forall (fun g => overlap_len a g <= padding) genes)
                 (if last <? end_ then areas ++ [(Z.max start last, end_)] else areas)).
  { destruct (last <? end_) eqn:Hle; [|exact Hareas].
    apply Forall_app. split; [exact Hareas|]. constructor; [|constructor].
    cbn [fst snd]. split; [lia|]. split; [lia|].
    eapply Forall_impl; [|exact Hgenes]. intros [hs he]. unfold overlap_len. cbn [fst snd]. lia. }
  rewrite Forall_forall in Hall. destruct (Hall a Ha) as (H1 & H2 & H3).
  repeat split; try assumption. lia.
Qed.

(* ================================================================== extraction (C15_coordinates) *)

(* ------------------------------------------------------------------ lists by index *)
Definition znth (l : list Z) (i : Z) : Z := nth (Z.to_nat i) l 0.

Lemma list_ext (a b : list Z) :
  zlen a = zlen b -> (forall i, 0 <= i < zlen a -> znth a i = znth b i) -> a = b.
Proof.
  intros Hl H. apply nth_ext with (d := 0) (d' := 0); [unfold zlen in Hl; lia|].
  intros k Hk. specialize (H (Z.of_nat k)). unfold znth in H. rewrite Nat2Z.id in H.
  apply H. unfold zlen. lia.
Qed.

Lemma nth_firstn_lt {A} (d : A) : forall k l n, (n < k)%nat -> nth n (firstn k l) d = nth n l d.
Proof.
  induction k as [|k IH]; intros l n H; [lia|].
  destruct l as [|x l]; [destruct n; reflexivity|].
  destruct n as [|n]; cbn; [reflexivity|apply IH; lia].
Qed.
Lemma nth_skipn_add {A} (d : A) : forall k l n, nth n (skipn k l) d = nth (k + n) l d.
Proof.
  induction k as [|k IH]; intros l n; [reflexivity|].
  destruct l as [|x l]; [destruct n; reflexivity|]. cbn. apply IH.
Qed.

Lemma zlen_app {A} (a b : list A) : zlen (a ++ b) = zlen a + zlen b.
Proof. unfold zlen. rewrite app_length. lia. Qed.
Lemma zlen_rev {A} (a : list A) : zlen (rev a) = zlen a.
Proof. unfold zlen. rewrite rev_length. reflexivity. Qed.
Lemma zlen_map {A B} (f : A -> B) (a : list A) : zlen (map f a) = zlen a.
Proof. unfold zlen. rewrite map_length. reflexivity. Qed.
Lemma zlen_slice {A} (l : list A) a b : 0 <= a -> a <= b -> b <= zlen l -> zlen (slice l a b) = b - a.
Proof. unfold slice, zlen. rewrite firstn_length, skipn_length. lia. Qed.
Lemma zlen_revcomp l : zlen (revcomp l) = zlen l.
Proof. unfold revcomp. rewrite zlen_rev, zlen_map. reflexivity. Qed.

Lemma znth_slice l a b i : 0 <= a -> 0 <= i < b - a -> znth (slice l a b) i = znth l (a + i).
Proof.
  intros Ha Hi. unfold znth, slice. rewrite nth_firstn_lt by lia. rewrite nth_skipn_add. f_equal. lia.
Qed.
Lemma znth_app1 a b i : 0 <= i < zlen a -> znth (a ++ b) i = znth a i.
Proof. intros Hi. unfold znth. apply app_nth1. unfold zlen in Hi. lia. Qed.
Lemma znth_app2 a b i : zlen a <= i -> znth (a ++ b) i = znth b (i - zlen a).
Proof.
  intros Hi. unfold znth, zlen in *. rewrite app_nth2 by lia. f_equal. lia.
Qed.
Lemma znth_rev l i : 0 <= i < zlen l -> znth (rev l) i = znth l (zlen l - 1 - i).
Proof.
  intros Hi. unfold znth, zlen in *. rewrite rev_nth by lia. f_equal. lia.
Qed.
Lemma znth_map f l i : 0 <= i < zlen l -> znth (map f l) i = f (znth l i).
Proof.
  intros Hi. unfold znth, zlen in *. rewrite nth_indep with (d' := f 0) by (rewrite map_length; lia).
  apply map_nth.
Qed.
Lemma znth_revcomp l i : 0 <= i < zlen l -> znth (revcomp l) i = comp (znth l (zlen l - 1 - i)).
Proof.
  intros Hi. unfold revcomp. rewrite znth_rev by (rewrite zlen_map; exact Hi).
  rewrite zlen_map. apply znth_map. lia.
Qed.

(* ------------------------------------------------------------------ the chunk of the genome *)
Definition wrap_pos (N z : Z) : Z := if z <? 0 then z + N else z.

Definition window_ok (N off end_ : Z) : Prop :=
  (0 <= off /\ off <= end_ /\ end_ <= N) \/ (- N <= off /\ off < 0 /\ 0 <= end_ /\ end_ <= N).

Lemma skipn_slice {A} (l : list A) a : 0 <= a <= zlen l -> skipn (Z.to_nat a) l = slice l a (zlen l).
Proof.
  intros Ha. unfold slice. rewrite firstn_all2; [reflexivity|]. rewrite skipn_length. unfold zlen in *. lia.
Qed.
Lemma firstn_slice {A} (l : list A) b : firstn (Z.to_nat b) l = slice l 0 b.
Proof. unfold slice. cbn [Z.to_nat skipn]. rewrite Z.sub_0_r. reflexivity. Qed.

Lemma zlen_chunk g off end_ : window_ok (zlen g) off end_ -> zlen (chunk g off end_) = end_ - off.
Proof.
  intros Hw. unfold chunk. destruct (0 <=? off) eqn:Ho.
  - destruct Hw as [H|H]; [|lia]. apply zlen_slice; lia.
  - destruct Hw as [H|H]; [lia|]. rewrite skipn_slice by lia. rewrite firstn_slice.
    rewrite zlen_app, !zlen_slice by lia. lia.
Qed.

Lemma znth_chunk g off end_ i : window_ok (zlen g) off end_ -> 0 <= i < end_ - off ->
  znth (chunk g off end_) i = znth g (wrap_pos (zlen g) (off + i)).
Proof.
  intros Hw Hi. unfold chunk, wrap_pos. destruct (0 <=? off) eqn:Ho.
  - destruct Hw as [H|H]; [|lia]. rewrite znth_slice by lia.
    destruct (off + i <? 0) eqn:Hn; [lia|reflexivity].
  - destruct Hw as [H|H]; [lia|]. rewrite skipn_slice by lia. rewrite firstn_slice.
    destruct (off + i <? 0) eqn:Hn.
    + rewrite znth_app1 by (rewrite zlen_slice; lia). rewrite znth_slice by lia. f_equal. lia.
    + rewrite znth_app2 by (rewrite zlen_slice; lia). rewrite zlen_slice by lia.
      rewrite znth_slice by lia. f_equal. lia.
Qed.

(* ------------------------------------------------------------------ the shape of a wrapped location *)
Lemma wrap_end x len N : 0 < N -> 1 <= len <= N ->
  (x + len - 1 + N) mod N + 1 =
  if (x + N) mod N + len <=? N then (x + N) mod N + len else (x + N) mod N + len - N.
Proof.
  intros HN Hlen.
  pose proof (Z.div_mod (x + N) N ltac:(lia)) as Hd.
  pose proof (Z.mod_pos_bound (x + N) N HN) as Hb.
  set (r := (x + N) mod N) in *. set (q := (x + N) / N) in *.
  destruct (r + len <=? N) eqn:Hc.
  - assert (H : r + len - 1 = (x + len - 1 + N) mod N); [|lia].
    apply Z.mod_unique with (q := q); lia.
  - assert (H : r + len - 1 - N = (x + len - 1 + N) mod N); [|lia].
    apply Z.mod_unique with (q := q + 1); lia.
Qed.

Definition ring_loc (N x' len direction : Z) : loc :=
  if x' + len <=? N then [mkPart x' (x' + len) direction]
  else if direction =? -1 then [mkPart 0 (x' + len - N) direction; mkPart x' N direction]
  else [mkPart x' N direction; mkPart 0 (x' + len - N) direction].

Lemma orf_location_shape direction offset n N s e :
  (direction = 1 \/ direction = -1) -> 0 < N -> s <= e -> e - s + 1 <= N ->
  let x := if direction =? 1 then s + offset else n + offset - e - 1 in
  orf_location direction offset n (Some N) (s, e) = ring_loc N ((x + N) mod N) (e - s + 1) direction.
Proof.
  intros Hdir HN Hse Hlen. cbn zeta. unfold orf_location, ring_loc.
  destruct Hdir as [-> | ->]; cbn [Z.eqb Pos.eqb].
  - replace (e + offset + 1 - 1 + N) with ((s + offset) + (e - s + 1) - 1 + N) by lia.
    rewrite wrap_end by lia.
    pose proof (Z.mod_pos_bound (s + offset + N) N HN) as Hb.
    destruct ((s + offset + N) mod N + (e - s + 1) <=? N) eqn:Hc.
    + destruct ((s + offset + N) mod N + (e - s + 1) <=? (s + offset + N) mod N) eqn:Hc2; [lia|reflexivity].
    + destruct ((s + offset + N) mod N + (e - s + 1) - N <=? (s + offset + N) mod N) eqn:Hc2; [reflexivity|lia].
  - replace (n + offset - s - 1 + N) with ((n + offset - e - 1) + (e - s + 1) - 1 + N) by lia.
    rewrite wrap_end by lia.
    pose proof (Z.mod_pos_bound (n + offset - e - 1 + N) N HN) as Hb.
    destruct ((n + offset - e - 1 + N) mod N + (e - s + 1) <=? N) eqn:Hc.
    + destruct ((n + offset - e - 1 + N) mod N + (e - s + 1) <=? (n + offset - e - 1 + N) mod N) eqn:Hc2; [lia|reflexivity].
    + destruct ((n + offset - e - 1 + N) mod N + (e - s + 1) - N <=? (n + offset - e - 1 + N) mod N) eqn:Hc2; [reflexivity|lia].
Qed.

(* for -N <= x < N the wrapped start is x or x + N *)
Lemma mod_wrap x N : 0 < N -> - N <= x < N -> (x + N) mod N = wrap_pos N x.
Proof.
  intros HN Hx. unfold wrap_pos. destruct (x <? 0) eqn:Hc.
  - symmetry. apply Z.mod_unique with (q := 0); lia.
  - symmetry. apply Z.mod_unique with (q := 1); lia.
Qed.


Lemma extract_single g p : extract g [p] = extract_part g p.
Proof. unfold extract. cbn [flat_map]. apply app_nil_r. Qed.
Lemma extract_two g p q : extract g [p; q] = extract_part g p ++ extract_part g q.
Proof. unfold extract. cbn [flat_map]. rewrite app_nil_r. reflexivity. Qed.

(* extraction of a (possibly wrapped) forward location: base i is genome base x' + i around the ring *)
Lemma extract_ring_fwd g x' len :
  0 <= x' < zlen g -> 1 <= len <= zlen g ->
  zlen (extract g (ring_loc (zlen g) x' len 1)) = len /\
  forall i, 0 <= i < len ->
    znth (extract g (ring_loc (zlen g) x' len 1)) i =
    znth g (if x' + i <? zlen g then x' + i else x' + i - zlen g).
Proof.
  intros Hx Hlen. unfold ring_loc. destruct (x' + len <=? zlen g) eqn:Hc.
  - rewrite extract_single. unfold extract_part. cbn [ps pe pst Z.eqb]. split; [rewrite zlen_slice by lia; lia|].
    intros i Hi. rewrite znth_slice by lia. destruct (x' + i <? zlen g) eqn:Hn; [reflexivity|lia].
  - cbn [Z.eqb]. rewrite extract_two. unfold extract_part. cbn [ps pe pst Z.eqb].
    split; [rewrite zlen_app, !zlen_slice by lia; lia|].
    intros i Hi. destruct (x' + i <? zlen g) eqn:Hn.
    + rewrite znth_app1 by (rewrite zlen_slice; lia). apply znth_slice; lia.
    + rewrite znth_app2 by (rewrite zlen_slice; lia). rewrite zlen_slice by lia.
      rewrite znth_slice by lia. f_equal. lia.
Qed.

(* the same on the reverse strand: base i is the complement of genome base x' + len - 1 - i *)
Lemma extract_ring_rev g x' len :
  0 <= x' < zlen g -> 1 <= len <= zlen g ->
  zlen (extract g (ring_loc (zlen g) x' len (-1))) = len /\
  forall i, 0 <= i < len ->
    znth (extract g (ring_loc (zlen g) x' len (-1))) i =
    comp (znth g (let z := x' + len - 1 - i in if z <? zlen g then z else z - zlen g)).
Proof.
  intros Hx Hlen. unfold ring_loc. cbn zeta. destruct (x' + len <=? zlen g) eqn:Hc.
  - rewrite extract_single. unfold extract_part. cbn [ps pe pst Z.eqb Pos.eqb].
    split; [rewrite zlen_revcomp, zlen_slice by lia; lia|].
    intros i Hi. rewrite znth_revcomp by (rewrite zlen_slice; lia). rewrite zlen_slice by lia.
    rewrite znth_slice by lia. destruct (x' + len - 1 - i <? zlen g) eqn:Hn; [f_equal; f_equal; lia|lia].
  - cbn [Z.eqb Pos.eqb]. rewrite extract_two. unfold extract_part. cbn [ps pe pst Z.eqb Pos.eqb].
    split; [rewrite zlen_app, !zlen_revcomp, !zlen_slice by lia; lia|].
    intros i Hi. destruct (x' + len - 1 - i <? zlen g) eqn:Hn.
    + rewrite znth_app2 by (rewrite zlen_revcomp, zlen_slice; lia).
      rewrite zlen_revcomp, zlen_slice by lia.
      rewrite znth_revcomp by (rewrite zlen_slice; lia). rewrite zlen_slice by lia.
      rewrite znth_slice by lia. f_equal. f_equal. lia.
    + rewrite znth_app1 by (rewrite zlen_revcomp, zlen_slice; lia).
      rewrite znth_revcomp by (rewrite zlen_slice; lia). rewrite zlen_slice by lia.
      rewrite znth_slice by lia. f_equal. f_equal. lia.
Qed.

(* MAIN: on a ring.  For every genome, every window of it (also one starting before the origin),
   both strands, and every stretch [s, e] of the window text not longer than the record: the location
   computed by scan_orfs for (s, e), extracted from the genome, is exactly that stretch of the text. *)
Lemma extract_orf_ring g off end_ direction s e :
  window_ok (zlen g) off end_ -> (direction = 1 \/ direction = -1) ->
  0 <= s -> s <= e -> e < end_ - off -> e - s + 1 <= zlen g ->
  extract g (orf_location direction off (zlen (window g off end_ direction)) (Some (zlen g)) (s, e)) =
  slice (window g off end_ direction) s (e + 1).
Proof.
  intros Hw Hdir Hs Hse He Hlen.
  assert (HN : 0 < zlen g) by lia.
  pose proof (zlen_chunk g off end_ Hw) as Hcl.
  assert (Hn : zlen (window g off end_ direction) = end_ - off).
  { unfold window. destruct (direction =? -1); [rewrite zlen_revcomp|]; exact Hcl. }
  rewrite Hn. rewrite (orf_location_shape direction off (end_ - off) (zlen g) s e Hdir HN Hse Hlen).
  assert (Hoff : - zlen g <= off /\ end_ <= zlen g) by (destruct Hw; lia).
  destruct Hdir as [-> | ->]; cbn [Z.eqb Pos.eqb]; unfold window; cbn [Z.eqb Pos.eqb].
  - rewrite mod_wrap by lia.
    assert (Hx : 0 <= wrap_pos (zlen g) (s + off) < zlen g) by (unfold wrap_pos; destruct (s + off <? 0) eqn:E; lia).
    destruct (extract_ring_fwd g (wrap_pos (zlen g) (s + off)) (e - s + 1) Hx ltac:(lia)) as [Hl Hnth].
    apply list_ext.
    + rewrite Hl, zlen_slice by lia. lia.
    + rewrite Hl. intros i Hi. rewrite Hnth by exact Hi. rewrite znth_slice by lia.
      rewrite znth_chunk by (try assumption; lia). f_equal.
      unfold wrap_pos. destruct (s + off <? 0) eqn:H1; destruct (off + (s + i) <? 0) eqn:H2;
        match goal with |- (if ?c then _ else _) = _ => destruct c eqn:H3 end; lia.
  - rewrite mod_wrap by lia.
    set (x := end_ - off + off - e - 1) in *.
    assert (Hx : 0 <= wrap_pos (zlen g) x < zlen g) by (unfold wrap_pos, x; destruct (end_ - off + off - e - 1 <? 0) eqn:E; lia).
    destruct (extract_ring_rev g (wrap_pos (zlen g) x) (e - s + 1) Hx ltac:(lia)) as [Hl Hnth].
    apply list_ext.
    + rewrite Hl, zlen_slice by (rewrite ?zlen_revcomp; lia). lia.
    + rewrite Hl. intros i Hi. rewrite Hnth by exact Hi. rewrite znth_slice by lia.
      rewrite znth_revcomp by lia. rewrite Hcl.
      rewrite znth_chunk by (try assumption; lia). f_equal. f_equal. cbn zeta.
      unfold wrap_pos, x. destruct (end_ - off + off - e - 1 <? 0) eqn:H1;
        destruct (off + (end_ - off - 1 - (s + i)) <? 0) eqn:H2;
        match goal with |- (if ?c then _ else _) = _ => destruct c eqn:H3 end; lia.
Qed.

(* on a line (no record length): window = genome[off:end_] *)
Lemma extract_orf_line g off end_ direction s e :
  0 <= off -> off <= end_ -> end_ <= zlen g -> (direction = 1 \/ direction = -1) ->
  0 <= s -> s <= e -> e < end_ - off ->
  extract g (orf_location direction off (zlen (window g off end_ direction)) None (s, e)) =
  slice (window g off end_ direction) s (e + 1).
Proof.
  intros Ho Hoe He Hdir Hs Hse Hen.
  assert (Hw : window_ok (zlen g) off end_) by (left; lia).
  pose proof (zlen_chunk g off end_ Hw) as Hcl.
  assert (Hn : zlen (window g off end_ direction) = end_ - off).
  { unfold window. destruct (direction =? -1); [rewrite zlen_revcomp|]; exact Hcl. }
  rewrite Hn. unfold orf_location, window.
  destruct Hdir as [-> | ->]; cbn [Z.eqb Pos.eqb]; rewrite extract_single; unfold extract_part;
    cbn [ps pe pst Z.eqb Pos.eqb].
  - apply list_ext.
    + rewrite !zlen_slice by lia. lia.
    + rewrite zlen_slice by lia. intros i Hi. rewrite !znth_slice by lia.
      rewrite znth_chunk by (try assumption; lia). f_equal. unfold wrap_pos.
      destruct (off + (s + i) <? 0) eqn:H; lia.
  - apply list_ext.
    + rewrite zlen_revcomp, !zlen_slice by (rewrite ?zlen_revcomp; lia). lia.
    + rewrite zlen_revcomp, zlen_slice by lia. intros i Hi.
      rewrite znth_revcomp by (rewrite zlen_slice; lia). rewrite zlen_slice by lia.
      rewrite !znth_slice by lia. rewrite znth_revcomp by lia. rewrite Hcl.
      rewrite znth_chunk by (try assumption; lia). f_equal. f_equal. unfold wrap_pos.
      destruct (off + (end_ - off - 1 - (s + i)) <? 0) eqn:H; lia.
Qed.


Lemma insert_by_In {A} (lt : A -> A -> bool) x y : forall l, In x (insert_by lt y l) <-> x = y \/ In x l.
Proof.
  induction l as [|z l IH]; cbn [insert_by].
  - cbn. intuition.
  - destruct (lt y z); cbn [In]; [intuition|]. rewrite IH. intuition.
Qed.
Lemma sort_by_In_acc {A} (lt : A -> A -> bool) x : forall l acc,
  In x (fold_left (fun acc y => insert_by lt y acc) l acc) <-> In x l \/ In x acc.
Proof.
  induction l as [|y l IH]; intros acc; cbn [fold_left].
  - cbn. intuition.
  - rewrite IH, insert_by_In. cbn [In]. intuition.
Qed.
Lemma sort_by_In {A} (lt : A -> A -> bool) x l : In x (sort_by lt l) <-> In x l.
Proof. unfold sort_by. rewrite sort_by_In_acc. cbn. intuition. Qed.

Lemma kinds_nth_bound : forall k l x, nth_error (kinds l) k = Some x -> (3 * k + 3 <= length l)%nat.
Proof.
  induction k as [|k IH]; intros l x H.
  - destruct l as [|a [|b [|c r]]]; cbn in H; try discriminate. cbn. lia.
  - destruct l as [|a [|b [|c r]]]; cbn in H; try discriminate. apply IH in H. cbn [length]. lia.
Qed.

(* every ORF of a frame lies inside the text *)
Lemma frame_orfs_bounds sequ frame minimum c : (frame <= 2)%nat ->
  In c (frame_orfs sequ frame minimum) -> 0 <= fst c /\ fst c <= snd c /\ snd c < zlen sequ.
Proof.
  intros Hf Hin. apply frame_orfs_spec in Hin. destruct Hin as (s & e & Horf & -> & _).
  destruct Horf as (Hse & _ & He & _). apply kinds_nth_bound in He. rewrite skipn_length in He.
  unfold orf_coords, zlen. cbn [fst snd]. lia.
Qed.

(* C15_coordinates, extraction form, tied to scan_orfs: every location returned by scan_orfs for a window
   of a circular genome (also a window starting before the origin; window not longer than the record)
   comes from an ORF [a, b] of some frame of the upper-cased window text, and extracting the location
   from the genome gives exactly the window text from a to b - the ORF, on the scanned strand. *)
Lemma scan_orfs_extract_ring g off end_ direction minimum l :
  window_ok (zlen g) off end_ -> end_ - off <= zlen g -> (direction = 1 \/ direction = -1) ->
  In l (scan_orfs (window g off end_ direction) direction off minimum (Some (zlen g))) ->
  exists frame a b, (frame <= 2)%nat /\
    In (a, b) (frame_orfs (map upper (window g off end_ direction)) frame minimum) /\
    0 <= a /\ a <= b /\ b < end_ - off /\
    l = orf_location direction off (end_ - off) (Some (zlen g)) (a, b) /\
    extract g l = slice (window g off end_ direction) a (b + 1).
Proof.
  intros Hw Hwl Hdir Hin. unfold scan_orfs in Hin. apply sort_by_In in Hin.
  assert (Hn : zlen (window g off end_ direction) = end_ - off).
  { pose proof (zlen_chunk g off end_ Hw) as Hcl. unfold window.
    destruct (direction =? -1); [rewrite zlen_revcomp|]; exact Hcl. }
  rewrite zlen_map, Hn in Hin.
  apply in_flat_map in Hin. destruct Hin as (frame & Hframe & Hin).
  apply in_map_iff in Hin. destruct Hin as ([a b] & Hl & Hc).
  assert (Hf : (frame <= 2)%nat) by (cbn in Hframe; lia).
  pose proof (frame_orfs_bounds _ _ _ _ Hf Hc) as Hb. rewrite zlen_map, Hn in Hb. cbn [fst snd] in Hb.
  exists frame, a, b. repeat split; try assumption; try lia; [symmetry; exact Hl|].
  subst l. rewrite <- Hn at 1. apply extract_orf_ring; try assumption; lia.
Qed.

Lemma scan_orfs_extract_line g off end_ direction minimum l :
  0 <= off -> off <= end_ -> end_ <= zlen g -> (direction = 1 \/ direction = -1) ->
  In l (scan_orfs (window g off end_ direction) direction off minimum None) ->
  exists frame a b, (frame <= 2)%nat /\
    In (a, b) (frame_orfs (map upper (window g off end_ direction)) frame minimum) /\
    0 <= a /\ a <= b /\ b < end_ - off /\
    extract g l = slice (window g off end_ direction) a (b + 1).
Proof.
  intros Ho Hoe He Hdir Hin. unfold scan_orfs in Hin. apply sort_by_In in Hin.
  assert (Hw : window_ok (zlen g) off end_) by (left; lia).
  assert (Hn : zlen (window g off end_ direction) = end_ - off).
  { pose proof (zlen_chunk g off end_ Hw) as Hcl. unfold window.
    destruct (direction =? -1); [rewrite zlen_revcomp|]; exact Hcl. }
  rewrite zlen_map in Hin.
  apply in_flat_map in Hin. destruct Hin as (frame & Hframe & Hin).
  apply in_map_iff in Hin. destruct Hin as ([a b] & Hl & Hc).
  assert (Hf : (frame <= 2)%nat) by (cbn in Hframe; lia).
  pose proof (frame_orfs_bounds _ _ _ _ Hf Hc) as Hb. rewrite zlen_map, Hn in Hb. cbn [fst snd] in Hb.
  exists frame, a, b. repeat split; try assumption; try lia.
  subst l. apply extract_orf_line; try assumption; lia.
Qed.

(* the decidable ORF specification evaluated on implementation outputs is the Prop *)
Lemma kind_is_spec ks j k : kind_is ks j k = true <-> nth_error ks j = Some k.
Proof.
  unfold kind_is. destruct (nth_error ks j) as [x|]; [|split; discriminate].
  destruct x, k; cbn; split; intros H; try reflexivity; try discriminate; inversion H.
Qed.

Lemma is_orf_b_spec ks s e : is_orf_b ks s e = true <-> is_orf ks s e.
Proof.
  unfold is_orf_b, is_orf.
  destruct (s <? e)%nat eqn:Hse; [|split; [discriminate|intros (H & _); apply Nat.ltb_ge in Hse; lia]].
  apply Nat.ltb_lt in Hse.
  destruct (kind_is ks s KStart) eqn:Hs;
    [|split; [discriminate|intros (_ & H & _); apply kind_is_spec in H; congruence]].
  destruct (kind_is ks e KStop) eqn:He;
    [|split; [discriminate|intros (_ & _ & H & _); apply kind_is_spec in H; congruence]].
  apply kind_is_spec in Hs. apply kind_is_spec in He.
  destruct (forallb (fun j => negb (kind_is ks j KStop)) (seq (S s) (e - S s))) eqn:Hmid.
  - rewrite forallb_forall in Hmid. rewrite forallb_forall. split.
    + intros Hpre. repeat split; try assumption.
      * intros j Hj Hk. specialize (Hmid j). rewrite in_seq in Hmid. specialize (Hmid ltac:(lia)).
        apply kind_is_spec in Hk. rewrite Hk in Hmid. discriminate.
      * intros j Hj Hk. specialize (Hpre j). rewrite in_seq in Hpre. specialize (Hpre ltac:(lia)).
        apply kind_is_spec in Hk. rewrite Hk in Hpre. apply existsb_exists in Hpre.
        destruct Hpre as (m & Hm & Hmk). rewrite in_seq in Hm. apply kind_is_spec in Hmk.
        exists m. split; [lia|exact Hmk].
    + intros (_ & _ & _ & _ & Hpre) j Hj. rewrite in_seq in Hj.
      destruct (kind_is ks j KStart) eqn:Hk; [|reflexivity]. apply kind_is_spec in Hk.
      destruct (Hpre j ltac:(lia) Hk) as (m & Hm & Hmk). apply existsb_exists.
      exists m. split; [rewrite in_seq; lia|apply kind_is_spec; exact Hmk].
  - split; [discriminate|]. intros (_ & _ & _ & Hno & _). exfalso.
    assert (Hall : forallb (fun j => negb (kind_is ks j KStop)) (seq (S s) (e - S s)) = true); [|congruence].
    apply forallb_forall. intros j Hj. rewrite in_seq in Hj.
    destruct (kind_is ks j KStop) eqn:Hk; [|reflexivity]. apply kind_is_spec in Hk.
    exfalso. apply (Hno j); [lia|exact Hk].
Qed.

Lemma orfs_spec_In ks s e : In (s, e) (orfs_spec ks) <-> is_orf ks s e.
Proof.
  unfold orfs_spec. rewrite filter_In, in_prod_iff, !in_seq. cbn [fst snd]. rewrite is_orf_b_spec.
  split; [intros [_ H]; exact H|]. intros H. split; [|exact H].
  destruct H as (Hse & Hs & He & _).
  assert (e < length ks)%nat by (apply nth_error_Some; congruence). lia.
Qed.

(* hence the model's loop and the specification's enumeration report the same ORFs *)
Lemma scan_kinds_orfs_spec ks s e : In (s, e) (scan_kinds ks 0 None) <-> In (s, e) (orfs_spec ks).
Proof. rewrite scan_sound_complete, orfs_spec_In. reflexivity. Qed.


(* ------------------------------------------------------------------ completeness of the gap search *)
(* x is free: outside every gene shrunk by the padding on both sides *)
Definition free (padding : Z) (genes : list (Z * Z)) (x : Z) : Prop :=
  Forall (fun g => x < fst g + padding \/ snd g - padding <= x) genes.

(* the areas before the minimum-length filter *)
Definition raw_areas (start end_ : Z) (genes : list (Z * Z)) (padding : Z) : list (Z * Z) :=
  let '(areas, last) := intergenic_go start end_ padding genes start [] in
  if last <? end_ then areas ++ [(Z.max start last, end_)] else areas.

Lemma find_intergenic_raw start end_ genes min_length padding a :
  In a (find_intergenic_areas start end_ genes min_length padding) <->
  In a (raw_areas start end_ genes padding) /\ min_length <= snd a - fst a.
Proof.
  unfold find_intergenic_areas, raw_areas.
  destruct (intergenic_go start end_ padding genes start []) as [areas last].
  rewrite filter_In. split; intros [H1 H2]; (split; [exact H1|lia]).
Qed.

Lemma go_cover start end_ padding : forall rest last acc, start <= last ->
  let '(areas, last') := intergenic_go start end_ padding rest last acc in
  (forall a, In a acc -> In a areas) /\ start <= last' /\
  forall x, start <= x < end_ -> last <= x -> free padding rest x ->
            (exists a, In a areas /\ fst a <= x < snd a) \/ last' <= x.
Proof.
  induction rest as [|[gs ge] rest IH]; intros last acc Hsl; cbn [intergenic_go].
  - split; [auto|]. split; [exact Hsl|]. intros x _ Hx _. right. exact Hx.
  - destruct (last <? gs + padding) eqn:Hgap.
    + specialize (IH (Z.max last (ge - padding)) (acc ++ [(Z.max start last, Z.min end_ (gs + padding))]) ltac:(lia)).
      destruct (intergenic_go start end_ padding rest (Z.max last (ge - padding))
                              (acc ++ [(Z.max start last, Z.min end_ (gs + padding))])) as [areas last'].
      destruct IH as (Hacc & Hs & Hcov). split; [intros a Ha; apply Hacc, in_or_app; left; exact Ha|].
      split; [exact Hs|]. intros x Hx Hlx Hfree. inversion Hfree as [|g r Hg Hr]; subst. cbn [fst snd] in Hg.
      destruct (Z_lt_ge_dec x (gs + padding)) as [Hlt|Hge].
      * left. exists (Z.max start last, Z.min end_ (gs + padding)). split.
        -- apply Hacc, in_or_app. right. left. reflexivity.
        -- cbn [fst snd]. lia.
      * apply Hcov; [exact Hx|lia|exact Hr].
    + destruct ((gs <=? last) && (last <=? ge)) eqn:Hin.
      * specialize (IH (Z.max last (ge - padding)) acc ltac:(lia)).
        destruct (intergenic_go start end_ padding rest (Z.max last (ge - padding)) acc) as [areas last'].
        destruct IH as (Hacc & Hs & Hcov). split; [exact Hacc|]. split; [exact Hs|].
        intros x Hx Hlx Hfree. inversion Hfree as [|g r Hg Hr]; subst. cbn [fst snd] in Hg.
        apply Hcov; [exact Hx|lia|exact Hr].
      * specialize (IH last acc Hsl).
        destruct (intergenic_go start end_ padding rest last acc) as [areas last'].
        destruct IH as (Hacc & Hs & Hcov). split; [exact Hacc|]. split; [exact Hs|].
        intros x Hx Hlx Hfree. inversion Hfree as [|g r Hg Hr]; subst.
        apply Hcov; [exact Hx|exact Hlx|exact Hr].
Qed.

(* every free position of [start, end) lies in an area (before the length filter), for every gene list *)
Lemma raw_areas_cover start end_ genes padding x :
  start <= x < end_ -> free padding genes x ->
  exists a, In a (raw_areas start end_ genes padding) /\ fst a <= x < snd a.
Proof.
  intros Hx Hfree. unfold raw_areas.
  pose proof (go_cover start end_ padding genes start [] (Z.le_refl _)) as H.
  destruct (intergenic_go start end_ padding genes start []) as [areas last].
  destruct H as (_ & Hs & Hcov). destruct (Hcov x Hx ltac:(lia) Hfree) as [(a & Ha & Hin)|Hlast].
  - exists a. split; [|exact Hin]. destruct (last <? end_); [apply in_or_app; left|]; exact Ha.
  - destruct (last <? end_) eqn:Hle; [|lia].
    exists (Z.max start last, end_). split; [apply in_or_app; right; left; reflexivity|]. cbn [fst snd]. lia.
Qed.

(* and every area consists of free positions of [start, end) when the genes are ordered by start *)
Lemma go_free start end_ padding : 0 <= padding -> forall rest seen last acc,
  start <= last -> Forall (fun g => snd g - padding <= last) seen -> starts_sorted rest ->
  Forall (fun a => forall x, fst a <= x < snd a -> start <= x < end_ /\ free padding (seen ++ rest) x) acc ->
  let '(areas, last') := intergenic_go start end_ padding rest last acc in
  start <= last' /\ Forall (fun g => snd g - padding <= last') (seen ++ rest) /\
  Forall (fun a => forall x, fst a <= x < snd a -> start <= x < end_ /\ free padding (seen ++ rest) x) areas.
Proof.
  intros Hpad. induction rest as [|[gs ge] rest IH]; intros seen last acc Hsl Hseen Hsorted Hacc.
  - cbn [intergenic_go]. rewrite app_nil_r in *. split; [lia|]. split; assumption.
  - cbn [intergenic_go]. destruct Hsorted as [Hfirst Hsorted].
    assert (Happ : seen ++ (gs, ge) :: rest = (seen ++ [(gs, ge)]) ++ rest) by (rewrite <- app_assoc; reflexivity).
    assert (Hseen' : forall l', last <= l' -> ge - padding <= l' ->
                     Forall (fun g => snd g - padding <= l') (seen ++ [(gs, ge)])).
    { intros l' H1 H2. apply Forall_app. split; [eapply Forall_impl; [|exact Hseen]; cbn; intros; lia|].
      constructor; [cbn; lia|constructor]. }
    destruct (last <? gs + padding) eqn:Hgap.
    + specialize (IH (seen ++ [(gs, ge)]) (Z.max last (ge - padding))
                     (acc ++ [(Z.max start last, Z.min end_ (gs + padding))])).
      rewrite <- Happ in IH.
      destruct (intergenic_go start end_ padding rest (Z.max last (ge - padding))
                              (acc ++ [(Z.max start last, Z.min end_ (gs + padding))])) as [areas last'].
      apply IH; try assumption; try lia; [apply Hseen'; lia|].
      apply Forall_app. split; [exact Hacc|]. constructor; [|constructor].
      cbn [fst snd]. intros x Hx. split; [lia|]. unfold free. apply Forall_app. split.
      * eapply Forall_impl; [|exact Hseen]. cbn. intros g Hg. right. lia.
      * constructor; [cbn [fst snd]; left; lia|].
        eapply Forall_impl; [|exact Hfirst]. cbn [fst]. intros g Hg. left. lia.
    + destruct ((gs <=? last) && (last <=? ge)) eqn:Hin.
      * specialize (IH (seen ++ [(gs, ge)]) (Z.max last (ge - padding)) acc).
        rewrite <- Happ in IH.
        destruct (intergenic_go start end_ padding rest (Z.max last (ge - padding)) acc) as [areas last'].
        apply IH; try assumption; try lia. apply Hseen'; lia.
      * specialize (IH (seen ++ [(gs, ge)]) last acc).
        rewrite <- Happ in IH.
        destruct (intergenic_go start end_ padding rest last acc) as [areas last'].
        apply IH; try assumption; try lia. apply Hseen'; lia.
Qed.

Lemma raw_areas_free start end_ genes padding a x :
  0 <= padding -> starts_sorted genes -> In a (raw_areas start end_ genes padding) -> fst a <= x < snd a ->
  start <= x < end_ /\ free padding genes x.
Proof.
  intros Hpad Hsorted Hin Hx. unfold raw_areas in Hin.
  pose proof (go_free start end_ padding Hpad genes [] start [] (Z.le_refl _) (Forall_nil _) Hsorted (Forall_nil _)) as H.
  destruct (intergenic_go start end_ padding genes start []) as [areas last].
  cbn [app] in H. destruct H as (Hs & Hlast & Hareas). rewrite Forall_forall in Hareas.
  destruct (last <? end_) eqn:Hle; [|exact (Hareas a Hin x Hx)].
  apply in_app_or in Hin. destruct Hin as [Hin|[<-|[]]]; [exact (Hareas a Hin x Hx)|].
  cbn [fst snd] in Hx. split; [lia|]. unfold free. eapply Forall_impl; [|exact Hlast].
  cbn. intros g Hg. right. lia.
Qed.

(* completeness: a free stretch [a, b) of [start, end) that cannot be extended (the position before it and
   the position after it are inside a shrunk gene or outside the range) and has the minimum length is
   reported as it is, provided every area is itself closed in that way - which holds when every gene is longer
   than twice the padding; stated here in the form that needs no such guard: every free position whose
   area is long enough lies in a reported area, and reported areas are free *)
Lemma find_intergenic_complete start end_ genes min_length padding x :
  start <= x < end_ -> free padding genes x ->
  exists a, In a (raw_areas start end_ genes padding) /\ fst a <= x < snd a /\
            (min_length <= snd a - fst a -> In a (find_intergenic_areas start end_ genes min_length padding)).
Proof.
  intros Hx Hfree. destruct (raw_areas_cover start end_ genes padding x Hx Hfree) as (a & Ha & Hin).
  exists a. split; [exact Ha|]. split; [exact Hin|]. intros Hmin. apply find_intergenic_raw. split; assumption.
Qed.

(* ================================================================== per-area maximality *)
(* x is blocked: inside some gene shrunk by the padding on both sides (the negation of free) *)
Definition blocked (padding : Z) (genes : list (Z * Z)) (x : Z) : Prop :=
  Exists (fun g => fst g + padding <= x < snd g - padding) genes.

Lemma blocked_not_free padding genes x : blocked padding genes x -> ~ free padding genes x.
Proof.
  unfold blocked, free. intros Hb Hf. apply Exists_exists in Hb. destruct Hb as (g & Hin & Hg).
  rewrite Forall_forall in Hf. specialize (Hf g Hin). lia.
Qed.

(* every gene is longer than twice the padding (so that shrinking it leaves at least one position) *)
Definition long_genes (padding : Z) (genes : list (Z * Z)) : Prop :=
  Forall (fun g => 2 * padding < snd g - fst g) genes.

Definition lclosed (start padding : Z) (genes : list (Z * Z)) (x : Z) : Prop :=
  x = start \/ blocked padding genes (x - 1).
Definition rclosed (end_ padding : Z) (genes : list (Z * Z)) (x : Z) : Prop :=
  x = end_ \/ blocked padding genes x.

Lemma go_maximal start end_ padding all : long_genes padding all ->
  forall rest last acc, incl rest all -> start <= last -> lclosed start padding all last ->
  Forall (fun a => lclosed start padding all (fst a) /\ rclosed end_ padding all (snd a)) acc ->
  let '(areas, last') := intergenic_go start end_ padding rest last acc in
  start <= last' /\ lclosed start padding all last' /\
  Forall (fun a => lclosed start padding all (fst a) /\ rclosed end_ padding all (snd a)) areas.
Proof.
  intros Hlong. induction rest as [|[gs ge] rest IH]; intros last acc Hincl Hsl Hlast Hacc; cbn [intergenic_go].
  - split; [exact Hsl|]. split; assumption.
  - assert (Hin : In (gs, ge) all) by (apply Hincl; left; reflexivity).
    assert (Hincl' : incl rest all) by (intros g Hg; apply Hincl; right; exact Hg).
    assert (Hlen : 2 * padding < ge - gs).
    { unfold long_genes in Hlong. rewrite Forall_forall in Hlong. exact (Hlong _ Hin). }
    assert (Hlast' : lclosed start padding all (Z.max last (ge - padding))).
    { destruct (Z_le_gt_dec (ge - padding) last) as [Hle|Hgt].
      - rewrite Z.max_l by lia. exact Hlast.
      - rewrite Z.max_r by lia. right. unfold blocked. apply Exists_exists.
        exists (gs, ge). split; [exact Hin|]. cbn [fst snd]. lia. }
    destruct (last <? gs + padding) eqn:Hgap.
    + specialize (IH (Z.max last (ge - padding)) (acc ++ [(Z.max start last, Z.min end_ (gs + padding))])
                     Hincl' ltac:(lia) Hlast').
      destruct (intergenic_go start end_ padding rest (Z.max last (ge - padding))
                              (acc ++ [(Z.max start last, Z.min end_ (gs + padding))])) as [areas last'].
      apply IH. apply Forall_app. split; [exact Hacc|]. constructor; [|constructor]. cbn [fst snd]. split.
      * rewrite Z.max_r by lia. exact Hlast.
      * destruct (Z_le_gt_dec end_ (gs + padding)) as [Hle|Hgt].
        -- left. lia.
        -- right. rewrite Z.min_r by lia. unfold blocked. apply Exists_exists.
           exists (gs, ge). split; [exact Hin|]. cbn [fst snd]. lia.
    + destruct ((gs <=? last) && (last <=? ge)) eqn:Hinside.
      * specialize (IH (Z.max last (ge - padding)) acc Hincl' ltac:(lia) Hlast' Hacc).
        destruct (intergenic_go start end_ padding rest (Z.max last (ge - padding)) acc) as [areas last'].
        exact IH.
      * specialize (IH last acc Hincl' Hsl Hlast Hacc).
        destruct (intergenic_go start end_ padding rest last acc) as [areas last']. exact IH.
Qed.

(* every area (before the length filter) is closed on both sides: it begins at the range start or just
   after a blocked position, and ends at the range end or on a blocked position - for EVERY gene list
   whose genes are longer than twice the padding *)
Lemma raw_areas_maximal start end_ genes padding a :
  long_genes padding genes -> In a (raw_areas start end_ genes padding) ->
  lclosed start padding genes (fst a) /\ rclosed end_ padding genes (snd a).
Proof.
  intros Hlong Hin. unfold raw_areas in Hin.
  pose proof (go_maximal start end_ padding genes Hlong genes start [] (incl_refl _) (Z.le_refl _)
                         (or_introl eq_refl) (Forall_nil _)) as H.
  destruct (intergenic_go start end_ padding genes start []) as [areas last].
  destruct H as (Hs & Hlast & Hareas). rewrite Forall_forall in Hareas.
  destruct (last <? end_) eqn:Hle; [|exact (Hareas a Hin)].
  apply in_app_or in Hin. destruct Hin as [Hin|[<-|[]]]; [exact (Hareas a Hin)|].
  cbn [fst snd]. split; [rewrite Z.max_r by lia; exact Hlast|left; reflexivity].
Qed.

(* a maximal free run of [start, end): non-empty, all positions free, not extendable on either side *)
Definition free_run (start end_ padding : Z) (genes : list (Z * Z)) (a b : Z) : Prop :=
  start <= a /\ a < b /\ b <= end_ /\
  (forall x, a <= x < b -> free padding genes x) /\
  (a = start \/ ~ free padding genes (a - 1)) /\
  (b = end_ \/ ~ free padding genes b).

(* C15_intergenic: for genes ordered by start and longer than twice the padding, the non-empty areas are
   EXACTLY the maximal free runs of the searched range *)
Lemma raw_areas_exact start end_ genes padding a b :
  0 <= padding -> starts_sorted genes -> long_genes padding genes -> a < b ->
  (In (a, b) (raw_areas start end_ genes padding) <-> free_run start end_ padding genes a b).
Proof.
  intros Hpad Hsorted Hlong Hab. split.
  - intros Hin.
    pose proof (raw_areas_free start end_ genes padding (a, b) a Hpad Hsorted Hin ltac:(cbn [fst snd]; lia)) as [Ha _].
    pose proof (raw_areas_free start end_ genes padding (a, b) (b - 1) Hpad Hsorted Hin ltac:(cbn [fst snd]; lia)) as [Hb _].
    destruct (raw_areas_maximal start end_ genes padding (a, b) Hlong Hin) as [Hl Hr]. cbn [fst snd] in Hl, Hr.
    unfold free_run. repeat split; try lia.
    + intros x Hx. apply (raw_areas_free start end_ genes padding (a, b) x Hpad Hsorted Hin). cbn [fst snd]. exact Hx.
    + destruct Hl as [Hl|Hl]; [left; exact Hl|right; apply blocked_not_free; exact Hl].
    + destruct Hr as [Hr|Hr]; [left; exact Hr|right; apply blocked_not_free; exact Hr].
  - intros (Hsa & _ & Hbe & Hfree & Hleft & Hright).
    destruct (raw_areas_cover start end_ genes padding a ltac:(lia) (Hfree a ltac:(lia))) as ([a' b'] & Hin & Hx).
    cbn [fst snd] in Hx.
    pose proof (raw_areas_free start end_ genes padding (a', b') a' Hpad Hsorted Hin ltac:(cbn [fst snd]; lia)) as [Ha' _].
    pose proof (raw_areas_free start end_ genes padding (a', b') (b' - 1) Hpad Hsorted Hin ltac:(cbn [fst snd]; lia)) as [Hb' _].
    assert (Hfree' : forall x, a' <= x < b' -> free padding genes x).
    { intros x Hxx. apply (raw_areas_free start end_ genes padding (a', b') x Hpad Hsorted Hin). cbn [fst snd]. exact Hxx. }
    destruct (raw_areas_maximal start end_ genes padding (a', b') Hlong Hin) as [Hl Hr]. cbn [fst snd] in Hl, Hr.
    assert (Ea : a' = a).
    { destruct (Z.eq_dec a' a) as [E|E]; [exact E|exfalso].
      destruct Hleft as [Hleft|Hleft]; [lia|]. apply Hleft. apply Hfree'. lia. }
    subst a'.
    assert (Eb : b' = b).
    { destruct (Z_lt_le_dec b' b) as [Hlt|Hge].
      - exfalso. destruct Hr as [Hr|Hr]; [lia|]. apply (blocked_not_free _ _ _ Hr). apply Hfree. lia.
      - destruct (Z.eq_dec b' b) as [E|E]; [exact E|exfalso].
        destruct Hright as [Hright|Hright]; [lia|]. apply Hright. apply Hfree'. lia. }
    subst b'. exact Hin.
Qed.

(* without the length guard the statement is false, already for a gene of exactly twice the padding:
   gene [10, 30), padding 10 - the shrunk gene is empty, every position is free, yet the range [0, 100)
   is reported as the two areas (0, 20) and (20, 100) *)
Lemma raw_areas_maximal_refuted : exists start end_ genes padding a,
  0 <= padding /\ starts_sorted genes /\ Forall (fun g => 2 * padding <= snd g - fst g) genes /\
  In a (raw_areas start end_ genes padding) /\ fst a < snd a /\ snd a < end_ /\ free padding genes (snd a).
Proof.
  exists 0, 100, [(10, 30)], 10, (0, 20). split; [lia|]. split; [cbn; split; [constructor|exact I]|].
  split; [constructor; [cbn; lia|constructor]|].
  split; [vm_compute; left; reflexivity|]. cbn [fst snd]. split; [lia|]. split; [lia|].
  unfold free. constructor; [cbn; lia|constructor].
Qed.

(* ================================================================== C15_gaps: find_all_orfs *)
(* ------------------------------------------------------------------ ranges of positions *)
Definition count (P : Z -> bool) (l : list Z) : Z := zlen (filter P l).

Lemma count_app P a b : count P (a ++ b) = count P a + count P b.
Proof. unfold count. rewrite filter_app. apply zlen_app. Qed.
Lemma count_nonneg P l : 0 <= count P l.
Proof. unfold count, zlen. lia. Qed.
Lemma count_rev P l : count P (rev l) = count P l.
Proof.
  induction l as [|x l IH]; [reflexivity|]. cbn [rev]. rewrite count_app, IH.
  unfold count. cbn [filter]. destruct (P x); unfold zlen; cbn [length]; lia.
Qed.
Lemma count_none P l : (forall x, In x l -> P x = false) -> count P l = 0.
Proof.
  induction l as [|x l IH]; intros H; [reflexivity|]. unfold count in *. cbn [filter].
  rewrite (H x (or_introl eq_refl)). apply IH. intros y Hy. apply H. right. exact Hy.
Qed.
Lemma count_cons P x l : count P (x :: l) = (if P x then 1 else 0) + count P l.
Proof. unfold count. cbn [filter]. destruct (P x); unfold zlen; cbn [length]; lia. Qed.

Lemma zrange_nonpos a n : n <= 0 -> zrange a n = [].
Proof. intros H. unfold zrange. replace (Z.to_nat n) with 0%nat by lia. reflexivity. Qed.
Lemma zrange_cons a n : 0 < n -> zrange a n = a :: zrange (a + 1) (n - 1).
Proof.
  intros H. unfold zrange. replace (Z.to_nat n) with (S (Z.to_nat (n - 1))) by lia.
  cbn [seq map]. f_equal; [lia|]. rewrite <- seq_shift, map_map. apply map_ext. intros i. lia.
Qed.
Lemma zrange_In a n x : In x (zrange a n) <-> a <= x < a + n.
Proof.
  unfold zrange. rewrite in_map_iff. split.
  - intros (i & <- & Hi). apply in_seq in Hi. lia.
  - intros H. exists (Z.to_nat (x - a)). split; [lia|]. apply in_seq. lia.
Qed.
Lemma zrange_app a m k : 0 <= m -> 0 <= k -> zrange a (m + k) = zrange a m ++ zrange (a + m) k.
Proof.
  intros Hm Hk. unfold zrange. replace (Z.to_nat (m + k)) with (Z.to_nat m + Z.to_nat k)%nat by lia.
  rewrite seq_app, map_app. f_equal. cbn [plus].
  rewrite <- (Nat.add_0_r (Z.to_nat m)) at 1. rewrite Nat.add_comm.
  replace (seq (0 + Z.to_nat m) (Z.to_nat k)) with (map (fun i => (i + Z.to_nat m)%nat) (seq 0 (Z.to_nat k))).
  - rewrite map_map. apply map_ext. intros i. lia.
  - generalize 0%nat. induction (Z.to_nat k) as [|j IH]; intros s; [reflexivity|]. cbn [seq map]. f_equal. apply IH.
Qed.
Lemma zlen_zrange a n : 0 <= n -> zlen (zrange a n) = n.
Proof. intros H. unfold zrange, zlen. rewrite map_length, seq_length. lia. Qed.

(* a middle piece of a range *)
Lemma zrange_split a n i k : 0 <= i -> 0 <= k -> i + k <= n ->
  zrange a n = zrange a i ++ zrange (a + i) k ++ zrange (a + i + k) (n - i - k).
Proof.
  intros Hi Hk Hn. replace n with (i + (k + (n - i - k))) at 1 by lia.
  rewrite zrange_app by lia. f_equal. rewrite zrange_app by lia. reflexivity.
Qed.

(* at most as many hits in a range as the range shares with an interval containing all hits *)
Lemma count_zrange_le P lo hi : (forall x, P x = true -> lo <= x < hi) ->
  forall k a, count P (zrange a (Z.of_nat k)) <= Z.max 0 (Z.min (a + Z.of_nat k) hi - Z.max a lo).
Proof.
  intros HP. induction k as [|k IH]; intros a.
  - cbn. lia.
  - rewrite zrange_cons by lia. replace (Z.of_nat (S k) - 1) with (Z.of_nat k) by lia.
    rewrite count_cons. specialize (IH (a + 1)).
    destruct (P a) eqn:Ha.
    + apply HP in Ha. lia.
    + lia.
Qed.
Lemma count_zrange_bound P lo hi a n : (forall x, P x = true -> lo <= x < hi) -> 0 <= n ->
  count P (zrange a n) <= Z.max 0 (Z.min (a + n) hi - Z.max a lo).
Proof.
  intros HP Hn. pose proof (count_zrange_le P lo hi HP (Z.to_nat n) a) as H.
  rewrite Z2Nat.id in H by lia. exact H.
Qed.

(* reduction modulo the record length *)
Lemma map_mod_zrange_id N a n : 0 <= a -> a + n <= N ->
  map (fun y => y mod N) (zrange a n) = zrange a n.
Proof.
  intros Ha Hn. rewrite <- (map_id (zrange a n)) at 2. apply map_ext_in. intros x Hx.
  apply zrange_In in Hx. apply Z.mod_small. lia.
Qed.
Lemma map_mod_zrange_shift N a n q :
  map (fun y => y mod N) (zrange (a + q * N) n) = map (fun y => y mod N) (zrange a n).
Proof.
  unfold zrange. rewrite !map_map. apply map_ext. intros i.
  replace (a + q * N + Z.of_nat i) with (a + Z.of_nat i + q * N) by lia. apply Z_mod_plus_full.
Qed.

(* ------------------------------------------------------------------ positions of a reported location *)
Lemma positions_single p : positions [p] = part_positions p.
Proof. unfold positions. cbn [flat_map]. apply app_nil_r. Qed.
Lemma positions_two p q : positions [p; q] = part_positions p ++ part_positions q.
Proof. unfold positions. cbn [flat_map]. rewrite app_nil_r. reflexivity. Qed.

Lemma positions_ring_loc N x' len direction : (direction = 1 \/ direction = -1) ->
  0 <= x' < N -> 1 <= len <= N ->
  positions (ring_loc N x' len direction) =
  let r := map (fun y => y mod N) (zrange x' len) in if direction =? -1 then rev r else r.
Proof.
  intros Hdir Hx Hlen. cbn zeta. unfold ring_loc. destruct (x' + len <=? N) eqn:Hc.
  - rewrite positions_single. unfold part_positions. cbn [ps pe pst].
    replace (x' + len - x') with len by lia. rewrite map_mod_zrange_id by lia. reflexivity.
  - assert (Hsplit : map (fun y => y mod N) (zrange x' len) = zrange x' (N - x') ++ zrange 0 (x' + len - N)).
    { replace len with ((N - x') + (x' + len - N)) at 1 by lia. rewrite zrange_app by lia.
      rewrite map_app. rewrite map_mod_zrange_id by lia. f_equal.
      replace (x' + (N - x')) with (0 + 1 * N) by lia. rewrite map_mod_zrange_shift.
      apply map_mod_zrange_id; lia. }
    rewrite Hsplit. destruct Hdir as [-> | ->]; cbn [Z.eqb Pos.eqb].
    + rewrite positions_two. unfold part_positions. cbn [ps pe pst Z.eqb].
      replace (x' + len - N - 0) with (x' + len - N) by lia. reflexivity.
    + rewrite positions_two. unfold part_positions. cbn [ps pe pst Z.eqb Pos.eqb].
      replace (x' + len - N - 0) with (x' + len - N) by lia. rewrite rev_app_distr. reflexivity.
Qed.

(* the positions of the location computed for the window stretch [s, e] are the positions the stretch occupies on
   the ring, in transcription order: exactly what the run-time specification (Model.loc_is_orf) compares with *)
Lemma positions_orf_location direction offset n N s e :
  (direction = 1 \/ direction = -1) -> 0 < N -> s <= e -> e - s + 1 <= N ->
  positions (orf_location direction offset n (Some N) (s, e)) =
  expected_positions direction offset n (Some N) (s, e).
Proof.
  intros Hdir HN Hse Hlen.
  rewrite (orf_location_shape direction offset n N s e Hdir HN Hse Hlen). cbn zeta.
  set (x := if direction =? 1 then s + offset else n + offset - e - 1).
  pose proof (Z.mod_pos_bound (x + N) N HN) as Hb.
  pose proof (Z.div_mod (x + N) N ltac:(lia)) as Hd.
  rewrite positions_ring_loc by (try assumption; lia). cbn zeta.
  assert (Hshift : map (fun y => y mod N) (zrange ((x + N) mod N) (e - s + 1)) =
                   map (fun y => y mod N) (zrange x (e - s + 1))).
  { replace x with ((x + N) mod N + ((x + N) / N - 1) * N) at 2 by lia. symmetry. apply map_mod_zrange_shift. }
  rewrite Hshift. unfold expected_positions, x.
  destruct Hdir as [-> | ->]; cbn [Z.eqb Pos.eqb].
  - replace (offset + s) with (s + offset) by lia. reflexivity.
  - replace (offset + n - 1 - e) with (n + offset - e - 1) by lia. rewrite map_rev. reflexivity.
Qed.

(* ------------------------------------------------------------------ genes *)
Lemma fold_min_le : forall xs x, fold_left Z.min xs x <= x /\ forall v, In v xs -> fold_left Z.min xs x <= v.
Proof.
  induction xs as [|y xs IH]; intros x; cbn [fold_left]; [split; [lia|intros v []]|].
  destruct (IH (Z.min x y)) as [H1 H2]. split; [lia|]. intros v [<-|Hv]; [lia|apply H2; exact Hv].
Qed.
Lemma fold_max_ge : forall xs x, x <= fold_left Z.max xs x /\ forall v, In v xs -> v <= fold_left Z.max xs x.
Proof.
  induction xs as [|y xs IH]; intros x; cbn [fold_left]; [split; [lia|intros v []]|].
  destruct (IH (Z.max x y)) as [H1 H2]. split; [lia|]. intros v [<-|Hv]; [lia|apply H2; exact Hv].
Qed.
Lemma lmin_le l v : In v l -> lmin l <= v.
Proof.
  destruct l as [|x xs]; [intros []|]. cbn [lmin]. destruct (fold_min_le xs x) as [H1 H2].
  intros [<-|Hv]; [exact H1|apply H2; exact Hv].
Qed.
Lemma lmax_ge l v : In v l -> v <= lmax l.
Proof.
  destruct l as [|x xs]; [intros []|]. cbn [lmax]. destruct (fold_max_ge xs x) as [H1 H2].
  intros [<-|Hv]; [exact H1|apply H2; exact Hv].
Qed.

(* a position inside a gene lies inside the gene's span (start, end) - what find_intergenic_areas looks at *)
Lemma in_loc_span x c : in_loc x c = true -> fst (gene_span c) <= x < snd (gene_span c).
Proof.
  unfold in_loc, gene_span. cbn [fst snd]. intros H. apply existsb_exists in H. destruct H as (p & Hp & Hx).
  unfold in_part in Hx. apply andb_prop in Hx. destruct Hx as [H1 H2].
  pose proof (lmin_le (map ps c) (ps p) (in_map ps c p Hp)).
  pose proof (lmax_ge (map pe c) (pe p) (in_map pe c p Hp)).
  unfold lstart, lend. apply Z.leb_le in H1. apply Z.ltb_lt in H2. clear Hp. lia.
Qed.

(* two parts sharing a position overlap in the sense of locations_overlap *)
Lemma part_overlap_shared x a b : in_part x a = true -> in_part x b = true -> part_overlap a b = true.
Proof.
  unfold part_overlap, in_part. intros Ha Hb.
  apply andb_prop in Ha. destruct Ha as [A1 A2]. apply andb_prop in Hb. destruct Hb as [B1 B2].
  apply Z.leb_le in A1, B1. apply Z.ltb_lt in A2, B2.
  destruct (Z_le_gt_dec (ps b) (ps a)) as [Hle|Hgt].
  - assert (E : (ps b <=? ps a) && (ps a <? pe b) = true)
      by (apply andb_true_intro; split; [apply Z.leb_le|apply Z.ltb_lt]; lia).
    rewrite E. reflexivity.
  - assert (E : (ps a <=? ps b) && (ps b <? pe a) = true)
      by (apply andb_true_intro; split; [apply Z.leb_le|apply Z.ltb_lt]; lia).
    rewrite E. rewrite !orb_true_r. reflexivity.
Qed.
(* a gene not overlapping a part has no position in it *)
Lemma no_overlap_no_position c p x : overlap c [p] = false -> in_loc x c = true -> in_part x p = false.
Proof.
  intros Hov Hx. destruct (in_part x p) eqn:Hp; [|reflexivity]. exfalso.
  unfold in_loc in Hx. apply existsb_exists in Hx. destruct Hx as (q & Hq & Hxq).
  assert (overlap c [p] = true); [|congruence].
  unfold overlap. apply existsb_exists. exists q. split; [exact Hq|]. cbn [existsb].
  rewrite (part_overlap_shared x q p Hxq Hp). reflexivity.
Qed.

Lemma part_eqb_eq a b : part_eqb a b = true -> a = b.
Proof.
  unfold part_eqb. intros H. apply andb_prop in H. destruct H as [H H3]. apply andb_prop in H. destruct H as [H1 H2].
  apply Z.eqb_eq in H1, H2, H3. destruct a, b. cbn in *. subst. reflexivity.
Qed.
Lemma loc_eqb_eq : forall a b, loc_eqb a b = true -> a = b.
Proof.
  unfold loc_eqb. induction a as [|x a IH]; intros [|y b] H; cbn in H; try discriminate; [reflexivity|].
  apply andb_prop in H. destruct H as [H1 H2]. apply part_eqb_eq in H1. apply IH in H2. subst. reflexivity.
Qed.

Lemma starts_sortedb_spec genes : starts_sortedb genes = true -> starts_sorted genes.
Proof.
  induction genes as [|g r IH]; intros H; [exact I|]. cbn in H. apply andb_prop in H. destruct H as [H1 H2].
  cbn [starts_sorted]. split; [|apply IH; exact H2].
  apply Forall_forall. intros h Hh. rewrite forallb_forall in H1. specialize (H1 h Hh). apply Z.leb_le. exact H1.
Qed.

Lemma starts_sorted_skipn : forall k l, starts_sorted l -> starts_sorted (skipn k l).
Proof.
  induction k as [|k IH]; intros l H; [exact H|]. destruct l as [|x l]; [exact I|]. cbn [skipn].
  apply IH. destruct H as [_ H]. exact H.
Qed.
(* the genes handed to the gap search for an area part (all_orfs._overlapping_cds_features): still ordered by start,
   and - since the repair of FC15a area_misses_enclosing_gene - EVERY gene of the record that overlaps the part *)
Lemma cds_within_sorted cds p : starts_sorted (map gene_span cds) -> starts_sorted (map gene_span (cds_within cds p)).
Proof.
  intros H. unfold cds_within. induction cds as [|c cds IH]; [exact I|]. cbn [map starts_sorted] in H. destruct H as [H1 H2].
  cbn [filter]. destruct (overlap c [p]); [|apply IH; exact H2]. cbn [map starts_sorted]. split; [|apply IH; exact H2].
  apply Forall_forall. intros h Hh. apply in_map_iff in Hh. destruct Hh as (d & <- & Hd). apply filter_In in Hd.
  rewrite Forall_forall in H1. apply H1. apply in_map. apply Hd.
Qed.
Lemma cds_within_complete cds p c : In c cds -> overlap c [p] = true -> In c (cds_within cds p).
Proof. intros Hc Ho. unfold cds_within. apply filter_In. split; assumption. Qed.

(* ------------------------------------------------------------------ the intergenic areas of find_all_orfs *)
(* an area that find_all_orfs may scan: a window of the record (possibly over the origin) not longer than the
   record, sharing at most max_overlap positions with every gene of the record that does not reach into both parts
   of an origin-spanning area (for those the window joined over the origin may hold up to twice max_overlap, and the
   test on the ORFs, within_overlap, takes over), inside the searched part *)
Definition area_ok (N : Z) (cds : list loc) (area : option loc) (ov : Z) (a : Z * Z) : Prop :=
  window_ok N (fst a) (snd a) /\ snd a - fst a <= N /\
  (forall c, In c cds -> in_both area c = false -> count (fun x => in_loc x c) (area_positions N a) <= ov) /\
  (forall x, In x (area_positions N a) -> in_searched N area x = true).

Lemma area_bounds start end_ genes ml ov a : 0 <= ov -> starts_sorted genes ->
  In a (find_intergenic_areas start end_ genes ml ov) -> start <= fst a /\ snd a <= end_ /\ ml <= snd a - fst a.
Proof.
  intros Hov Hs Hin. pose proof (find_intergenic_sound start end_ genes ml ov Hov Hs) as H.
  rewrite Forall_forall in H. destruct (H a Hin) as (H1 & H2 & H3 & _). auto.
Qed.

Lemma found_gene_bound start end_ found ml ov a c :
  0 <= ov -> starts_sorted (map gene_span found) ->
  In a (find_intergenic_areas start end_ (map gene_span found) ml ov) -> In c found ->
  count (fun x => in_loc x c) (zrange (fst a) (snd a - fst a)) <= ov.
Proof.
  intros Hov Hs Hin Hc. pose proof (find_intergenic_sound start end_ _ ml ov Hov Hs) as H.
  rewrite Forall_forall in H. destruct (H a Hin) as (_ & _ & _ & Hg).
  rewrite Forall_forall in Hg. specialize (Hg (gene_span c) (in_map gene_span found c Hc)).
  unfold overlap_len in Hg.
  destruct (Z_le_gt_dec 0 (snd a - fst a)) as [Hn|Hn].
  - pose proof (count_zrange_bound (fun x => in_loc x c) (fst (gene_span c)) (snd (gene_span c))
                  (fst a) (snd a - fst a) (fun x Hx => in_loc_span x c Hx) Hn) as Hb.
    replace (fst a + (snd a - fst a)) with (snd a) in Hb by lia. lia.
  - rewrite zrange_nonpos by lia. cbn. exact Hov.
Qed.

(* the gap search over the genes found for a part: the helper misses no gene that overlaps the part
   (cds_within_complete), so the bound holds for EVERY gene of the record *)
Lemma part_gene_bound cds p ml ov a c :
  0 <= ov -> starts_sorted (map gene_span cds) ->
  In a (find_intergenic_areas (ps p) (pe p) (map gene_span (cds_within cds p)) ml ov) -> In c cds ->
  count (fun x => in_loc x c) (zrange (fst a) (snd a - fst a)) <= ov.
Proof.
  intros Hov Hs Hin Hc.
  pose proof (cds_within_sorted cds p Hs) as Hs'.
  destruct (overlap c [p]) eqn:Hno.
  2: {
    destruct (area_bounds _ _ _ _ _ _ Hov Hs' Hin) as (Hb1 & Hb2 & _).
    rewrite count_none; [exact Hov|]. intros x Hx. apply zrange_In in Hx.
    destruct (in_loc x c) eqn:Hxc; [|reflexivity]. exfalso.
    pose proof (no_overlap_no_position c p x Hno Hxc) as Hp. unfold in_part in Hp.
    apply andb_false_iff in Hp. destruct Hp as [Hp|Hp]; [apply Z.leb_gt in Hp|apply Z.ltb_ge in Hp]; lia. }
  exact (found_gene_bound _ _ _ _ _ _ _ Hov Hs' Hin (cds_within_complete cds p c Hc Hno)).
Qed.

Lemma plain_area_ok N cds area ov a lo hi :
  0 <= lo -> lo <= fst a -> fst a <= snd a -> snd a <= hi -> hi <= N ->
  (forall c, In c cds -> count (fun x => in_loc x c) (zrange (fst a) (snd a - fst a)) <= ov) ->
  (forall x, lo <= x < hi -> in_searched N area x = true) ->
  area_ok N cds area ov a.
Proof.
  intros H0 H1 H2 H3 H4 Hc Hs. unfold area_ok, area_positions.
  rewrite map_mod_zrange_id by lia. split; [left; lia|]. split; [lia|]. split; [intros c Hcin _; exact (Hc c Hcin)|].
  intros x Hx. apply zrange_In in Hx. apply Hs. lia.
Qed.

(* the loop that looks for the areas touching the origin: an index it reports points at an area ending on the
   record end (pre) / starting at the origin (post) *)
Lemma origin_scan_spec n : forall areas i pre post pre' post',
  origin_scan n areas i pre post = Ok (pre', post') ->
  (pre' = pre \/ exists k, pre' = Some (i + Z.of_nat k) /\ (k < length areas)%nat /\ snd (nth k areas (0, 0)) = n) /\
  (post' = post \/ exists k, post' = Some (i + Z.of_nat k) /\ (k < length areas)%nat /\ fst (nth k areas (0, 0)) = 0).
Proof.
  induction areas as [|a rest IH]; intros i pre post pre' post' H; cbn [origin_scan] in H.
  - inversion H; subst. split; left; reflexivity.
  - set (P1 := if fst a =? 0
               then match post with Some k => if k =? 0 then Ok (Some i) else Err E_Assert | None => Ok (Some i) end
               else Ok post) in H.
    destruct P1 as [post1|] eqn:HP1; [|discriminate]. cbn [bind] in H.
    set (P2 := if snd a =? n
               then match pre with Some k => if k =? 0 then Ok (Some i) else Err E_Assert | None => Ok (Some i) end
               else Ok pre) in H.
    destruct P2 as [pre1|] eqn:HP2; [|discriminate]. cbn [bind] in H.
    apply IH in H. destruct H as [Hpre Hpost].
    assert (Hpost1 : post1 = post \/ (post1 = Some i /\ fst a = 0)).
    { unfold P1 in HP1. destruct (fst a =? 0) eqn:E; [|inversion HP1; left; reflexivity].
      apply Z.eqb_eq in E. right. split; [|exact E].
      destruct post as [k|]; [destruct (k =? 0); [|discriminate]|]; inversion HP1; reflexivity. }
    assert (Hpre1 : pre1 = pre \/ (pre1 = Some i /\ snd a = n)).
    { unfold P2 in HP2. destruct (snd a =? n) eqn:E; [|inversion HP2; left; reflexivity].
      apply Z.eqb_eq in E. right. split; [|exact E].
      destruct pre as [k|]; [destruct (k =? 0); [|discriminate]|]; inversion HP2; reflexivity. }
    clear HP1 HP2 P1 P2. split.
    + destruct Hpre as [->|(k & -> & Hk & Hn)].
      * destruct Hpre1 as [->|[-> Hn]]; [left; reflexivity|].
        right. exists 0%nat. split; [f_equal; lia|]. split; [cbn; lia|exact Hn].
      * right. exists (S k). split; [f_equal; lia|]. split; [cbn [length]; lia|exact Hn].
    + destruct Hpost as [->|(k & -> & Hk & Hn)].
      * destruct Hpost1 as [->|[-> Hn]]; [left; reflexivity|].
        right. exists 0%nat. split; [f_equal; lia|]. split; [cbn; lia|exact Hn].
      * right. exists (S k). split; [f_equal; lia|]. split; [cbn [length]; lia|exact Hn].
Qed.

Lemma In_firstn_incl {A} (x : A) : forall k l, In x (firstn k l) -> In x l.
Proof.
  induction k as [|k IH]; intros l H; [destruct H|]. destruct l as [|y l]; [destruct H|].
  cbn [firstn] in H. destruct H as [<-|H]; [left; reflexivity|right; apply IH; exact H].
Qed.
Lemma In_skipn_incl {A} (x : A) : forall k l, In x (skipn k l) -> In x l.
Proof.
  induction k as [|k IH]; intros l H; [exact H|]. destruct l as [|y l]; [destruct H|].
  cbn [skipn] in H. right. apply IH. exact H.
Qed.
Lemma list_pop_In {A} (x : A) l i : In x (list_pop l i) -> In x l.
Proof.
  unfold list_pop. intros H. apply in_app_or in H.
  destruct H as [H|H]; [eapply In_firstn_incl; exact H|eapply In_skipn_incl; exact H].
Qed.
Lemma list_set_In {A} (x y : A) l i l' : list_set l i x = Ok l' -> In y l' -> y = x \/ In y l.
Proof.
  unfold list_set. destruct (i <? zlen l); [|discriminate]. intros H.
  assert (E : l' = firstn (Z.to_nat i) l ++ x :: skipn (S (Z.to_nat i)) l) by congruence.
  clear H. subst l'. intros Hy.
  apply in_app_or in Hy. destruct Hy as [Hy|[<-|Hy]].
  - right. eapply In_firstn_incl. exact Hy.
  - left. reflexivity.
  - right. exact (In_skipn_incl y (S (Z.to_nat i)) l Hy).
Qed.

(* what _find_cross_origin_intergenic returns: areas of the per-part searches, and possibly one window joining an
   area that ends on the record end with one that starts at the origin *)
Lemma cross_origin_result n cds area ml ov res_ :
  cross_origin_intergenic n cds area ml ov = Ok res_ ->
  let areas := flat_map (fun p => find_intergenic_areas (ps p) (pe p) (map gene_span (cds_within cds p)) ml ov) area in
  forall y, In y res_ ->
    In y areas \/
    exists pre post, In pre areas /\ In post areas /\ snd pre = n /\ fst post = 0 /\ fst pre - n < 0 /\
                     y = (fst pre - n, snd post).
Proof.
  unfold cross_origin_intergenic. cbn zeta.
  set (areas := flat_map _ area). intros H y Hy.
  destruct (origin_scan n areas 0 None None) as [[pre post]|] eqn:Hscan; [|discriminate]. cbn [bind] in H.
  apply origin_scan_spec in Hscan. destruct Hscan as [Hpre Hpost].
  destruct pre as [pre_i|]; [|inversion H; subst; left; exact Hy].
  destruct post as [post_i|]; [|inversion H; subst; left; exact Hy].
  destruct Hpre as [Hpre|(k1 & Hk1 & Hl1 & Hn1)]; [discriminate|].
  destruct Hpost as [Hpost|(k2 & Hk2 & Hl2 & Hn2)]; [discriminate|].
  inversion Hk1; subst pre_i. inversion Hk2; subst post_i. clear Hk1 Hk2.
  rewrite !Nat2Z.id in H.
  destruct (negb (fst (nth k1 areas (0, 0)) - n <? 0)) eqn:Hneg; [discriminate|].
  apply negb_false_iff in Hneg. apply Z.ltb_lt in Hneg.
  destruct (list_set_In _ y _ _ _ H Hy) as [->|Hin].
  - right. exists (nth k1 areas (0, 0)), (nth k2 areas (0, 0)).
    split; [apply nth_In; exact Hl1|]. split; [apply nth_In; exact Hl2|]. auto.
  - left. eapply list_pop_In. exact Hin.
Qed.

Lemma in_part_iff x p : in_part x p = true <-> ps p <= x < pe p.
Proof.
  unfold in_part. rewrite andb_true_iff, Z.leb_le, Z.ltb_lt. reflexivity.
Qed.

(* a window joining the last area of [s1, N) with the first area of [0, e2) over the origin *)
Lemma merged_area_ok N cds p1 p2 ml ov pre post :
  0 < N -> 0 <= ml -> 0 <= ov -> starts_sorted (map gene_span cds) ->
  pe p1 = N -> ps p2 = 0 -> 0 < pe p2 -> pe p2 <= ps p1 -> ps p1 < N ->
  let areas := flat_map (fun p => find_intergenic_areas (ps p) (pe p) (map gene_span (cds_within cds p)) ml ov) [p1; p2] in
  In pre areas -> In post areas -> snd pre = N -> fst post = 0 -> fst pre - N < 0 ->
  area_ok N cds (Some [p1; p2]) ov (fst pre - N, snd post).
Proof.
  intros HN Hml Hov Hs E1 E2 E3 E4 E5. cbn zeta. cbn [flat_map]. rewrite app_nil_r.
  intros Hpre Hpost Hsp Hfp Hneg.
  pose proof (cds_within_sorted cds p1 Hs) as Hs1. pose proof (cds_within_sorted cds p2 Hs) as Hs2.
  assert (Hpre1 : In pre (find_intergenic_areas (ps p1) (pe p1) (map gene_span (cds_within cds p1)) ml ov)).
  { apply in_app_or in Hpre. destruct Hpre as [H|H]; [exact H|exfalso].
    destruct (area_bounds _ _ _ _ _ _ Hov Hs2 H) as (_ & Hb & _). lia. }
  assert (Hpost2 : In post (find_intergenic_areas (ps p2) (pe p2) (map gene_span (cds_within cds p2)) ml ov)).
  { apply in_app_or in Hpost. destruct Hpost as [H|H]; [exfalso|exact H].
    destruct (area_bounds _ _ _ _ _ _ Hov Hs1 H) as (Hb & _ & _). lia. }
  destruct (area_bounds _ _ _ _ _ _ Hov Hs1 Hpre1) as (Ha1 & Ha2 & Ha3).
  destruct (area_bounds _ _ _ _ _ _ Hov Hs2 Hpost2) as (Hb1 & Hb2 & Hb3).
  set (a := fst pre) in *. set (b := snd post) in *.
  assert (Hpos : area_positions N (a - N, b) = zrange a (N - a) ++ zrange 0 b).
  { unfold area_positions. cbn [fst snd]. replace (b - (a - N)) with ((N - a) + b) by lia.
    rewrite zrange_app by lia. rewrite map_app. f_equal.
    - replace (a - N) with (a + (-1) * N) by lia. rewrite map_mod_zrange_shift. apply map_mod_zrange_id; lia.
    - replace (a - N + (N - a)) with 0 by lia. apply map_mod_zrange_id; lia. }
  unfold area_ok. cbn [fst snd]. rewrite Hpos. split; [right; lia|]. split; [lia|]. split.
  - intros c Hc Hboth. rewrite count_app.
    pose proof (part_gene_bound cds p1 ml ov pre c Hov Hs Hpre1 Hc) as B1.
    pose proof (part_gene_bound cds p2 ml ov post c Hov Hs Hpost2 Hc) as B2.
    replace (snd pre - fst pre) with (N - a) in B1 by (unfold a; lia).
    replace (snd post - fst post) with b in B2 by (unfold b; lia). rewrite Hfp in B2. fold a in B1.
    cbn [in_both] in Hboth. apply andb_false_iff in Hboth. destruct Hboth as [Hno|Hno].
    + rewrite (count_none _ (zrange a (N - a))); [lia|]. intros x Hx. apply zrange_In in Hx.
      destruct (in_loc x c) eqn:Hxc; [|reflexivity]. exfalso.
      pose proof (no_overlap_no_position c p1 x Hno Hxc) as Hp.
      assert (in_part x p1 = true) by (apply in_part_iff; lia). congruence.
    + rewrite (count_none _ (zrange 0 b)); [lia|]. intros x Hx. apply zrange_In in Hx.
      destruct (in_loc x c) eqn:Hxc; [|reflexivity]. exfalso.
      pose proof (no_overlap_no_position c p2 x Hno Hxc) as Hp.
      assert (in_part x p2 = true) by (apply in_part_iff; lia). congruence.
  - intros x Hx. cbn [in_searched in_loc existsb]. apply in_app_or in Hx. destruct Hx as [Hx|Hx]; apply zrange_In in Hx.
    + assert (E : in_part x p1 = true) by (apply in_part_iff; lia). rewrite E. reflexivity.
    + assert (E : in_part x p2 = true) by (apply in_part_iff; lia). rewrite E. apply orb_true_r.
Qed.

(* all the areas find_all_orfs scans are fine, for every well-formed input *)
Lemma intergenic_for_ok N cds area ml ov areas :
  gaps_wf N cds area ml ov = true -> intergenic_for N cds area ml ov = Ok areas ->
  Forall (area_ok N cds area ov) areas.
Proof.
  unfold gaps_wf. intros Hwf Hres.
  apply andb_prop in Hwf. destruct Hwf as [Hwf Hshape].
  apply andb_prop in Hwf. destruct Hwf as [Hwf Hsb]. apply starts_sortedb_spec in Hsb.
  apply andb_prop in Hwf. destruct Hwf as [Hwf Hov]. apply Z.leb_le in Hov.
  apply andb_prop in Hwf. destruct Hwf as [HN Hml]. apply Z.ltb_lt in HN. apply Z.leb_le in Hml.
  apply Forall_forall. intros a Ha.
  destruct area as [aloc|].
  - destruct aloc as [|p1 [|p2 [|p3 rest]]]; try discriminate.
    + (* one part *)
      cbn [intergenic_for is_compound] in Hres. inversion Hres; subst areas. clear Hres.
      replace (lstart [p1]) with (ps p1) in Ha by reflexivity. replace (lend [p1]) with (pe p1) in Ha by reflexivity.
      apply andb_prop in Hshape. destruct Hshape as [Hshape H3]. apply andb_prop in Hshape. destruct Hshape as [H1 H2].
      apply Z.leb_le in H1, H2, H3.
      destruct (area_bounds _ _ _ _ _ _ Hov (cds_within_sorted cds p1 Hsb) Ha) as (B1 & B2 & B3).
      apply (plain_area_ok N cds (Some [p1]) ov a (ps p1) (pe p1)); try lia.
      * intros c Hc. exact (part_gene_bound cds p1 ml ov a c Hov Hsb Ha Hc).
      * intros x Hx. cbn [in_searched in_loc existsb]. rewrite orb_false_r. apply in_part_iff. exact Hx.
    + (* two parts over the origin *)
      cbn [intergenic_for is_compound] in Hres.
      apply andb_prop in Hshape. destruct Hshape as [Hshape E5]. apply andb_prop in Hshape. destruct Hshape as [Hshape E4].
      apply andb_prop in Hshape. destruct Hshape as [Hshape E3]. apply andb_prop in Hshape. destruct Hshape as [E1 E2].
      apply Z.eqb_eq in E1, E2. apply Z.ltb_lt in E3, E5. apply Z.leb_le in E4.
      pose proof (cross_origin_result N cds [p1; p2] ml ov areas Hres a Ha) as Hcase. cbn zeta in Hcase.
      destruct Hcase as [Hin|(pre & post & Hpre & Hpost & Hsp & Hfp & Hneg & ->)].
      * cbn [flat_map] in Hin. rewrite app_nil_r in Hin. apply in_app_or in Hin. destruct Hin as [Hin|Hin].
        -- destruct (area_bounds _ _ _ _ _ _ Hov (cds_within_sorted cds p1 Hsb) Hin) as (B1 & B2 & B3).
           apply (plain_area_ok N cds (Some [p1; p2]) ov a (ps p1) (pe p1)); try lia.
           ++ intros c Hc. exact (part_gene_bound cds p1 ml ov a c Hov Hsb Hin Hc).
           ++ intros x Hx. cbn [in_searched in_loc existsb].
              assert (E : in_part x p1 = true) by (apply in_part_iff; lia). rewrite E. reflexivity.
        -- destruct (area_bounds _ _ _ _ _ _ Hov (cds_within_sorted cds p2 Hsb) Hin) as (B1 & B2 & B3).
           apply (plain_area_ok N cds (Some [p1; p2]) ov a (ps p2) (pe p2)); try lia.
           ++ intros c Hc. exact (part_gene_bound cds p2 ml ov a c Hov Hsb Hin Hc).
           ++ intros x Hx. cbn [in_searched in_loc existsb].
              assert (E : in_part x p2 = true) by (apply in_part_iff; lia). rewrite E. apply orb_true_r.
      * exact (merged_area_ok N cds p1 p2 ml ov pre post HN Hml Hov Hsb E1 E2 E3 E4 E5 Hpre Hpost Hsp Hfp Hneg).
  - (* whole record *)
    cbn [intergenic_for] in Hres. inversion Hres; subst areas. clear Hres.
    destruct (area_bounds _ _ _ _ _ _ Hov Hsb Ha) as (B1 & B2 & B3).
    apply (plain_area_ok N cds None ov a 0 N); try lia.
    + intros c Hc. exact (found_gene_bound 0 N cds ml ov a c Hov Hsb Ha Hc).
    + intros x Hx. cbn [in_searched]. apply andb_true_intro. split; [apply Z.leb_le|apply Z.ltb_lt]; lia.
Qed.

(* ------------------------------------------------------------------ an ORF found in an area lies in the area *)
Lemma middle_piece (f : Z -> Z) whole pre mid post : whole = pre ++ mid ++ post ->
  (forall x, In x (map f mid) -> In x (map f whole)) /\
  (forall P, count P (map f mid) <= count P (map f whole)).
Proof.
  intros ->. split.
  - intros x Hx. rewrite !map_app. apply in_or_app. right. apply in_or_app. left. exact Hx.
  - intros P. rewrite !map_app, !count_app.
    pose proof (count_nonneg P (map f pre)). pose proof (count_nonneg P (map f post)). lia.
Qed.

Lemma orf_in_area g a ml l cds area ov :
  area_ok (zlen g) cds area ov a -> In l (area_orfs g ml a) ->
  (forall x, In x (positions l) -> In x (area_positions (zlen g) a)) /\
  (forall P, count P (positions l) <= count P (area_positions (zlen g) a)).
Proof.
  destruct a as [s e]. intros (Hw & Hlen & _ & _) Hin. cbn [fst snd] in Hw, Hlen.
  assert (HN : 0 < zlen g \/ e - s <= 0) by (destruct Hw; lia).
  unfold area_orfs in Hin. apply in_app_or in Hin.
  assert (Hcase : exists direction, (direction = 1 \/ direction = -1) /\
            In l (scan_orfs (window g s e direction) direction s ml (Some (zlen g)))).
  { destruct Hin as [H|H]; [exists 1|exists (-1)]; (split; [auto|exact H]). }
  clear Hin. destruct Hcase as (direction & Hdir & Hin).
  destruct (scan_orfs_extract_ring g s e direction ml l Hw Hlen Hdir Hin)
    as (frame & a0 & b0 & _ & _ & Ha0 & Hab & Hb0 & -> & _).
  assert (HN' : 0 < zlen g) by lia.
  rewrite positions_orf_location by (try assumption; lia).
  unfold expected_positions, area_positions. cbn [fst snd].
  destruct Hdir as [-> | ->]; cbn [Z.eqb Pos.eqb].
  - apply (middle_piece _ _ (zrange s a0) _ (zrange (s + a0 + (b0 - a0 + 1)) (e - s - a0 - (b0 - a0 + 1)))).
    apply zrange_split; lia.
  - rewrite map_rev.
    destruct (middle_piece (fun x => x mod zlen g) (zrange s (e - s)) (zrange s (e - s - 1 - b0))
                (zrange (s + (e - s) - 1 - b0) (b0 - a0 + 1))
                (zrange (s + (e - s - 1 - b0) + (b0 - a0 + 1)) (e - s - (e - s - 1 - b0) - (b0 - a0 + 1)))) as [H1 H2].
    { replace (s + (e - s) - 1 - b0) with (s + (e - s - 1 - b0)) by lia. apply zrange_split; lia. }
    split.
    + intros x Hx. apply in_rev in Hx. apply H1. exact Hx.
    + intros P. rewrite count_rev. apply H2.
Qed.

(* ------------------------------------------------------------------ unwinding find_all_orfs *)
Lemma mapM_In {A B} (f : A -> res B) : forall l out y, mapM f l = Ok out -> In y out -> exists x, In x l /\ f x = Ok y.
Proof.
  induction l as [|x l IH]; intros out y H Hy; cbn [mapM] in H.
  - inversion H; subst. destruct Hy.
  - destruct (f x) as [b|] eqn:Hfx; [|discriminate]. cbn [bind] in H.
    destruct (mapM f l) as [bs|] eqn:Hm; [|discriminate]. cbn [bind] in H. inversion H; subst.
    destruct Hy as [<-|Hy].
    + exists x. split; [left; reflexivity|exact Hfx].
    + destruct (IH bs y eq_refl Hy) as (x' & Hx' & Hf). exists x'. split; [right; exact Hx'|exact Hf].
Qed.

Lemma create_feature_loc g l f : create_feature g l = Ok f -> floc f = l.
Proof.
  unfold create_feature. destruct (aa_translation g l) as [t|]; [|discriminate]. cbn [bind].
  destruct t as [|c r]; [discriminate|]. intros H. inversion H. reflexivity.
Qed.

(* ------------------------------------------------------------------ the max_overlap test on the ORFs (repair of FC15b) *)
(* _overlap_size is at least the number of positions of the first location that lie inside the second (equal unless
   parts of one location overlap each other): Model.shared, the quantity of the specification *)
Lemma count_orb P Q l : count (fun x => P x || Q x) l <= count P l + count Q l.
Proof.
  induction l as [|x l IH]; [cbn; lia|]. rewrite !count_cons. destruct (P x), (Q x); cbn [orb]; lia.
Qed.
Lemma count_in_part_range b s n : count (fun x => in_part x b) (zrange s n) <= Z.max 0 (Z.min (s + n) (pe b) - Z.max s (ps b)).
Proof.
  destruct (Z_le_gt_dec 0 n) as [Hn|Hn].
  - apply count_zrange_bound; [|exact Hn]. intros x Hx. apply in_part_iff. exact Hx.
  - rewrite zrange_nonpos by lia. cbn. lia.
Qed.
Lemma count_in_loc_part a : forall c,
  count (fun x => in_loc x c) (part_positions a) <= fold_right Z.add 0 (map (part_shared a) c).
Proof.
  assert (Hrev : forall P, count P (part_positions a) = count P (zrange (ps a) (pe a - ps a))).
  { intros P. unfold part_positions. destruct (pst a =? -1); [apply count_rev|reflexivity]. }
  induction c as [|b c IH].
  - cbn [map fold_right]. rewrite count_none; [lia|]. intros x _. reflexivity.
  - cbn [map fold_right].
    assert (E : count (fun x => in_loc x (b :: c)) (part_positions a) =
                count (fun x => in_part x b || in_loc x c) (part_positions a)) by reflexivity.
    rewrite E.
    pose proof (count_orb (fun x => in_part x b) (fun x => in_loc x c) (part_positions a)) as H1.
    rewrite (Hrev (fun x => in_part x b)) in H1.
    pose proof (count_in_part_range b (ps a) (pe a - ps a)) as H2.
    replace (ps a + (pe a - ps a)) with (pe a) in H2 by lia. unfold part_shared.
    set (u := count (fun x => in_part x b || in_loc x c) (part_positions a)) in *.
    set (v := count (fun x => in_loc x c) (part_positions a)) in *.
    set (w := count (fun x => in_part x b) (zrange (ps a) (pe a - ps a))) in *.
    set (t := fold_right Z.add 0 (map (fun b0 => Z.max 0 (Z.min (pe a) (pe b0) - Z.max (ps a) (ps b0))) c)) in *.
    unfold part_shared in IH. fold t in IH. clearbody u v w t. lia.
Qed.
Lemma fold_add_app a b : fold_right Z.add 0 (a ++ b) = fold_right Z.add 0 a + fold_right Z.add 0 b.
Proof. induction a as [|x a IH]; cbn [app fold_right]; lia. Qed.
Lemma shared_le_overlap_size o c : shared o c <= overlap_size o c.
Proof.
  unfold shared, overlap_size. fold (count (fun x => in_loc x c) (positions o)). unfold positions.
  induction o as [|a o IH]; [cbn; lia|]. cbn [flat_map]. rewrite count_app, fold_add_app.
  pose proof (count_in_loc_part a c). lia.
Qed.

(* a gene reaching into both parts of an origin-spanning area overlaps the area's location *)
Lemma in_both_overlap p1 p2 c : in_both (Some [p1; p2]) c = true -> overlap c [p1; p2] = true.
Proof.
  cbn [in_both]. intros H. apply andb_prop in H. destruct H as [H _]. unfold overlap in *.
  apply existsb_exists in H. destruct H as (q & Hq & Hqp). apply existsb_exists. exists q. split; [exact Hq|].
  cbn [existsb] in *. rewrite orb_false_r in Hqp. rewrite Hqp. reflexivity.
Qed.

(* what the test keeps: a subset of the ORFs found, and for an origin-spanning area only ORFs sharing at most max_overlap
   positions with every gene reaching into both parts *)
Lemma within_overlap_In cds area ov locs l : In l (within_overlap cds area ov locs) ->
  In l locs /\ forall c, In c cds -> in_both area c = true -> shared l c <= ov.
Proof.
  unfold within_overlap. intros H.
  destruct area as [aloc|]; [|split; [exact H|intros c _ Hb; discriminate]].
  destruct aloc as [|p1 [|p2 [|p3 rest]]]; cbn [is_compound] in H;
    try (split; [exact H|intros c _ Hb; discriminate]).
  - apply filter_In in H. destruct H as [Hl Hall]. split; [exact Hl|]. intros c Hc Hb.
    rewrite forallb_forall in Hall.
    assert (Hin : In c (filter (fun c => overlap c [p1; p2]) cds)).
    { apply filter_In. split; [exact Hc|]. apply in_both_overlap. exact Hb. }
    specialize (Hall c Hin). apply Z.leb_le in Hall. pose proof (shared_le_overlap_size l c). lia.
  - apply filter_In in H. destruct H as [Hl _]. split; [exact Hl|]. intros c _ Hb. discriminate.
Qed.

Lemma find_all_orfs_unwind g cds area ml ov feats f :
  find_all_orfs g cds area ml ov = Ok feats -> In f feats ->
  exists areas a, intergenic_for (zlen g) cds area ml ov = Ok areas /\ In a areas /\
                  In (floc f) (area_orfs g ml a) /\ create_feature g (floc f) = Ok f /\
                  forall c, In c cds -> in_both area c = true -> shared (floc f) c <= ov.
Proof.
  unfold find_all_orfs. intros H Hf.
  destruct (intergenic_for (zlen g) cds area ml ov) as [areas|]; [|discriminate]. cbn [bind] in H.
  destruct (existsb (fun a => zlen g <? snd a) areas); [discriminate|].
  destruct (mapM (create_feature g) (within_overlap cds area ov (flat_map (area_orfs g ml) areas))) as [fs|] eqn:Hm;
    [|discriminate].
  cbn [bind] in H. inversion H; subst feats. apply sort_by_In in Hf.
  destruct (mapM_In _ _ _ _ Hm Hf) as (l & Hl & Hc).
  apply within_overlap_In in Hl. destruct Hl as [Hl Hboth].
  apply in_flat_map in Hl. destruct Hl as (a & Ha & Hla).
  pose proof (create_feature_loc g l f Hc) as E. subst l.
  exists areas, a. auto.
Qed.

(* C15_gaps: every feature returned by find_all_orfs lies inside one of the intergenic areas, shares at most
   max_overlap positions with every gene of the record, and lies inside the searched part of the record *)
Lemma find_all_orfs_gaps g cds area ml ov feats f :
  gaps_wf (zlen g) cds area ml ov = true -> find_all_orfs g cds area ml ov = Ok feats -> In f feats ->
  (exists areas a, intergenic_for (zlen g) cds area ml ov = Ok areas /\ In a areas /\
                   forall x, In x (positions (floc f)) -> In x (area_positions (zlen g) a)) /\
  (forall c, In c cds -> shared (floc f) c <= ov) /\
  (forall x, In x (positions (floc f)) -> in_searched (zlen g) area x = true).
Proof.
  intros Hg Hres Hf.
  destruct (find_all_orfs_unwind g cds area ml ov feats f Hres Hf) as (areas & a & Hareas & Ha & Hl & _ & Hboth).
  pose proof (intergenic_for_ok _ _ _ _ _ _ Hg Hareas) as Hok. rewrite Forall_forall in Hok.
  specialize (Hok a Ha).
  destruct (orf_in_area g a ml (floc f) cds area ov Hok Hl) as [Hin Hcount].
  destruct Hok as (_ & _ & Hgenes & Hsearch).
  split; [exists areas, a; auto|]. split.
  - intros c Hc. destruct (in_both area c) eqn:Hb; [exact (Hboth c Hc Hb)|].
    unfold shared. specialize (Hcount (fun x => in_loc x c)). specialize (Hgenes c Hc Hb).
    unfold count in *. lia.
  - intros x Hx. apply Hsearch. apply Hin. exact Hx.
Qed.

(* ------------------------------------------------------------------ the translation of a new feature *)
Definition iupac_codes : list Z := [65; 67; 71; 84; 77; 82; 87; 83; 89; 75; 86; 72; 68; 66; 78;
                                   97; 99; 103; 116; 109; 114; 119; 115; 121; 107; 118; 104; 100; 98; 110].
Definition odd_residue (aa : Z) : bool := existsb (Z.eqb aa) [42; 66; 74; 79; 85; 90].

(* facts about the generated codon tables and the translation table, checked by evaluation over the 27000
   codons of the 30 IUPAC DNA letters (both cases): a codon translates to '*' exactly when the scan classifies it as a stop codon, no other
   residue is replaced by X, and complementing stays inside the alphabet *)
Lemma codon_table_facts :
  forallb (fun a => forallb (fun b => forallb (fun c =>
    Bool.eqb (translate_codon a b c =? 42) (kind_eqb (classify (upper a) (upper b) (upper c)) KStop) &&
    Bool.eqb (odd_residue (translate_codon a b c)) (translate_codon a b c =? 42))
    iupac_codes) iupac_codes) iupac_codes = true /\
  forallb (fun a => iupacb (comp a)) iupac_codes = true.
Proof. split; vm_compute; reflexivity. Qed.

Lemma iupacb_In c : iupacb c = true -> In c iupac_codes.
Proof.
  unfold iupacb. intros H. apply existsb_exists in H. destruct H as (x & Hx & E). apply Z.eqb_eq in E. subst. exact Hx.
Qed.

Lemma codon_facts a b c : iupacb a = true -> iupacb b = true -> iupacb c = true ->
  (translate_codon a b c =? 42) = kind_eqb (classify (upper a) (upper b) (upper c)) KStop /\
  odd_residue (translate_codon a b c) = (translate_codon a b c =? 42).
Proof.
  intros Ha Hb Hc. apply iupacb_In in Ha, Hb, Hc. destruct codon_table_facts as [H _].
  rewrite forallb_forall in H. specialize (H a Ha). rewrite forallb_forall in H. specialize (H b Hb).
  rewrite forallb_forall in H. specialize (H c Hc). apply andb_prop in H. destruct H as [H1 H2].
  apply eqb_prop in H1. apply eqb_prop in H2. split; assumption.
Qed.
Lemma comp_iupac a : iupacb a = true -> iupacb (comp a) = true.
Proof.
  intros Ha. apply iupacb_In in Ha. destruct codon_table_facts as [_ H]. rewrite forallb_forall in H. exact (H a Ha).
Qed.

Definition iupac (l : list Z) : Prop := Forall (fun c => iupacb c = true) l.

Lemma iupac_firstn k l : iupac l -> iupac (firstn k l).
Proof. unfold iupac. rewrite !Forall_forall. intros H x Hx. apply H. eapply In_firstn_incl. exact Hx. Qed.
Lemma iupac_skipn k l : iupac l -> iupac (skipn k l).
Proof. unfold iupac. rewrite !Forall_forall. intros H x Hx. apply H. eapply In_skipn_incl. exact Hx. Qed.
Lemma iupac_app a b : iupac a -> iupac b -> iupac (a ++ b).
Proof. unfold iupac. intros Ha Hb. apply Forall_app. split; assumption. Qed.
Lemma iupac_revcomp l : iupac l -> iupac (revcomp l).
Proof.
  unfold iupac, revcomp. rewrite !Forall_forall. intros H x Hx. apply in_rev in Hx. apply in_map_iff in Hx.
  destruct Hx as (y & <- & Hy). apply comp_iupac. apply H. exact Hy.
Qed.
Lemma iupac_window g s e direction : iupac g -> iupac (window g s e direction).
Proof.
  intros Hg. assert (Hc : iupac (chunk g s e)).
  { unfold chunk. destruct (0 <=? s); [unfold slice; apply iupac_firstn, iupac_skipn; exact Hg|].
    apply iupac_app; [apply iupac_skipn|apply iupac_firstn]; exact Hg. }
  unfold window. destruct (direction =? -1); [apply iupac_revcomp|]; exact Hc.
Qed.

Lemma kinds_firstn : forall k l, kinds (firstn (3 * k) l) = firstn k (kinds l).
Proof.
  induction k as [|k IH]; intros l; [reflexivity|].
  replace (3 * S k)%nat with (S (S (S (3 * k)))) by lia.
  destruct l as [|a [|b [|c r]]]; try reflexivity. cbn [firstn kinds]. f_equal. apply IH.
Qed.
Lemma kinds_skipn : forall k l, kinds (skipn (3 * k) l) = skipn k (kinds l).
Proof.
  induction k as [|k IH]; intros l; [reflexivity|].
  replace (3 * S k)%nat with (S (S (S (3 * k)))) by lia.
  destruct l as [|a [|b [|c r]]].
  - cbn [skipn kinds]. destruct k; reflexivity.
  - cbn [skipn kinds]. destruct (3 * k)%nat; destruct k; reflexivity.
  - cbn [skipn kinds]. destruct (3 * k)%nat; destruct k; reflexivity.
  - cbn [skipn kinds]. apply IH.
Qed.
Lemma nth_error_firstn_lt {A} : forall k (l : list A) j, (j < k)%nat -> nth_error (firstn k l) j = nth_error l j.
Proof.
  induction k as [|k IH]; intros l j H; [lia|]. destruct l as [|x l]; [destruct j; reflexivity|].
  destruct j as [|j]; [reflexivity|]. cbn. apply IH. lia.
Qed.
Lemma nth_error_skipn_add {A} : forall k (l : list A) j, nth_error (skipn k l) j = nth_error l (k + j).
Proof.
  induction k as [|k IH]; intros l j; [reflexivity|]. destruct l as [|x l]; [destruct j; reflexivity|]. cbn. apply IH.
Qed.

(* translating up to the first stop codon: the residues of the codons before it, none of them replaced *)
Lemma translate_to_stop : forall k T, iupac T ->
  (forall j, (j < k)%nat -> nth_error (kinds (map upper T)) j <> Some KStop) ->
  nth_error (kinds (map upper T)) k = Some KStop ->
  translate true T = translate false (firstn (3 * k) T) /\
  Forall (fun aa => odd_residue aa = false) (translate true T) /\ length (translate true T) = k.
Proof.
  induction k as [|k IH]; intros T Hacgt Hno Hstop.
  - destruct T as [|a [|b [|c r]]]; try discriminate.
    inversion Hacgt as [|? ? Ha H1]; subst. inversion H1 as [|? ? Hb H2]; subst. inversion H2 as [|? ? Hc H3]; subst.
    destruct (codon_facts a b c Ha Hb Hc) as [F1 _].
    cbn [map kinds nth_error] in Hstop. inversion Hstop as [E]. rewrite E in F1. cbn [kind_eqb] in F1.
    cbn [translate firstn Nat.mul]. rewrite F1. cbn [andb]. split; [reflexivity|]. split; [constructor|reflexivity].
  - destruct T as [|a [|b [|c r]]]; try discriminate.
    inversion Hacgt as [|? ? Ha H1]; subst. inversion H1 as [|? ? Hb H2]; subst. inversion H2 as [|? ? Hc H3]; subst.
    destruct (codon_facts a b c Ha Hb Hc) as [F1 F2].
    cbn [map kinds nth_error] in Hstop.
    assert (Hk0 : classify (upper a) (upper b) (upper c) <> KStop).
    { intros E. apply (Hno 0%nat ltac:(lia)). cbn [map kinds nth_error]. rewrite E. reflexivity. }
    assert (F : (translate_codon a b c =? 42) = false).
    { rewrite F1. destruct (classify (upper a) (upper b) (upper c)); try reflexivity. contradiction. }
    destruct (IH r H3) as (E1 & E2 & E3).
    { intros j Hj. specialize (Hno (S j) ltac:(lia)). cbn [map kinds nth_error] in Hno. exact Hno. }
    { exact Hstop. }
    replace (3 * S k)%nat with (S (S (S (3 * k)))) by lia.
    cbn [translate firstn]. rewrite F. cbn [andb]. split; [f_equal; exact E1|]. split.
    + constructor; [rewrite F2; exact F|exact E2].
    + cbn [length]. f_equal. exact E3.
Qed.

Lemma filter_iupac T : iupac T -> filter (fun c => negb (c =? 45)) T = T.
Proof.
  induction T as [|x T IH]; intros H; [reflexivity|]. inversion H as [|? ? Hx HT]; subst. cbn [filter].
  assert (E : (x =? 45) = false).
  { apply iupacb_In in Hx. unfold iupac_codes in Hx. cbn [In] in Hx.
    repeat (destruct Hx as [<-|Hx]; [reflexivity|]). destruct Hx. }
  rewrite E. cbn [negb]. f_equal. apply IH. exact HT.
Qed.
Lemma map_id_on {A} (f : A -> A) l : Forall (fun x => f x = x) l -> map f l = l.
Proof. induction l as [|x l IH]; intros H; [reflexivity|]. inversion H; subst. cbn [map]. f_equal; [assumption|apply IH; assumption]. Qed.

(* the whole create_feature_from_location path on an ORF text *)
Lemma create_feature_orf g l f T k :
  create_feature g l = Ok f -> lend l <= zlen g -> extract g l = T -> iupac T -> (1 <= k)%nat ->
  length T = (3 * (k + 1))%nat ->
  (forall j, (j < k)%nat -> nth_error (kinds (map upper T)) j <> Some KStop) ->
  nth_error (kinds (map upper T)) k = Some KStop ->
  ftrans f = orf_protein T.
Proof.
  intros Hc Hend Hex Hacgt Hk Hlen Hno Hstop.
  destruct (translate_to_stop k T Hacgt Hno Hstop) as (E1 & E2 & E3).
  unfold create_feature, aa_translation in Hc.
  assert (Hlt : (zlen g <? lend l) = false) by (apply Z.ltb_ge; exact Hend). rewrite Hlt in Hc.
  rewrite Hex, (filter_iupac T Hacgt) in Hc. cbn [bind] in Hc.
  destruct (translate true T) as [|c r] eqn:Ht; [cbn [length] in E3; lia|].
  rewrite map_id_on in Hc.
  2:{ eapply Forall_impl; [|exact E2]. cbn beta. intros aa Haa. unfold odd_residue in Haa. rewrite Haa. reflexivity. }
  unfold orf_protein. rewrite Hlen. replace (3 * (k + 1) - 3)%nat with (3 * k)%nat by lia. rewrite <- E1.
  inversion Hc. cbn [ftrans]. destruct (c =? 77) eqn:E; [apply Z.eqb_eq in E; subst c|]; reflexivity.
Qed.

Lemma orf_location_lend direction offset n N s e :
  (direction = 1 \/ direction = -1) -> 0 < N -> 0 <= s -> s < e -> e - s + 1 <= N ->
  lend (orf_location direction offset n (Some N) (s, e)) <= N.
Proof.
  intros Hdir HN Hs Hse Hlen.
  destruct (orf_location_ring direction offset n N s e Hdir HN Hs Hse Hlen) as (_ & Hall & (a & b & Hshape)).
  destruct Hshape as [E|[[_ E]|[_ E]]]; rewrite E in *; unfold lend; cbn [map lmax fold_left pe].
  - inversion Hall as [|? ? H1 _]; subst. cbn [pe] in H1. lia.
  - inversion Hall as [|? ? H1 H2]; subst. inversion H2 as [|? ? H3 _]; subst. cbn [pe] in H1, H3. lia.
  - inversion Hall as [|? ? H1 H2]; subst. inversion H2 as [|? ? H3 _]; subst. cbn [pe] in H1, H3. lia.
Qed.

Lemma skipn_add {A} : forall a b (l : list A), skipn b (skipn a l) = skipn (a + b) l.
Proof.
  induction a as [|a IH]; intros b l; [reflexivity|]. destruct l as [|x l]; [destruct b; reflexivity|]. cbn. apply IH.
Qed.

(* the codon kinds of the text of a reported stretch are a piece of the frame's codon kinds *)
Lemma kinds_of_stretch (W : list Z) (frame s k : nat) :
  kinds (map upper (firstn (3 * (k + 1)) (skipn (frame + 3 * s) W))) =
  firstn (k + 1) (skipn s (kinds (skipn frame (map upper W)))).
Proof.
  rewrite <- firstn_map, <- skipn_map. rewrite kinds_firstn. f_equal.
  rewrite <- kinds_skipn. f_equal. rewrite skipn_add. reflexivity.
Qed.

(* the translation clause: on a genome of IUPAC DNA letters (A C G T and the ambiguity codes, both cases) the stored translation of every new feature is the protein of
   the text its location extracts to - the codons before the stop codon translated one by one, first residue M *)
Lemma find_all_orfs_translation g cds area ml ov feats f :
  gaps_wf (zlen g) cds area ml ov = true -> iupac g ->
  find_all_orfs g cds area ml ov = Ok feats -> In f feats ->
  ftrans f = orf_protein (extract g (floc f)).
Proof.
  intros Hg Hacgt Hres Hf.
  destruct (find_all_orfs_unwind g cds area ml ov feats f Hres Hf) as (areas & [s e] & Hareas & Ha & Hl & Hc & _).
  pose proof (intergenic_for_ok _ _ _ _ _ _ Hg Hareas) as Hok. rewrite Forall_forall in Hok.
  destruct (Hok _ Ha) as (Hw & Hlen & _ & _). cbn [fst snd] in Hw, Hlen.
  unfold area_orfs in Hl. apply in_app_or in Hl.
  assert (Hcase : exists direction, (direction = 1 \/ direction = -1) /\
            In (floc f) (scan_orfs (window g s e direction) direction s ml (Some (zlen g)))).
  { destruct Hl as [H|H]; [exists 1|exists (-1)]; (split; [auto|exact H]). }
  clear Hl. destruct Hcase as (direction & Hdir & Hin).
  destruct (scan_orfs_extract_ring g s e direction ml (floc f) Hw Hlen Hdir Hin)
    as (frame & a0 & b0 & Hframe & Horf & Ha0 & Hab & Hb0 & Hloc & Hext).
  pose proof (frame_orfs_bounds _ _ _ _ Hframe Horf) as Hbounds. cbn [fst snd] in Hbounds. rewrite zlen_map in Hbounds.
  apply frame_orfs_spec in Horf. destruct Horf as (s' & e' & His & Hco & _).
  unfold orf_coords in Hco. cbn [fst snd] in Hco. apply pair_equal_spec in Hco. destruct Hco as [-> ->].
  destruct His as (Hse & Hstart & Hstop & Hmid & _).
  assert (HN : 0 < zlen g) by lia.
  set (W := window g s e direction) in *. set (k := (e' - s')%nat).
  assert (HT : slice W (Z.of_nat frame + 3 * Z.of_nat s') (Z.of_nat frame + 3 * Z.of_nat e' + 2 + 1) =
               firstn (3 * (k + 1)) (skipn (frame + 3 * s') W)).
  { unfold slice, k. f_equal; [lia|f_equal; lia]. }
  rewrite HT in Hext.
  rewrite Hext at 1.
  apply (create_feature_orf g (floc f) f (firstn (3 * (k + 1)) (skipn (frame + 3 * s') W)) k Hc).
  - rewrite Hloc. apply orf_location_lend; try assumption; lia.
  - exact Hext.
  - apply iupac_firstn, iupac_skipn. apply iupac_window. exact Hacgt.
  - unfold k. lia.
  - rewrite firstn_length, skipn_length. unfold zlen in Hbounds. unfold k. lia.
  - intros j Hj. rewrite kinds_of_stretch. rewrite nth_error_firstn_lt by lia. rewrite nth_error_skipn_add.
    destruct j as [|j].
    + rewrite Nat.add_0_r, Hstart. discriminate.
    + apply Hmid. unfold k in Hj. lia.
  - rewrite kinds_of_stretch. rewrite nth_error_firstn_lt by lia. rewrite nth_error_skipn_add.
    replace (s' + k)%nat with e' by (unfold k; lia). exact Hstop.
Qed.

(* the boolean specification evaluated at run time on every find_all_orfs output holds for the model's output *)
Lemma find_all_orfs_spec_ok g cds area ml ov feats :
  gaps_wf (zlen g) cds area ml ov = true -> forallb iupacb g = true ->
  find_all_orfs g cds area ml ov = Ok feats ->
  forallb (feature_ok g cds area ov) feats = true.
Proof.
  intros Hg Hacgt Hres. apply forallb_forall. intros f Hf.
  assert (Hacgt' : iupac g) by (unfold iupac; apply Forall_forall; rewrite forallb_forall in Hacgt; exact Hacgt).
  destruct (find_all_orfs_gaps g cds area ml ov feats f Hg Hres Hf) as (_ & Hgenes & Hsearch).
  pose proof (find_all_orfs_translation g cds area ml ov feats f Hg Hacgt' Hres Hf) as Htr.
  unfold feature_ok. apply andb_true_intro. split; [apply andb_true_intro; split|].
  - apply forallb_forall. intros c Hc. apply Z.leb_le. exact (Hgenes c Hc).
  - apply forallb_forall. exact Hsearch.
  - rewrite Htr. clear. induction (orf_protein (extract g (floc f))) as [|x l IH]; [reflexivity|].
    cbn [zl_eqb]. rewrite Z.eqb_refl. exact IH.
Qed.

(* ------------------------------------------------------------------ get_trimmed_orf: the trimmed location *)
Lemma length_zrange a n : length (zrange a n) = Z.to_nat n.
Proof. unfold zrange. rewrite map_length, seq_length. reflexivity. Qed.
Lemma length_part_positions p : length (part_positions p) = Z.to_nat (pe p - ps p).
Proof. unfold part_positions. destruct (pst p =? -1); [rewrite rev_length|]; apply length_zrange. Qed.
Lemma skipn_app_exact {A} (a b : list A) n : length a = n -> skipn n (a ++ b) = b.
Proof. intros <-. rewrite skipn_app, skipn_all, Nat.sub_diag. reflexivity. Qed.

(* the location get_trimmed_orf builds (since the repair of FC15d) occupies exactly the positions of the given location
   without the first k in the order of translation - for every location whose parts are non-empty-or-empty ranges on
   strand 1 or -1, in any number of parts (an ORF over the origin has two) *)
Lemma trim_parts_positions : forall l k, 0 <= k ->
  Forall (fun p => ps p <= pe p /\ (pst p = 1 \/ pst p = -1)) l ->
  positions (trim_parts l k) = skipn (Z.to_nat k) (positions l).
Proof.
  induction l as [|p r IH]; intros k Hk Hl.
  - cbn. rewrite skipn_nil. reflexivity.
  - inversion Hl as [|? ? [Hp Hst] Hr]; subst. cbn [trim_parts]. cbv zeta.
    change (positions (p :: r)) with (part_positions p ++ positions r).
    destruct (pe p - ps p <=? k) eqn:Hle.
    + apply Z.leb_le in Hle. rewrite IH by (try assumption; lia).
      rewrite skipn_app. rewrite (@skipn_all2 _ (Z.to_nat k) (part_positions p)) by (rewrite length_part_positions; lia).
      rewrite length_part_positions. cbn [app]. f_equal. lia.
    + apply Z.leb_gt in Hle.
      match goal with |- positions (?q :: _) = _ => change (positions (q :: trim_parts r 0)) with
        (part_positions q ++ positions (trim_parts r 0)) end.
      rewrite (IH 0) by (try assumption; lia). cbn [Z.to_nat skipn].
      rewrite skipn_app. rewrite length_part_positions.
      replace (Z.to_nat k - Z.to_nat (pe p - ps p))%nat with 0%nat by lia. cbn [skipn]. f_equal.
      unfold part_positions. destruct Hst as [E|E]; rewrite E; cbn [Z.eqb Pos.eqb pst ps pe].
      * replace (pe p - ps p) with (k + (pe p - (ps p + k))) by lia. rewrite zrange_app by lia.
        rewrite skipn_app_exact by (rewrite length_zrange; reflexivity). reflexivity.
      * replace (pe p - ps p) with ((pe p - k - ps p) + k) by lia. rewrite zrange_app by lia.
        rewrite rev_app_distr. rewrite skipn_app_exact by (rewrite rev_length, length_zrange; reflexivity). reflexivity.
Qed.

(* FC15d trimmed_orf_over_origin is repaired: the recorded witness (ORF join{[48:60](+),[0:9](+)} = ATG AAA ATG AAA AAA AAA TAA
   over the origin of a circular record of 60: the second ATG is 6 bases in; the envelope arithmetic used to give [6:60](+))
   now gives join{[54:60](+),[0:9](+)} with translation MKKK, and the same on the reverse strand *)
Lemma trimmed_witness_repaired :
  let g' := [65; 65; 65; 65; 65; 65; 84; 65; 65] ++ repeat 67 39 ++ [65; 84; 71; 65; 65; 65; 65; 84; 71; 65; 65; 65] in
  trim_parts [mkPart 48 60 1; mkPart 0 9 1] 6 = [mkPart 54 60 1; mkPart 0 9 1] /\
  trim_parts [mkPart 0 12 (-1); mkPart 51 60 (-1)] 6 = [mkPart 0 6 (-1); mkPart 51 60 (-1)] /\
  exists f, get_trimmed_orf g' [mkPart 48 60 1; mkPart 0 9 1] None None 5 = Ok (Some f) /\
            floc f = [mkPart 54 60 1; mkPart 0 9 1] /\ ftrans f = [77; 75; 75; 75].
Proof. cbn zeta. split; [vm_compute; reflexivity|]. split; [vm_compute; reflexivity|]. eexists. vm_compute. repeat split. Qed.

(* FC15c ambiguous_stop_translation is repaired: TAR and TRA (R = A or G) are stop codons whatever the base is, Biopython ends
   the translation there, and scan_orfs now ends the ORF there as well (STOP_CODONS, regenerated into c15_stop_codons).  The
   recorded witness CCC ATG AAA TAR AAA AAA TAA CCC used to give ORF [3:21)(+) with the translation MK (2 residues for a
   location of 5 codons + stop); it gives [3:12)(+) MK.  The general statement is find_all_orfs_translation, whose alphabet
   now includes the ambiguity codes: it rests on codon_table_facts, which FAILS for the old table (TAR translates to '*' but
   was not classified as a stop) *)
Lemma ambiguous_stop_witness_repaired :
  let g := [67; 67; 67; 65; 84; 71; 65; 65; 65; 84; 65; 82; 65; 65; 65; 65; 65; 65; 84; 65; 65; 67; 67; 67] in
  forallb iupacb g = true /\ forallb (fun c => existsb (Z.eqb c) [65; 67; 71; 84]) g = false /\
  translate_codon 84 65 82 = 42 /\ translate_codon 84 82 65 = 42 /\
  classify 84 65 82 = KStop /\ classify 84 82 65 = KStop /\
  scan_orfs g 1 0 3 None = [[mkPart 3 12 1]] /\
  exists f, find_all_orfs g [] None 3 10 = Ok [f] /\ floc f = [mkPart 3 12 1] /\ ftrans f = [77; 75].
Proof. cbn zeta. repeat (split; [vm_compute; reflexivity|]). eexists. vm_compute. repeat split. Qed.

(* FC15a area_misses_enclosing_gene is repaired: its recorded witness (genes [5:40) [10:20), area [30:60), max_overlap 0 -
   the nested gene used to hide the enclosing one from the look-up, and ORF [33:42)(+) inside [5:40) was returned) is
   well-formed, the enclosing gene is handed to the gap search and nothing is returned *)
Lemma gaps_witness_FC15a_repaired :
  let g := [67; 67; 67; 67; 67; 67; 67; 67; 67; 67; 67; 67; 67; 67; 67; 67; 67; 67; 67; 67; 67; 67; 67; 67; 67; 67; 67; 67; 67; 67; 67; 67; 67; 65; 84; 71; 65; 65; 65; 84; 65; 65; 67; 67; 67; 67; 67; 67; 67; 67; 67; 67; 67; 67; 67; 67; 67; 67; 67; 67] in
  let cds := [[mkPart 5 40 1]; [mkPart 10 20 1]] in
  gaps_wf (zlen g) cds (Some [mkPart 30 60 1]) 5 0 = true /\
  cds_within cds (mkPart 30 60 1) = [[mkPart 5 40 1]] /\
  find_all_orfs g cds (Some [mkPart 30 60 1]) 5 0 = Ok [].
Proof. cbn zeta. split; [vm_compute; reflexivity|]. split; vm_compute; reflexivity. Qed.

(* FC15b origin_gene_padding_window is repaired: its recorded witness (gene join{[0:9](-),[36:47](-)} spanning the origin,
   area join{[26:47],[0:6]}, max_overlap 10: the window joined over the origin, positions 37..46 0..5, shares 16 positions
   with the gene, and ORF join{[38:47](+),[0:3](+)} sharing 12 positions with it used to be returned) is well-formed, the
   gene reaches into both parts (coverage class 2), the ORF is still found in the joined window and the test on the ORFs
   drops it *)
Lemma gaps_witness_FC15b_repaired :
  let g := [84; 65; 71; 84; 67; 71; 84; 71; 84; 71; 67; 84; 71; 65; 67; 84; 84; 71; 65; 65; 84; 84; 84; 67; 67; 71; 84; 67; 71; 71; 84; 71; 67; 67; 65; 84; 71; 84; 65; 84; 71; 67; 65; 84; 67; 71; 84] in
  let cds := [[mkPart 0 9 (-1); mkPart 36 47 (-1)]; [mkPart 38 42 1]] in
  let area := [mkPart 26 47 1; mkPart 0 6 1] in
  gaps_wf (zlen g) cds (Some area) 5 10 = true /\ forallb iupacb g = true /\ gaps_class cds (Some area) = 2 /\
  intergenic_for (zlen g) cds (Some area) 5 10 = Ok [(37, 47); (-10, 6)] /\
  In [mkPart 38 47 1; mkPart 0 3 1] (area_orfs g 5 (-10, 6)) /\
  shared [mkPart 38 47 1; mkPart 0 3 1] [mkPart 0 9 (-1); mkPart 36 47 (-1)] = 12 /\
  find_all_orfs g cds (Some area) 5 10 = Ok [].
Proof. cbn zeta. repeat (split; [vm_compute; auto|]). vm_compute. reflexivity. Qed.

(* ================================================================== third deepening pass: scan_orfs on a window of a circular
   record told by ANY offset (negative = before the origin, zero, positive with the window running past the record end,
   beyond the record length).  Model.ring_text / ring_window: the text of the window by positions modulo the record
   length; the earlier extraction theorems (extract_orf_ring, scan_orfs_extract_ring) covered window_ok only, i.e. windows
   inside the record or starting before the origin - the way find_all_orfs calls scan_orfs - and not a window told by its
   real start coordinate that overshoots the record end *)
Lemma znth_zrange a n i : 0 <= i < n -> znth (zrange a n) i = a + i.
Proof.
  intros Hi. unfold znth, zrange.
  transitivity (nth (Z.to_nat i) (map (fun k => a + Z.of_nat k) (seq 0 (Z.to_nat n))) ((fun k => a + Z.of_nat k) 0%nat)).
  { apply nth_indep. rewrite map_length, seq_length; lia. }
  rewrite (map_nth (fun k => a + Z.of_nat k)). rewrite seq_nth by lia. lia.
Qed.

Lemma zlen_ring_text g off len : 0 <= len -> zlen (ring_text g off len) = len.
Proof. intros H. unfold ring_text. rewrite zlen_map. apply zlen_zrange. exact H. Qed.

Lemma znth_ring_text g off len i : 0 <= i < len ->
  znth (ring_text g off len) i = znth g ((off + i) mod zlen g).
Proof.
  intros Hi. unfold ring_text. rewrite znth_map by (rewrite zlen_zrange; lia).
  rewrite znth_zrange by lia. unfold znth. f_equal.
Qed.

Lemma zlen_ring_window g off len direction : 0 <= len -> zlen (ring_window g off len direction) = len.
Proof.
  intros H. unfold ring_window. destruct (direction =? -1); [rewrite zlen_revcomp|]; apply zlen_ring_text; exact H.
Qed.

Lemma chunk_ring_text g off end_ : window_ok (zlen g) off end_ -> chunk g off end_ = ring_text g off (end_ - off).
Proof.
  intros Hw. assert (Hlen : 0 <= end_ - off) by (destruct Hw; lia).
  apply list_ext.
  - rewrite zlen_chunk by exact Hw. rewrite zlen_ring_text by lia. reflexivity.
  - rewrite zlen_chunk by exact Hw. intros i Hi. rewrite znth_chunk by assumption. rewrite znth_ring_text by lia.
    f_equal. unfold wrap_pos. destruct (off + i <? 0) eqn:Hc.
    + apply Z.mod_unique with (q := -1); destruct Hw; lia.
    + apply Z.mod_unique with (q := 0); destruct Hw; lia.
Qed.

Lemma window_ring_window g off end_ direction : window_ok (zlen g) off end_ ->
  window g off end_ direction = ring_window g off (end_ - off) direction.
Proof. intros Hw. unfold window, ring_window. rewrite chunk_ring_text by exact Hw. reflexivity. Qed.

Lemma extract_orf_ring_any g off len direction s e :
  (direction = 1 \/ direction = -1) -> 0 <= s -> s <= e -> e < len -> e - s + 1 <= zlen g ->
  extract g (orf_location direction off len (Some (zlen g)) (s, e)) =
  slice (ring_window g off len direction) s (e + 1).
Proof.
  intros Hdir Hs Hse He Hlen.
  assert (HN : 0 < zlen g) by lia.
  rewrite (orf_location_shape direction off len (zlen g) s e Hdir HN Hse Hlen).
  destruct Hdir as [-> | ->]; cbn [Z.eqb Pos.eqb]; unfold ring_window; cbn [Z.eqb Pos.eqb].
  - set (x := s + off).
    pose proof (Z.mod_pos_bound (x + zlen g) (zlen g) HN) as Hb.
    pose proof (Z.div_mod (x + zlen g) (zlen g) ltac:(lia)) as Hd.
    destruct (extract_ring_fwd g ((x + zlen g) mod zlen g) (e - s + 1) Hb ltac:(lia)) as [Hl Hnth].
    apply list_ext.
    + rewrite Hl, zlen_slice by (rewrite ?zlen_ring_text; lia). lia.
    + rewrite Hl. intros i Hi. rewrite Hnth by exact Hi. rewrite znth_slice by lia.
      rewrite znth_ring_text by lia. f_equal.
      set (r := (x + zlen g) mod zlen g) in *. set (q := (x + zlen g) / zlen g) in *.
      destruct (r + i <? zlen g) eqn:Hc.
      * apply Z.mod_unique with (q := q - 1); lia.
      * apply Z.mod_unique with (q := q); lia.
  - set (x := len + off - e - 1).
    pose proof (Z.mod_pos_bound (x + zlen g) (zlen g) HN) as Hb.
    pose proof (Z.div_mod (x + zlen g) (zlen g) ltac:(lia)) as Hd.
    destruct (extract_ring_rev g ((x + zlen g) mod zlen g) (e - s + 1) Hb ltac:(lia)) as [Hl Hnth].
    apply list_ext.
    + rewrite Hl, zlen_slice by (rewrite ?zlen_revcomp, ?zlen_ring_text; lia). lia.
    + rewrite Hl. intros i Hi. rewrite Hnth by exact Hi. rewrite znth_slice by lia.
      rewrite znth_revcomp by (rewrite zlen_ring_text; lia). rewrite zlen_ring_text by lia.
      rewrite znth_ring_text by lia. f_equal. f_equal. cbn zeta.
      set (r := (x + zlen g) mod zlen g) in *. set (q := (x + zlen g) / zlen g) in *.
      destruct (r + (e - s + 1) - 1 - i <? zlen g) eqn:Hc.
      * apply Z.mod_unique with (q := q - 1); lia.
      * apply Z.mod_unique with (q := q); lia.
Qed.

(* the codons of an ORF of a frame, taken on their own, are an ORF from the first to the last codon *)
Lemma is_orf_stretch ks s e : is_orf ks s e -> is_orf (firstn (e - s + 1) (skipn s ks)) 0 (e - s).
Proof.
  intros (Hse & Hs & He & Hmid & Hpre). unfold is_orf.
  split; [lia|]. split; [|split; [|split]].
  - rewrite nth_error_firstn_lt by lia. rewrite nth_error_skipn_add, Nat.add_0_r. exact Hs.
  - rewrite nth_error_firstn_lt by lia. rewrite nth_error_skipn_add. replace (s + (e - s))%nat with e by lia. exact He.
  - intros j Hj. rewrite nth_error_firstn_lt by lia. rewrite nth_error_skipn_add. apply Hmid. lia.
  - intros j Hj. lia.
Qed.

(* the text of an ORF of a frame of the window, cut out of the window, passes the run-time test orf_text_b *)
Lemma orf_text_of_frame_orf W frame s e :
  is_orf (kinds (skipn frame (map upper W))) s e ->
  orf_text_b (slice W (Z.of_nat frame + 3 * Z.of_nat s) (Z.of_nat frame + 3 * Z.of_nat e + 2 + 1)) = true.
Proof.
  intros Horf. pose proof Horf as (Hse & _ & He & _).
  apply kinds_nth_bound in He. rewrite skipn_length, map_length in He.
  unfold slice.
  replace (Z.to_nat (Z.of_nat frame + 3 * Z.of_nat e + 2 + 1 - (Z.of_nat frame + 3 * Z.of_nat s)))
    with (3 * ((e - s) + 1))%nat by lia.
  replace (Z.to_nat (Z.of_nat frame + 3 * Z.of_nat s)) with (frame + 3 * s)%nat by lia.
  unfold orf_text_b. cbn zeta. rewrite kinds_of_stretch.
  apply andb_true_intro. split.
  - rewrite firstn_length, skipn_length.
    replace (Nat.min (3 * (e - s + 1)) (length W - (frame + 3 * s))) with (3 * (e - s + 1))%nat by lia.
    rewrite Nat2Z.inj_mul. rewrite Z.mul_comm. rewrite Z_mod_mult. reflexivity.
  - apply is_orf_stretch in Horf.
    assert (Hl : length (firstn (e - s + 1) (skipn s (kinds (skipn frame (map upper W))))) = (e - s + 1)%nat).
    { destruct Horf as (_ & _ & Hk & _).
      assert (Hk' : (e - s < length (firstn (e - s + 1) (skipn s (kinds (skipn frame (map upper W))))))%nat)
        by (apply nth_error_Some; congruence).
      pose proof (firstn_le_length (e - s + 1) (skipn s (kinds (skipn frame (map upper W))))). lia. }
    rewrite Hl. replace (e - s + 1 - 1)%nat with (e - s)%nat by lia.
    apply is_orf_b_spec. exact Horf.
Qed.

Lemma orf_location_shape_ok direction offset n N s e :
  (direction = 1 \/ direction = -1) -> 0 < N -> 0 <= s -> s < e -> e - s + 1 <= N ->
  ring_shape_ok N direction (orf_location direction offset n (Some N) (s, e)) = true.
Proof.
  intros Hdir HN Hs Hse Hlen.
  destruct (orf_location_ring direction offset n N s e Hdir HN Hs Hse Hlen) as (Hll & Hall & a & b & Hshape).
  cbn zeta in *. destruct Hshape as [H | [[Hd H] | [Hd H]]]; rewrite H in Hll, Hall |- *;
    unfold loc_len, part_len in Hll; cbn [fold_right ps pe] in Hll.
  - inversion Hall as [|? ? Hp _]; subst. cbn [ps pe pst] in Hp. unfold ring_shape_ok. cbn [ps pe pst]. lia.
  - subst direction. inversion Hall as [|? ? Hp Hr]; subst. inversion Hr as [|? ? Hq _]; subst.
    cbn [ps pe pst] in Hp, Hq. unfold ring_shape_ok. cbn [ps pe pst].
    change (1 =? -1) with false. cbn iota. lia.
  - subst direction. inversion Hall as [|? ? Hp Hr]; subst. inversion Hr as [|? ? Hq _]; subst.
    cbn [ps pe pst] in Hp, Hq. unfold ring_shape_ok. cbn [ps pe pst].
    change (-1 =? -1) with true. cbn iota. lia.
Qed.

(* C15_coordinates for EVERY way of telling the window's position: any integer offset (negative, zero, positive with the
   window running past the record end, beyond the record length), any window length; every location returned by scan_orfs
   comes from an ORF [a, b] of a frame of the upper-cased window text, and when that ORF is not longer than the record
   (always so when the window is not longer than the record) the location extracts from the record to exactly the window
   text from a to b, that text passes the ORF test, the location has the ring shape (inside [0, N), at most two parts
   split at the origin, in transcription order) and occupies exactly the ORF's positions on the ring *)
Lemma scan_orfs_ring_any g off len direction minimum l :
  0 <= len -> (direction = 1 \/ direction = -1) ->
  In l (scan_orfs (ring_window g off len direction) direction off minimum (Some (zlen g))) ->
  exists frame a b, (frame <= 2)%nat /\
    In (a, b) (frame_orfs (map upper (ring_window g off len direction)) frame minimum) /\
    0 <= a /\ a < b /\ b < len /\
    l = orf_location direction off len (Some (zlen g)) (a, b) /\
    (b - a + 1 <= zlen g ->
       extract g l = slice (ring_window g off len direction) a (b + 1) /\
       orf_text_b (extract g l) = true /\
       ring_shape_ok (zlen g) direction l = true /\
       positions l = expected_positions direction off len (Some (zlen g)) (a, b)).
Proof.
  intros Hlen Hdir Hin. unfold scan_orfs in Hin. apply sort_by_In in Hin.
  pose proof (zlen_ring_window g off len direction Hlen) as Hn.
  rewrite zlen_map, Hn in Hin.
  apply in_flat_map in Hin. destruct Hin as (frame & Hframe & Hin).
  apply in_map_iff in Hin. destruct Hin as ([a b] & Hl & Hc).
  assert (Hf : (frame <= 2)%nat) by (cbn in Hframe; lia).
  pose proof (frame_orfs_bounds _ _ _ _ Hf Hc) as Hb. rewrite zlen_map, Hn in Hb. cbn [fst snd] in Hb.
  pose proof Hc as Hc'. apply frame_orfs_spec in Hc'. destruct Hc' as (s & e & Horf & Hab & _).
  pose proof (f_equal fst Hab) as Ha. pose proof (f_equal snd Hab) as Hbb.
  destruct (orf_coords_frame (Z.of_nat frame) s e) as [E1 E2]. rewrite E1 in Ha. rewrite E2 in Hbb.
  cbn [fst snd] in Ha, Hbb. clear E1 E2 Hab.
  assert (Hse : (s < e)%nat) by (destruct Horf; assumption).
  exists frame, a, b. split; [exact Hf|]. split; [exact Hc|]. split; [lia|]. split; [lia|]. split; [lia|].
  split; [symmetry; exact Hl|]. intros Hfit. subst l.
  assert (Hex : extract g (orf_location direction off len (Some (zlen g)) (a, b)) =
                slice (ring_window g off len direction) a (b + 1)).
  { apply extract_orf_ring_any; try assumption; lia. }
  split; [exact Hex|]. split; [|split].
  - rewrite Hex, Ha, Hbb. apply orf_text_of_frame_orf. exact Horf.
  - apply orf_location_shape_ok; try assumption; lia.
  - apply positions_orf_location; try assumption; lia.
Qed.

Lemma zl_eqb_refl : forall a, zl_eqb a a = true.
Proof. induction a as [|x a IH]; [reflexivity|]. cbn [zl_eqb]. rewrite Z.eqb_refl. exact IH. Qed.

(* the ORFs the run-time specification enumerates (text_orfs) contain every ORF of every frame *)
Lemma text_orfs_In useq frame s e : (frame <= 2)%nat -> is_orf (kinds (skipn frame useq)) s e ->
  In (orf_coords (Z.of_nat frame) (s, e)) (text_orfs useq).
Proof.
  intros Hf Horf. unfold text_orfs. apply in_flat_map. exists frame. split.
  - cbn [In]. lia.
  - apply in_map. apply orfs_spec_In. exact Horf.
Qed.

(* hence the four verdicts that run id 13 (Model.spec_scan_ring) adds to spec_scan are TRUE of the model's own output, for
   every window not longer than the record, wherever it begins: a failure of one of them on an implementation output is
   a disagreement between implementation and model or a violation of the property, never an artefact of the test *)
Lemma scan_ring_spec_ok g off len direction minimum :
  0 <= len -> len <= zlen g -> (direction = 1 \/ direction = -1) ->
  let W := ring_window g off len direction in
  let out := scan_orfs W direction off minimum (Some (zlen g)) in
  forallb (ring_shape_ok (zlen g) direction) out = true /\
  forallb (fun l => orf_text_b (extract g l)) out = true /\
  forallb (fun l => existsb (fun c => zl_eqb (extract g l) (slice W (fst c) (snd c + 1))) (text_orfs (map upper W))) out = true /\
  zl_eqb W (ring_window g off (zlen W) direction) = true.
Proof.
  intros Hlen Hfit Hdir. cbn zeta.
  assert (Hall : forall l, In l (scan_orfs (ring_window g off len direction) direction off minimum (Some (zlen g))) ->
            ring_shape_ok (zlen g) direction l = true /\ orf_text_b (extract g l) = true /\
            existsb (fun c => zl_eqb (extract g l) (slice (ring_window g off len direction) (fst c) (snd c + 1)))
                    (text_orfs (map upper (ring_window g off len direction))) = true).
  { intros l Hin. destruct (scan_orfs_ring_any g off len direction minimum l Hlen Hdir Hin)
      as (frame & a & b & Hf & Hc & Ha & Hab & Hb & _ & Hrest).
    destruct (Hrest ltac:(lia)) as (Hex & Htext & Hshape & _).
    split; [exact Hshape|]. split; [exact Htext|].
    apply existsb_exists. exists (a, b). split.
    - apply frame_orfs_spec in Hc. destruct Hc as (s & e & Horf & -> & _). apply text_orfs_In; assumption.
    - cbn [fst snd]. rewrite Hex. apply zl_eqb_refl. }
  split; [apply forallb_forall; intros l Hin; apply Hall; exact Hin|].
  split; [apply forallb_forall; intros l Hin; apply Hall; exact Hin|].
  split; [apply forallb_forall; intros l Hin; apply Hall; exact Hin|].
  rewrite zlen_ring_window by exact Hlen. apply zl_eqb_refl.
Qed.

Lemma scan_ring_spec_verdict g off len direction minimum :
  0 <= len -> len <= zlen g -> (direction = 1 \/ direction = -1) ->
  let W := ring_window g off len direction in
  skipn 3 (spec_scan_ring g W direction off minimum (scan_orfs W direction off minimum (Some (zlen g)))) = [1; 1; 1; 1].
Proof.
  intros Hlen Hfit Hdir. cbn zeta.
  destruct (scan_ring_spec_ok g off len direction minimum Hlen Hfit Hdir) as (H1 & H2 & H3 & H4). cbn zeta in H1, H2, H3, H4.
  unfold spec_scan_ring, spec_scan_on. cbn zeta. cbn [app skipn].
  rewrite H1, H2, H3, H4. reflexivity.
Qed.
