(* C01 - property theorems only: statement, [exact lemma], Print Assumptions; Examples show the
   hypotheses are satisfiable (non-vacuity). *)
From ASV.C01 Require Import Model Proofs.

(* For every condition tree (all five constructors, negation anywhere, any nesting), every hit
   layout, every gene and both evaluation modes: the truth value computed by the evaluator is the
   documented boolean meaning [holds] - a profile name is true iff it hits the gene or a gene
   closer than the cutoff, cds(...) iff one single gene in that range satisfies the inner formula
   on its own, minimum(k, L) iff the listed profiles counted over the gene and the genes in range
   reach k, minscore(p, s) iff a hit of p with bit score >= s is on the gene or in range, and
   not/and/or are negation, conjunction, disjunction.  "Closer than the cutoff" is
   [dist < cutoff] with the distance of the location algebra (C04_distance_* give its meaning). *)
Theorem C01_met : forall cx, results_known cx ->
  forall c g local, met (eval cx c g local) = holds cx c g local.
Proof. exact eval_met_holds. Qed.
Print Assumptions C01_met.

Theorem C01_detect : forall cx, results_known cx ->
  forall c g, met (detect cx c g) = holds cx c g false.
Proof. exact detect_met_holds. Qed.
Print Assumptions C01_detect.

(* `not` is plain negation for every kind of condition (the xor handling) *)
Theorem C01_neg_is_negation : forall cx c g local,
  holds cx (negate c) g local = negb (holds cx c g local).
Proof. exact holds_negate. Qed.
Print Assumptions C01_neg_is_negation.

(* REASONS, soundness and completeness, as an equality of canonical (strictly increasing) lists,
   for every condition tree and both evaluation modes: the reported reason profiles are exactly
   [reasons] = the profiles of the formula that hit the gene itself (negation plays no role, a
   minimum lists its options found on the gene whether or not the count is reached), a minscore
   counting only when the gene's own score suffices and a cds(...) group only when the gene
   satisfies the group itself. *)
Theorem C01_reasons : forall cx, results_known cx ->
  forall c g local, matches (eval cx c g local) = reasons cx c g local.
Proof. exact eval_matches_reasons. Qed.
Print Assumptions C01_reasons.

(* every reason is a profile named by the rule that hits the evaluated gene *)
Theorem C01_reasons_are_rule_profiles_on_gene : forall cx c g local y,
  In y (reasons cx c g local) -> In y (profiles c) /\ has cx g y = true.
Proof. exact reasons_profiles. Qed.
Print Assumptions C01_reasons_are_rule_profiles_on_gene.

(* the property text read literally (a cds group counts iff the gene satisfies the group itself,
   [reasons_text]) is what detect reports for every tree the rule grammar can produce (no cds(...)
   inside cds(...)) ... *)
Theorem C01_reasons_text : forall cx, results_known cx -> forall c g, cds_flat c = true ->
  matches (detect cx c g) = reasons_text cx c g.
Proof. exact detect_reasons_text. Qed.
Print Assumptions C01_reasons_text.

(* ... and not for a cds(...) built inside a cds(...) through the class constructors: the inner
   group, evaluated in single-gene mode, keeps its reasons although the gene does not satisfy it *)
Theorem C01_reasons_text_nested_cds_refuted :
  exists cx c g, results_known cx /\ matches (detect cx c g) <> reasons_text cx c g.
Proof. exact nested_cds_witness. Qed.
Print Assumptions C01_reasons_text_nested_cds_refuted.

(* ANCHOR: a gene is reported as anchoring (met and at least one reason) exactly when the formula
   is true at it and it has at least one reason profile of its own *)
Theorem C01_anchor : forall cx, results_known cx -> forall c g,
  (met (detect cx c g) = true /\ matches (detect cx c g) <> []) <->
  (holds cx c g false = true /\ reasons cx c g false <> []).
Proof. exact detect_anchor_iff. Qed.
Print Assumptions C01_anchor.

Theorem C01_anchor_bool : forall cx, results_known cx -> forall c g,
  is_anchor (detect cx c g) = anchors cx c g.
Proof. exact is_anchor_anchors. Qed.
Print Assumptions C01_anchor_bool.

(* ANCILLARY HITS: gene o is listed with profile p exactly when [anc_has]: p is a name of the
   formula that is not on g, or an option of a minimum that g does not reach alone but reaches
   with the genes in range, and o is a gene in range carrying p (operands pass their lists up
   through and/or/groups whatever their truth value; minscore and cds list nothing) *)
Theorem C01_ancillary : forall cx, results_known cx ->
  forall c g local o p, anc_mem (ancs (eval cx c g local)) o p <-> anc_has cx c g local o p = true.
Proof. exact eval_ancs_spec. Qed.
Print Assumptions C01_ancillary.

Theorem C01_ancillary_in_range : forall cx c g local o p, anc_has cx c g local o p = true ->
  In o (map fst (feats cx)) /\ o <> g /\ in_range cx g o = true /\ has cx o p = true /\ In p (profiles c).
Proof. exact anc_has_facts. Qed.
Print Assumptions C01_ancillary_in_range.

(* APPLY_CLUSTER_RULES, one rule: (gene o, profile p) is recorded for the rule exactly when some
   gene g anchors in its own evaluation and either o = g with p one of its reasons or g lists
   (o, p) as ancillary; the genes the rule is reported for (cluster_type_hits[rule]) are the
   anchoring genes and the ancillary genes of anchoring genes *)
Theorem C01_rule_domains : forall c evals, evals_known evals ->
  forall o p, anc_mem (apply_rule c evals) o p <-> recorded_spec c evals o p = true.
Proof. exact apply_rule_mem. Qed.
Print Assumptions C01_rule_domains.

Theorem C01_rule_hits : forall c evals, evals_known evals ->
  forall o, In o (rule_hits c evals) <->
            exists e, In e evals /\ anchors (snd e) c (fst e) = true /\
                      (o = fst e \/ exists p, anc_has (snd e) c (fst e) false o p = true).
Proof. exact rule_hits_spec. Qed.
Print Assumptions C01_rule_hits.

(* "reported for the rule" at the level of apply_cluster_rules is therefore NOT "the formula is
   true at the gene": a promoted ancillary gene need not satisfy the formula itself (three genes
   in a row, `a and b and c`, only the middle one in range of both others) - upstream's intended
   behaviour (test_cluster_prediction.TestAncillary), stated here so that nobody reads C01_anchor
   as a claim about cluster_type_hits *)
Theorem C01_rule_hits_all_self_anchoring_refuted : exists c evals o cx,
  evals_known evals /\ In (o, cx) evals /\ In o (rule_hits c evals) /\ anchors cx c o = false /\ holds cx c o false = false.
Proof. exact promoted_witness. Qed.
Print Assumptions C01_rule_hits_all_self_anchoring_refuted.

(* non-vacuity: a ring of 100 with genes at [0,10), [30,40) (exactly cutoff 20 after the first:
   not in range) and [85,95) (5 before the origin: in range of the first across the origin);
   not cds(p1 and p2) at gene 0, the satisfying gene 2 being in range *)
Definition ex_ctx : ctx :=
  mkCtx 20 (Some 100)
        [(0, [mkPart 0 10 1]); (1, [mkPart 30 40 1]); (2, [mkPart 85 95 (-1)])]
        [(0, [(0, 60)]); (1, [(1, 100); (2, 100)]); (2, [(1, 100); (2, 41)])].
Example C01_nonvacuous :
  results_known ex_ctx /\
  near ex_ctx 0 = [2] /\
  holds ex_ctx (Group false [IAnd [Single false 0; Cds false [IAnd [Single false 1; Single false 2]]]]) 0 false = true /\
  holds ex_ctx (Group false [IAnd [Single false 0; Cds true [IAnd [Single false 1; Score false 2 21]]]]) 0 false = true /\
  detect ex_ctx (Group false [IAnd [Single false 0; Cds false [IAnd [Single false 1; Single false 2]]]]) 0
    = mkRes true [0] [] /\
  (* a name and a minimum supplied across the origin by gene 2: anchor with ancillary hits *)
  detect ex_ctx (Group false [IAnd [Single false 0; Single false 1; Minimum false 2 [0; 2]]]) 0
    = mkRes true [0] [(2, [1; 2])] /\
  anchors ex_ctx (Group false [IAnd [Single false 0; Single false 1; Minimum false 2 [0; 2]]]) 0 = true /\
  cds_flat (Group false [IAnd [Single false 0; Cds true [IAnd [Single false 1; Score false 2 21]]]]) = true /\
  evals_known [(0, ex_ctx); (1, ex_ctx); (2, ex_ctx)] /\
  rule_hits (Group false [IAnd [Single false 0; Single false 1; Minimum false 2 [0; 2]]]) [(0, ex_ctx); (1, ex_ctx); (2, ex_ctx)] = [0; 2].
Proof.
  assert (Hk : results_known ex_ctx) by (intros o Ho; cbn in Ho; cbn; tauto).
  split; [exact Hk|].
  repeat split; try (vm_compute; reflexivity).
  intros e [<-|[<-|[<-|[]]]]; exact Hk.
Qed.

(* what "the rule's profiles that hit that gene" includes: a profile the rule NEGATES is a reason
   too.  `a or not b`, b on gene 0, a only on the neighbouring gene 1: the formula is true at gene
   0 through the neighbour, its only reason is the negated b, and gene 0 anchors. *)
Definition neg_ctx : ctx :=
  mkCtx 20 None [(0, [mkPart 0 10 1]); (1, [mkPart 15 25 1])] [(0, [(1, 100)]); (1, [(0, 100)])].
Example C01_negated_profile_is_a_reason :
  detect neg_ctx (Group false [ICond (Single false 0); ICond (Single true 1)]) 0 = mkRes true [1] [(1, [0])] /\
  anchors neg_ctx (Group false [ICond (Single false 0); ICond (Single true 1)]) 0 = true.
Proof. split; vm_compute; reflexivity. Qed.

(* ====================================================================================
   HISTORIES.  A DetectionRule object is parsed once and then asked about every gene with hits of
   every record of the input; gene names repeat between records.  The property quantifies over
   (rule, arrangement): what was asked before must not matter.  [detect_history c evals] is the run
   of one rule value [c] over a sequence of evaluations (gene, arrangement); it is the function the
   check evaluates for its history cases (fn 5 of run_C01), position by position against what the
   SAME real rule object answered at that point of its life.
   ==================================================================================== *)

(* at every position of every history the answer is the answer to that evaluation asked alone *)
Theorem C01_history_pointwise : forall c evals i e, nth_error evals i = Some e ->
  nth_error (detect_history c evals) i = Some (detect (snd e) c (fst e)).
Proof. exact detect_history_nth. Qed.
Print Assumptions C01_history_pointwise.

(* ... so it does not depend on what was evaluated before or after it: two histories that contain
   the same evaluation [e] anywhere answer it identically *)
Theorem C01_history_independent : forall c before1 after1 before2 after2 e,
  nth_error (detect_history c (before1 ++ e :: after1)) (length before1) =
  nth_error (detect_history c (before2 ++ e :: after2)) (length before2).
Proof. exact detect_history_independent. Qed.
Print Assumptions C01_history_independent.

(* ... and it is the documented meaning: truth value, reason profiles, anchoring and ancillary hits
   of the (rule, arrangement, gene) of that position alone *)
Theorem C01_history_meaning : forall c evals, evals_known evals -> forall i e, nth_error evals i = Some e ->
  exists r, nth_error (detect_history c evals) i = Some r /\
            met r = holds (snd e) c (fst e) false /\
            matches r = reasons (snd e) c (fst e) false /\
            is_anchor r = anchors (snd e) c (fst e) /\
            (forall o p, anc_mem (ancs r) o p <-> anc_has (snd e) c (fst e) false o p = true).
Proof. exact detect_history_meaning. Qed.
Print Assumptions C01_history_meaning.

(* the executable run function itself: on every input that decodes to a history, fn 5 (the history
   run the harness calls) prints the number of evaluations followed by exactly what fn 1 (the single
   evaluation) prints for each of them *)
Theorem C01_history_run : forall l evals r c,
  dList (dPair dZ dCtx) l = Some (evals, r) -> dCond (length r) r = Some (c, []) ->
  run_C01 5 l = zlen evals :: flat_map (single_out c) evals.
Proof. exact run_fn5_history. Qed.
Print Assumptions C01_history_run.

Theorem C01_single_run : forall l cx r c g,
  dCtx l = Some (cx, r) -> dCond (length r) r = Some (c, [g]) -> run_C01 1 l = single_out c (g, cx).
Proof. exact run_fn1_single. Qed.
Print Assumptions C01_single_run.

(* the same for apply_cluster_rules run over several records with one rule: what is recorded for
   record i is what [recorded_spec] says about record i alone *)
Theorem C01_apply_history : forall c records, (forall evals, In evals records -> evals_known evals) ->
  forall i evals, nth_error records i = Some evals ->
  exists a, nth_error (apply_history c records) i = Some a /\
            forall o p, anc_mem a o p <-> recorded_spec c evals o p = true.
Proof. exact apply_history_meaning. Qed.
Print Assumptions C01_apply_history.

(* non-vacuity: two records with identically named genes (cutoff 10000; profiles q=0 KS=1 AT=2 x=3)
     A: G1 [0,3000) q   G2 [4000,9000) KS, AT   G3 [10000,12000) x
     B: G1 [0,3000) q   G2 [4000,9000) KS       G3 [10000,12000) x
   `q and cds(KS and AT)` and `q and not cds(KS and AT)` asked for G1, G2, G3 of A, then of B, then G1
   of A again: G1 anchors in A and not in B (resp. the other way round), whatever came before *)
Definition hist_feats : list (Z * loc) :=
  [(1, [mkPart 0 3000 1]); (2, [mkPart 4000 9000 1]); (3, [mkPart 10000 12000 1])].
Definition hist_A : ctx := mkCtx 10000 None hist_feats [(1, [(0, 200)]); (2, [(1, 200); (2, 200)]); (3, [(3, 200)])].
Definition hist_B : ctx := mkCtx 10000 None hist_feats [(1, [(0, 200)]); (2, [(1, 200)]); (3, [(3, 200)])].
Definition hist_rule (neg : bool) : cond :=
  Group false [IAnd [Single false 0; Cds neg [IAnd [Single false 1; Single false 2]]]].
Definition hist_evals : list (Z * ctx) := [(1, hist_A); (2, hist_A); (3, hist_A); (1, hist_B); (2, hist_B); (3, hist_B); (1, hist_A)].
Example C01_history_nonvacuous :
  evals_known hist_evals /\
  map is_anchor (detect_history (hist_rule false) hist_evals) = [true; true; false; false; false; false; true] /\
  map is_anchor (detect_history (hist_rule true) hist_evals) = [false; false; false; true; false; false; false] /\
  map met (detect_history (hist_rule false) hist_evals) = [true; true; true; false; false; false; true] /\
  apply_history (hist_rule false) [[(1, hist_A); (2, hist_A); (3, hist_A)]; [(1, hist_B); (2, hist_B); (3, hist_B)]]
    = [[(1, [0]); (2, [1; 2])]; []].
Proof.
  split.
  - intros e He o Ho. cbn in He.
    repeat (destruct He as [<-|He]; [exact Ho|]). destruct He.
  - repeat split; vm_compute; reflexivity.
Qed.

(* ====================================================================================
   THE RULE'S CUTOFF THROUGH PARSER AND RULESET CONSTRUCTIONS (state outside the evaluator).  Finding
   C01-H1 ruleset_rescales_shared_rules is REPAIRED: every Ruleset scales copies of the rule objects it
   is given, from_files parses unscaled, copy_with_replacements starts again from the objects given.
   ==================================================================================== *)

(* "the rule's cutoff" is what the rule text says times the multiplier of the ruleset evaluating it - for
   a ruleset built over the parsed rule and for every copy of it, of a copy of it, ..., with ANY
   multipliers (before the repair this needed the guard: all multipliers are 1) *)
Theorem C01_cutoff_unit_multipliers : forall kb m ms,
  cutoff_life kb (1, 1) ((false, m) :: map (pair true) ms)
  = kb * 1000 :: scale m (kb * 1000) :: map (fun m' => scale m' (kb * 1000)) ms.
Proof. exact cutoff_life_copies. Qed.
Print Assumptions C01_cutoff_unit_multipliers.

(* Ruleset.from_files(multipliers=m) evaluates its rules with text * m, for every m (was refuted:
   text * m * m) ... *)
Theorem C01_cutoff_scaled_once : forall kb m, cutoff_life kb (1, 1) [(false, m)] = [kb * 1000; scale m (kb * 1000)].
Proof. exact from_files_scales_once. Qed.
Print Assumptions C01_cutoff_scaled_once.

(* ... a copy of a ruleset with the ruleset's own multiplier keeps its distances, after any sequence of
   constructions (was refuted: the copy rescaled the shared objects) ... *)
Theorem C01_cutoff_ruleset_copy : forall kb m0 pre k m,
  cutoff_life kb m0 (pre ++ [(k, m); (true, m)])
  = cutoff_life kb m0 (pre ++ [(k, m)]) ++ [last (cutoff_life kb m0 (pre ++ [(k, m)])) 0].
Proof. exact ruleset_copy_keeps. Qed.
Print Assumptions C01_cutoff_ruleset_copy.

(* ... and a Ruleset built directly over the rule objects of another holder evaluates with the distances
   of the objects it is given times its own multiplier (the other holder's own values appear unchanged in
   the list: it keeps its objects) *)
Theorem C01_cutoff_constructor_given : forall kb m0 pre m,
  cutoff_life kb m0 (pre ++ [(false, m)]) = cutoff_life kb m0 pre ++ [scale m (last (cutoff_life kb m0 pre) 0)].
Proof. exact cutoff_life_constructor. Qed.
Print Assumptions C01_cutoff_constructor_given.

(* hmm_detection.get_ruleset: parsed and wrapped with unit multipliers, then ONE
   copy_with_replacements with the fungal multipliers; the witnesses of the repaired finding: from_files
   with 3/2 (was 22500), a ruleset with 3/2 and a copy with 3/2 (was 10000, 15000, 22500); the bare
   constructor over the scaled objects of another ruleset scales what it is given *)
Example C01_cutoff_hmm_detection_path :
  cutoff_life 10 (1, 1) [(false, (1, 1)); (true, (3, 2))] = [10000; 10000; 15000] /\
  cutoff_life 10 (1, 1) [(false, (3, 2))] = [10000; 15000] /\
  cutoff_life 10 (1, 1) [(false, (3, 2)); (true, (3, 2))] = [10000; 15000; 15000] /\
  cutoff_life 10 (1, 1) [(false, (3, 2)); (false, (3, 2))] = [10000; 15000; 22500].
Proof. repeat split; vm_compute; reflexivity. Qed.

(* ====================================================================================
   MINSCORE ON THE BOUNDARY.  "minscore(p, s) additionally needs bitscore >= s".  Bit scores are floats
   and may be NEGATIVE (weak HMMer hits; DynamicHit accepts any value, its default is 0.0); the rule
   grammar accepts the threshold 0 (ScoreCondition refuses only negative thresholds).  Scores are
   carried doubled in Z (half-integers exact), thresholds are the rule's integers: sign, zero and
   the comparison >= are exact, nothing is clamped at 0.  [reach cx g o] := o = g or o is closer than
   the cutoff.
   ==================================================================================== *)

(* a plain minscore is met exactly when some hit OF THAT PROFILE with bitscore >= s is on the gene or
   on a gene in range - a single hit has to reach the threshold, whatever its sign and whatever
   the threshold (0 included) *)
Theorem C01_minscore_meaning : forall cx, results_known cx -> forall p s g,
  met (detect cx (Score false p s) g) = true <->
  exists o h, reach cx g o /\ In h (hits_of cx o) /\ fst h = p /\ 2 * s <= snd h.
Proof. exact detect_score_iff. Qed.
Print Assumptions C01_minscore_meaning.

(* every hit of p in reach is below the threshold (for instance: threshold 0, only negative bit
   scores): minscore is false, `not minscore` true, and p is not a reason *)
Theorem C01_minscore_all_below : forall cx, results_known cx -> forall neg p s g,
  (forall o h, reach cx g o -> In h (hits_of cx o) -> fst h = p -> snd h < 2 * s) ->
  met (detect cx (Score neg p s) g) = neg /\ matches (detect cx (Score neg p s) g) = [].
Proof. exact detect_score_all_below. Qed.
Print Assumptions C01_minscore_all_below.

(* one sufficient hit decides, whatever the other hits of the same profile on the same gene score
   (several hits per (gene, profile), mixed signs) *)
Theorem C01_minscore_one_suffices : forall cx, results_known cx -> forall neg p s g o h,
  reach cx g o -> In h (hits_of cx o) -> fst h = p -> 2 * s <= snd h ->
  met (detect cx (Score neg p s) g) = negb neg.
Proof. exact detect_score_one_suffices. Qed.
Print Assumptions C01_minscore_one_suffices.

(* lowering the threshold keeps a minscore true *)
Theorem C01_minscore_monotone : forall cx p s1 s2 g local, s1 <= s2 ->
  holds cx (Score false p s2) g local = true -> holds cx (Score false p s1) g local = true.
Proof. exact holds_score_monotone. Qed.
Print Assumptions C01_minscore_monotone.

(* minscore(p, 0) means the plain name p when no bit score is negative ... *)
Theorem C01_minscore_zero_is_name_nonneg : forall cx, (forall o h, In h (hits_of cx o) -> 0 <= snd h) ->
  forall neg p g local, holds cx (Score neg p 0) g local = holds cx (Single neg p) g local.
Proof. exact holds_score_zero_is_name. Qed.
Print Assumptions C01_minscore_zero_is_name_nonneg.

(* ... and NOT in general: a hit scoring -1 carries the name but does not reach the threshold 0 *)
Theorem C01_minscore_zero_is_name_refuted : exists cx p g,
  results_known cx /\ (forall o h, In h (hits_of cx o) -> fst h = p -> -2 <= snd h) /\
  holds cx (Score false p 0) g false <> holds cx (Single false p) g false.
Proof. exact score_zero_name_witness. Qed.
Print Assumptions C01_minscore_zero_is_name_refuted.

(* the boundary behaviour on concrete layouts (profiles q=0 p=1; cutoff 10000; FOCUS=0 [1000,2000),
   NEAR=1 [4000,5000) in range, FAR=2 [40000,41000) out of range with a good hit of p):
   [weak_ctx]: NEAR's only hit of p scores -1; [score_ctx hs own]: NEAR carries the hits hs of p,
   FOCUS q (30) and the hits own of p *)
Definition score_ctx (near_hits own_hits : list Z) : ctx :=
  mkCtx 10000 None [(0, [mkPart 1000 2000 1]); (1, [mkPart 4000 5000 1]); (2, [mkPart 40000 41000 1])]
        [(0, (0, 60) :: map (pair 1) own_hits); (1, map (pair 1) near_hits); (2, [(1, 160)])].
Definition q_and_minscore (neg : bool) (s : Z) : cond := Group false [IAnd [Single false 0; Score neg 1 s]].
Example C01_minscore_boundary :
  results_known weak_ctx /\
  (* `minscore(p, 0)` is false for a gene whose only hit of p scores -1, asked at that gene and at its neighbour *)
  detect weak_ctx (Score false 1 0) 1 = mkRes false [] [] /\
  detect weak_ctx (Score false 1 0) 0 = mkRes false [] [] /\
  detect weak_ctx (Score true 1 0) 0 = mkRes true [] [] /\
  detect weak_ctx (q_and_minscore false 0) 0 = mkRes false [0] [] /\
  anchors weak_ctx (q_and_minscore false 0) 0 = false /\
  anchors weak_ctx (q_and_minscore true 0) 0 = true /\
  (* the name itself is there *)
  detect weak_ctx (Single false 1) 0 = mkRes true [] [(1, [1])] /\
  (* -4.5 and -0.5 on the neighbour; -2 on the gene itself *)
  detect (score_ctx [-9; -1] []) (q_and_minscore false 0) 0 = mkRes false [0] [] /\
  detect (score_ctx [] [-4]) (q_and_minscore false 0) 0 = mkRes false [0] [] /\
  detect (score_ctx [] [-4]) (q_and_minscore true 0) 0 = mkRes true [0] [] /\
  (* exactly 0.0 (the DynamicHit default) reaches the threshold 0, on the neighbour and on the gene (then a reason) *)
  detect (score_ctx [0] []) (q_and_minscore false 0) 0 = mkRes true [0] [] /\
  detect (score_ctx [] [0]) (q_and_minscore false 0) 0 = mkRes true [0; 1] [] /\
  (* 0.0 and 0.5 do not reach the threshold 1, 1.0 does *)
  detect (score_ctx [0; 1] []) (q_and_minscore false 1) 0 = mkRes false [0] [] /\
  detect (score_ctx [0; 2] []) (q_and_minscore false 1) 0 = mkRes true [0] [] /\
  (* mixed signs: -4.5 and 12 against the thresholds 10, 12, 13 *)
  detect (score_ctx [-9; 24] []) (q_and_minscore false 10) 0 = mkRes true [0] [] /\
  detect (score_ctx [-9; 24] []) (q_and_minscore false 12) 0 = mkRes true [0] [] /\
  detect (score_ctx [24; -9] []) (q_and_minscore false 13) 0 = mkRes false [0] [] /\
  (* the good hit outside of the cutoff never counts; a huge score does *)
  detect (score_ctx [] []) (q_and_minscore false 0) 0 = mkRes false [0] [] /\
  detect (score_ctx [2199023255553] []) (q_and_minscore false 1099511627776) 0 = mkRes true [0] [] /\
  detect (score_ctx [2199023255551] []) (q_and_minscore false 1099511627776) 0 = mkRes false [0] [].
Proof.
  split; [intros o Ho; cbn in Ho; cbn; tauto|].
  repeat split; vm_compute; reflexivity.
Qed.
