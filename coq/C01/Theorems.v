(* C01 - property theorems only: statement, [exact lemma], Print Assumptions; Examples show the
   hypotheses are satisfiable (non-vacuity). *)
From ASV.C01 Require Import Model Proofs.

(* For every condition tree (all five constructors, negation anywhere, any nesting), every hit
   layout, every gene and both evaluation modes: the truth value computed by the evaluator is the
   documented boolean meaning [holds] - a profile name is true iff it hits the gene or a gene
   closer than the cutoff, cds(...) iff one single gene in that range satisfies the inner formula
   on its own, minimum(k, L) iff the listed profiles counted over the gene and the genes in range
   reach k, minscore(p, s) iff a hit of p with bit score >= s is on the gene or in range, and
   not/and/or are negation, conjunction, disjunction.  "Closer than the cutoff" is
   [dist < cutoff] with the distance of the location algebra (C04_distance_* give its meaning). *)
Theorem C01_met : forall cx, results_known cx ->
  forall c g local, met (eval cx c g local) = holds cx c g local.
Proof. exact eval_met_holds. Qed.
Print Assumptions C01_met.

Theorem C01_detect : forall cx, results_known cx ->
  forall c g, met (detect cx c g) = holds cx c g false.
Proof. intros cx Hk c g. apply eval_met_holds. exact Hk. Qed.
Print Assumptions C01_detect.

(* `not` is plain negation for every kind of condition (the xor handling) *)
Theorem C01_neg_is_negation : forall cx c g local,
  holds cx (negate c) g local = negb (holds cx c g local).
Proof. exact holds_negate. Qed.
Print Assumptions C01_neg_is_negation.

(* reasons: every profile reported as a reason hits the evaluated gene itself (soundness half of
   the "exactly the rule's profiles that hit that gene" clause; the converse, with the cds and
   minscore provisos, rests on the correspondence run only) *)
Theorem C01_reasons_hit_gene_partial : forall cx c g local y,
  In y (matches (eval cx c g local)) -> has cx g y = true.
Proof. exact eval_matches_hit_gene. Qed.
Print Assumptions C01_reasons_hit_gene_partial.

(* a gene is reported as anchoring (met and at least one reason) only if the formula is true at
   it and one of its own profiles is a reason *)
Theorem C01_anchor : forall cx, results_known cx -> forall c g,
  met (detect cx c g) = true -> matches (detect cx c g) <> [] ->
  holds cx c g false = true /\ exists p, In p (matches (detect cx c g)) /\ has cx g p = true.
Proof.
  intros cx Hk c g Hm Hne. split.
  - rewrite <- (eval_met_holds cx Hk). exact Hm.
  - destruct (matches (detect cx c g)) as [|p r] eqn:Hmt; [contradiction|].
    exists p. split; [left; reflexivity|]. apply (eval_matches_hit_gene cx c g false).
    unfold detect in Hmt. rewrite Hmt. left. reflexivity.
Qed.
Print Assumptions C01_anchor.

(* non-vacuity: a ring of 100 with genes at [0,10), [30,40) (exactly cutoff 20 after the first:
   not in range) and [85,95) (5 before the origin: in range of the first across the origin);
   not cds(p1 and p2) at gene 0, the satisfying gene 2 being in range *)
Definition ex_ctx : ctx :=
  mkCtx 20 (Some 100)
        [(0, [mkPart 0 10 1]); (1, [mkPart 30 40 1]); (2, [mkPart 85 95 (-1)])]
        [(0, [(0, 60)]); (1, [(1, 100); (2, 100)]); (2, [(1, 100); (2, 41)])].
Example C01_nonvacuous :
  results_known ex_ctx /\
  near ex_ctx 0 = [2] /\
  holds ex_ctx (Group false [IAnd [Single false 0; Cds false [IAnd [Single false 1; Single false 2]]]]) 0 false = true /\
  holds ex_ctx (Group false [IAnd [Single false 0; Cds true [IAnd [Single false 1; Score false 2 21]]]]) 0 false = true /\
  detect ex_ctx (Group false [IAnd [Single false 0; Cds false [IAnd [Single false 1; Single false 2]]]]) 0
    = mkRes true [0] [].
Proof.
  split; [intros o Ho; cbn in Ho; cbn; tauto|].
  repeat split; vm_compute; reflexivity.
Qed.
